package rules

import (
	"fmt"
	"go/constant"
	"go/token"
	"go/types"
	"regexp"
	"sort"
	"strconv"
	"strings"

	"golang.org/x/tools/go/ssa"

	"psv/internal/an"
)

// C01 — the taker pays the claim invoice only for a validated, confirmed opening output.

const (
	c01GetOpeningParams = "func:(*swap.SwapData).GetOpeningParams"
	c01SendEvent        = "func:(*swap.SwapStateMachine).SendEvent"
	c01AddConfCb        = "iface:swap.TxWatcher.AddConfirmationCallback"
	c01ParamsToScript   = "func:onchain.ParamsToTxScript"
	c01PayreqField      = "OpeningTxBroadcastedMessage.Payreq"
	c01FeePayreqField   = "SwapOutAgreementMessage.Payreq"
	c01DecodeAmount     = "LightningClient.DecodePayreq#1"
	c01ClaimAmount      = "SwapData).GetClaimAmount"
	c01BitcoinCSV       = 1008 // BIP68 delay of the Bitcoin opening script (swap.bitcoinSwapCSV / onchain.BitcoinCsv)
	c01MinConfsBitcoin  = 3
	c01MinConfsLiquid   = 2
)

func init() {
	Register(&Prop{
		ID:   "C01",
		Expl: "Decides, over every production call site, state-table edge, store and return (not over sampled runs): (R1) every LightningClient pay call (RebalancePayment / PayInvoice / PayInvoiceViaChannel) is classified by the message field its invoice flows from; each one that pays OpeningTxBroadcastedMessage.Payreq is (R2) dominated by the err==nil edge and the true edge of a Validator.ValidateTx call whose arguments are GetOpeningParams() of the same SwapData and its OpeningTxHex field (also when the payment is moved into a helper: the condition is then required of every caller); (R3) in both taker tables the paying state is entered only by Event_OnTxConfirmed from a state that registers the confirmation watch, every function that sends Event_OnTxConfirmed is used only as the argument of TxWatcher.AddConfirmationCallback, SwapData.OpeningTxHex is written only from that callback's txHex parameter (or from the maker's own wallet result), and an action may return Event_OnTxConfirmed itself only under `OpeningTxHex != \"\"` and `AllowNewClaimPayment == false` while every claim payment is under `AllowNewClaimPayment == true`; (R4) every registration of a confirmation watch is dominated (on all branches, also through a helper whose nil returns are dominated by the test) by `DecodePayreq amount == GetClaimAmount()*1000`, the decoded invoice is the field that is later paid, SwapData.ClaimPaymentHash is stored from DecodePayreq's hash before the watch and from nowhere else, and SwapData.OpeningTxBroadcasted is write-once (every store is under `== nil`), so the validated invoice cannot be replaced; (R5) the fields of the OpeningParams literal in GetOpeningParams flow only from the negotiated message fields (taker/maker pubkeys not swapped, amount, ClaimPaymentHash from SwapData.ClaimPaymentHash, CSV from the timelock policy); (R6) every `true` return of both Validator.ValidateTx implementations is dominated by the script equality against ParamsToTxScript(params, 1008 | params.CSV) and by the amount test on the very output whose script was compared; validateOpeningOutput's success return is dominated by unblinding with the given key, the policy-asset test, the asset-commitment/explicit-asset test and the value equality; FindVout's success return by the script comparison on the loop element; (R7) the confirmation depth handed to every watcher constructor in both main packages and used by the Electrum observer is a constant >= 3 (Bitcoin) / >= 2 (Liquid).",
		NotD: "Correctness of unblinding / commitment arithmetic and of the script builder; that the watchers call back only at the configured depth and with the transaction they watched (C20); reorganisations; ordering of re-deliveries at run time; the invoice's final-CLTV bounds and the payment window (C04, C05); that a node refuses to pay a different invoice than the one handed to it.",
		Run:  runC01,
	})
}

// ---- generic helpers (private copies; package rules is shared) -----------------------

func c01Strip(v ssa.Value) ssa.Value {
	for {
		switch x := v.(type) {
		case *ssa.Convert:
			v = x.X
		case *ssa.ChangeType:
			v = x.X
		case *ssa.MakeInterface:
			v = x.X
		case *ssa.ChangeInterface:
			v = x.X
		default:
			return v
		}
	}
}

func c01IsPtr(t types.Type) bool {
	_, ok := t.Underlying().(*types.Pointer)
	return ok
}

func c01StoresTo(addr ssa.Value, visit func(ssa.Value)) {
	if addr.Referrers() == nil {
		return
	}
	for _, r := range *addr.Referrers() {
		if s, ok := r.(*ssa.Store); ok && s.Addr == addr {
			visit(s.Val)
		}
	}
}

// c01Slice: intra-procedural backward data slice (over-approximation of
// "computed from"); objects handed to a call by pointer count as filled from
// that call's other arguments.
func c01Slice(roots ...ssa.Value) map[ssa.Value]bool {
	seen := map[ssa.Value]bool{}
	var visit func(v ssa.Value)
	filled := func(p ssa.Value) {
		if p.Referrers() == nil {
			return
		}
		for _, r := range *p.Referrers() {
			if ci, ok := r.(ssa.CallInstruction); ok {
				for _, a := range ci.Common().Args {
					visit(a)
				}
			}
		}
	}
	visit = func(v ssa.Value) {
		if v == nil || seen[v] {
			return
		}
		seen[v] = true
		switch x := v.(type) {
		case *ssa.Alloc:
			if refs := x.Referrers(); refs != nil {
				for _, r := range *refs {
					switch y := r.(type) {
					case *ssa.Store:
						if y.Addr == x {
							visit(y.Val)
						}
					case *ssa.FieldAddr:
						c01StoresTo(y, visit)
					case *ssa.IndexAddr:
						c01StoresTo(y, visit)
					}
				}
			}
			filled(x)
			return
		case *ssa.Call:
			if c01IsPtr(x.Type()) {
				filled(x)
			}
		case *ssa.Extract:
			if c01IsPtr(x.Type()) {
				filled(x)
			}
		}
		if in, ok := v.(ssa.Instruction); ok {
			for _, op := range in.Operands(nil) {
				if op != nil && *op != nil {
					visit(*op)
				}
			}
		}
	}
	for _, r := range roots {
		visit(r)
	}
	return seen
}

func c01AnyDominates(es []an.Edge, b *ssa.BasicBlock) bool {
	for _, e := range es {
		if an.EdgeDominates(e, b) {
			return true
		}
	}
	return false
}

func c01FreshError(w *an.World, v ssa.Value) bool {
	switch x := v.(type) {
	case *ssa.Call:
		n := w.Info(x).Name
		return n == "func:errors.New" || n == "func:fmt.Errorf"
	case *ssa.MakeInterface:
		return true
	}
	return false
}

// c01MayBeNil: may the value (an error returned at block b) be nil?
func c01MayBeNil(w *an.World, v ssa.Value, b *ssa.BasicBlock) bool {
	if an.IsNilConst(v) {
		return true
	}
	if c01FreshError(w, v) {
		return false
	}
	for _, f := range w.FactsDominatingBlock(b) {
		if f.NonNum && f.Rel == "!=" && ((f.LV == v && an.IsNilConst(f.RV)) || (f.RV == v && an.IsNilConst(f.LV))) {
			return false
		}
	}
	return true
}

func c01ErrIdx(fn *ssa.Function) int {
	res := fn.Signature.Results()
	for i := res.Len() - 1; i >= 0; i-- {
		if an.IsErrorType(res.At(i).Type()) {
			return i
		}
	}
	return -1
}

// c01NilReturns: returns of fn on which the error result may be nil.
func c01NilReturns(w *an.World, fn *ssa.Function) []*ssa.Return {
	ei := c01ErrIdx(fn)
	var out []*ssa.Return
	for _, r := range an.Returns(fn) {
		if r.Block() == fn.Recover {
			continue
		}
		if ei < 0 || ei >= len(r.Results) || c01MayBeNil(w, r.Results[ei], r.Block()) {
			out = append(out, r)
		}
	}
	return out
}

func c01Last(chain string) string {
	if i := strings.LastIndex(chain, ">"); i >= 0 {
		return chain[i+1:]
	}
	return chain
}

func c01Impls(c *an.Check, iface *types.Named, meth string) []*ssa.Function {
	w := c.W
	it, ok := iface.Underlying().(*types.Interface)
	if !ok {
		return nil
	}
	var out []*ssa.Function
	for _, fn := range prodFuncs(w) {
		if fn.Name() != meth || fn.Signature.Recv() == nil || fn.Parent() != nil {
			continue
		}
		if types.Implements(fn.Signature.Recv().Type(), it) {
			out = append(out, fn)
		}
	}
	sort.Slice(out, func(i, j int) bool { return w.FuncName(out[i]) < w.FuncName(out[j]) })
	return out
}

func c01ShortCallee(name string) string {
	name = strings.TrimPrefix(strings.TrimPrefix(name, "iface:"), "func:")
	return name
}

// ---- R1: pay sites ------------------------------------------------------------------

type c01Pay struct {
	call  ssa.CallInstruction
	fn    *ssa.Function
	root  ssa.Value // the *SwapData the invoice is read from (nil when not a direct field read)
	cons  string
	chain string
}

func c01PaySites(c *an.Check) []c01Pay {
	w := c.W
	var claim []c01Pay
	n := 0
	for _, fn := range prodFuncs(w) {
		for _, call := range an.Calls(fn) {
			name := w.Info(call).Name
			if name != fxPay && name != fxPayInvoice && name != fxPayViaChannel {
				continue
			}
			n++
			cons := w.FuncName(fn) + " call " + c01ShortCallee(name)
			pos := w.Pos(call.Pos())
			args := call.Common().Args
			if len(args) == 0 {
				c.Unknown("C01.R1", cons, pos, "pay call without arguments")
				continue
			}
			ss := w.Sources(args[0], an.FlowOpts{IntoCallers: true, MaxDepth: 4})
			kinds := map[string]bool{}
			var root ssa.Value
			chain := ""
			for _, l := range ss.Leaves {
				if l.Kind != "field" {
					kinds["other:"+l.String()] = true
					continue
				}
				kinds[c01Last(l.Name)] = true
				chain = l.Name
				if l.Val != nil && l.Val.Parent() == fn {
					_, root = w.FieldChain(l.Val)
				}
			}
			switch {
			case len(kinds) == 1 && kinds[c01PayreqField]:
				c.OK("C01.R1", cons, pos, "pays the claim invoice (OpeningTxBroadcastedMessage.Payreq): subject to R2–R4")
				claim = append(claim, c01Pay{call: call, fn: fn, root: root, cons: cons, chain: chain})
			case len(kinds) == 1 && kinds[c01FeePayreqField]:
				c.Note("C01.R1", cons, pos, "pays the fee invoice (SwapOutAgreementMessage.Payreq); not a claim payment")
			case kinds[c01PayreqField]:
				for _, l := range ss.Leaves {
					if l.Kind == "field" && c01Last(l.Name) == c01PayreqField {
						chain = l.Name
					}
				}
				claim = append(claim, c01Pay{call: call, fn: fn, root: nil, cons: cons, chain: chain})
				c.Bad("C01.R1", cons, pos, fmt.Sprintf("the invoice paid here can be the claim invoice but also something else (%v): the amount/hash checks of R4 and the validation of R2 cover only OpeningTxBroadcastedMessage.Payreq", ss.Names()))
			default:
				c.Unknown("C01.R1", cons, pos, fmt.Sprintf("cannot classify the invoice that is paid: it flows from %v", ss.Names()))
			}
		}
	}
	c.AtLeast("C01.R1", "LightningClient pay call sites", n, 2)
	c.AtLeast("C01.R1", "claim-invoice pay sites", len(claim), 1)
	return claim
}

// ---- R2: validate before pay -------------------------------------------------------------

// c01CallerSites lists the production instructions from which fn is entered:
// call sites (through synthetic wrappers) or, for closures, their creation.
func c01CallerSites(w *an.World, fn *ssa.Function) []ssa.Instruction {
	var sites []ssa.Instruction
	if par := fn.Parent(); par != nil {
		for _, b := range par.Blocks {
			for _, in := range b.Instrs {
				if mc, ok := in.(*ssa.MakeClosure); ok && mc.Fn == fn {
					sites = append(sites, mc)
				}
			}
		}
		return sites
	}
	n := w.CG().Nodes[fn]
	if n == nil {
		return nil
	}
	for _, e := range n.In {
		if e.Site == nil || e.Caller == nil || e.Caller.Func == nil {
			continue
		}
		cf := e.Caller.Func
		if cf.Synthetic != "" {
			if nn := w.CG().Nodes[cf]; nn != nil {
				for _, ee := range nn.In {
					if ee.Site != nil && ee.Caller != nil && ee.Caller.Func != nil && w.InModule(ee.Caller.Func) && !an.IsTestSupport(w.FnRel(ee.Caller.Func)) {
						sites = append(sites, ee.Site)
					}
				}
			}
			continue
		}
		if !w.InModule(cf) || an.IsTestSupport(w.FnRel(cf)) {
			continue
		}
		sites = append(sites, e.Site)
	}
	return sites
}

// c01Lift evaluates a dominance requirement at `at`: local decides it inside the
// function of `at` ("ok" / "bad" / "unknown") or answers "lift" when that
// function contains nothing relevant, in which case the requirement is imposed
// on every place the function is entered from (a helper was extracted).
func c01Lift(w *an.World, at ssa.Instruction, depth int, local func(at ssa.Instruction, depth int) (string, string)) (string, string) {
	v, why := local(at, depth)
	if v != "lift" {
		return v, why
	}
	if c01IsActionExecute(w, at.Parent()) {
		return "bad", why + " (an action is entered by the state machine; nothing upstream can establish it)"
	}
	if depth >= 3 {
		return "unknown", why + " (gave up after 3 caller levels)"
	}
	sites := c01CallerSites(w, at.Parent())
	if len(sites) == 0 {
		return "bad", why
	}
	for _, s := range sites {
		v, wh := c01Lift(w, s, depth+1, local)
		if v != "ok" {
			return v, "entered from " + w.FuncName(s.Parent()) + " at " + w.Pos(s.Pos()) + ": " + wh
		}
	}
	return "ok", "holds at every place " + w.FuncName(at.Parent()) + " is entered from"
}

// c01Validated decides whether instruction `at` executes only after a successful
// Validator.ValidateTx in its own function or, when that function has none, in
// every caller. root is the *SwapData whose invoice is paid (only known in the
// paying function itself).
func c01Validated(c *an.Check, at0 ssa.Instruction, root0 ssa.Value) (string, string) {
	w := c.W
	return c01Lift(w, at0, 0, func(at ssa.Instruction, depth int) (string, string) {
		fn := at.Parent()
		root := root0
		if depth > 0 {
			root = nil
		}
		var vcalls []*ssa.Call
		for _, cc := range callsNamed(w, fn, fxValidateTx) {
			if x, ok := cc.(*ssa.Call); ok {
				vcalls = append(vcalls, x)
			}
		}
		why := ""
		unknown := false
		killed := c01KilledEdges(w, fn, at.Block())
		for _, v := range vcalls {
			okE, failE := an.OkEdges(v)
			var tE, fE []an.Edge
			vals := an.ResultValues(v, 0)
			for _, bv := range vals {
				t, f := an.BoolEdges(bv)
				tE = append(tE, t...)
				fE = append(fE, f...)
			}
			vpos := w.Pos(v.Pos())
			ev, ewhy := c01TestHolds(okE, failE, killed, at.Block())
			bv, bwhy := c01TestHolds(tE, fE, killed, at.Block())
			switch {
			case ev == "ok" && bv == "ok":
				return c01ValidateArgs(c, v, root)
			case len(vals) == 0:
				why = "the boolean verdict of ValidateTx at " + vpos + " is discarded: a transaction that the validator rejects with (false, nil) is paid for"
			case bv == "bad":
				why = "the payment is not protected by the `true` edge of ValidateTx's verdict at " + vpos + ": " + bwhy
			case ev == "bad":
				why = "the payment is not protected by the err == nil edge of ValidateTx at " + vpos + ": " + ewhy
			default:
				unknown = true
				why = "cannot decide whether the payment is protected by the verdict of ValidateTx at " + vpos + ": " + bwhy + " " + ewhy
			}
		}
		if len(vcalls) > 0 {
			if unknown {
				return "unknown", why
			}
			return "bad", why
		}
		if w.Summary(fn).HasEffect(fxValidateTx) {
			return "unknown", "ValidateTx is called in a helper of " + w.FuncName(fn) + ", not in the function itself; the rule does not follow verdicts returned through helpers"
		}
		return "lift", "no Validator.ValidateTx call precedes the payment in " + w.FuncName(fn)
	})
}

func c01ValidateArgs(c *an.Check, v *ssa.Call, root ssa.Value) (string, string) {
	w := c.W
	args := v.Call.Args
	if len(args) != 2 {
		return "unknown", "Validator.ValidateTx no longer takes (params, txHex)"
	}
	// params
	ps := w.Sources(args[0], an.FlowOpts{})
	for _, l := range ps.Leaves {
		switch {
		case l.Kind == "call" && l.Call != nil && w.Info(l.Call).Name == c01GetOpeningParams:
			if root != nil && len(l.Call.Call.Args) > 0 && l.Call.Call.Args[0] != root {
				return "bad", "ValidateTx is given the opening parameters of a different SwapData than the one whose invoice is paid"
			}
		case l.Kind == "zero" || l.Kind == "const":
			return "bad", "the parameters given to ValidateTx do not come from GetOpeningParams(): " + strings.Join(ps.Names(), ", ")
		default:
			return "unknown", "the parameters given to ValidateTx are not directly the result of GetOpeningParams() (" + l.String() + "); R5 anchors on that getter"
		}
	}
	if len(ps.Leaves) == 0 {
		return "unknown", "no source found for the parameters given to ValidateTx"
	}
	hs := w.Sources(args[1], an.FlowOpts{})
	for _, l := range hs.Leaves {
		if l.Kind != "field" && l.Kind != "const" && l.Kind != "zero" {
			return "unknown", "cannot follow the transaction given to ValidateTx back to a field: " + strings.Join(hs.Names(), ", ")
		}
		if l.Kind != "field" || l.Name != "SwapData.OpeningTxHex" {
			return "bad", "the transaction given to ValidateTx is not SwapData.OpeningTxHex (the raw transaction delivered by the confirmation callback) but " + strings.Join(hs.Names(), ", ")
		}
		if root != nil {
			if _, r := w.FieldChain(l.Val); r != root {
				return "bad", "ValidateTx is given the OpeningTxHex of a different SwapData than the one whose invoice is paid"
			}
		}
	}
	if len(hs.Leaves) == 0 {
		return "unknown", "no source found for the transaction given to ValidateTx"
	}
	return "ok", "dominated by ValidateTx(GetOpeningParams(), OpeningTxHex) == (true, nil) at " + w.Pos(v.Pos())
}

// ---- R4 helper: edges on which `decoded amount == claim amount * 1000` holds --------------

var c01ParamRe = regexp.MustCompile(`^param#(\d+)$`)

const c01DecodeCLTV = "LightningClient.DecodePayreq#2"

func c01AmountSpec() an.LinSpec {
	return an.LinSpec{Rel: "==", Terms: map[string]int64{c01DecodeAmount: 1, c01ClaimAmount: -1000}}
}

// c01Guard describes a required test: direct recognises it among the facts of
// the function itself; helper recognises it among the facts of an in-module
// callee, where arg(i) is the caller's canonical term of the i-th argument.
type c01Guard struct {
	operand string // canonical term (substring) of the value the guard is about
	direct  func(f an.Fact) bool
	helper  func(f an.Fact, arg func(i int) string) bool
}

// the invoice amount equals GetClaimAmount()*1000
var c01AmountGuard = c01Guard{
	operand: c01DecodeAmount,
	direct:  func(f an.Fact) bool { return an.MatchLin(f, c01AmountSpec()) },
	helper: func(f an.Fact, arg func(i int) string) bool {
		if f.NonNum || f.Rel != "==" || f.Const != 0 || len(f.Terms) != 2 {
			return false
		}
		one, thousand := -1, -1
		sign := int64(0)
		for k, co := range f.Terms {
			m := c01ParamRe.FindStringSubmatch(k)
			if m == nil {
				return false
			}
			idx, _ := strconv.Atoi(m[1])
			switch co {
			case 1, -1:
				one = idx
				sign += co
			case 1000, -1000:
				thousand = idx
				sign += co / 1000
			}
		}
		return one >= 0 && thousand >= 0 && sign == 0 && strings.Contains(arg(one), c01DecodeAmount) && strings.Contains(arg(thousand), c01ClaimAmount)
	},
}

// the invoice's final CLTV delta is bounded from above (by what is C04/C05's business)
var c01CLTVGuard = c01Guard{
	operand: c01DecodeCLTV,
	direct: func(f an.Fact) bool {
		if f.NonNum || (f.Rel != ">=" && f.Rel != ">") {
			return false
		}
		for k, co := range f.Terms {
			if strings.Contains(k, c01DecodeCLTV) && !strings.Contains(k, "(") && co < 0 {
				return true
			}
		}
		return false
	},
	helper: func(f an.Fact, arg func(i int) string) bool {
		if f.NonNum || (f.Rel != ">=" && f.Rel != ">") {
			return false
		}
		for k, co := range f.Terms {
			m := c01ParamRe.FindStringSubmatch(k)
			if m == nil || co >= 0 {
				continue
			}
			idx, _ := strconv.Atoi(m[1])
			if strings.Contains(arg(idx), c01DecodeCLTV) {
				return true
			}
		}
		return false
	},
}

// c01GuardEdges returns the CFG edges of fn on which the guard is known to
// hold: direct tests, and the err == nil edges of calls to in-module helpers
// all of whose nil returns are dominated by the same test over their
// parameters, instantiated with the actual arguments.
func c01GuardEdges(w *an.World, fn *ssa.Function, g c01Guard) (edges []an.Edge, how []string, opaque []string) {
	for _, f := range w.Facts(fn) {
		if g.direct(f) {
			edges = append(edges, f.Edge)
			how = append(how, "direct test at "+w.Pos(f.Cond.Pos()))
		}
	}
	for _, cc := range an.Calls(fn) {
		call, ok := cc.(*ssa.Call)
		if !ok {
			continue
		}
		callee := call.Call.StaticCallee()
		if callee == nil || !w.InModule(callee) || callee.Blocks == nil {
			continue
		}
		// does the helper receive the operand, and does it test that parameter at all?
		recv := -1
		for i, a := range call.Call.Args {
			if strings.Contains(w.Term(a), g.operand) {
				recv = i
			}
		}
		if recv >= 0 {
			tests := false
			for _, f := range w.Facts(callee) {
				for k := range f.Terms {
					if k == fmt.Sprintf("param#%d", recv) {
						tests = true
					}
				}
				if strings.Contains(f.L+f.R+f.Atom, fmt.Sprintf("param#%d", recv)) {
					tests = true
				}
			}
			if !tests || c01ErrIdx(callee) < 0 {
				opaque = append(opaque, w.FuncName(callee)+" at "+w.Pos(call.Pos()))
			}
		}
		if c01ErrIdx(callee) < 0 {
			continue
		}
		rets := c01NilReturns(w, callee)
		if len(rets) == 0 {
			continue
		}
		arg := func(i int) string {
			if i < 0 || i >= len(call.Call.Args) {
				return ""
			}
			return w.Term(call.Call.Args[i])
		}
		all := true
		for _, r := range rets {
			found := false
			for _, f := range w.FactsDominatingBlock(r.Block()) {
				if g.helper(f, arg) {
					found = true
				}
			}
			if !found {
				all = false
			}
		}
		if !all {
			continue
		}
		okE, _ := an.OkEdges(call)
		for _, e := range okE {
			edges = append(edges, e)
			how = append(how, "err == nil edge of "+w.FuncName(callee)+" at "+w.Pos(call.Pos()))
		}
	}
	return
}

// ---- the rules ------------------------------------------------------------------------------

func runC01(c *an.Check) {
	c.Rule("C01.R1", "every LightningClient pay call site is classified by the message field its invoice flows from; those paying OpeningTxBroadcastedMessage.Payreq are the claim payments")
	c.Rule("C01.R2", "each claim payment is dominated by ValidateTx(GetOpeningParams(), OpeningTxHex) returning (true, nil) on the same SwapData")
	c.Rule("C01.R3", "the paying state is entered only by Event_OnTxConfirmed from the watch-registering state; Event_OnTxConfirmed is sent only by registered confirmation callbacks; OpeningTxHex is written only from the callback's raw transaction; an action returns Event_OnTxConfirmed itself only for a recorded confirmation of a swap that never pays anew")
	c.Rule("C01.R4", "a confirmation watch is registered only for an invoice whose amount equals GetClaimAmount()*1000, whose hash is stored in ClaimPaymentHash, and which is the write-once field that is later paid")
	c.Rule("C01.R5", "OpeningParams built by GetOpeningParams flow only from the negotiated message fields")
	c.Rule("C01.R6", "true verdicts of both ValidateTx implementations are dominated by the script equality and the amount test on the same output; validateOpeningOutput / FindVout success by their respective tests")
	c.Rule("C01.R7", "confirmation depth constants handed to the watchers: >= 3 Bitcoin, >= 2 Liquid")
	if !needEffects(c, fxPay, fxPayInvoice, fxPayViaChannel, fxValidateTx, fxWaitConf, fxDecodePayreq, fxOpenTx) {
		return
	}
	pays := c01PaySites(c)
	c01R2(c, pays)
	c01R3(c, pays)
	c01R4(c, pays)
	c01R5(c)
	c01R6(c)
	c01R7(c)
	// The depth clause of C01 ("only after the opening transaction has the
	// required depth") is decided by the watchers' depth rule (c20.go), run here
	// under C01's own rule id.
	c20DepthRule(c, "C01.R8")
}

func c01R2(c *an.Check, pays []c01Pay) {
	w := c.W
	for _, p := range pays {
		v, why := c01Validated(c, p.call, p.root)
		pos := w.Pos(p.call.Pos())
		switch v {
		case "ok":
			c.OK("C01.R2", p.cons, pos, why)
		case "bad":
			c.Bad("C01.R2", p.cons, pos, why)
		default:
			c.Unknown("C01.R2", p.cons, pos, why)
		}
	}
}

// ---- R3 ------------------------------------------------------------------------------------------

func c01R3(c *an.Check, pays []c01Pay) {
	w := c.W
	// (a) tables
	ts := tables(c)
	if ts == nil {
		return
	}
	tk := takers(ts)
	if !c.AtLeast("C01.R3", "taker tables", len(tk), 2) {
		return
	}
	for _, t := range tk {
		watch := map[string]bool{}
		for _, s := range t.statesWith(fxWaitConf) {
			watch[s] = true
		}
		for _, p := range t.statesWith(fxPay) {
			in := t.T.InEdges(p)
			if len(in) == 0 {
				c.Unknown("C01.R3", t.key(p)+" in-edges", t.pos(c, p), "paying state has no incoming edge")
			}
			for _, e := range in {
				from, ev := e[0], e[1]
				cons := t.edgeKey(from, ev)
				pos := w.Pos(t.T.States[from].EventPos[ev])
				switch {
				case ev != evTxConfirmed:
					c.Bad("C01.R3", cons, pos, "the paying state is entered by "+ev+", i.e. without a confirmation report for the opening transaction")
				case !watch[from]:
					c.Bad("C01.R3", cons, pos, "the paying state is entered from "+nonEmpty(from)+", a state whose action does not register a confirmation watch (TxWatcher.AddWaitForConfirmationTx)")
				default:
					c.OK("C01.R3", cons, pos, "entered by Event_OnTxConfirmed from the watch-registering state")
				}
			}
		}
	}

	// (b) who sends Event_OnTxConfirmed
	type inj struct {
		fn    *ssa.Function
		sends []ssa.CallInstruction
		reg   bool
	}
	var injs []*inj
	for _, fn := range prodFuncs(w) {
		var sends []ssa.CallInstruction
		for _, cc := range callsNamed(w, fn, c01SendEvent) {
			if a := cc.Common().Args; len(a) >= 2 {
				if s, ok := an.ConstString(a[1]); ok && s == evTxConfirmed {
					sends = append(sends, cc)
				}
			}
		}
		if len(sends) > 0 {
			injs = append(injs, &inj{fn: fn, sends: sends})
		}
	}
	c.AtLeast("C01.R3", "functions sending Event_OnTxConfirmed", len(injs), 1)
	registered := map[*ssa.Function]bool{}
	for _, g := range injs {
		cons := w.FuncName(g.fn) + " sends Event_OnTxConfirmed"
		pos := w.Pos(g.sends[0].Pos())
		nreg, nref, bad := c01Registrations(w, g.fn, 0)
		switch {
		case len(bad) > 0:
			c.Bad("C01.R3", cons, pos, "Event_OnTxConfirmed (which moves a taker into the paying state) can be injected by a function that is not only a watcher confirmation callback: "+strings.Join(bad, "; "))
		case nref == 0:
			c.Note("C01.R3", cons, pos, "function is not referenced anywhere in production code (dead injector); it would be examined as soon as it gets a caller")
		default:
			g.reg = true
			registered[g.fn] = true
			c.OK("C01.R3", cons, pos, fmt.Sprintf("only used as the argument of TxWatcher.AddConfirmationCallback (%d registrations)", nreg))
		}
	}

	// (c) writers of OpeningTxHex
	nw := 0
	for _, st := range w.FieldWriters("SwapData.OpeningTxHex") {
		fn := st.Parent()
		if an.IsTestSupport(w.FnRel(fn)) {
			continue
		}
		nw++
		cons := w.FuncName(fn) + " store SwapData.OpeningTxHex"
		pos := w.Pos(st.Pos())
		// follow the stored value to where it enters: through helper parameters into the
		// callers' arguments and through closure variables into the enclosing function
		ss := c01EntrySources(w, st.Val, func(pf *ssa.Function) bool { return registered[pf] }, 0)
		var bad, unk []string
		nCb, nMaker, nDead := 0, 0, 0
		for _, l := range ss.Leaves {
			switch {
			case l.Kind == "param":
				pv, _ := l.Val.(*ssa.Parameter)
				if pv == nil {
					unk = append(unk, l.String())
					continue
				}
				pf := pv.Parent()
				// callback signature func(swapId string, txHex string, err error) error: txHex is parameter #1 (+1 for a receiver)
				want := 1
				if pf.Signature.Recv() != nil {
					want = 2
				}
				switch {
				case registered[pf] && l.Idx == want:
					nCb++
				case registered[pf]:
					bad = append(bad, "parameter "+pv.Name()+" of the confirmation callback (not its txHex parameter)")
				default:
					nStatic, nOther := 0, 0
					if n := w.CG().Nodes[pf]; n != nil {
						for _, e := range n.In {
							if e.Site == nil || e.Caller == nil || e.Caller.Func == nil || (w.InModule(e.Caller.Func) && an.IsTestSupport(w.FnRel(e.Caller.Func))) {
								continue
							}
							if e.Caller.Func.Synthetic != "" {
								if nn := w.CG().Nodes[e.Caller.Func]; nn == nil || len(nn.In) == 0 {
									continue
								}
							}
							if e.Caller.Func.Synthetic == "" && e.Site.Common().StaticCallee() == pf {
								nStatic++
							} else {
								nOther++
							}
						}
					}
					switch {
					case nStatic+nOther == 0:
						nDead++ // helper without production callers: nothing flows in
					case nStatic == 0:
						bad = append(bad, "parameter "+pv.Name()+" of "+w.FuncName(pf)+", an entry point that is not a registered confirmation callback")
					default:
						unk = append(unk, "parameter "+pv.Name()+" of "+w.FuncName(pf)+" (callers not fully resolvable)")
					}
				}
			case l.Kind == "call" && l.Call != nil && w.Info(l.Call).Name == fxOpenTx && l.Idx == 0:
				nMaker++
			case l.Kind == "call" || l.Kind == "field" || l.Kind == "const" || l.Kind == "zero":
				bad = append(bad, l.String())
			default:
				unk = append(unk, l.String())
			}
		}
		switch {
		case len(bad) > 0:
			c.Bad("C01.R3", cons, pos, "SwapData.OpeningTxHex — the transaction that ValidateTx examines before the payment — is written outside the confirmation callback (from "+strings.Join(bad, ", ")+"): the validated transaction need not be the confirmed one")
		case len(unk) > 0 || len(ss.Leaves) == 0:
			c.Unknown("C01.R3", cons, pos, "cannot determine where the stored value comes from: "+strings.Join(ss.Names(), ", "))
		case nCb+nMaker == 0 && nDead > 0:
			c.Note("C01.R3", cons, pos, "store in a helper that no production code calls")
		case nCb > 0 && nMaker == 0:
			c.OK("C01.R3", cons, pos, "stores the raw transaction handed to the registered confirmation callback")
		case nMaker > 0 && nCb == 0:
			c.OK("C01.R3", cons, pos, "maker side: stores the transaction its own wallet created")
		default:
			c.OK("C01.R3", cons, pos, "stores the confirmation callback's raw transaction or the own wallet's transaction")
		}
	}
	c.AtLeast("C01.R3", "stores to SwapData.OpeningTxHex", nw, 2)

	// (d) actions that return Event_OnTxConfirmed themselves
	f := ts[0].F
	shortcut := 0
	for nt, fn := range f.Exec {
		for _, r := range an.Returns(fn) {
			if len(r.Results) != 1 {
				continue
			}
			may := false
			for _, ev := range eventValues(w, r.Results[0]) {
				if ev == evTxConfirmed {
					may = true
				}
			}
			if !may {
				continue
			}
			shortcut++
			cons := nt.Obj().Name() + ".Execute returns Event_OnTxConfirmed"
			if s, ok := an.ConstString(r.Results[0]); !ok || s != evTxConfirmed {
				c.Unknown("C01.R3", cons, w.Pos(r.Pos()), "the action may return Event_OnTxConfirmed through a variable or helper; the guard of that path cannot be located")
				continue
			}
			facts := w.FactsDominatingBlock(r.Block())
			hasHex := an.AnyFact(facts, func(f an.Fact) bool { return an.EqIs(f, "!=", "SwapData.OpeningTxHex", `""`) })
			noNew := an.AnyFact(facts, func(f an.Fact) bool { return an.AtomIs(f, "timelockPolicy.AllowNewClaimPayment", false) })
			helperTest := an.AnyFact(facts, func(f an.Fact) bool {
				cc, isCall := f.Cond.(*ssa.Call)
				if !isCall {
					if bo, isB := f.Cond.(*ssa.BinOp); isB {
						if x, ok := c01Strip(bo.X).(*ssa.Call); ok {
							cc, isCall = x, true
						} else if y, ok := c01Strip(bo.Y).(*ssa.Call); ok {
							cc, isCall = y, true
						}
					}
				}
				return isCall && cc.Call.StaticCallee() != nil && w.InModule(cc.Call.StaticCallee()) && !strings.Contains(w.Info(cc).Name, "getTimelockPolicy") && !strings.Contains(w.Info(cc).Name, "getOnChainServices")
			})
			switch {
			case (!hasHex || !noNew) && helperTest:
				c.Unknown("C01.R3", cons, w.Pos(r.Pos()), "the return is guarded by an in-module predicate the rule does not look into. Facts: "+an.DescribeFacts(facts))
			case !hasHex:
				c.Bad("C01.R3", cons, w.Pos(r.Pos()), "the action moves the swap into the paying state without the watcher and without evidence of an earlier confirmation report (`OpeningTxHex != \"\"`). Facts: "+an.DescribeFacts(facts))
			case !noNew:
				c.Bad("C01.R3", cons, w.Pos(r.Pos()), "the action skips the invoice checks and the confirmation watch for swaps that may still pay anew (not under `AllowNewClaimPayment == false`). Facts: "+an.DescribeFacts(facts))
			default:
				c.OK("C01.R3", cons, w.Pos(r.Pos()), "only for a recorded confirmation of a swap that never starts a new payment")
			}
		}
	}
	if shortcut > 0 {
		for _, p := range pays {
			v, why := c01Lift(w, p.call, 0, func(at ssa.Instruction, depth int) (string, string) {
				facts := w.FactsDominatingBlock(at.Block())
				if an.AnyFact(facts, func(f an.Fact) bool { return an.AtomIs(f, "timelockPolicy.AllowNewClaimPayment", true) }) {
					return "ok", "new claim payments only under AllowNewClaimPayment == true, so the watcher-less shortcut never pays"
				}
				return "lift", "an action returns Event_OnTxConfirmed without invoice checks for swaps with AllowNewClaimPayment == false, but this payment is not restricted to AllowNewClaimPayment == true. Facts in " + w.FuncName(at.Parent()) + ": " + an.DescribeFacts(facts)
			})
			cons := p.cons + " under AllowNewClaimPayment"
			switch v {
			case "ok":
				c.OK("C01.R3", cons, w.Pos(p.call.Pos()), why)
			case "bad":
				c.Bad("C01.R3", cons, w.Pos(p.call.Pos()), why)
			default:
				c.Unknown("C01.R3", cons, w.Pos(p.call.Pos()), why)
			}
		}
	}
}

// ---- R4 ------------------------------------------------------------------------------------------------

func c01R4(c *an.Check, pays []c01Pay) {
	w := c.W
	paidChains := map[string]bool{}
	for _, p := range pays {
		paidChains[p.chain] = true
	}
	nWatch := 0
	for _, fn := range prodFuncs(w) {
		for _, wc := range callsNamed(w, fn, fxWaitConf) {
			nWatch++
			fname := w.FuncName(fn)
			pos := w.Pos(wc.Pos())
			// (a) amount and final CLTV
			for _, g := range []struct {
				cons, none, some string
				guard            c01Guard
			}{
				{fname + " watch amount",
					"a confirmation watch (which leads to the payment) is registered without any test `DecodePayreq amount == GetClaimAmount()*1000`: the maker can announce an invoice of any amount",
					"the watch registration can be reached on a path that skips the invoice-amount test", c01AmountGuard},
				{fname + " watch final CLTV",
					"a confirmation watch is registered without any upper bound on the invoice's final CLTV delta (DecodePayreq's third result)",
					"the watch registration can be reached on a path that does not bound the invoice's final CLTV delta from above", c01CLTVGuard},
			} {
				edges, how, opaque := c01GuardEdges(w, fn, g.guard)
				cut := append([]an.Edge{}, edges...)
				for e := range c01KilledEdges(w, fn, wc.Block()) {
					cut = append(cut, e)
				}
				switch {
				case len(edges) > 0 && an.EdgesDominate(cut, wc.Block()):
					c.OK("C01.R4", g.cons, pos, "dominated on every branch by: "+strings.Join(how, " | "))
				case len(opaque) > 0:
					c.Unknown("C01.R4", g.cons, pos, "the decoded invoice value is handed to "+strings.Join(opaque, ", ")+", whose use of it the rule cannot interpret")
				case len(edges) == 0:
					c.Bad("C01.R4", g.cons, pos, g.none)
				default:
					c.Bad("C01.R4", g.cons, pos, g.some+" (tests exist only on some branches: "+strings.Join(how, " | ")+")")
				}
			}
			// (b) hash
			cons := fname + " watch ClaimPaymentHash"
			var stores []ssa.Instruction
			for _, st := range w.FieldWriters("SwapData.ClaimPaymentHash") {
				if st.Parent() != fn {
					continue
				}
				ss := w.Sources(st.Val, an.FlowOpts{})
				good := len(ss.Leaves) > 0
				for _, l := range ss.Leaves {
					if l.Kind != "call" || l.Call == nil || w.Info(l.Call).Name != fxDecodePayreq || l.Idx != 0 {
						good = false
					}
				}
				if good {
					stores = append(stores, st)
				}
			}
			switch {
			case an.MustPassInstr(wc, stores):
				c.OK("C01.R4", cons, pos, "ClaimPaymentHash is stored from DecodePayreq's payment hash on every path to the watch")
			case c01StoredInCallee(w, fn, "SwapData.ClaimPaymentHash"):
				c.Unknown("C01.R4", cons, pos, "SwapData.ClaimPaymentHash is stored by a helper called from this function; the rule does not follow the hash through helper parameters")
			default:
				c.Bad("C01.R4", cons, pos, "the watch is registered on a path that has not stored the decoded invoice's payment hash in SwapData.ClaimPaymentHash: the script that is validated later is not bound to the invoice that is paid")
			}
			// (c) the decoded invoice is the paid field
			cons = fname + " watch DecodePayreq argument"
			dcs := callsNamed(w, fn, fxDecodePayreq)
			if len(dcs) == 0 {
				if w.Summary(fn).HasEffect(fxDecodePayreq) {
					c.Unknown("C01.R4", cons, pos, "the invoice is decoded in a helper of the function that registers the watch; not followed")
				} else {
					c.Bad("C01.R4", cons, pos, "no LightningClient.DecodePayreq call in the function that registers the watch")
				}
			}
			for _, dc := range dcs {
				ss := w.Sources(dc.Common().Args[0], an.FlowOpts{})
				good, opaque := len(ss.Leaves) > 0, len(ss.Leaves) == 0
				for _, l := range ss.Leaves {
					if l.Kind != "field" || !paidChains[l.Name] {
						good = false
					}
					if l.Kind != "field" && l.Kind != "const" && l.Kind != "zero" {
						opaque = true
					}
				}
				switch {
				case good:
					c.OK("C01.R4", cons, w.Pos(dc.Pos()), "decodes the field that is later paid")
				case opaque:
					c.Unknown("C01.R4", cons, w.Pos(dc.Pos()), fmt.Sprintf("cannot follow the decoded invoice back to a field: %v", ss.Names()))
				default:
					c.Bad("C01.R4", cons, w.Pos(dc.Pos()), fmt.Sprintf("the invoice that is checked (%v) is not the field that is paid (%v)", ss.Names(), sortedKeys(paidChains)))
				}
			}
		}
	}
	c.AtLeast("C01.R4", "TxWatcher.AddWaitForConfirmationTx call sites", nWatch, 1)

	// ClaimPaymentHash has no other writer
	n := 0
	for _, st := range w.FieldWriters("SwapData.ClaimPaymentHash") {
		fn := st.Parent()
		if an.IsTestSupport(w.FnRel(fn)) {
			continue
		}
		n++
		ss := w.Sources(st.Val, an.FlowOpts{})
		good := len(ss.Leaves) > 0
		for _, l := range ss.Leaves {
			if l.Kind != "call" || l.Call == nil || w.Info(l.Call).Name != fxDecodePayreq || l.Idx != 0 {
				good = false
			}
		}
		opaque := len(ss.Leaves) == 0
		for _, l := range ss.Leaves {
			if l.Kind == "param" || l.Kind == "unknown" || l.Kind == "freevar" || l.Kind == "global" {
				opaque = true
			}
		}
		switch {
		case good:
			c.OK("C01.R4", w.FuncName(fn)+" store SwapData.ClaimPaymentHash", w.Pos(st.Pos()), "written from DecodePayreq's payment hash")
		case opaque:
			c.Unknown("C01.R4", w.FuncName(fn)+" store SwapData.ClaimPaymentHash", w.Pos(st.Pos()), "cannot follow the stored hash to its origin: "+strings.Join(ss.Names(), ", "))
		default:
			c.Bad("C01.R4", w.FuncName(fn)+" store SwapData.ClaimPaymentHash", w.Pos(st.Pos()), "SwapData.ClaimPaymentHash is written from "+strings.Join(ss.Names(), ", ")+", not from the decoded invoice")
		}
	}
	c.AtLeast("C01.R4", "stores to SwapData.ClaimPaymentHash", n, 1)

	// (d) the announcement is write-once
	n = 0
	for _, st := range w.FieldWriters("SwapData.OpeningTxBroadcasted") {
		fn := st.Parent()
		if an.IsTestSupport(w.FnRel(fn)) {
			continue
		}
		n++
		fa, _ := st.Addr.(*ssa.FieldAddr)
		guarded := false
		facts := w.FactsDominating(st)
		for _, f := range facts {
			if !an.EqIs(f, "==", "SwapData.OpeningTxBroadcasted", "nil") {
				continue
			}
			for _, side := range []ssa.Value{f.LV, f.RV} {
				if ld, ok := side.(*ssa.UnOp); ok && ld.Op == token.MUL {
					if g, ok := ld.X.(*ssa.FieldAddr); ok && fa != nil && g.X == fa.X && g.Field == fa.Field {
						guarded = true
					}
				}
			}
		}
		if !guarded && len(c01CallerSites(w, fn)) > 0 && !c01IsActionExecute(w, fn) && fn.Name() != "ApplyToSwapData" {
			c.Unknown("C01.R4", w.FuncName(fn)+" store SwapData.OpeningTxBroadcasted", w.Pos(st.Pos()), "the store sits in a helper; whether its callers test the field for nil first is not followed")
			continue
		}
		c.Decide(guarded, "C01.R4", w.FuncName(fn)+" store SwapData.OpeningTxBroadcasted", w.Pos(st.Pos()),
			"stored only while the field is still nil (write-once)",
			"the announcement (txid, vout, invoice, blinding key) can be overwritten after the invoice was checked and its hash bound: a second opening_tx_broadcasted replaces the invoice that will be paid. Facts: "+an.DescribeFacts(facts))
	}
	c.AtLeast("C01.R4", "stores to SwapData.OpeningTxBroadcasted", n, 2)
}

// ---- R5 --------------------------------------------------------------------------------------------------

func c01R5(c *an.Check) {
	w := c.W
	fn := w.Func("swap", "(*SwapData).GetOpeningParams")
	if fn == nil {
		c.Anchor("(*swap.SwapData).GetOpeningParams does not resolve")
		return
	}
	allowed := map[string]map[string]bool{
		"TakerPubkey": {"SwapOutRequestMessage.Pubkey": true, "SwapInAgreementMessage.Pubkey": true},
		"MakerPubkey": {"SwapInRequestMessage.Pubkey": true, "SwapOutAgreementMessage.Pubkey": true},
		"Amount":      {"SwapInRequestMessage.Amount": true, "SwapInAgreementMessage.Premium": true, "SwapOutRequestMessage.Amount": true},
	}
	n := 0
	for _, r := range an.Returns(fn) {
		al, ok := c01Strip(r.Results[0]).(*ssa.Alloc)
		if !ok {
			c.Unknown("C01.R5", "GetOpeningParams literal", w.Pos(r.Pos()), "the returned parameters are not a composite literal of this function")
			continue
		}
		n++
		pos := w.Pos(al.Pos())
		for _, field := range []string{"TakerPubkey", "MakerPubkey", "Amount"} {
			cons := "GetOpeningParams." + field
			v, ok := an.CompositeFieldValue(al, field)
			if !ok {
				c.Bad("C01.R5", cons, pos, "the literal leaves "+field+" unset")
				continue
			}
			ss := w.Sources(v, an.FlowOpts{IntoCallees: true, MaxDepth: 6})
			var bad, opaque []string
			nf := 0
			for _, l := range ss.Leaves {
				switch l.Kind {
				case "field":
					if allowed[field][c01Last(l.Name)] {
						nf++
					} else {
						bad = append(bad, l.Name)
					}
				case "const":
					if l.Name != `""` && l.Name != "0" {
						bad = append(bad, "constant "+l.Name)
					}
				case "zero":
				default:
					opaque = append(opaque, l.String())
				}
			}
			sort.Strings(bad)
			switch {
			case len(bad) > 0:
				c.Bad("C01.R5", cons, pos, fmt.Sprintf("%s of the script parameters the taker validates against flows from %v; allowed are only %v", field, bad, sortedKeys(allowed[field])))
			case len(opaque) > 0 || nf == 0:
				c.Unknown("C01.R5", cons, pos, fmt.Sprintf("cannot follow %s back to message fields: %v", field, append(opaque, ss.Names()...)))
			default:
				c.OK("C01.R5", cons, pos, "flows only from "+strings.Join(sortedKeys(allowed[field]), ", "))
			}
		}
		// ClaimPaymentHash
		{
			cons := "GetOpeningParams.ClaimPaymentHash"
			v, ok := an.CompositeFieldValue(al, "ClaimPaymentHash")
			if !ok {
				c.Bad("C01.R5", cons, pos, "the literal leaves ClaimPaymentHash unset")
			} else {
				ss := w.Sources(v, an.FlowOpts{IntoCallees: true, MaxDepth: 6})
				has := false
				var bad []string
				for _, l := range ss.Leaves {
					switch {
					case l.Kind == "field" && l.Name == "SwapData.ClaimPaymentHash":
						has = true
					case l.Kind == "field" && l.Name == "SwapData.ClaimPreimage":
					case l.Kind == "const" && l.Name == `""`, l.Kind == "zero":
					case l.Kind == "call" && (strings.Contains(l.Name, "lightning.") || strings.Contains(l.Name, "sha256") || strings.Contains(l.Name, "encoding/hex.")):
					default:
						bad = append(bad, l.String())
					}
				}
				c.Decide(has && len(bad) == 0, "C01.R5", cons, pos, "flows from SwapData.ClaimPaymentHash (or the hash of the own preimage on the maker side)",
					fmt.Sprintf("the payment hash of the validated script does not flow from SwapData.ClaimPaymentHash (the hash of the invoice that is paid); has=%v other sources %v", has, bad))
			}
		}
		// CSV
		{
			cons := "GetOpeningParams.CSV"
			v, ok := an.CompositeFieldValue(al, "CSV")
			if !ok {
				c.Bad("C01.R5", cons, pos, "the literal leaves CSV unset")
			} else {
				t := w.Term(v)
				c.Decide(strings.HasSuffix(t, "getTimelockPolicy#0>timelockPolicy.CSV"), "C01.R5", cons, pos, "CSV of the swap's timelock policy",
					"the CSV of the validated script is "+t+", not the CSV of the swap's timelock policy")
			}
		}
	}
	c.AtLeast("C01.R5", "OpeningParams literals returned by GetOpeningParams", n, 1)
}

// ---- R6 -----------------------------------------------------------------------------------------------------

// c01ScriptFrom: is v computed from ParamsToTxScript(params, <right csv>)? The
// script may be built in the function itself or by an in-module helper that is
// given params (e.g. GetOutputScript); then every nil-error return of the helper
// must satisfy the same condition for its own parameter. found=false means no
// ParamsToTxScript is behind v at all.
func c01ScriptFrom(w *an.World, v ssa.Value, params ssa.Value, depth int) (found, ok bool, why string) {
	sl := c01Slice(v)
	for x := range sl {
		if cc, isCall := x.(*ssa.Call); isCall && w.Info(cc).Name == c01ParamsToScript {
			good, wh := c01CSVArgOK(w, cc, params)
			return true, good, wh
		}
	}
	if depth >= 2 {
		return false, false, ""
	}
	for x := range sl {
		cc, isCall := x.(*ssa.Call)
		if !isCall {
			continue
		}
		g := cc.Call.StaticCallee()
		if g == nil || !w.InModule(g) || g.Blocks == nil {
			continue
		}
		pi := -1
		for i, a := range cc.Call.Args {
			if a == params {
				pi = i
			}
		}
		if pi < 0 || pi >= len(g.Params) {
			continue
		}
		rets := c01NilReturns(w, g)
		if len(rets) == 0 {
			continue
		}
		allFound, allOK, wh := true, true, ""
		for _, r := range rets {
			f, o, h := c01ScriptFrom(w, r.Results[0], g.Params[pi], depth+1)
			if !f {
				allFound = false
			}
			if !o {
				allOK = false
			}
			if h != "" {
				wh = h + " (in " + w.FuncName(g) + ")"
			}
		}
		if allFound {
			return true, allOK, wh
		}
	}
	return false, false, ""
}

// c01CompareFacts lists the facts of fn that state equality of two byte strings.
type c01Cmp struct {
	edge an.Edge
	a, b ssa.Value
	call *ssa.Call
}

func c01EqualityFacts(w *an.World, fn *ssa.Function) []c01Cmp {
	var out []c01Cmp
	for _, f := range w.Facts(fn) {
		var cmp *ssa.Call
		switch {
		case f.Rel == "true":
			if cc, ok := f.Cond.(*ssa.Call); ok && w.Info(cc).Name == "func:bytes.Equal" {
				cmp = cc
			}
		case f.Rel == "==" && !f.NonNum && f.Const == 0 && len(f.Terms) == 1:
			for _, side := range []ssa.Value{f.LV, f.RV} {
				if side == nil {
					continue
				}
				if cc, ok := c01Strip(side).(*ssa.Call); ok && w.Info(cc).Name == "func:bytes.Compare" {
					cmp = cc
				}
			}
		}
		if cmp != nil && len(cmp.Call.Args) == 2 {
			out = append(out, c01Cmp{edge: f.Edge, a: cmp.Call.Args[0], b: cmp.Call.Args[1], call: cmp})
		}
	}
	return out
}

// c01TrueReturns: returns whose boolean verdict (result 0) may be true.
func c01TrueReturns(fn *ssa.Function) []*ssa.Return {
	var out []*ssa.Return
	for _, r := range an.Returns(fn) {
		if r.Block() == fn.Recover || len(r.Results) == 0 {
			continue
		}
		if k, ok := r.Results[0].(*ssa.Const); ok && k.Value != nil && k.Value.Kind() == constant.Bool && !constant.BoolVal(k.Value) {
			continue
		}
		out = append(out, r)
	}
	return out
}

func c01CSVArgOK(w *an.World, sc *ssa.Call, params ssa.Value) (bool, string) {
	if len(sc.Call.Args) != 2 {
		return false, "ParamsToTxScript no longer takes (params, csv)"
	}
	if sc.Call.Args[0] != params {
		return false, "the script is built from other parameters than the ones given to ValidateTx"
	}
	if k, ok := an.ConstInt(sc.Call.Args[1]); ok {
		if k == c01BitcoinCSV {
			return true, "csv constant 1008"
		}
		return false, fmt.Sprintf("the expected script is built with the constant CSV %d; the Bitcoin opening script uses %d", k, c01BitcoinCSV)
	}
	ss := w.Sources(sc.Call.Args[1], an.FlowOpts{})
	for _, l := range ss.Leaves {
		if l.Kind != "field" || l.Name != "OpeningParams.CSV" {
			return false, "the CSV of the expected script flows from " + strings.Join(ss.Names(), ", ") + ", not from params.CSV"
		}
		if _, root := w.FieldChain(l.Val); root != params {
			return false, "the CSV of the expected script is read from other parameters"
		}
	}
	return len(ss.Leaves) > 0, "csv = params.CSV"
}

func c01R6(c *an.Check) {
	w := c.W
	vt := w.Named("swap", "Validator")
	if vt == nil {
		c.Anchor("swap.Validator does not resolve")
		return
	}
	impls := c01Impls(c, vt, "ValidateTx")
	c.AtLeast("C01.R6", "implementations of swap.Validator.ValidateTx", len(impls), 2)
	findVout := w.Func("onchain", "(*LiquidOnChain).FindVout")
	voo := w.Func("onchain", "(*LiquidOnChain).validateOpeningOutput")
	for _, fn := range impls {
		fname := w.FuncName(fn)
		if len(fn.Params) != 3 {
			c.Unknown("C01.R6", fname, w.Pos(fn.Pos()), "unexpected signature")
			continue
		}
		params := ssa.Value(fn.Params[1])
		rets := c01TrueReturns(fn)
		if len(rets) == 0 {
			c.Unknown("C01.R6", fname, w.Pos(fn.Pos()), "no return with a possibly true verdict")
			continue
		}
		usesLocator := false
		for _, cc := range an.Calls(fn) {
			if findVout != nil && cc.Common().StaticCallee() == findVout {
				usesLocator = true
			}
		}
		for _, r := range rets {
			pos := w.Pos(r.Pos())
			if usesLocator {
				c01LiquidValidate(c, fn, r, params, findVout, voo)
				continue
			}
			// --- direct form: script equality + amount test on the same output
			consS, consA := fname+" true verdict: script", fname+" true verdict: amount"
			var hit *c01Cmp
			var scriptWhy string
			for _, cmp := range c01EqualityFacts(w, fn) {
				cmp := cmp
				if !an.EdgeDominates(cmp.edge, r.Block()) {
					continue
				}
				for _, pair := range [][2]ssa.Value{{cmp.a, cmp.b}, {cmp.b, cmp.a}} {
					found, ok, why := c01ScriptFrom(w, pair[0], params, 0)
					if !found {
						continue
					}
					scriptWhy = why
					if ok {
						h := cmp
						h.a, h.b = pair[0], pair[1]
						hit = &h
					}
				}
			}
			if hit == nil {
				if scriptWhy == "" {
					if h := c01CouldHide(w, fn, []string{"ParamsToTxScript"}, params); h != "" {
						c.Unknown("C01.R6", consS, pos, "no script comparison is found in the function itself, but the parameters are handed to "+h+", which the rule does not look into for this purpose")
						continue
					}
					scriptWhy = "no dominating bytes.Equal / bytes.Compare == 0 against a script derived from ParamsToTxScript(params, csv)"
				}
				c.Bad("C01.R6", consS, pos, "a transaction is accepted without the output script being compared with the script of the negotiated parameters: "+scriptWhy)
				continue
			}
			c.OK("C01.R6", consS, pos, "dominated by script equality against ParamsToTxScript ("+scriptWhy+")")
			// the output whose script is compared
			out := c01OutputOf(hit.b)
			if out == nil {
				c.Unknown("C01.R6", consA, pos, "the compared script is not a field of a transaction output: "+w.Term(hit.b))
				continue
			}
			type cand struct {
				v   ssa.Value
				blk *ssa.BasicBlock
			}
			var cands []cand
			if ph, ok := out.(*ssa.Phi); ok {
				for k, e := range ph.Edges {
					if an.IsNilConst(e) {
						continue
					}
					cands = append(cands, cand{e, ph.Block().Preds[k]})
				}
			} else {
				cands = append(cands, cand{out, hit.call.Block()})
			}
			good := len(cands) > 0
			detail := ""
			for _, cd := range cands {
				found := false
				facts := w.FactsDominatingBlock(cd.blk)
				for _, f := range w.Facts(fn) { // the edge into the block itself
					if f.Edge.To() == cd.blk && len(cd.blk.Preds) == 1 {
						facts = append(facts, f)
					}
				}
				for _, f := range facts {
					if !an.MatchLin(f, an.LinSpec{Rel: "==", Terms: map[string]int64{"OpeningParams.Amount": 1, "TxOut.Value": -1}}) {
						continue
					}
					sl := c01Slice(f.LV, f.RV)
					if sl[cd.v] && sl[params] {
						found = true
					}
				}
				if !found {
					good = false
					detail = an.DescribeFacts(facts)
				}
			}
			if !good {
				var cv []ssa.Value
				for _, cd := range cands {
					cv = append(cv, cd.v)
				}
				if h := c01CouldHide(w, fn, []string{"ParamsToTxScript", "GetOutputScript"}, cv...); h != "" {
					c.Unknown("C01.R6", consA, pos, "the amount test on the selected output is not found in the function itself, but the output is handed to "+h)
					continue
				}
			}
			c.Decide(good, "C01.R6", consA, pos, "the output whose script is compared was selected under `out.Value == params.Amount`",
				"the output whose script is compared is not selected under the test `out.Value == params.Amount` (exact equality on that very output). Facts at the selection: "+detail)
		}
	}
	c01ValidateOpeningOutput(c, voo)
	c01FindVout(c, findVout)
}

// c01OutputOf: for `out.PkScript` / `out.Script` returns `out`.
func c01OutputOf(v ssa.Value) ssa.Value {
	v = c01Strip(v)
	if ld, ok := v.(*ssa.UnOp); ok && ld.Op == token.MUL {
		if fa, ok := ld.X.(*ssa.FieldAddr); ok {
			return fa.X
		}
	}
	if f, ok := v.(*ssa.Field); ok {
		return f.X
	}
	return nil
}

func c01LiquidValidate(c *an.Check, fn *ssa.Function, r *ssa.Return, params ssa.Value, findVout, voo *ssa.Function) {
	w := c.W
	fname := w.FuncName(fn)
	pos := w.Pos(r.Pos())
	consS, consA := fname+" true verdict: script", fname+" true verdict: amount"
	// locator call whose success dominates
	var loc *ssa.Call
	for _, cc := range an.Calls(fn) {
		call, ok := cc.(*ssa.Call)
		if !ok || call.Call.StaticCallee() != findVout {
			continue
		}
		okE, _ := an.OkEdges(call)
		if c01AnyDominates(okE, r.Block()) {
			loc = call
		}
	}
	if loc == nil {
		c.Bad("C01.R6", consS, pos, "a transaction is accepted although FindVout (the search for an output with the expected script) did not succeed on every path to this return")
		return
	}
	found, ok, why := c01ScriptFrom(w, loc.Call.Args[2], params, 0)
	if !found {
		c.Bad("C01.R6", consS, pos, "the script FindVout searches for is not derived from ParamsToTxScript(params, params.CSV)")
		return
	}
	if !ok {
		c.Bad("C01.R6", consS, pos, why)
		return
	}
	if !c01Slice(loc.Call.Args[1])[fn.Params[2]] {
		c.Bad("C01.R6", consS, pos, "FindVout searches a transaction that is not parsed from the txHex argument")
		return
	}
	c.OK("C01.R6", consS, pos, "dominated by FindVout(outputs of txHex, ParamsToTxScript(params, params.CSV)) == nil error")
	// output validation
	if voo == nil {
		c.Anchor("(*onchain.LiquidOnChain).validateOpeningOutput does not resolve")
		return
	}
	var val *ssa.Call
	for _, cc := range an.Calls(fn) {
		call, ok := cc.(*ssa.Call)
		if !ok || call.Call.StaticCallee() != voo {
			continue
		}
		okE, _ := an.OkEdges(call)
		if c01AnyDominates(okE, r.Block()) {
			val = call
		}
	}
	if val == nil {
		c.Bad("C01.R6", consA, pos, "a transaction is accepted although validateOpeningOutput (unblinding, asset and amount checks) did not succeed on every path to this return")
		return
	}
	a := val.Call.Args // recv, output, expectedAmount, blindingKey
	if len(a) != 4 {
		c.Unknown("C01.R6", consA, pos, "validateOpeningOutput signature changed")
		return
	}
	// output = outputs[vout] with vout from the locator and the same outputs
	outOK := false
	if ld, ok := c01Strip(a[1]).(*ssa.UnOp); ok && ld.Op == token.MUL {
		if ia, ok := ld.X.(*ssa.IndexAddr); ok {
			idxFromLoc := false
			for x := range c01Slice(ia.Index) {
				if ex, ok := x.(*ssa.Extract); ok && ex.Tuple == ssa.Value(loc) && ex.Index == 0 {
					idxFromLoc = true
				}
			}
			sameOutputs := w.Term(ia.X) == w.Term(loc.Call.Args[1])
			outOK = idxFromLoc && sameOutputs
		}
	}
	amt := w.Sources(a[2], an.FlowOpts{})
	amtOK := len(amt.Leaves) > 0
	for _, l := range amt.Leaves {
		if l.Kind != "field" || l.Name != "OpeningParams.Amount" {
			amtOK = false
		} else if _, root := w.FieldChain(l.Val); root != params {
			amtOK = false
		}
	}
	key := w.Sources(a[3], an.FlowOpts{})
	keyOK := len(key.Leaves) > 0
	for _, l := range key.Leaves {
		if l.Kind != "field" || l.Name != "OpeningParams.BlindingKey" {
			keyOK = false
		}
	}
	switch {
	case !outOK:
		c.Bad("C01.R6", consA, pos, "validateOpeningOutput is not applied to the output FindVout located (outputs[vout] of the same transaction)")
	case !amtOK:
		c.Bad("C01.R6", consA, pos, "validateOpeningOutput is given "+strings.Join(amt.Names(), ", ")+" as expected amount, not params.Amount")
	case !keyOK:
		c.Bad("C01.R6", consA, pos, "validateOpeningOutput is given "+strings.Join(key.Names(), ", ")+" as blinding key, not params.BlindingKey")
	default:
		c.OK("C01.R6", consA, pos, "dominated by validateOpeningOutput(outputs[vout], params.Amount, params.BlindingKey) == nil error")
	}
}

func c01ValidateOpeningOutput(c *an.Check, fn *ssa.Function) {
	w := c.W
	if fn == nil {
		c.Anchor("(*onchain.LiquidOnChain).validateOpeningOutput does not resolve")
		return
	}
	fname := w.FuncName(fn)
	if len(fn.Params) != 4 {
		c.Unknown("C01.R6", fname, w.Pos(fn.Pos()), "unexpected signature")
		return
	}
	output, expected, key := ssa.Value(fn.Params[1]), ssa.Value(fn.Params[2]), ssa.Value(fn.Params[3])
	dec := func(cond bool, cons, pos, okd, badd string) {
		if !cond {
			if h := c01CouldHide(w, fn, nil, output, expected, key); h != "" {
				c.Unknown("C01.R6", cons, pos, "the test is not found in the function itself, but the examined values are handed to "+h+", which the rule does not look into")
				return
			}
		}
		c.Decide(cond, "C01.R6", cons, pos, okd, badd)
	}
	rets := c01NilReturns(w, fn)
	if len(rets) == 0 {
		c.Unknown("C01.R6", fname, w.Pos(fn.Pos()), "no success return")
		return
	}
	// unblind call
	var unb *ssa.Call
	for _, cc := range an.Calls(fn) {
		if call, ok := cc.(*ssa.Call); ok && strings.HasSuffix(w.Info(call).Name, "confidential.UnblindOutputWithKey") {
			unb = call
		}
	}
	eqs := c01EqualityFacts(w, fn)
	for _, r := range rets {
		pos := w.Pos(r.Pos())
		// unblinding
		cons := fname + " success: unblind"
		if unb == nil {
			c.Bad("C01.R6", cons, pos, "the output is accepted without being unblinded (no confidential.UnblindOutputWithKey call)")
			continue
		}
		okE, _ := an.OkEdges(unb)
		ua := unb.Call.Args
		good := c01AnyDominates(okE, r.Block()) && len(ua) == 2 && c01Strip(ua[0]) == output && c01Slice(ua[1])[key]
		dec(good, cons, pos, "dominated by UnblindOutputWithKey(output, blindingKey) == nil error",
			"success is not dominated by a successful UnblindOutputWithKey of the examined output with the given blinding key")
		isUnblinded := func(v ssa.Value) bool {
			for x := range c01Slice(v) {
				if ex, ok := x.(*ssa.Extract); ok && ex.Tuple == ssa.Value(unb) && ex.Index == 0 {
					return true
				}
			}
			return false
		}
		fieldOf := func(v ssa.Value) string {
			t := w.Term(v)
			return t
		}
		// policy asset: bytes.Equal(unblinded.Asset, <from l.asset>)
		cons = fname + " success: policy asset"
		found := false
		for _, e := range eqs {
			if !an.EdgeDominates(e.edge, r.Block()) {
				continue
			}
			for _, p := range [][2]ssa.Value{{e.a, e.b}, {e.b, e.a}} {
				if isUnblinded(p[0]) && strings.Contains(fieldOf(p[0]), "UnblindOutputResult.Asset") && strings.Contains(fieldOf(p[1]), "LiquidOnChain.asset") {
					found = true
				}
			}
		}
		dec(found, cons, pos, "dominated by unblinded.Asset == policy asset", "success is not dominated by the comparison of the unblinded asset with the network's policy asset: an output in any asset of the right amount is accepted")
		// commitment: set of edges {explicit asset equal, commitment equal} dominates
		cons = fname + " success: asset commitment"
		var commitEdges []an.Edge
		for _, e := range eqs {
			for _, p := range [][2]ssa.Value{{e.a, e.b}, {e.b, e.a}} {
				tOut := fieldOf(p[0])
				if !strings.Contains(tOut, "TxOutput.Asset") || !c01Slice(p[0])[output] {
					continue
				}
				tOther := fieldOf(p[1])
				if strings.Contains(tOther, "LiquidOnChain.asset") {
					commitEdges = append(commitEdges, e.edge) // explicit asset
				}
				for x := range c01Slice(p[1]) {
					if cc, ok := x.(*ssa.Call); ok && strings.HasSuffix(w.Info(cc).Name, "confidential.AssetCommitment") && isUnblinded(cc) {
						commitEdges = append(commitEdges, e.edge)
					}
				}
			}
		}
		dec(len(commitEdges) > 0 && an.EdgesDominate(commitEdges, r.Block()), cons, pos,
			"every path passes output.Asset == explicit policy asset or == AssetCommitment(unblinded asset, blinder)",
			"success can be reached without the output's asset field being tied to the unblinded asset (explicit policy asset or reconstructed commitment)")
		// value
		cons = fname + " success: value"
		found = false
		facts := w.FactsDominatingBlock(r.Block())
		for _, f := range facts {
			if f.NonNum || f.Rel != "==" || f.Const != 0 || len(f.Terms) != 2 {
				continue
			}
			if f.LV == nil || f.RV == nil {
				continue
			}
			for _, p := range [][2]ssa.Value{{f.LV, f.RV}, {f.RV, f.LV}} {
				if isUnblinded(p[0]) && strings.Contains(w.Term(p[0]), "UnblindOutputResult.Value") && c01Strip(p[1]) == expected {
					coefOK := true
					for _, co := range f.Terms {
						if co != 1 && co != -1 {
							coefOK = false
						}
					}
					if coefOK {
						found = true
					}
				}
			}
		}
		dec(found, cons, pos, "dominated by unblinded.Value == expectedAmount",
			"success is not dominated by the exact equality unblinded.Value == expectedAmount. Facts: "+an.DescribeFacts(facts))
	}
}

func c01FindVout(c *an.Check, fn *ssa.Function) {
	w := c.W
	if fn == nil {
		c.Anchor("(*onchain.LiquidOnChain).FindVout does not resolve")
		return
	}
	fname := w.FuncName(fn)
	if len(fn.Params) != 3 {
		c.Unknown("C01.R6", fname, w.Pos(fn.Pos()), "unexpected signature")
		return
	}
	outputs, script := ssa.Value(fn.Params[1]), ssa.Value(fn.Params[2])
	dec := func(cond bool, cons, pos, okd, badd string) {
		if !cond {
			if h := c01CouldHide(w, fn, []string{"CreateOpeningAddress"}, outputs); h != "" {
				c.Unknown("C01.R6", cons, pos, "the comparison is not found in the function itself, but the outputs are handed to "+h+", which the rule does not look into")
				return
			}
		}
		c.Decide(cond, "C01.R6", cons, pos, okd, badd)
	}
	eqs := c01EqualityFacts(w, fn)
	for _, r := range c01NilReturns(w, fn) {
		cons := fname + " success: script comparison"
		good := false
		for _, e := range eqs {
			if !an.EdgeDominates(e.edge, r.Block()) {
				continue
			}
			for _, p := range [][2]ssa.Value{{e.a, e.b}, {e.b, e.a}} {
				sa, sb := c01Slice(p[0]), c01Slice(p[1])
				if sa[outputs] && !sa[script] && sb[script] && !sb[outputs] && c01Slice(r.Results[0])[c01LoopIndexOf(p[0])] {
					good = true
				}
			}
		}
		dec(good, cons, w.Pos(r.Pos()), "the returned index is that of an output whose script equals the script derived from the redeem script",
			"FindVout returns an index that is not selected by comparing that output's script with the script derived from its redeemScript argument")
	}
}

// c01LoopIndexOf: the index value used to address the element v was read from.
func c01LoopIndexOf(v ssa.Value) ssa.Value {
	for x := range c01Slice(v) {
		if ia, ok := x.(*ssa.IndexAddr); ok {
			return ia.Index
		}
		if ex, ok := x.(*ssa.Extract); ok {
			if nx, ok := ex.Tuple.(*ssa.Next); ok && ex.Index == 2 {
				if nx.Referrers() != nil {
					for _, r := range *nx.Referrers() {
						if k, ok := r.(*ssa.Extract); ok && k.Index == 1 {
							return k
						}
					}
				}
			}
		}
	}
	return nil
}

// ---- R7 -------------------------------------------------------------------------------------------------------

func c01R7(c *an.Check) {
	w := c.W
	type ctor struct {
		rel, name string
		arg       int // index of the confirmation depth in Args
	}
	rpc := w.Func("txwatcher", "NewBlockchainRpcTxWatcher")
	lndw := w.Func("lnd", "NewTxWatcher")
	if rpc == nil || lndw == nil {
		c.Anchor("watcher constructors txwatcher.NewBlockchainRpcTxWatcher / lnd.NewTxWatcher do not resolve")
		return
	}
	n := 0
	for _, fn := range prodFuncs(w) {
		for _, cc := range an.Calls(fn) {
			callee := cc.Common().StaticCallee()
			var depthArg ssa.Value
			chain := ""
			switch callee {
			case rpc:
				a := cc.Common().Args
				if len(a) != 3 {
					c.Unknown("C01.R7", w.FuncName(fn)+" NewBlockchainRpcTxWatcher", w.Pos(cc.Pos()), "signature changed")
					continue
				}
				depthArg = a[2]
				// which chain: by the RPC adapter handed in
				if call, ok := c01Strip(a[1]).(*ssa.Call); ok {
					switch w.Info(call).Name {
					case "func:txwatcher.NewElementsCli":
						chain = "liquid"
					case "func:txwatcher.NewBitcoinRpc":
						chain = "bitcoin"
					}
				}
			case lndw:
				a := cc.Common().Args
				if len(a) != 5 {
					c.Unknown("C01.R7", w.FuncName(fn)+" lnd.NewTxWatcher", w.Pos(cc.Pos()), "signature changed")
					continue
				}
				depthArg = a[3]
				chain = "bitcoin"
			default:
				continue
			}
			n++
			cons := fmt.Sprintf("%s %s (%s)", w.FuncName(fn), c01ShortCallee(w.Info(cc).Name), chain)
			pos := w.Pos(cc.Pos())
			k, isK := an.ConstInt(depthArg)
			min := int64(c01MinConfsBitcoin)
			if chain == "liquid" {
				min = c01MinConfsLiquid
			}
			switch {
			case chain == "":
				c.Unknown("C01.R7", cons, pos, "cannot tell which chain this watcher serves (neither NewElementsCli nor NewBitcoinRpc)")
			case !isK:
				c.Unknown("C01.R7", cons, pos, "the confirmation depth is not a compile-time constant: "+w.Term(depthArg))
			default:
				c.Decide(k >= min, "C01.R7", cons, pos, fmt.Sprintf("required confirmations = %d (>= %d)", k, min),
					fmt.Sprintf("the %s watcher reports confirmation after %d block(s); the taker must not pay before depth %d", chain, k, min))
			}
		}
	}
	c.AtLeast("C01.R7", "watcher constructor call sites in production code", n, 4)

	// Electrum observer
	hc := w.Func("electrum", "hasConfirmations")
	if hc == nil {
		c.Anchor("electrum.hasConfirmations does not resolve")
		return
	}
	m := 0
	for _, fn := range prodFuncs(w) {
		for _, cc := range an.Calls(fn) {
			call, ok := cc.(*ssa.Call)
			if !ok || call.Call.StaticCallee() != hc || !c01HasConfirmationCallback(fn) {
				continue // hasConfirmations is also used for CSV maturity, which is not a confirmation report
			}
			m++
			cons := w.FuncName(fn) + " electrum.hasConfirmations"
			pos := w.Pos(call.Pos())
			a := call.Call.Args
			if len(a) != 3 {
				c.Unknown("C01.R7", cons, pos, "signature changed")
				continue
			}
			k, isK := an.ConstInt(a[2])
			if !isK {
				c.Unknown("C01.R7", cons, pos, "required depth is not a constant: "+w.Term(a[2]))
				continue
			}
			if !c.Decide(k >= c01MinConfsLiquid, "C01.R7", cons, pos, fmt.Sprintf("required confirmations = %d (>= %d)", k, c01MinConfsLiquid),
				fmt.Sprintf("the Electrum observer requires %d confirmation(s); Liquid needs %d", k, c01MinConfsLiquid)) {
				continue
			}
			// the success callback (nil error) is dominated by the true verdict and nil error of that call
			okE, _ := an.OkEdges(call)
			var tE []an.Edge
			for _, v := range an.ResultValues(call, 0) {
				t, _ := an.BoolEdges(v)
				tE = append(tE, t...)
			}
			for _, cb := range an.Calls(fn) {
				if !strings.HasPrefix(w.Info(cb).Name, "dyn:") {
					continue
				}
				ca := cb.Common().Args
				if !c01IsConfirmationCallbackSig(cb.Common().Signature()) || len(ca) != 3 || !an.IsNilConst(ca[2]) {
					continue
				}
				cons := w.FuncName(fn) + " confirmation callback with nil error"
				c.Decide(c01AnyDominates(okE, cb.Block()) && c01AnyDominates(tE, cb.Block()), "C01.R7", cons, w.Pos(cb.Pos()),
					"dominated by hasConfirmations == (true, nil)", "the observer reports a confirmation on a path that is not dominated by hasConfirmations returning (true, nil)")
			}
		}
	}
	c.AtLeast("C01.R7", "electrum.hasConfirmations call sites", m, 1)
}

// c01IsConfirmationCallbackSig: func(swapId string, txHex string, err error) error
func c01IsConfirmationCallbackSig(sig *types.Signature) bool {
	if sig == nil || sig.Params().Len() != 3 || sig.Results().Len() != 1 {
		return false
	}
	isStr := func(t types.Type) bool {
		b, ok := t.Underlying().(*types.Basic)
		return ok && b.Kind() == types.String
	}
	return isStr(sig.Params().At(0).Type()) && isStr(sig.Params().At(1).Type()) && an.IsErrorType(sig.Params().At(2).Type()) && an.IsErrorType(sig.Results().At(0).Type())
}

// c01HasConfirmationCallback: fn invokes a func value of the confirmation-callback type.
func c01HasConfirmationCallback(fn *ssa.Function) bool {
	for _, cc := range an.Calls(fn) {
		if cc.Common().StaticCallee() == nil && !cc.Common().IsInvoke() && c01IsConfirmationCallbackSig(cc.Common().Signature()) {
			return true
		}
	}
	return false
}

// c01Registrations examines every production reference to g: as a (bound)
// function value it must be handed directly to TxWatcher.AddConfirmationCallback;
// a direct call is accepted only from a function of the confirmation-callback
// type that itself satisfies the same condition (an adapter closure).
func c01Registrations(w *an.World, g *ssa.Function, depth int) (nreg, nref int, bad []string) {
	for _, fn := range prodFuncs(w) {
		for _, b := range fn.Blocks {
			for _, in := range b.Instrs {
				if cc, ok := in.(ssa.CallInstruction); ok && cc.Common().StaticCallee() == g {
					nref++
					if depth < 2 && fn != g && c01IsConfirmationCallbackSig(fn.Signature) {
						r, n, bb := c01Registrations(w, fn, depth+1)
						if n > 0 && len(bb) == 0 {
							nreg += r
							continue
						}
					}
					bad = append(bad, "called directly from "+w.FuncName(fn)+" at "+w.Pos(in.Pos()))
					continue
				}
				var fv ssa.Value
				if mc, ok := in.(*ssa.MakeClosure); ok {
					if f, ok := mc.Fn.(*ssa.Function); ok && (f == g || (f.Synthetic != "" && f.Object() != nil && f.Object() == g.Object())) {
						fv = mc
					}
				}
				if fv == nil {
					for _, op := range in.Operands(nil) {
						if op != nil && *op == ssa.Value(g) {
							if cc, isCall := in.(ssa.CallInstruction); !isCall || cc.Common().Value != ssa.Value(g) {
								nref++
								if cc2, isCall2 := in.(ssa.CallInstruction); isCall2 && w.Info(cc2).Name == c01AddConfCb {
									nreg++
								} else {
									bad = append(bad, "used as a value in "+w.FuncName(fn)+" at "+w.Pos(in.Pos()))
								}
							}
						}
					}
					continue
				}
				nref++
				okUse := fv.Referrers() != nil && len(*fv.Referrers()) > 0
				if fv.Referrers() != nil {
					for _, r := range *fv.Referrers() {
						cc, isCall := r.(ssa.CallInstruction)
						if !isCall || w.Info(cc).Name != c01AddConfCb {
							okUse = false
							bad = append(bad, "handed to something else than TxWatcher.AddConfirmationCallback in "+w.FuncName(fn)+" at "+w.Pos(r.Pos()))
						}
					}
				}
				if okUse {
					nreg++
				}
			}
		}
	}
	return
}

// c01IsActionExecute: fn is the Execute method of a concrete swap.Action.
func c01IsActionExecute(w *an.World, fn *ssa.Function) bool {
	f, err := w.FSM()
	if err != nil || f == nil {
		return false
	}
	for _, ex := range f.Exec {
		if ex == fn {
			return true
		}
	}
	return false
}

// c01EntrySources is w.Sources that continues from a parameter of a helper into
// the arguments of the helper's (static, production) call sites, but stops at
// the parameters of functions for which stop() holds (the registered
// callbacks) and at helpers whose callers cannot be enumerated.
func c01EntrySources(w *an.World, v ssa.Value, stop func(*ssa.Function) bool, depth int) *an.SrcSet {
	ss := w.Sources(v, an.FlowOpts{})
	out := &an.SrcSet{Ops: ss.Ops}
	for _, l := range ss.Leaves {
		pv, isParam := l.Val.(*ssa.Parameter)
		if l.Kind != "param" || !isParam || stop(pv.Parent()) || depth >= 3 {
			out.Leaves = append(out.Leaves, l)
			continue
		}
		pf := pv.Parent()
		n := w.CG().Nodes[pf]
		var args []ssa.Value
		resolvable := n != nil
		if n != nil {
			for _, e := range n.In {
				if e.Site == nil || e.Caller == nil || e.Caller.Func == nil {
					continue
				}
				cf := e.Caller.Func
				if w.InModule(cf) && an.IsTestSupport(w.FnRel(cf)) {
					continue
				}
				if cf.Synthetic != "" {
					if nn := w.CG().Nodes[cf]; nn == nil || len(nn.In) == 0 {
						continue // wrapper that nothing calls
					}
				}
				if cf.Synthetic != "" || e.Site.Common().StaticCallee() != pf || l.Idx < 0 || l.Idx >= len(e.Site.Common().Args) {
					resolvable = false
					continue
				}
				args = append(args, e.Site.Common().Args[l.Idx])
			}
		}
		if !resolvable || len(args) == 0 {
			out.Leaves = append(out.Leaves, l)
			continue
		}
		for _, a := range args {
			sub := c01EntrySources(w, a, stop, depth+1)
			out.Leaves = append(out.Leaves, sub.Leaves...)
		}
	}
	return out
}

// c01KilledEdges: CFG edges that cannot lie on a feasible path to target because
// they enter a block with an error-typed phi Q whose incoming value on that
// edge is certainly non-nil (a fresh error, or a value known != nil on that
// edge) while a `Q == nil` edge dominates target. This is the
// `if err == nil && !ok { err = errors.New(..) }; if err != nil { return }` idiom.
func c01KilledEdges(w *an.World, fn *ssa.Function, target *ssa.BasicBlock) map[an.Edge]bool {
	out := map[an.Edge]bool{}
	facts := w.Facts(fn)
	for _, b := range fn.Blocks {
		for _, in := range b.Instrs {
			q, ok := in.(*ssa.Phi)
			if !ok {
				break
			}
			if !an.IsErrorType(q.Type()) {
				continue
			}
			dom := false
			if q.Referrers() != nil {
				for _, r := range *q.Referrers() {
					bo, isB := r.(*ssa.BinOp)
					if !isB || (bo.Op != token.EQL && bo.Op != token.NEQ) || !(an.IsNilConst(bo.X) || an.IsNilConst(bo.Y)) {
						continue
					}
					for _, ce := range an.CondUses(bo) {
						e := ce.False
						if bo.Op == token.EQL {
							e = ce.True
						}
						if e.From != target && an.EdgeDominates(e, target) {
							dom = true
						}
					}
				}
			}
			if !dom {
				continue
			}
			for k, v := range q.Edges {
				if k >= len(b.Preds) {
					continue
				}
				pred := b.Preds[k]
				nonNil := c01FreshError(w, v)
				if !nonNil && !an.IsNilConst(v) {
					for _, f := range facts {
						if !(f.NonNum && f.Rel == "!=" && ((f.LV == v && an.IsNilConst(f.RV)) || (f.RV == v && an.IsNilConst(f.LV)))) {
							continue
						}
						if (f.Edge.From == pred && f.Edge.To() == b) || an.EdgeDominates(f.Edge, pred) {
							nonNil = true
						}
					}
				}
				if nonNil {
					for i, sc := range pred.Succs {
						if sc == b {
							out[an.Edge{From: pred, Idx: i}] = true
						}
					}
				}
			}
		}
	}
	return out
}

// c01TestHolds decides whether target executes only when the tested condition
// passed. pass / fail are the edges of all Ifs on the condition. "ok": target
// is unreachable once the passing edges' complement is accounted for, i.e. it
// is unreachable when the pass edges and the infeasible (killed) edges are
// removed. "bad" only when a bypass is positively established: a path reaches
// target without the condition being tested at all, or a failing edge rejoins
// the passing path without leaving any trace (no phi that distinguishes it, no
// store in the failing-only region). Everything else is "unknown".
func c01TestHolds(pass, fail []an.Edge, killed map[an.Edge]bool, target *ssa.BasicBlock) (string, string) {
	if len(pass)+len(fail) == 0 {
		return "bad", "the result is never tested"
	}
	fn := target.Parent()
	for _, e := range pass {
		if an.EdgeDominates(e, target) {
			return "ok", ""
		}
	}
	cut := map[an.Edge]bool{}
	for e := range killed {
		cut[e] = true
	}
	for _, e := range pass {
		cut[e] = true
	}
	entry := []*ssa.BasicBlock{fn.Blocks[0]}
	if !an.ReachBlocks(entry, cut, nil)[target] {
		return "ok", ""
	}
	// untested path?
	cut2 := map[an.Edge]bool{}
	for e := range cut {
		cut2[e] = true
	}
	for _, e := range fail {
		cut2[e] = true
	}
	if an.ReachBlocks(entry, cut2, nil)[target] {
		// a path avoids every test of the condition; it is a bypass only if it passes the producing call at all,
		// which holds for results of a call that dominates... keep it simple: positively bad
		return "bad", "a path reaches it without the result being tested"
	}
	// some failing edge reaches target
	for _, fe := range fail {
		if killed[fe] {
			continue
		}
		if !an.ReachBlocks([]*ssa.BasicBlock{fe.To()}, cut, nil)[target] {
			continue
		}
		// failing-only region: blocks that are entered only through fe
		traceless := true
		var region []*ssa.BasicBlock
		for _, b := range fn.Blocks {
			if an.EdgeDominates(fe, b) {
				region = append(region, b)
			}
		}
		inRegion := map[*ssa.BasicBlock]bool{}
		for _, b := range region {
			inRegion[b] = true
		}
		if inRegion[target] {
			return "bad", "it lies on the failing branch itself"
		}
		for _, b := range region {
			for _, in := range b.Instrs {
				switch in.(type) {
				case *ssa.Store, *ssa.MapUpdate, *ssa.Send, *ssa.Return, *ssa.Panic:
					traceless = false
				}
			}
		}
		// edges leaving the region (or fe itself when the region is empty) into a merge block with a distinguishing phi
		exits := []an.Edge{}
		if len(region) == 0 {
			exits = append(exits, fe)
		}
		for _, b := range region {
			for i, sc := range b.Succs {
				if !inRegion[sc] {
					exits = append(exits, an.Edge{From: b, Idx: i})
				}
			}
		}
		for _, ex := range exits {
			m := ex.To()
			k := -1
			for i, p := range m.Preds {
				if p == ex.From {
					k = i
				}
			}
			for _, in := range m.Instrs {
				q, ok := in.(*ssa.Phi)
				if !ok {
					break
				}
				if k < 0 || k >= len(q.Edges) {
					traceless = false
					continue
				}
				same := false
				for i, v := range q.Edges {
					if i != k && v == q.Edges[k] {
						same = true
					}
				}
				if !same {
					traceless = false
				}
			}
		}
		if traceless {
			return "bad", "the failing branch rejoins the path to it without any effect"
		}
		return "unknown", "a failing branch rejoins the path to it after assigning state that later tests may or may not consult"
	}
	return "unknown", "the tests on the result do not dominate it"
}

// c01StoredInCallee: some in-module function reached synchronously from fn
// (not fn itself) stores to the field.
func c01StoredInCallee(w *an.World, fn *ssa.Function, key string) bool {
	reach := map[*ssa.Function]bool{}
	for _, ef := range w.Summary(fn).Effects {
		if ef.Info.Static != nil {
			reach[ef.Info.Static] = true
		}
		if ef.In != nil && ef.In != fn {
			reach[ef.In] = true
		}
	}
	for _, st := range w.FieldWriters(key) {
		if p := st.Parent(); p != fn && (reach[p] || (p.Parent() != nil && an.EnclosingTop(p) == fn)) {
			return true
		}
	}
	return false
}

// c01CouldHide: fn hands one of vals (or something computed from it) to an
// in-module function with a body whose name does not contain any of the
// ignore substrings — a place where a test the rule looks for could have been
// moved to. Used to answer "cannot decide" instead of a violation when a
// required test is not found in the function itself.
func c01CouldHide(w *an.World, fn *ssa.Function, ignore []string, vals ...ssa.Value) string {
	for _, cc := range an.Calls(fn) {
		ci := w.Info(cc)
		if ci.Static == nil || !w.InModule(ci.Static) || ci.Static.Blocks == nil {
			continue
		}
		skip := false
		for _, ig := range ignore {
			if strings.Contains(ci.Name, ig) {
				skip = true
			}
		}
		if skip {
			continue
		}
		sl := c01Slice(cc.Common().Args...)
		for _, v := range vals {
			if v != nil && sl[v] {
				return ci.Name + " at " + w.Pos(cc.Pos())
			}
		}
	}
	return ""
}
