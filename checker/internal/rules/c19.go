package rules

// C19 — no data races between events, RPC calls and watchers: a static
// lockset ("guarded-by") discipline check on top of the lock engine of c18.go.

import (
	"fmt"
	"go/token"
	"go/types"
	"sort"
	"strings"

	"golang.org/x/tools/go/ssa"

	"psv/internal/an"
)

func init() {
	Register(&Prop{
		ID:   "C19",
		Expl: "A static lockset check, not a race-detector run. A frozen guarded-by table (confirmed by reading; one reason per entry) names the mutex that protects each shared field of the policy, the chain/payment watchers, the swap service, the messenger manager, the peer-sync poller and the per-swap machine (SwapData.*, Previous, retries <- SwapStateMachine.mutex; Current <- stateMutex for writes, stateMutex or mutex for reads). (R1) for EVERY read and write of a tabled field in every production function the guard is in the held-lock set: held locally (flow-sensitive, c18 engine, including the net effect of lock wrappers and release helpers) or by all synchronous callers and not released again by the function itself before the access (intersection over the VTA call graph; go statements and library callbacks start with the empty set). Where some callers hold the guard and others do not, the obligation is moved to the callers that do not (e.g. Recover running actions). An access is exempt only when the object is provably private: allocated in the function (or returned fresh by a callee / the swap store) and not yet stored into shared memory, handed to a goroutine or captured (constructors, pre-publication code); provenance follows parameters up the call graph. Reads are only checked for fields that have a writer after publication. Reference escape: when a guarded field holds a map, slice or pointer, every use of the loaded reference (range, lookup, update, len, index, dereference; followed through locals, phis, closures, parameters and results) must also hold the guard, unless it cannot race (element reads of a slice nobody writes in place - a header copy is then a snapshot -, reads of a map nobody mutates, reads of struct fields without a writer after publication). Stale write-back: a store to a guarded field must not write a value computed from a copy of the same field taken in an earlier critical section (guard released in between) unless it also derives from a load in the section of the store (lost update; exposed as c19StaleWriteBacks for C07). (R3) unguarded shared object, for state that has no lock and therefore no table row: a struct field, map entry or slice element of an object reachable from a long-lived object (loaded from a struct field or passed down from such a load) that is written after publication with no lock held at all, by code reachable from two or more goroutine roots (go statements, library call-backs, entry points without production caller; program start-up in main/init is not a root), is a violation; writes on fresh objects (constructors, per-call copies) and fields of sync/atomic/channel type are exempt. (R2) the functions that store to SwapData fields are enumerated and each is classified (constructor, under the mutex, caller holds it, or violating). The quantifier is over all access sites and all call chains, i.e. all interleavings of the concurrent entry points.",
		NotD: "R3 only decides writes made with NO lock held (a wrong or inconsistent lock on untabled state is not decided), counts distinct roots (one root running concurrently with itself - a per-request handler - is not counted) and trusts that start-up code in main/init finishes its writes before it starts goroutines. Races on fields outside the table other than those R3 finds (callback fields written once at start-up are deliberately not in it); happens-before through channels, WaitGroups or goroutine creation other than publication of a fresh object; accesses by reflection (json.Marshal of a live machine in Store.UpdateData, fmt verbs); read-side races of code outside package swap on live SwapData (RPC pretty-printers; listed as info, not decided); functions without any production caller that get the object as parameter (info). Lock classes merge instances: holding the mutex of another object of the same class counts as guarded.",
		Run:  runC19,
	})
}

// c19Guard is one row of the frozen guarded-by table.
type c19Guard struct {
	rel, typ string
	fields   []string // "*" = every field
	writeAll []string // every one of these lock keys must be held for a write
	readAny  []string // any of these suffices for a read
	why      string
}

const (
	c19SSMMutex   = "swap.SwapStateMachine.mutex"
	c19StateMutex = "swap.SwapStateMachine.stateMutex"
	c19SvcRW      = "swap.SwapService.RWMutex"
)

var c19Table = []c19Guard{
	{"policy", "Policy", []string{"AllowNewSwaps", "PeerAllowlist", "SuspiciousPeerList", "AcceptAllPeers", "MinSwapAmountMsat", "ReserveOnchainMsat", "path"},
		[]string{"policy.mu"}, []string{"policy.mu"}, "every accessor and mutator of Policy (Get, Get*Msat, IsPeer*, Enable/DisableSwaps, AddTo*/RemoveFrom*) takes the package mutex mu; reload replaces the whole struct"},
	{"txwatcher", "BlockchainRpcTxWatcher", []string{"txWatchList", "csvtxWatchList", "observerLoopList"},
		[]string{"txwatcher.BlockchainRpcTxWatcher.Mutex"}, []string{"txwatcher.BlockchainRpcTxWatcher.Mutex"}, "maps mutated by AddWaitFor*, TxClaimed, HandleCsvTx and the observation goroutines under the embedded Mutex"},
	{"electrum", "liquidBlockHeaderSubscriber", []string{"txObservers"},
		[]string{"electrum.liquidBlockHeaderSubscriber.mu"}, []string{"electrum.liquidBlockHeaderSubscriber.mu"}, "Register/Update/Count take mu; Register runs on event goroutines, Update on the header goroutine"},
	{"lwk", "electrumTxWatcher", []string{"blockHeight", "terminalErr"},
		[]string{"lwk.electrumTxWatcher.mu"}, []string{"lwk.electrumTxWatcher.mu"}, "acceptBlockHeight/fail (header goroutine) and GetBlockHeight (actions) take mu"},
	{"lnd", "TxWatcher", []string{"confirmationWatchers", "waitForCsvWatchers"},
		[]string{"lnd.TxWatcher.Mutex"}, []string{"lnd.TxWatcher.Mutex"}, "maps updated by AddWaitFor* and by the per-subscription goroutines under the embedded Mutex"},
	{"lnd", "PaymentWatcher", []string{"paymentWatchers"},
		[]string{"lnd.PaymentWatcher.Mutex"}, []string{"lnd.PaymentWatcher.Mutex"}, "map updated by AddWaitForPayment and its goroutine under the embedded Mutex"},
	{"swap", "SwapService", []string{"activeSwaps", "lastMsgLog"},
		[]string{c19SvcRW}, []string{c19SvcRW, c19SvcRW + "#R"}, "GetActiveSwap (RLock), lockSwap/RemoveActiveSwap/logMsg (Lock)"},
	{"messages", "Manager", []string{"messengers"},
		[]string{"messages.Manager.Mutex"}, []string{"messages.Manager.Mutex"}, "AddSender/RemoveSender take the embedded Mutex"},
	{"peersync", "poller", []string{"lastRequestedAt"},
		[]string{"peersync.poller.mu"}, []string{"peersync.poller.mu"}, "allowRequest/pruneRequestTimes take mu; poll and cleanup loops are separate goroutines"},
	{"swap", "SwapStateMachine", []string{"Previous", "retries"},
		[]string{c19SSMMutex}, []string{c19SSMMutex}, "only SendEvent (and helpers it calls) touches them, under the per-swap mutex"},
	{"swap", "SwapStateMachine", []string{"Current"},
		[]string{c19StateMutex, c19SSMMutex}, []string{c19StateMutex, c19SSMMutex}, "written by setState under stateMutex, called only from SendEvent under mutex; so a reader is safe under either lock"},
	{"swap", "SwapData", []string{"*"},
		[]string{c19SSMMutex}, []string{c19SSMMutex}, "the swap data of a published machine is mutated by event contexts and actions, which SendEvent runs under the per-swap mutex"},
	// additions to the DESIGN table, same discipline, confirmed by reading
	{"peersync", "messageBus", []string{"subscribers"},
		[]string{"peersync.messageBus.mu"}, []string{"peersync.messageBus.mu"}, "subscribe/publish/remove take mu"},
	{"peersync", "LightningAdapter", []string{"streamStarted", "streamCancel"},
		[]string{"peersync.LightningAdapter.mu"}, []string{"peersync.LightningAdapter.mu"}, "ensureStream/consumeStream/Stop take mu"},
	{"onchain", "minFeeManager", []string{"minFeePerKW", "lastUpdatedTime"},
		[]string{"onchain.minFeeManager.mu"}, []string{"onchain.minFeeManager.mu"}, "fetchMinFee takes mu for the cached fee"},
	{"lnd", "MessageListener", []string{"handlers"},
		[]string{"lnd.MessageListener.Mutex"}, []string{"lnd.MessageListener.Mutex"}, "AddMessageHandler and the receive goroutine take the embedded Mutex"},
	{"lnd", "PeerListener", []string{"handlers"},
		[]string{"lnd.PeerListener.Mutex"}, []string{"lnd.PeerListener.Mutex"}, "AddHandler and the event goroutine take the embedded Mutex"},
}

// c19PrivateSources are calls whose result is a private copy. Frozen, by
// canonical callee name, confirmed by reading swap/store.go: bboltStore
// deserialises a new SwapStateMachine (json.Unmarshal into &SwapStateMachine{})
// for every element it returns.
var c19PrivateSources = map[string]string{
	"iface:swap.Store.ListAll":       "bboltStore.ListAll unmarshals fresh machines",
	"iface:swap.Store.ListAllByPeer": "bboltStore.ListAllByPeer unmarshals fresh machines",
	"iface:swap.Store.GetData":       "bboltStore.GetData -> GetById unmarshals a fresh machine",
}

// the one ownership edge: a machine owns its Data (set in the constructors only)
const c19OwnerType, c19OwnerField = "SwapStateMachine", "Data"

type c19Access struct {
	fn    *ssa.Function
	instr ssa.Instruction
	base  ssa.Value
	g     *c19Guard
	owner *types.Named
	field string // "T.f"
	write bool
}

const (
	c19Fresh = iota
	c19Param
	c19Shared
	c19UnknownOrigin
)

type c19Origin struct {
	kind int
	val  ssa.Value // the value in the traced function that denotes the object
	idx  int       // parameter index
	desc string
}

type c19Need struct {
	alts  []string // acceptable lock keys
	label string   // rendered guard name
}

func (n c19Need) key() string { return strings.Join(n.alts, "|") }

// c19Ev is one piece of evidence that an object is visible to other goroutines.
type c19Ev struct {
	why    string
	fn     *ssa.Function // where the shared origin / publication was found
	unsure bool          // untraceable origin
	entry  bool          // "no production caller supplies the object"
}

type c19Blame struct {
	fn    *ssa.Function
	instr ssa.Instruction // nil = "the use itself" (filled by the caller)
	ev    []c19Ev
}

type c19Finding struct {
	rule, construct, pos string
	fn                   *ssa.Function
	write, read          bool
	direct               bool
	swapObj              bool // every access is to SwapData / SwapStateMachine
	evs                  map[string]c19Ev
	witness              map[string]bool
	need                 c19Need
	extra                string
}

type c19An struct {
	c       *an.Check
	w       *an.World
	e       *c18Engine
	byField map[*types.Named]map[string]*c19Guard
	entryMu map[*ssa.Function]c18Set
	ssm     *types.Named

	pubMemo     map[string]int // publishes(g,j): 0 unknown,1 no,2 yes,3 in progress
	retMemo     map[string][]c19Origin
	retBusy     map[string]bool
	sharedMemo  map[string][]c19Ev
	sharedBusy  map[string]bool
	needMemo    map[string][]c19Blame
	needBusy    map[string]bool
	alongMemo   map[string]bool
	alongBusy   map[string]bool
	liveWritten map[string]bool
	findings    map[string]*c19Finding
	fieldStores map[string][]*ssa.Store
	fieldLive   map[string]int
	rootMemo    map[*ssa.Function][]string
	goTarget    map[*ssa.Function]bool
}

func runC19(c *an.Check) {
	c.Rule("C19.R1", "every read/write of a field of the guarded-by table happens with its guard held locally or by all synchronous callers, unless the object is provably unpublished; one obligation per (function, field or callee, guard) where the lock is missing, one discharged obligation per (type.field)")
	c.Rule("C19.R1ref", "reference escape (part of R1): a map, slice or pointer loaded from a guarded field is only used (ranged over, indexed, looked up, updated, dereferenced) with the guard held - following the value through locals, phis, closures, parameters and results - unless the use cannot race: element reads of a slice that nobody writes in place (a header copy is a snapshot), reads of a map nobody mutates, reads of struct fields that have no writer after publication")
	c.Rule("C19.R3", "unguarded shared object: a struct, map or slice that is reachable from a long-lived object (loaded from a struct field, or passed down from such a load) and is written after publication by code that two or more goroutine roots (go statements, library call-backs, entry points without production caller) can reach must be written with a lock held; a write with no lock held at all (not locally, not by every caller) is a violation - writes on a fresh object (constructor, per-call copy) are exempt")
	c.Rule("C19.R2", "every function that stores to a SwapData field is a constructor (fresh object), holds the per-swap mutex, or is only run by callers that hold it")
	w := c.W
	e := c18Get(w)
	if !e.reportEngine(c, "C19.R1") {
		return
	}
	a := c19New(c, e)
	if !a.resolveTable() {
		return
	}
	a.entrySets()
	accs := a.accesses()

	// vacuity: every table row has accesses, and the frozen totals
	perRow := map[*c19Guard]int{}
	for _, x := range accs {
		perRow[x.g]++
	}
	for i := range c19Table {
		g := &c19Table[i]
		c.AtLeast("C19.R1", fmt.Sprintf("accesses of %s.%s{%s}", g.rel, g.typ, strings.Join(g.fields, ",")), perRow[g], 2)
	}
	c.AtLeast("C19.R1", "accesses of tabled fields", len(accs), 400)
	c.Extra["tabled_accesses"] = len(accs)

	// pass 1: which fields are written after publication (reads of the others cannot race)
	for _, x := range accs {
		if !x.write {
			continue
		}
		if len(a.sharedAt(x.fn, x.instr, x.base)) > 0 {
			a.liveWritten[x.field] = true
			if strings.HasSuffix(x.field, ".*") {
				a.liveWritten[strings.TrimSuffix(x.field, "*")] = true // prefix marker
			}
		}
	}

	// pass 2: judge every access
	type judged struct {
		x    *c19Access
		keys []string
	}
	var js []judged
	var exempt []string
	for _, x := range accs {
		if !x.write && !a.isLiveWritten(x.field) {
			js = append(js, judged{x: x})
			continue
		}
		var needs []c19Need
		if x.write {
			for _, k := range x.g.writeAll {
				needs = append(needs, c19Need{alts: []string{k}, label: k})
			}
		} else {
			needs = []c19Need{{alts: x.g.readAny, label: strings.Join(x.g.readAny, " or ")}}
		}
		j := judged{x: x}
		for _, n := range needs {
			held := a.satisfied(x.fn, x.instr, n)
			bl := a.useAt(x.fn, x.instr, x.base, n)
			if !held && len(bl) == 0 {
				exempt = append(exempt, fmt.Sprintf("%s %s [%s]", w.FuncName(x.fn), x.field, w.Pos(x.instr.Pos())))
			}
			for _, b := range bl {
				j.keys = append(j.keys, a.record(x, n, b))
			}
		}
		js = append(js, j)
	}
	sort.Strings(exempt)
	c.Extra["exempt_unpublished_object"] = exempt
	perField := map[string][2]int{} // field -> {accesses, guarded-or-exempt}
	for _, j := range js {
		cnt := perField[j.x.field]
		cnt[0]++
		clean := true
		for _, k := range j.keys {
			if v := a.classify(a.findings[k]); v == "bad" || v == "unknown" {
				clean = false
			}
		}
		if clean {
			cnt[1]++
		}
		perField[j.x.field] = cnt
	}

	// reference escape: uses of a loaded map/slice/pointer after the guard was released
	a.refEscape(accs)

	// emit
	for _, k := range sortedFindingKeys(a.findings) {
		f := a.findings[k]
		detail := a.renderFinding(f)
		switch a.classify(f) {
		case "bad":
			if a.unsureFn(f.fn) {
				c.Unknown(f.rule, f.construct, f.pos, "the lock state of this function contains an unsupported shape, so the missing guard is not established; "+detail)
				continue
			}
			c.Bad(f.rule, f.construct, f.pos, detail, sortedKeys(f.witness)...)
		case "info":
			c.Note(f.rule, f.construct, f.pos, "info, not decided (read of a live swap machine by code outside package swap): "+detail)
		case "unknown":
			c.Unknown(f.rule, f.construct, f.pos, "cannot trace where the accessed object comes from; "+detail)
		default:
			c.Note(f.rule, f.construct, f.pos, "not decided (no production caller supplies the object): "+detail)
		}
	}
	fields := make([]string, 0, len(perField))
	for f := range perField {
		fields = append(fields, f)
	}
	sort.Strings(fields)
	for _, f := range fields {
		cnt := perField[f]
		if cnt[0] == cnt[1] {
			c.OK("C19.R1", f, "-", fmt.Sprintf("%d access(es), all guarded, exempt (unpublished object) or reads of a field never written after publication", cnt[0]))
		}
	}

	a.ruleR2(accs)
	a.ruleR3()
	a.staleWriteBacks("C19.R1", accs, nil)
}

// unsureFn: the engine could not fully interpret the lock operations of fn.
func (a *c19An) unsureFn(fn *ssa.Function) bool {
	for _, u := range a.e.unknown {
		if u.fn == fn && u.state {
			return true
		}
	}
	return false
}

func sortedFindingKeys(m map[string]*c19Finding) []string {
	out := make([]string, 0, len(m))
	for k := range m {
		out = append(out, k)
	}
	sort.Strings(out)
	return out
}

func (a *c19An) isLiveWritten(field string) bool {
	if a.liveWritten[field] {
		return true
	}
	// a whole-struct write ("T.*") makes every field of T live
	if i := strings.LastIndex(field, "."); i >= 0 {
		if a.liveWritten[field[:i+1]+"*"] {
			return true
		}
		if strings.HasSuffix(field, ".*") {
			for k := range a.liveWritten {
				if strings.HasPrefix(k, field[:i+1]) {
					return true
				}
			}
		}
	}
	return false
}

// resolveTable binds the table to the loaded types; anything that does not
// resolve is an unresolved anchor.
func (a *c19An) resolveTable() bool {
	ok := true
	classes := map[string]bool{}
	for _, fn := range a.e.funcs {
		for _, q := range a.e.fi[fn].acqs {
			classes[q.class] = true
		}
	}
	for i := range c19Table {
		g := &c19Table[i]
		n := a.w.Named(g.rel, g.typ)
		if n == nil {
			a.c.Anchor("C19 guard table: type %s.%s does not resolve", g.rel, g.typ)
			ok = false
			continue
		}
		st, isStruct := n.Underlying().(*types.Struct)
		if !isStruct {
			a.c.Anchor("C19 guard table: %s.%s is not a struct", g.rel, g.typ)
			ok = false
			continue
		}
		if a.byField[n] == nil {
			a.byField[n] = map[string]*c19Guard{}
		}
		for _, f := range g.fields {
			if f == "*" {
				for j := 0; j < st.NumFields(); j++ {
					a.byField[n][st.Field(j).Name()] = g
				}
				continue
			}
			found := false
			for j := 0; j < st.NumFields(); j++ {
				if st.Field(j).Name() == f {
					found = true
				}
			}
			if !found {
				a.c.Anchor("C19 guard table: field %s.%s.%s does not exist", g.rel, g.typ, f)
				ok = false
			}
			a.byField[n][f] = g
		}
		for _, k := range append(append([]string{}, g.writeAll...), g.readAny...) {
			if !classes[c18Base(k)] {
				a.c.Anchor("C19 guard table: lock class %s is never acquired in production code", k)
				ok = false
			}
		}
	}
	a.ssm = a.w.Named("swap", c19OwnerType)
	if a.ssm == nil {
		a.c.Anchor("C19: swap.%s does not resolve", c19OwnerType)
		return false
	}
	for name := range c19PrivateSources {
		if !ifaceMethodExists(a.w, name) {
			a.c.Anchor("C19: private source %s does not resolve", name)
			ok = false
		}
	}
	return ok
}

// entrySets computes the locks held by all / by some synchronous callers.
func (a *c19An) entrySets() {
	a.entryMu = a.e.EntryMust()
}

func c19HasAny(set c18Set, alts []string) bool {
	for _, k := range alts {
		if set[k] {
			return true
		}
	}
	return false
}

// satisfied: the need is met at instruction in of fn: the guard is held
// locally, or by every caller and not released again by fn before in.
func (a *c19An) satisfied(fn *ssa.Function, in ssa.Instruction, n c19Need) bool {
	var must, rel c18Set
	if in != nil {
		must, _ = a.e.HeldAt(in)
		rel = a.e.ReleasedAt(in)
		if d, ok := in.(*ssa.Defer); ok {
			// a deferred call runs at function exit
			for _, s := range a.e.fi[fn].sites {
				if s.instr == d {
					must, rel = s.must, s.relMay
				}
			}
		}
		if c19HasAny(must, n.alts) {
			return true
		}
	}
	for _, k := range n.alts {
		if a.entryMu[fn][k] && !rel[k] {
			return true
		}
	}
	return false
}

// siteInherits: at call site s the guard is held by all callers of s.fn and
// s.fn has not released it before the call.
func (a *c19An) siteInherits(s *c18Site, n c19Need) bool {
	for _, k := range n.alts {
		if a.entryMu[s.fn][k] && !s.relMay[k] {
			return true
		}
	}
	return false
}

// entryHolds: every caller holds the guard when fn starts (fn may release it later).
func (a *c19An) entryHolds(fn *ssa.Function, n c19Need) bool {
	return c19HasAny(a.entryMu[fn], n.alts)
}

// heldAlong: on some call chain through which the object flows as a
// parameter into parameter i of fn, the guard is held (the "caller holds the
// lock" convention, e.g. SendEvent -> Action.Execute -> SwapData helpers). A
// lock held far up a chain that does not pass the object down (a watcher that
// calls back under its own lock) does not count.
func (a *c19An) heldAlong(fn *ssa.Function, i int, n c19Need) bool {
	key := fmt.Sprintf("%p/%d/%s", fn, i, n.key())
	if v, ok := a.alongMemo[key]; ok {
		return v
	}
	if a.alongBusy[key] {
		return false
	}
	a.alongBusy[key] = true
	defer delete(a.alongBusy, key)
	res := false
	if c19HasAny(a.entryMu[fn], n.alts) {
		res = true
	}
	for _, s := range a.e.callers[fn] {
		if res {
			break
		}
		if s.isGo || s.pseudo {
			continue
		}
		av := c19ArgFor(s.instr, fn, i)
		if av == nil {
			continue
		}
		if c19HasAny(s.must, n.alts) || a.siteInherits(s, n) {
			res = true
			break
		}
		for _, o := range a.trace(s.fn, av) {
			if o.kind == c19Param && a.heldAlong(s.fn, o.idx, n) {
				res = true
				break
			}
		}
	}
	a.alongMemo[key] = res
	return res
}

// ---- access collection ------------------------------------------------------

func (a *c19An) accesses() []*c19Access {
	var out []*c19Access
	for _, fn := range a.e.funcs {
		fi := a.e.fi[fn]
		for _, b := range fn.Blocks {
			if fi.in[b] == nil || !fi.in[b].reached {
				continue
			}
			for _, in := range b.Instrs {
				switch x := in.(type) {
				case *ssa.FieldAddr:
					owner := an.NamedOf(x.X.Type())
					if owner == nil || a.byField[owner] == nil {
						continue
					}
					st, _ := owner.Underlying().(*types.Struct)
					if st == nil || x.Field >= st.NumFields() {
						continue
					}
					fname := st.Field(x.Field).Name()
					g := a.byField[owner][fname]
					if g == nil {
						continue
					}
					label := owner.Obj().Name() + "." + fname
					if x.Referrers() == nil {
						continue
					}
					for _, r := range *x.Referrers() {
						switch y := r.(type) {
						case *ssa.Store:
							if y.Addr == x {
								out = append(out, &c19Access{fn, y, x.X, g, owner, label, true})
							}
						case *ssa.UnOp:
							if y.Op != token.MUL {
								continue
							}
							out = append(out, &c19Access{fn, y, x.X, g, owner, label, c19MutatedThrough(y)})
						case *ssa.DebugRef:
						default:
							// the address of the field escapes (passed on, sliced, ...): a potential write
							if ri, ok := r.(ssa.Instruction); ok {
								out = append(out, &c19Access{fn, ri, x.X, g, owner, label, true})
							}
						}
					}
				case *ssa.Store:
					// whole-struct overwrite *p = v
					owner := c19PtrToTabled(x.Addr.Type(), a.byField)
					if owner == nil {
						continue
					}
					if _, isFA := x.Addr.(*ssa.FieldAddr); isFA {
						continue
					}
					if g := a.anyGuard(owner); g != nil {
						out = append(out, &c19Access{fn, x, x.Addr, g, owner, owner.Obj().Name() + ".*", true})
					}
				case *ssa.UnOp:
					if x.Op != token.MUL {
						continue
					}
					owner := c19PtrToTabled(x.X.Type(), a.byField)
					if owner == nil {
						continue
					}
					if _, isFA := x.X.(*ssa.FieldAddr); isFA {
						continue
					}
					if g := a.anyGuard(owner); g != nil {
						out = append(out, &c19Access{fn, x, x.X, g, owner, owner.Obj().Name() + ".*", false})
					}
				}
			}
		}
	}
	return out
}

func (a *c19An) anyGuard(owner *types.Named) *c19Guard {
	names := make([]string, 0)
	for f := range a.byField[owner] {
		names = append(names, f)
	}
	sort.Strings(names)
	if len(names) == 0 {
		return nil
	}
	return a.byField[owner][names[0]]
}

// c19PtrToTabled: t is *N (not **N) with N a tabled struct.
func c19PtrToTabled(t types.Type, tab map[*types.Named]map[string]*c19Guard) *types.Named {
	p, ok := t.Underlying().(*types.Pointer)
	if !ok {
		return nil
	}
	n, ok := p.Elem().(*types.Named)
	if !ok || tab[n] == nil {
		return nil
	}
	return n
}

// c19MutatedThrough: the loaded map/slice value is updated in place.
func c19MutatedThrough(ld *ssa.UnOp) bool {
	if ld.Referrers() == nil {
		return false
	}
	for _, r := range *ld.Referrers() {
		switch y := r.(type) {
		case *ssa.MapUpdate:
			if y.Map == ld {
				return true
			}
		case *ssa.Call:
			if b, ok := y.Call.Value.(*ssa.Builtin); ok && (b.Name() == "delete" || b.Name() == "clear") && len(y.Call.Args) > 0 && y.Call.Args[0] == ld {
				return true
			}
		case *ssa.IndexAddr:
			if y.X == ld && y.Referrers() != nil {
				for _, rr := range *y.Referrers() {
					if st, ok := rr.(*ssa.Store); ok && st.Addr == y {
						return true
					}
				}
			}
		}
	}
	return false
}

// ---- provenance ----------------------------------------------------------------

func c19ParamIndex(fn *ssa.Function, p *ssa.Parameter) int {
	for i, q := range fn.Params {
		if q == p {
			return i
		}
	}
	return -1
}

// trace lists where the object denoted by pointer value v (in fn) comes from.
func (a *c19An) trace(fn *ssa.Function, v ssa.Value) []c19Origin {
	var out []c19Origin
	seen := map[ssa.Value]bool{}
	var rec func(v ssa.Value, depth int)
	add := func(o c19Origin) { out = append(out, o) }
	rec = func(v ssa.Value, depth int) {
		if v == nil || seen[v] {
			return
		}
		if depth > 60 {
			add(c19Origin{kind: c19UnknownOrigin, val: v, desc: "value chain too deep"})
			return
		}
		seen[v] = true
		switch x := v.(type) {
		case *ssa.Parameter:
			add(c19Origin{kind: c19Param, val: x, idx: c19ParamIndex(fn, x)})
		case *ssa.FreeVar:
			add(c19Origin{kind: c19Shared, val: x, desc: "captured variable " + x.Name()})
		case *ssa.Alloc:
			if _, isArr := c18Deref(x.Type()).Underlying().(*types.Array); isArr {
				// a local array (e.g. the backing store of a literal slice): its elements
				a.elemStores(x, func(v ssa.Value) { rec(v, depth+1) })
				return
			}
			add(c19Origin{kind: c19Fresh, val: x})
		case *ssa.MakeMap:
			if x.Referrers() != nil {
				for _, r := range *x.Referrers() {
					if mu, ok := r.(*ssa.MapUpdate); ok && mu.Map == x {
						rec(mu.Value, depth+1)
					}
				}
			}
		case *ssa.MakeSlice:
			a.elemStores(x, func(v ssa.Value) { rec(v, depth+1) })
		case *ssa.Const:
		case *ssa.Global:
			add(c19Origin{kind: c19Shared, val: x, desc: "package variable " + x.Name()})
		case *ssa.Phi:
			for _, ed := range x.Edges {
				rec(ed, depth+1)
			}
		case *ssa.ChangeType:
			rec(x.X, depth+1)
		case *ssa.ChangeInterface:
			rec(x.X, depth+1)
		case *ssa.MakeInterface:
			rec(x.X, depth+1)
		case *ssa.Convert:
			rec(x.X, depth+1)
		case *ssa.TypeAssert:
			rec(x.X, depth+1)
		case *ssa.Extract:
			if call, ok := x.Tuple.(*ssa.Call); ok {
				a.callResult(fn, call, x.Index, rec, add, depth)
			} else {
				rec(x.Tuple, depth+1)
			}
		case *ssa.Next:
			rec(x.Iter, depth+1)
		case *ssa.Range:
			rec(x.X, depth+1)
		case *ssa.Lookup:
			rec(x.X, depth+1)
		case *ssa.Index:
			rec(x.X, depth+1)
		case *ssa.IndexAddr:
			rec(x.X, depth+1)
		case *ssa.Slice:
			rec(x.X, depth+1)
		case *ssa.FieldAddr:
			rec(x.X, depth+1) // address of a part of the same object
		case *ssa.Field:
			rec(x.X, depth+1)
		case *ssa.Call:
			a.callResult(fn, x, 0, rec, add, depth)
		case *ssa.UnOp:
			if x.Op != token.MUL {
				add(c19Origin{kind: c19UnknownOrigin, val: x, desc: "computed value"})
				return
			}
			switch ad := x.X.(type) {
			case *ssa.FieldAddr:
				if owner := an.NamedOf(ad.X.Type()); owner == a.ssm && an.FieldName(ad.X.Type(), ad.Field) == c19OwnerType+"."+c19OwnerField {
					rec(ad.X, depth+1) // the machine owns its Data
					return
				}
				if local, ok := ad.X.(*ssa.Alloc); ok {
					// a field of a local struct variable: what was stored into that field
					n := 0
					if local.Referrers() != nil {
						for _, r := range *local.Referrers() {
							if fa2, ok := r.(*ssa.FieldAddr); ok && fa2.Field == ad.Field && fa2.Referrers() != nil {
								for _, rr := range *fa2.Referrers() {
									if st, ok := rr.(*ssa.Store); ok && st.Addr == fa2 {
										n++
										rec(st.Val, depth+1)
									}
								}
							}
						}
					}
					if n > 0 {
						return
					}
				}
				add(c19Origin{kind: c19Shared, val: x, desc: "loaded from field " + an.FieldName(ad.X.Type(), ad.Field)})
			case *ssa.Alloc:
				// a local variable cell: what was stored into it
				n := 0
				if ad.Referrers() != nil {
					for _, r := range *ad.Referrers() {
						switch y := r.(type) {
						case *ssa.Store:
							if y.Addr == ad {
								n++
								rec(y.Val, depth+1)
							}
						case *ssa.UnOp, *ssa.DebugRef:
						default:
							n++
							add(c19Origin{kind: c19UnknownOrigin, val: x, desc: "variable whose address is passed on"})
						}
					}
				}
				if n == 0 {
					add(c19Origin{kind: c19UnknownOrigin, val: x, desc: "variable never assigned"})
				}
			case *ssa.Global:
				add(c19Origin{kind: c19Shared, val: x, desc: "package variable " + ad.Name()})
			case *ssa.IndexAddr:
				rec(ad.X, depth+1)
			case *ssa.FreeVar:
				add(c19Origin{kind: c19Shared, val: x, desc: "captured variable " + ad.Name()})
			default:
				add(c19Origin{kind: c19UnknownOrigin, val: x, desc: fmt.Sprintf("loaded through %T", x.X)})
			}
		default:
			add(c19Origin{kind: c19UnknownOrigin, val: v, desc: fmt.Sprintf("%T", v)})
		}
	}
	rec(v, 0)
	return out
}

// elemStores visits the values stored into the elements of a local array / slice.
func (a *c19An) elemStores(c ssa.Value, visit func(ssa.Value)) {
	if c.Referrers() == nil {
		return
	}
	for _, r := range *c.Referrers() {
		switch y := r.(type) {
		case *ssa.IndexAddr:
			if y.X != c || y.Referrers() == nil {
				continue
			}
			for _, rr := range *y.Referrers() {
				if st, ok := rr.(*ssa.Store); ok && st.Addr == y {
					visit(st.Val)
				}
			}
		case *ssa.Slice:
			if y.X == c {
				a.elemStores(y, visit)
			}
		}
	}
}

// callResult resolves result #idx of a call to origins in the caller.
func (a *c19An) callResult(fn *ssa.Function, call *ssa.Call, idx int, rec func(ssa.Value, int), add func(c19Origin), depth int) {
	ci := a.w.Info(call)
	if _, ok := c19PrivateSources[ci.Name]; ok {
		add(c19Origin{kind: c19Fresh, val: call})
		return
	}
	if b, ok := call.Call.Value.(*ssa.Builtin); ok {
		if b.Name() == "append" {
			for _, x := range call.Call.Args {
				rec(x, depth+1)
			}
			return
		}
		add(c19Origin{kind: c19UnknownOrigin, val: call, desc: "builtin " + b.Name()})
		return
	}
	callees := a.calleesOf(call)
	if len(callees) == 0 {
		add(c19Origin{kind: c19UnknownOrigin, val: call, desc: "result of " + ci.Name + " (no analysable callee)"})
		return
	}
	for _, g := range callees {
		for _, o := range a.retOrigins(g, idx) {
			switch o.kind {
			case c19Fresh:
				add(c19Origin{kind: c19Fresh, val: call})
			case c19Param:
				if av := c19ArgFor(call, g, o.idx); av != nil {
					rec(av, depth+1)
				} else {
					add(c19Origin{kind: c19UnknownOrigin, val: call, desc: "unmapped argument"})
				}
			default:
				add(c19Origin{kind: o.kind, val: call, desc: o.desc + " (returned by " + a.w.FuncName(g) + ")"})
			}
		}
	}
}

func (a *c19An) calleesOf(c ssa.CallInstruction) []*ssa.Function {
	out := append([]*ssa.Function{}, a.e.callees[c]...)
	if f := c.Common().StaticCallee(); f != nil && a.e.in[f] {
		dup := false
		for _, g := range out {
			if g == f {
				dup = true
			}
		}
		if !dup {
			out = append(out, f)
		}
	}
	return out
}

// c19ArgFor maps parameter i of callee g to the argument at the call.
func c19ArgFor(c ssa.CallInstruction, g *ssa.Function, i int) ssa.Value {
	cc := c.Common()
	if i < 0 {
		return nil
	}
	if cc.IsInvoke() {
		if i == 0 {
			return cc.Value
		}
		if i-1 < len(cc.Args) {
			return cc.Args[i-1]
		}
		return nil
	}
	if len(g.Params) != len(cc.Args) {
		return nil
	}
	if i < len(cc.Args) {
		return cc.Args[i]
	}
	return nil
}

// retOrigins: origins of result #idx of g, in terms of g (params stay params).
func (a *c19An) retOrigins(g *ssa.Function, idx int) []c19Origin {
	key := fmt.Sprintf("%p/%d", g, idx)
	if r, ok := a.retMemo[key]; ok {
		return r
	}
	if a.retBusy[key] {
		return nil
	}
	a.retBusy[key] = true
	defer delete(a.retBusy, key)
	var out []c19Origin
	for _, r := range an.Returns(g) {
		if idx >= len(r.Results) {
			continue
		}
		for _, o := range a.trace(g, r.Results[idx]) {
			if (o.kind == c19Fresh || o.kind == c19Param) && a.publishedBefore(g, o.val, r) {
				o = c19Origin{kind: c19Shared, val: o.val, desc: "published inside " + a.w.FuncName(g)}
			}
			out = append(out, o)
		}
	}
	a.retMemo[key] = out
	return out
}

// aliases: SSA values of fn that denote the same object as root (or a part /
// the owned Data of it), following phis, conversions, local variable cells and
// calls that return their argument.
func (a *c19An) aliases(fn *ssa.Function, root ssa.Value) map[ssa.Value]bool {
	al := map[ssa.Value]bool{root: true}
	work := []ssa.Value{root}
	push := func(v ssa.Value) {
		if v != nil && !al[v] {
			al[v] = true
			work = append(work, v)
		}
	}
	for len(work) > 0 {
		v := work[len(work)-1]
		work = work[:len(work)-1]
		if v.Referrers() == nil {
			continue
		}
		for _, r := range *v.Referrers() {
			switch y := r.(type) {
			case *ssa.Phi:
				push(y)
			case *ssa.ChangeType:
				push(y)
			case *ssa.ChangeInterface:
				push(y)
			case *ssa.MakeInterface:
				push(y)
			case *ssa.TypeAssert:
				push(y)
			case *ssa.Extract:
				if _, isCall := y.Tuple.(*ssa.Call); !isCall {
					push(y)
				}
			case *ssa.Store:
				if cell, ok := y.Addr.(*ssa.Alloc); ok && y.Val == v && cell.Referrers() != nil {
					for _, lr := range *cell.Referrers() {
						if ld, ok := lr.(*ssa.UnOp); ok && ld.Op == token.MUL {
							push(ld)
						}
					}
				}
			case *ssa.Call:
				// identity-returning callee
				for _, g := range a.calleesOf(y) {
					for ri := 0; ri < g.Signature.Results().Len(); ri++ {
						for _, o := range a.retOrigins(g, ri) {
							if o.kind != c19Param {
								continue
							}
							if av := c19ArgFor(y, g, o.idx); av == v {
								if g.Signature.Results().Len() == 1 {
									push(y)
								} else if y.Referrers() != nil {
									for _, er := range *y.Referrers() {
										if ex, ok := er.(*ssa.Extract); ok && ex.Index == ri {
											push(ex)
										}
									}
								}
							}
						}
					}
				}
			}
		}
	}
	return al
}

// publishers lists the instructions of fn that make the object (root) visible
// to other goroutines.
func (a *c19An) publishers(fn *ssa.Function, root ssa.Value) []ssa.Instruction {
	al := a.aliases(fn, root)
	var out []ssa.Instruction
	seenI := map[ssa.Instruction]bool{}
	add := func(in ssa.Instruction) {
		if !seenI[in] {
			seenI[in] = true
			out = append(out, in)
		}
	}
	for v := range al {
		if v.Referrers() == nil {
			continue
		}
		for _, r := range *v.Referrers() {
			switch y := r.(type) {
			case *ssa.Store:
				if y.Val != v {
					continue
				}
				if _, local := y.Addr.(*ssa.Alloc); local {
					continue
				}
				// storing into a structure that is itself still private does not publish
				if a.privateTarget(fn, y.Addr, y) {
					continue
				}
				add(y)
			case *ssa.MapUpdate:
				if y.Value == v || y.Key == v {
					if !a.privateTarget(fn, y.Map, y) {
						add(y)
					}
				}
			case *ssa.Send:
				if y.X == v {
					add(y)
				}
			case *ssa.MakeClosure:
				add(y)
			case *ssa.Go:
				add(y)
			case *ssa.Call:
				if a.callPublishes(y, v) {
					add(y)
				}
			case *ssa.Defer:
				if a.callPublishes(y, v) {
					add(y)
				}
			}
		}
	}
	return out
}

// privateTarget: the memory written at addr belongs to an object that is fresh
// in fn and not published before instruction at.
func (a *c19An) privateTarget(fn *ssa.Function, addr ssa.Value, at ssa.Instruction) bool {
	base := addr
	for {
		switch x := base.(type) {
		case *ssa.FieldAddr:
			base = x.X
			continue
		case *ssa.IndexAddr:
			base = x.X
			continue
		}
		break
	}
	if _, ok := base.(*ssa.Alloc); ok {
		// do not recurse through publishedBefore for the container: one level is enough for constructors
		return true
	}
	return false
}

func (a *c19An) callPublishes(c ssa.CallInstruction, v ssa.Value) bool {
	cc := c.Common()
	for _, g := range a.calleesOf(c) {
		for i := range g.Params {
			if av := c19ArgFor(c, g, i); av == v && a.publishes(g, i) {
				return true
			}
		}
	}
	_ = cc
	return false
}

// publishes: g makes its parameter i visible to other goroutines.
func (a *c19An) publishes(g *ssa.Function, i int) bool {
	key := fmt.Sprintf("%p/%d", g, i)
	switch a.pubMemo[key] {
	case 1, 3:
		return false
	case 2:
		return true
	}
	a.pubMemo[key] = 3
	res := 1
	if i < len(g.Params) && len(a.publishers(g, g.Params[i])) > 0 {
		res = 2
	}
	a.pubMemo[key] = res
	return res == 2
}

func c19Reaches(from, to ssa.Instruction) bool {
	if from.Block() == to.Block() && an.InstrIndex(from) < an.InstrIndex(to) {
		return true
	}
	return an.ReachBlocks(from.Block().Succs, nil, nil)[to.Block()]
}

// publishedBefore: the object denoted by root may already be shared when
// instruction at executes.
func (a *c19An) publishedBefore(fn *ssa.Function, root ssa.Value, at ssa.Instruction) bool {
	for _, p := range a.publishers(fn, root) {
		if p == at {
			continue
		}
		if c19Reaches(p, at) {
			return true
		}
	}
	return false
}

func c19AddEv(dst []c19Ev, evs ...c19Ev) []c19Ev {
	for _, e := range evs {
		dup := false
		for _, d := range dst {
			if d.why == e.why && d.fn == e.fn {
				dup = true
			}
		}
		if !dup && len(dst) < 12 {
			dst = append(dst, e)
		}
	}
	return dst
}

// sharedAt: can the object v (used at instruction at of fn) be visible to
// another goroutine? Locks are ignored here. Returns the evidence (empty =
// provably private).
func (a *c19An) sharedAt(fn *ssa.Function, at ssa.Instruction, v ssa.Value) []c19Ev {
	var out []c19Ev
	for _, o := range a.trace(fn, v) {
		if o.kind != c19Shared && o.kind != c19UnknownOrigin && a.publishedBefore(fn, o.val, at) {
			out = c19AddEv(out, c19Ev{why: "the object was stored into shared memory / handed to a goroutine earlier in " + a.w.FuncName(fn), fn: fn})
			continue
		}
		switch o.kind {
		case c19Fresh:
		case c19Param:
			out = c19AddEv(out, a.sharedReaches(fn, o.idx)...)
		case c19Shared:
			out = c19AddEv(out, c19Ev{why: o.desc + " in " + a.w.FuncName(fn), fn: fn})
		case c19UnknownOrigin:
			out = c19AddEv(out, c19Ev{why: "untraceable origin (" + o.desc + ") in " + a.w.FuncName(fn), fn: fn, unsure: true})
		}
	}
	return out
}

// sharedReaches: some caller passes a possibly shared object as parameter i of fn.
func (a *c19An) sharedReaches(fn *ssa.Function, i int) []c19Ev {
	key := fmt.Sprintf("%p/%d", fn, i)
	if r, ok := a.sharedMemo[key]; ok {
		return r
	}
	if a.sharedBusy[key] {
		return nil
	}
	a.sharedBusy[key] = true
	defer delete(a.sharedBusy, key)
	var out []c19Ev
	sites := a.e.callers[fn]
	if len(sites) == 0 {
		out = c19AddEv(out, c19Ev{why: a.w.FuncName(fn) + " has no production caller (entry point or reflection)", fn: fn, entry: true})
	}
	for _, s := range sites {
		av := c19ArgFor(s.instr, fn, i)
		if s.pseudo || av == nil {
			out = c19AddEv(out, c19Ev{why: "called back by library code from " + a.w.FuncName(s.fn), fn: s.fn, unsure: true})
			continue
		}
		out = c19AddEv(out, a.sharedAt(s.fn, s.instr, av)...)
	}
	a.sharedMemo[key] = out
	return out
}

// ---- judging ---------------------------------------------------------------------

// useAt: the object v is used (accessed, or passed to a callee that needs the
// guard) at instruction at of fn. Returns where the lock is missing.
func (a *c19An) useAt(fn *ssa.Function, at ssa.Instruction, v ssa.Value, n c19Need) []c19Blame {
	if a.satisfied(fn, at, n) {
		return nil
	}
	var out []c19Blame
	for _, o := range a.trace(fn, v) {
		if o.kind != c19Shared && o.kind != c19UnknownOrigin && a.publishedBefore(fn, o.val, at) {
			out = append(out, a.blameHere(fn, at, n, c19Ev{why: "the object was stored into shared memory / handed to a goroutine earlier in " + a.w.FuncName(fn), fn: fn})...)
			continue
		}
		switch o.kind {
		case c19Fresh:
		case c19Param:
			if a.entryHolds(fn, n) {
				// every caller holds the guard, but fn itself released it before this use
				if ev := a.sharedReaches(fn, o.idx); len(ev) > 0 {
					out = append(out, c19Blame{fn: fn, instr: at, ev: c19AddEv([]c19Ev{{why: a.w.FuncName(fn) + " releases the caller's lock before this use", fn: fn}}, ev...)})
				}
				continue
			}
			for _, b := range a.paramNeed(fn, o.idx, n) {
				if b.instr == nil && b.fn == fn {
					b.instr = at
				}
				out = append(out, b)
			}
		case c19Shared:
			out = append(out, a.blameHere(fn, at, n, c19Ev{why: o.desc + " in " + a.w.FuncName(fn), fn: fn})...)
		case c19UnknownOrigin:
			out = append(out, a.blameHere(fn, at, n, c19Ev{why: "untraceable origin (" + o.desc + ") in " + a.w.FuncName(fn), fn: fn, unsure: true})...)
		}
	}
	return out
}

// blameHere: the use at (fn, at) is unguarded and the object was obtained
// from shared memory in fn itself: fn is where the lock is missing.
func (a *c19An) blameHere(fn *ssa.Function, at ssa.Instruction, n c19Need, ev c19Ev) []c19Blame {
	return []c19Blame{{fn: fn, instr: at, ev: []c19Ev{ev}}}
}

// paramNeed: fn uses the object passed as parameter i without the guard
// (the use instruction is filled in by the caller when the blame is fn itself).
func (a *c19An) paramNeed(fn *ssa.Function, i int, n c19Need) []c19Blame {
	if c19HasAny(a.entryMu[fn], n.alts) {
		return nil
	}
	key := fmt.Sprintf("%p/%d/%s", fn, i, n.key())
	if r, ok := a.needMemo[key]; ok {
		return r
	}
	if a.needBusy[key] {
		return nil
	}
	a.needBusy[key] = true
	defer delete(a.needBusy, key)
	var out []c19Blame
	if a.heldAlong(fn, i, n) {
		for _, s := range a.e.callers[fn] {
			av := c19ArgFor(s.instr, fn, i)
			if s.pseudo || av == nil {
				out = append(out, c19Blame{fn: s.fn, instr: s.instr, ev: []c19Ev{{why: "called back by library code", fn: s.fn, unsure: true}}})
				continue
			}
			if s.isGo {
				// the goroutine starts without locks: the use is the go statement
				if ev := a.sharedAt(s.fn, s.instr, av); len(ev) > 0 {
					out = append(out, c19Blame{fn: s.fn, instr: s.instr, ev: ev})
				}
				continue
			}
			out = append(out, a.useAt(s.fn, s.instr, av, n)...)
		}
	} else if ev := a.sharedReaches(fn, i); len(ev) > 0 {
		out = append(out, c19Blame{fn: fn, instr: nil, ev: ev})
	}
	a.needMemo[key] = out
	return out
}

// record files a finding for access x whose lock is missing at b.
func (a *c19An) record(x *c19Access, n c19Need, b c19Blame) string {
	w := a.w
	direct := b.fn == x.fn && b.instr == x.instr
	verb := "reads"
	if x.write {
		verb = "writes"
	}
	var construct string
	var pos token.Pos
	if direct {
		construct = fmt.Sprintf("%s %s %s without %s", w.FuncName(b.fn), verb, x.field, n.label)
		pos = x.instr.Pos()
	} else {
		name := "?"
		if ci, ok := b.instr.(ssa.CallInstruction); ok {
			name = w.Info(ci).Name
			if _, isGo := b.instr.(*ssa.Go); isGo {
				name = "go " + name
			}
		}
		construct = fmt.Sprintf("%s calls %s without %s", w.FuncName(b.fn), name, n.label)
		if b.instr != nil {
			pos = b.instr.Pos()
		}
	}
	if !pos.IsValid() {
		pos = b.fn.Pos()
	}
	f := a.findings[construct]
	if f == nil {
		f = &c19Finding{rule: "C19.R1", construct: construct, pos: w.Pos(pos), fn: b.fn, direct: direct, swapObj: true, evs: map[string]c19Ev{}, witness: map[string]bool{}, need: n}
		a.findings[construct] = f
	}
	if x.write {
		f.write = true
	} else {
		f.read = true
	}
	if on := x.owner.Obj().Name(); on != "SwapData" && on != c19OwnerType {
		f.swapObj = false
	}
	for _, ev := range b.ev {
		f.evs[ev.why] = ev
	}
	f.witness[fmt.Sprintf("%s %s %s [%s]", w.FuncName(x.fn), verb, x.field, w.Pos(x.instr.Pos()))] = true
	return construct
}

// classify turns the evidence of a finding into a verdict.
func (a *c19An) classify(f *c19Finding) string {
	definite, inSwap, unsure := 0, false, false
	for _, ev := range f.evs {
		switch {
		case ev.unsure:
			unsure = true
		case ev.entry:
		default:
			definite++
			if rel, _ := a.e.rel(ev.fn); rel == "swap" {
				inSwap = true
			}
		}
	}
	switch {
	case definite > 0:
		// read-side races of presentation code on a live machine are info (DESIGN C19, not decided)
		if !f.write && f.swapObj && !inSwap {
			return "info"
		}
		return "bad"
	case unsure:
		return "unknown"
	}
	return "note"
}

func (a *c19An) renderFinding(f *c19Finding) string {
	kinds := []string{}
	if f.write {
		kinds = append(kinds, "write")
	}
	if f.read {
		kinds = append(kinds, "read")
	}
	wit := sortedKeys(f.witness)
	fields := map[string]bool{}
	for _, s := range wit {
		p := strings.Fields(s)
		if len(p) >= 3 {
			fields[p[2]] = true
		}
	}
	whys := map[string]bool{}
	for k := range f.evs {
		whys[k] = true
	}
	s := fmt.Sprintf("%s of a shared object with %s not held (not locally, not by all callers); the object is shared: %s", strings.Join(kinds, "+"), f.need.label, strings.Join(c19Limit(sortedKeys(whys), 4), " / "))
	if f.extra != "" {
		s = f.extra + "; " + s
	}
	if !f.direct {
		s += fmt.Sprintf("; %d access(es) reached through this call touch %s", len(wit), strings.Join(c19Limit(sortedKeys(fields), 12), ", "))
	}
	return s
}

func c19Limit(s []string, n int) []string {
	if len(s) <= n {
		return s
	}
	return append(append([]string{}, s[:n]...), fmt.Sprintf("... (%d more)", len(s)-n))
}

// ---- R2 ------------------------------------------------------------------------------

func (a *c19An) ruleR2(accs []*c19Access) {
	c, w := a.c, a.w
	type wr struct {
		fn                    *ssa.Function
		n                     int
		fresh                 int
		local                 int
		caller                int
		moved, bad, undecided map[string]bool
		pos                   token.Pos
	}
	ws := map[*ssa.Function]*wr{}
	need := c19Need{alts: []string{c19SSMMutex}, label: c19SSMMutex}
	for _, x := range accs {
		if !x.write || x.owner.Obj().Name() != "SwapData" {
			continue
		}
		r := ws[x.fn]
		if r == nil {
			r = &wr{fn: x.fn, moved: map[string]bool{}, bad: map[string]bool{}, undecided: map[string]bool{}, pos: x.instr.Pos()}
			ws[x.fn] = r
		}
		r.n++
		must, _ := a.e.HeldAt(x.instr)
		switch {
		case c19HasAny(must, need.alts):
			r.local++
		case a.satisfied(x.fn, x.instr, need):
			r.caller++
		default:
			bl := a.useAt(x.fn, x.instr, x.base, need)
			if len(bl) == 0 {
				r.fresh++
			}
			for _, b := range bl {
				definite := false
				for _, ev := range b.ev {
					if !ev.unsure && !ev.entry {
						definite = true
					}
				}
				switch {
				case b.fn == x.fn && b.instr == x.instr && definite:
					r.bad[x.field] = true
				case b.fn == x.fn && b.instr == x.instr:
					r.undecided[x.field] = true
				default:
					r.moved[w.FuncName(b.fn)] = true
				}
			}
		}
	}
	var fns []*ssa.Function
	for f := range ws {
		fns = append(fns, f)
	}
	sort.Slice(fns, func(i, j int) bool { return fns[i].String() < fns[j].String() })
	c.AtLeast("C19.R2", "functions that store to SwapData fields", len(fns), 24)
	for _, f := range fns {
		r := ws[f]
		cons := w.FuncName(f) + " stores to SwapData"
		sum := fmt.Sprintf("%d store(s): %d on an unpublished object, %d under the mutex locally, %d with the mutex held by every caller", r.n, r.fresh, r.local, r.caller)
		switch {
		case len(r.bad) > 0 && a.unsureFn(f):
			c.Unknown("C19.R2", cons, w.Pos(r.pos), sum+"; the lock state of this function contains an unsupported shape")
		case len(r.bad) > 0:
			c.Bad("C19.R2", cons, w.Pos(r.pos), sum+"; stores "+strings.Join(sortedKeys(r.bad), ", ")+" on a published machine without "+c19SSMMutex+" and no caller holds it")
		case len(r.undecided) > 0:
			c.Note("C19.R2", cons, w.Pos(r.pos), sum+"; no production caller supplies the object for "+strings.Join(sortedKeys(r.undecided), ", ")+" (not decided)")
		case len(r.moved) > 0:
			c.OK("C19.R2", cons, w.Pos(r.pos), sum+"; runs under the mutex except when reached from "+strings.Join(sortedKeys(r.moved), ", ")+" (reported there by R1)")
		default:
			c.OK("C19.R2", cons, w.Pos(r.pos), sum)
		}
	}
}

// ---------------------------------------------------------------------------
// reference escape
// ---------------------------------------------------------------------------

type c19RefUse struct {
	fn      *ssa.Function
	instr   ssa.Instruction
	kind    string // "ranges over", "looks up in", "updates", "deletes from", "takes len of", "reads an element of", "writes an element of", "appends in place to", "copies into", "passes to <f>", "reads field T.f through", "writes field T.f through"
	write   bool
	inPlace bool         // an in-place element write (slices)
	mutate  bool         // a map mutation
	owner   *types.Named // for field uses
	fname   string
	pos     token.Pos // when the instruction itself has none
}

type c19RefItem struct {
	fn       *ssa.Function
	v        ssa.Value
	resliced bool
	depth    int
}

func c19IsRefType(t types.Type) bool {
	switch u := t.Underlying().(type) {
	case *types.Map, *types.Slice:
		return true
	case *types.Pointer:
		_, ok := u.Elem().Underlying().(*types.Struct)
		return ok
	}
	return false
}

// refUses follows the reference loaded by ld forward and lists its uses.
func (a *c19An) refUses(fn *ssa.Function, ld ssa.Value) []c19RefUse {
	var out []c19RefUse
	seen := map[ssa.Value]bool{}
	work := []c19RefItem{{fn: fn, v: ld}}
	push := func(it c19RefItem) {
		if it.v == nil || seen[it.v] || it.depth > 5 {
			return
		}
		if !c19IsRefType(it.v.Type()) {
			return
		}
		work = append(work, it)
	}
	loadsOf := func(f *ssa.Function, cell ssa.Value, it c19RefItem) {
		if cell.Referrers() == nil {
			return
		}
		for _, lr := range *cell.Referrers() {
			if l, ok := lr.(*ssa.UnOp); ok && l.Op == token.MUL {
				push(c19RefItem{fn: f, v: l, resliced: it.resliced, depth: it.depth})
			}
		}
	}
	for len(work) > 0 {
		it := work[len(work)-1]
		work = work[:len(work)-1]
		if seen[it.v] {
			continue
		}
		seen[it.v] = true
		refs := it.v.Referrers()
		if refs == nil {
			continue
		}
		_, isMap := it.v.Type().Underlying().(*types.Map)
		for _, r := range *refs {
			switch y := r.(type) {
			case *ssa.Phi:
				push(c19RefItem{fn: it.fn, v: y, resliced: it.resliced, depth: it.depth})
			case *ssa.ChangeType:
				push(c19RefItem{fn: it.fn, v: y, resliced: it.resliced, depth: it.depth})
			case *ssa.Slice:
				if y.X == it.v {
					push(c19RefItem{fn: it.fn, v: y, resliced: true, depth: it.depth})
				}
			case *ssa.Store:
				if y.Val != it.v {
					continue
				}
				cell, ok := y.Addr.(*ssa.Alloc)
				if !ok {
					continue // stored into other memory: not followed
				}
				loadsOf(it.fn, cell, it)
				if cell.Referrers() != nil {
					for _, cr := range *cell.Referrers() {
						if mc, ok := cr.(*ssa.MakeClosure); ok {
							if cf, ok := mc.Fn.(*ssa.Function); ok {
								for i, bv := range mc.Bindings {
									if bv == cell && i < len(cf.FreeVars) {
										loadsOf(cf, cf.FreeVars[i], it)
									}
								}
							}
						}
					}
				}
			case *ssa.MakeClosure:
				if cf, ok := y.Fn.(*ssa.Function); ok {
					for i, bv := range y.Bindings {
						if bv == it.v && i < len(cf.FreeVars) {
							push(c19RefItem{fn: cf, v: cf.FreeVars[i], resliced: it.resliced, depth: it.depth + 1})
						}
					}
				}
			case *ssa.Range:
				if y.X != it.v || y.Referrers() == nil {
					continue
				}
				for _, nr := range *y.Referrers() {
					nx, ok := nr.(*ssa.Next)
					if !ok {
						continue
					}
					out = append(out, c19RefUse{fn: it.fn, instr: nx, kind: "ranges over", pos: y.Pos()})
					if nx.Referrers() != nil {
						for _, er := range *nx.Referrers() {
							if ex, ok := er.(*ssa.Extract); ok && ex.Index == 2 {
								push(c19RefItem{fn: it.fn, v: ex, depth: it.depth})
							}
						}
					}
				}
			case *ssa.Lookup:
				if y.X != it.v {
					continue
				}
				out = append(out, c19RefUse{fn: it.fn, instr: y, kind: "looks up in"})
				if y.CommaOk {
					if y.Referrers() != nil {
						for _, er := range *y.Referrers() {
							if ex, ok := er.(*ssa.Extract); ok && ex.Index == 0 {
								push(c19RefItem{fn: it.fn, v: ex, depth: it.depth})
							}
						}
					}
				} else {
					push(c19RefItem{fn: it.fn, v: y, depth: it.depth})
				}
			case *ssa.MapUpdate:
				if y.Map == it.v {
					out = append(out, c19RefUse{fn: it.fn, instr: y, kind: "updates", write: true, mutate: true})
				}
			case *ssa.IndexAddr:
				if y.X != it.v || y.Referrers() == nil {
					continue
				}
				for _, rr := range *y.Referrers() {
					switch z := rr.(type) {
					case *ssa.UnOp:
						if z.Op == token.MUL {
							out = append(out, c19RefUse{fn: it.fn, instr: z, kind: "reads an element of"})
							push(c19RefItem{fn: it.fn, v: z, depth: it.depth})
						}
					case *ssa.Store:
						if z.Addr == y {
							out = append(out, c19RefUse{fn: it.fn, instr: z, kind: "writes an element of", write: true, inPlace: true})
						}
					}
				}
			case *ssa.FieldAddr:
				if y.X != it.v || y.Referrers() == nil {
					continue
				}
				owner := an.NamedOf(y.X.Type())
				if owner == nil {
					continue
				}
				fname := strings.TrimPrefix(an.FieldName(y.X.Type(), y.Field), owner.Obj().Name()+".")
				for _, rr := range *y.Referrers() {
					switch z := rr.(type) {
					case *ssa.UnOp:
						if z.Op == token.MUL {
							out = append(out, c19RefUse{fn: it.fn, instr: z, kind: "reads field " + owner.Obj().Name() + "." + fname + " through", owner: owner, fname: fname})
						}
					case *ssa.Store:
						if z.Addr == y {
							out = append(out, c19RefUse{fn: it.fn, instr: z, kind: "writes field " + owner.Obj().Name() + "." + fname + " through", write: true, owner: owner, fname: fname})
						}
					}
				}
			case *ssa.Return:
				for idx, rv := range y.Results {
					if rv != it.v {
						continue
					}
					for _, s := range a.e.callers[it.fn] {
						if s.pseudo {
							continue
						}
						call, ok := s.instr.(*ssa.Call)
						if !ok {
							continue
						}
						if len(y.Results) == 1 {
							push(c19RefItem{fn: s.fn, v: call, resliced: it.resliced, depth: it.depth + 1})
						} else if call.Referrers() != nil {
							for _, er := range *call.Referrers() {
								if ex, ok := er.(*ssa.Extract); ok && ex.Index == idx {
									push(c19RefItem{fn: s.fn, v: ex, resliced: it.resliced, depth: it.depth + 1})
								}
							}
						}
					}
				}
			case ssa.CallInstruction:
				cc := y.Common()
				isArg := false
				for _, av := range cc.Args {
					if av == it.v {
						isArg = true
					}
				}
				if !isArg {
					continue
				}
				if b, ok := cc.Value.(*ssa.Builtin); ok {
					switch b.Name() {
					case "len", "cap":
						if isMap {
							out = append(out, c19RefUse{fn: it.fn, instr: y, kind: "takes len of"})
						}
					case "delete", "clear":
						out = append(out, c19RefUse{fn: it.fn, instr: y, kind: "deletes from", write: true, mutate: true, inPlace: !isMap})
					case "append":
						if len(cc.Args) > 0 && cc.Args[0] == it.v {
							if it.resliced {
								out = append(out, c19RefUse{fn: it.fn, instr: y, kind: "appends in place to", write: true, inPlace: true})
							} else {
								out = append(out, c19RefUse{fn: it.fn, instr: y, kind: "reads an element of"})
							}
							if v, ok := y.(ssa.Value); ok {
								push(c19RefItem{fn: it.fn, v: v, resliced: it.resliced, depth: it.depth})
							}
						} else {
							out = append(out, c19RefUse{fn: it.fn, instr: y, kind: "reads an element of"})
						}
					case "copy":
						if len(cc.Args) > 0 && cc.Args[0] == it.v {
							out = append(out, c19RefUse{fn: it.fn, instr: y, kind: "copies into", write: true, inPlace: true})
						} else {
							out = append(out, c19RefUse{fn: it.fn, instr: y, kind: "reads an element of"})
						}
					}
					continue
				}
				callees := a.calleesOf(y)
				if len(callees) == 0 {
					out = append(out, c19RefUse{fn: it.fn, instr: y, kind: "passes to " + strings.TrimPrefix(a.w.Info(y).Name, "func:") + " the contents of"})
					continue
				}
				for _, g := range callees {
					for i, p := range g.Params {
						if c19ArgFor(y, g, i) == it.v {
							push(c19RefItem{fn: g, v: p, resliced: it.resliced, depth: it.depth + 1})
						}
					}
				}
			}
		}
	}
	return out
}

// structFieldLive: T.f has a store through an object that may be shared.
func (a *c19An) structFieldLive(owner *types.Named, fname string) bool {
	if a.fieldStores == nil {
		a.fieldStores = map[string][]*ssa.Store{}
		for _, fn := range a.e.funcs {
			for _, b := range fn.Blocks {
				for _, in := range b.Instrs {
					st, ok := in.(*ssa.Store)
					if !ok {
						continue
					}
					fa, ok := st.Addr.(*ssa.FieldAddr)
					if !ok {
						continue
					}
					if n := an.NamedOf(fa.X.Type()); n != nil {
						k := n.String() + "." + an.FieldName(fa.X.Type(), fa.Field)
						a.fieldStores[k] = append(a.fieldStores[k], st)
					}
				}
			}
		}
		a.fieldLive = map[string]int{}
	}
	k := owner.String() + "." + owner.Obj().Name() + "." + fname
	if v, ok := a.fieldLive[k]; ok {
		return v == 2
	}
	res := 1
	for _, st := range a.fieldStores[k] {
		fa := st.Addr.(*ssa.FieldAddr)
		if len(a.sharedAt(st.Parent(), st, fa.X)) > 0 {
			res = 2
			break
		}
	}
	a.fieldLive[k] = res
	return res == 2
}

func (a *c19An) refEscape(accs []*c19Access) {
	c, w := a.c, a.w
	type loadUses struct {
		x    *c19Access
		uses []c19RefUse
	}
	var all []loadUses
	mutated := map[string]bool{} // field -> the map is mutated in place somewhere
	inPlace := map[string]bool{} // field -> slice elements are written in place somewhere
	for _, x := range accs {
		ld, ok := x.instr.(*ssa.UnOp)
		if !ok || ld.Op != token.MUL || strings.HasSuffix(x.field, ".*") || !c19IsRefType(ld.Type()) {
			continue
		}
		us := a.refUses(x.fn, ld)
		all = append(all, loadUses{x, us})
		for _, u := range us {
			if u.mutate {
				mutated[x.field] = true
			}
			if u.inPlace {
				inPlace[x.field] = true
			}
		}
	}
	c.Extra["reference_loads"] = len(all)
	c.AtLeast("C19.R1ref", "loads of a map/slice/pointer from a guarded field", len(all), 40)
	perField := map[string][2]int{}
	for _, lu := range all {
		x := lu.x
		readNeed := c19Need{alts: x.g.readAny, label: strings.Join(x.g.readAny, " or ")}
		if !a.satisfied(x.fn, x.instr, readNeed) {
			continue // the unguarded load itself is the table rule's business
		}
		_, isMap := x.instr.(*ssa.UnOp).Type().Underlying().(*types.Map)
		_, isSlice := x.instr.(*ssa.UnOp).Type().Underlying().(*types.Slice)
		for _, u := range lu.uses {
			cnt := perField[x.field]
			cnt[0]++
			needs := []c19Need{readNeed}
			if u.write {
				needs = nil
				for _, k := range x.g.writeAll {
					needs = append(needs, c19Need{alts: []string{k}, label: k})
				}
			}
			var missing *c19Need
			for i := range needs {
				if !a.satisfied(u.fn, u.instr, needs[i]) {
					missing = &needs[i]
					break
				}
			}
			safe := missing == nil
			why := ""
			switch {
			case safe:
			case u.owner != nil:
				if a.byField[u.owner] != nil {
					safe = true // a tabled struct: its fields have their own rows
				} else if !u.write && !a.structFieldLive(u.owner, u.fname) {
					safe = true // no writer after publication
				}
			case isMap && !u.write && !mutated[x.field]:
				safe = true
			case !u.write && !isMap && (isSlice || !mutated[x.field]) && !inPlace[x.field]:
				safe = true // a slice header is a snapshot when nobody writes elements in place
			}
			if safe {
				cnt[1]++
				perField[x.field] = cnt
				continue
			}
			perField[x.field] = cnt
			ev := a.sharedAt(x.fn, x.instr, x.base)
			if len(ev) == 0 {
				continue // the object is provably unpublished
			}
			if isMap {
				why = "the map is mutated in place under the guard elsewhere, so using the copied reference without the guard races with those writers (concurrent map iteration/read and map write)"
			} else {
				why = "copying the reference does not copy the data: this use races with the writers that hold the guard"
			}
			construct := fmt.Sprintf("%s %s %s outside %s (reference loaded under the guard in %s)", w.FuncName(u.fn), u.kind, x.field, missing.label, w.FuncName(x.fn))
			f := a.findings[construct]
			if f == nil {
				upos := u.instr.Pos()
				if !upos.IsValid() {
					upos = u.pos
				}
				if !upos.IsValid() {
					upos = x.instr.Pos()
				}
				f = &c19Finding{rule: "C19.R1", construct: construct, pos: w.Pos(upos), fn: u.fn, direct: true, swapObj: true, evs: map[string]c19Ev{}, witness: map[string]bool{}, need: *missing,
					extra: "reference escape: " + why}
				a.findings[construct] = f
			}
			if u.write {
				f.write = true
			} else {
				f.read = true
			}
			if on := x.owner.Obj().Name(); on != "SwapData" && on != c19OwnerType {
				f.swapObj = false
			}
			for _, e := range ev {
				f.evs[e.why] = e
			}
			f.witness[fmt.Sprintf("%s loads %s under the guard [%s]", w.FuncName(x.fn), x.field, w.Pos(x.instr.Pos()))] = true
			f.witness[fmt.Sprintf("%s %s it without the guard [%s]", w.FuncName(u.fn), u.kind, w.Pos(u.instr.Pos()))] = true
		}
	}
	fields := make([]string, 0, len(perField))
	for f := range perField {
		fields = append(fields, f)
	}
	sort.Strings(fields)
	for _, f := range fields {
		cnt := perField[f]
		if cnt[0] == cnt[1] {
			c.OK("C19.R1ref", f+" reference", "-", fmt.Sprintf("%d use(s) of the loaded reference, all with the guard held or unable to race (snapshot / no in-place writer)", cnt[0]))
		}
	}
}

// ---------------------------------------------------------------------------
// R3: unguarded shared object (no row in the guarded-by table, no lock at all)
// ---------------------------------------------------------------------------

// c19SyncField: fields whose own type synchronises (sync.*, sync/atomic.*, channels).
func c19SyncType(t types.Type) bool {
	if _, ok := t.Underlying().(*types.Chan); ok {
		return true
	}
	n := an.NamedOf(t)
	if n == nil || n.Obj().Pkg() == nil {
		return false
	}
	p := n.Obj().Pkg().Path()
	return p == "sync" || p == "sync/atomic"
}

type c19R3Write struct {
	fn    *ssa.Function
	instr ssa.Instruction
	field string // "T.f" written, or "T.f[...]" for a container held in T.f
	kind  string
	held  c18Set
	ev    []c19Ev
}

// rootsOf lists the goroutine roots from which fn is reachable over synchronous calls.
func (a *c19An) rootsOf(fn *ssa.Function) []string {
	if a.rootMemo == nil {
		a.rootMemo = map[*ssa.Function][]string{}
		a.goTarget = map[*ssa.Function]bool{}
		for _, f := range a.e.funcs {
			for _, s := range a.e.fi[f].sites {
				if s.isGo || s.pseudo {
					for _, g := range s.callees {
						a.goTarget[g] = true
					}
				}
			}
		}
	}
	if r, ok := a.rootMemo[fn]; ok {
		return r
	}
	roots := map[string]bool{}
	seen := map[*ssa.Function]bool{fn: true}
	work := []*ssa.Function{fn}
	for len(work) > 0 {
		f := work[len(work)-1]
		work = work[:len(work)-1]
		if a.goTarget[f] {
			roots["goroutine/call-back "+a.w.FuncName(f)] = true
		}
		syncCallers := 0
		for _, s := range a.e.callers[f] {
			if s.isGo || s.pseudo {
				continue
			}
			syncCallers++
			if !seen[s.fn] {
				seen[s.fn] = true
				work = append(work, s.fn)
			}
		}
		if syncCallers == 0 && !a.goTarget[f] {
			if f.Name() == "main" || f.Name() == "init" || strings.HasPrefix(f.Name(), "init#") {
				continue // program start-up: runs before the goroutines it starts; two mains are two programs
			}
			roots["entry point "+a.w.FuncName(f)] = true
		}
	}
	out := sortedKeys(roots)
	a.rootMemo[fn] = out
	return out
}

func (a *c19An) heldAtAll(fn *ssa.Function, in ssa.Instruction) c18Set {
	must, _ := a.e.HeldAt(in)
	rel := a.e.ReleasedAt(in)
	held := must.clone()
	for k := range a.entryMu[fn] {
		if !rel[k] {
			held[k] = true
		}
	}
	return held
}

func (a *c19An) ruleR3() {
	c, w := a.c, a.w
	inModule := func(n *types.Named) bool {
		if n == nil || n.Obj().Pkg() == nil {
			return false
		}
		rel, ok := w.Rel(n.Obj().Pkg().Path())
		return ok && !an.IsTestSupport(rel)
	}
	definite := func(ev []c19Ev) []c19Ev {
		var out []c19Ev
		for _, e := range ev {
			if !e.unsure && !e.entry {
				out = append(out, e)
			}
		}
		return out
	}
	var writes []*c19R3Write
	nStores := 0
	for _, fn := range a.e.funcs {
		fi := a.e.fi[fn]
		for _, b := range fn.Blocks {
			if fi.in[b] == nil || !fi.in[b].reached {
				continue
			}
			for _, in := range b.Instrs {
				var base ssa.Value
				field, kind := "", ""
				switch x := in.(type) {
				case *ssa.Store:
					switch ad := x.Addr.(type) {
					case *ssa.FieldAddr:
						owner := an.NamedOf(ad.X.Type())
						if !inModule(owner) || a.byField[owner] != nil {
							continue
						}
						st, _ := owner.Underlying().(*types.Struct)
						if st == nil || ad.Field >= st.NumFields() || c19SyncType(st.Field(ad.Field).Type()) {
							continue
						}
						if _, fresh := ad.X.(*ssa.Alloc); fresh {
							continue
						}
						base, field, kind = ad.X, an.FieldName(ad.X.Type(), ad.Field), "writes"
					case *ssa.IndexAddr:
						if _, isSlice := ad.X.Type().Underlying().(*types.Slice); !isSlice {
							continue
						}
						base, kind = ad.X, "writes an element of the slice held in"
					default:
						continue
					}
				case *ssa.MapUpdate:
					base, kind = x.Map, "updates the map held in"
				default:
					continue
				}
				nStores++
				ev := definite(a.sharedAt(fn, in, base))
				if len(ev) == 0 {
					continue
				}
				if field == "" {
					// name the container by the field it was loaded from
					for _, o := range a.trace(fn, base) {
						if ld, ok := o.val.(*ssa.UnOp); ok && o.kind == c19Shared {
							if fa, ok := ld.X.(*ssa.FieldAddr); ok {
								if owner := an.NamedOf(fa.X.Type()); inModule(owner) && a.byField[owner] == nil {
									field = an.FieldName(fa.X.Type(), fa.Field)
								} else if owner != nil {
									field = "-" // a tabled or foreign holder: not this rule's business
								}
							}
						}
					}
					if field == "" || field == "-" {
						continue
					}
				}
				writes = append(writes, &c19R3Write{fn: fn, instr: in, field: field, kind: kind, held: a.heldAtAll(fn, in), ev: ev})
			}
		}
	}
	c.Extra["r3_stores_examined"] = nStores
	c.Extra["r3_post_publication_writes"] = len(writes)
	c.AtLeast("C19.R3", "stores to struct fields, map entries and slice elements examined", nStores, 200)
	byField := map[string][]*c19R3Write{}
	for _, wr := range writes {
		byField[wr.field] = append(byField[wr.field], wr)
	}
	fields := make([]string, 0, len(byField))
	for f := range byField {
		fields = append(fields, f)
	}
	sort.Strings(fields)
	for _, f := range fields {
		ws := byField[f]
		allRoots := map[string]bool{}
		for _, wr := range ws {
			for _, r := range a.rootsOf(wr.fn) {
				allRoots[r] = true
			}
		}
		bad := false
		for _, wr := range ws {
			if len(wr.held) > 0 {
				continue
			}
			roots := a.rootsOf(wr.fn)
			cons := fmt.Sprintf("%s %s %s without any lock", w.FuncName(wr.fn), wr.kind, f)
			whys := []string{}
			for _, e := range wr.ev {
				whys = append(whys, e.why)
			}
			sort.Strings(whys)
			switch {
			case a.unsureFn(wr.fn):
				c.Unknown("C19.R3", cons, w.Pos(wr.instr.Pos()), "the lock state of this function contains an unsupported shape")
				bad = true
			case len(roots) >= 2:
				bad = true
				c.Bad("C19.R3", cons, w.Pos(wr.instr.Pos()),
					fmt.Sprintf("post-publication write of a shared object with no lock held (not locally, not by every caller), reachable from %d goroutine roots (e.g. %s): two of them can execute this store, and the reads of the same object, at the same time; the object is shared: %s",
						len(roots), strings.Join(c19Limit(roots, 3), "; "), strings.Join(c19Limit(whys, 2), " / ")))
			}
		}
		if !bad {
			c.OK("C19.R3", f, "-", fmt.Sprintf("%d post-publication write(s): each holds a lock or is reachable from a single goroutine root only (%d root(s) in total)", len(ws), len(allRoots)))
		}
	}
}

func c19New(c *an.Check, e *c18Engine) *c19An {
	return &c19An{c: c, w: c.W, e: e, byField: map[*types.Named]map[string]*c19Guard{},
		pubMemo: map[string]int{}, retMemo: map[string][]c19Origin{}, retBusy: map[string]bool{},
		sharedMemo: map[string][]c19Ev{}, sharedBusy: map[string]bool{}, needMemo: map[string][]c19Blame{}, needBusy: map[string]bool{}, alongMemo: map[string]bool{}, alongBusy: map[string]bool{},
		liveWritten: map[string]bool{}, findings: map[string]*c19Finding{}}
}

// ---------------------------------------------------------------------------
// stale write-back (lost update)
// ---------------------------------------------------------------------------

// c19StaleWriteBacks reports, under the given rule id, every store to a
// guarded field whose value was computed from a copy of the same field taken
// in an earlier critical section (the guard was released in between), for the
// functions of the given packages (all production packages when none given).
// Exposed for c07.go (watcher packages: txwatcher, electrum, lwk, lnd).
func c19StaleWriteBacks(c *an.Check, rule string, pkgs ...string) {
	e := c18Get(c.W)
	if !e.reportEngine(c, rule) {
		return
	}
	a := c19New(c, e)
	if !a.resolveTable() {
		return
	}
	a.entrySets()
	keep := map[string]bool{}
	for _, p := range pkgs {
		keep[p] = true
	}
	if len(pkgs) == 0 {
		keep = nil
	}
	a.staleWriteBacks(rule, a.accesses(), keep)
}

type c19StaleOrigin struct {
	instr ssa.Instruction // where the old contents entered the function: the load, or the call that returned a copy
	inner bool            // the load happened inside a callee (its critical section ended when it returned)
	desc  string
}

// derivedFrom lists where the value v (in fn) takes contents of field from.
func (a *c19An) derivedFrom(fn *ssa.Function, v ssa.Value, owner *types.Named, fname string, depth int, seen map[ssa.Value]bool) []c19StaleOrigin {
	if v == nil || seen[v] || depth > 8 {
		return nil
	}
	seen[v] = true
	var out []c19StaleOrigin
	rec := func(x ssa.Value) { out = append(out, a.derivedFrom(fn, x, owner, fname, depth+1, seen)...) }
	switch x := v.(type) {
	case *ssa.UnOp:
		if x.Op != token.MUL {
			return nil
		}
		switch ad := x.X.(type) {
		case *ssa.FieldAddr:
			if an.NamedOf(ad.X.Type()) == owner && an.FieldName(ad.X.Type(), ad.Field) == owner.Obj().Name()+"."+fname {
				return []c19StaleOrigin{{instr: x, desc: "loaded"}}
			}
		case *ssa.Alloc:
			if ad.Referrers() != nil {
				for _, r := range *ad.Referrers() {
					if st, ok := r.(*ssa.Store); ok && st.Addr == ad {
						rec(st.Val)
					}
				}
			}
		}
	case *ssa.Phi:
		for _, ed := range x.Edges {
			rec(ed)
		}
	case *ssa.Slice:
		rec(x.X)
	case *ssa.ChangeType:
		rec(x.X)
	case *ssa.Extract:
		rec(x.Tuple)
	case *ssa.MakeSlice, *ssa.MakeMap:
		// filled by copy(dst, src) / element stores / map updates from a derived value
		if refs := v.Referrers(); refs != nil {
			for _, r := range *refs {
				switch y := r.(type) {
				case *ssa.Call:
					if b, ok := y.Call.Value.(*ssa.Builtin); ok && b.Name() == "copy" && len(y.Call.Args) == 2 && y.Call.Args[0] == v {
						rec(y.Call.Args[1])
					}
				case *ssa.Slice:
					// dst[:n] used as copy target
					if y.X == v && y.Referrers() != nil {
						for _, rr := range *y.Referrers() {
							if cl, ok := rr.(*ssa.Call); ok {
								if b, ok := cl.Call.Value.(*ssa.Builtin); ok && b.Name() == "copy" && cl.Call.Args[0] == y {
									rec(cl.Call.Args[1])
								}
							}
						}
					}
				}
			}
		}
	case *ssa.Call:
		if b, ok := x.Call.Value.(*ssa.Builtin); ok {
			if b.Name() == "append" {
				for _, av := range x.Call.Args {
					rec(av)
				}
			}
			return out
		}
		// a result computed from a derived argument ...
		for _, av := range x.Call.Args {
			if c19IsRefType(av.Type()) {
				rec(av)
			}
		}
		// ... or a callee that returns (a copy of) the field it loaded itself
		for _, g := range a.calleesOf(x) {
			for _, r := range an.Returns(g) {
				for _, rv := range r.Results {
					if !c19IsRefType(rv.Type()) {
						continue
					}
					if in := a.derivedFrom(g, rv, owner, fname, depth+1, map[ssa.Value]bool{}); len(in) > 0 {
						out = append(out, c19StaleOrigin{instr: x, inner: true, desc: "returned by " + a.w.FuncName(g) + ", which copied it from the field"})
					}
				}
			}
		}
	}
	return out
}

// releasedBetween: on some path from o to s the guard is not held.
func (a *c19An) releasedBetween(fn *ssa.Function, o, s ssa.Instruction, n c19Need) bool {
	fromO := an.ReachBlocks(o.Block().Succs, nil, nil)
	fromO[o.Block()] = true
	for _, b := range fn.Blocks {
		if !fromO[b] {
			continue
		}
		toS := b == s.Block() || an.ReachBlocks(b.Succs, nil, nil)[s.Block()]
		if !toS {
			continue
		}
		for _, in := range b.Instrs {
			if b == o.Block() && an.InstrIndex(in) <= an.InstrIndex(o) && !fromOLoop(fromO, o) {
				continue
			}
			if b == s.Block() && an.InstrIndex(in) >= an.InstrIndex(s) && b != o.Block() {
				continue
			}
			if _, isPhi := in.(*ssa.Phi); isPhi {
				continue
			}
			if !a.satisfied(fn, in, n) {
				return true
			}
		}
	}
	return false
}

func fromOLoop(reach map[*ssa.BasicBlock]bool, o ssa.Instruction) bool {
	return an.ReachBlocks(o.Block().Succs, nil, nil)[o.Block()]
}

func (a *c19An) staleWriteBacks(rule string, accs []*c19Access, keep map[string]bool) {
	c, w := a.c, a.w
	c.Rule(rule+"stale", "stale write-back (lost update): a store to a guarded field must not write a value computed from a copy of the same field taken in an earlier critical section of the same function (the guard was released between the load and the store), unless the stored value also derives from a load of the field made in the section of the store")
	n := 0
	for _, x := range accs {
		st, ok := x.instr.(*ssa.Store)
		if !ok || !x.write || strings.HasSuffix(x.field, ".*") || !c19IsRefType(st.Val.Type()) {
			continue
		}
		if keep != nil {
			if rel, _ := a.e.rel(x.fn); !keep[rel] {
				continue
			}
		}
		fname := strings.TrimPrefix(x.field, x.owner.Obj().Name()+".")
		need := c19Need{alts: x.g.readAny, label: strings.Join(x.g.readAny, " or ")}
		if !a.satisfied(x.fn, st, need) {
			continue // an unguarded store is the table rule's business
		}
		n++
		origins := a.derivedFrom(x.fn, st.Val, x.owner, fname, 0, map[ssa.Value]bool{})
		cons := fmt.Sprintf("%s stores %s", w.FuncName(x.fn), x.field)
		if len(origins) == 0 {
			c.OK(rule+"stale", cons, w.Pos(st.Pos()), "the stored value is not computed from the field")
			continue
		}
		fresh, stale := false, []c19StaleOrigin{}
		for _, o := range origins {
			switch {
			case o.inner && !a.satisfied(x.fn, o.instr, need):
				stale = append(stale, o) // the callee's critical section ended before this function took the guard
			case a.releasedBetween(x.fn, o.instr, st, need):
				stale = append(stale, o)
			default:
				fresh = true
			}
		}
		switch {
		case len(stale) == 0 || fresh:
			c.OK(rule+"stale", cons, w.Pos(st.Pos()), "the stored value derives from a load of the field in the same critical section")
		case a.unsureFn(x.fn):
			c.Unknown(rule, cons+" from a stale copy", w.Pos(st.Pos()), "the lock state of this function contains an unsupported shape")
		default:
			o := stale[0]
			if len(a.sharedAt(x.fn, st, x.base)) == 0 {
				c.OK(rule+"stale", cons, w.Pos(st.Pos()), "the object is not published yet")
				continue
			}
			c.Bad(rule, cons+" from a stale copy", w.Pos(st.Pos()),
				fmt.Sprintf("lost update: the value written to %s is computed from a copy of %s taken at %s (%s) in an earlier critical section - %s was released in between - and not from a fresh load, so every change made to the field in the meantime (e.g. a Register while the callbacks ran) is discarded",
					x.field, x.field, w.Pos(o.instr.Pos()), o.desc, need.label),
				fmt.Sprintf("%s [%s] old contents of %s enter here (%s)", w.FuncName(x.fn), w.Pos(o.instr.Pos()), x.field, o.desc),
				fmt.Sprintf("%s [%s] stores the value computed from them", w.FuncName(x.fn), w.Pos(st.Pos())))
		}
	}
	c.AtLeast(rule+"stale", "guarded stores of a map/slice/pointer examined", n, 3)
}
