package rules

import (
	"fmt"
	"go/constant"
	"go/token"
	"go/types"
	"sort"
	"strings"

	"golang.org/x/tools/go/ssa"

	"psv/internal/an"
)

func init() {
	Register(&Prop{
		ID:   "C29",
		Expl: "Decides, on the SSA form of version/, swap/ and the two main packages: (R1) the stored version has exactly one writer (versionStore.SetVersion is the only function of package version that calls a bbolt mutator, and SafeUpgrade is its only production caller) and every SetVersion call is dominated by the error-is-nil edge AND the result-is-false edge of the same HasActiveSwaps call, whose other edges only return non-nil errors; (R2) IsFinished, evaluated symbolically for every state constant of the four extracted state tables, is true exactly for the states that are terminal (no outgoing event) in every table that contains them, and HasActiveSwaps, executed abstractly on every store content of up to three swaps (each finished or active; branch conditions the scenario does not determine are followed both ways), answers exactly `some stored swap is not finished` and turns a failing Store.ListAll into an error; (R3) every production call of RecoverSwaps is dominated by the error-is-nil edge of a SafeUpgrade call that was handed the same *swap.SwapService, and the error edge only returns non-nil errors; (R4) that error is propagated by every caller up to a process exit. The quantifier is over all states of all tables, all call sites and all CFG paths, i.e. over all store contents and stored versions.",
		NotD: "That the bbolt transaction is durable and atomic; that Store.ListAll returns every persisted swap (JSON decoding of old records); swaps created by peers between SwapService.Start and SafeUpgrade; the value-level meaning of the version string.",
		Run:  runC29,
	})
}

const (
	c29FnSetVersion = "func:(*version.versionStore).SetVersion"
	c29FnSafe       = "func:(*version.VersionService).SafeUpgrade"
	c29FnRecover    = "func:(*swap.SwapService).RecoverSwaps"
	c29IfHasActive  = "iface:version.ActiveSwapGetter.HasActiveSwaps"
	c29IfListAll    = "iface:swap.Store.ListAll"
	c29BoltPath     = "go.etcd.io/bbolt"
)

// bbolt methods that change what a later read of the bucket returns. Frozen by
// reading bbolt's Bucket/Tx API; CreateBucketIfNotExists is not in the list
// because it never changes an existing key.
var c29BoltMutators = map[string]bool{
	"Put": true, "Delete": true, "DeleteBucket": true, "CreateBucket": true,
	"SetSequence": true, "NextSequence": true, "MoveBucket": true,
}

func runC29(c *an.Check) {
	c.Rule("C29.R1", "the stored version is written only by versionStore.SetVersion, called only from SafeUpgrade, where it is dominated by the err==nil and result==false edges of HasActiveSwaps; the other edges of that call only return non-nil errors")
	c.Rule("C29.R2", "IsFinished(s) holds exactly for the terminal states of the state tables; HasActiveSwaps == `some swap returned by Store.ListAll is not IsFinished` on all store contents of <= 3 swaps, and a ListAll error is returned")
	c.Rule("C29.R3", "every RecoverSwaps call is dominated by the success edge of SafeUpgrade(<the same *swap.SwapService>); the failure edge returns a non-nil error")
	c.Rule("C29.R4", "the SafeUpgrade error is propagated by every caller up to process exit (start-up fails)")
	w := c.W

	setV := w.Func("version", "(*versionStore).SetVersion")
	safe := w.Func("version", "(*VersionService).SafeUpgrade")
	has := w.Func("swap", "(*SwapService).HasActiveSwaps")
	isFin := w.Func("swap", "(*SwapStateMachine).IsFinished")
	rec := w.Func("swap", "(*SwapService).RecoverSwaps")
	svc := w.Named("swap", "SwapService")
	for n, f := range map[string]*ssa.Function{"version.(*versionStore).SetVersion": setV, "version.(*VersionService).SafeUpgrade": safe, "swap.(*SwapService).HasActiveSwaps": has, "swap.(*SwapStateMachine).IsFinished": isFin, "swap.(*SwapService).RecoverSwaps": rec} {
		if f == nil || f.Blocks == nil {
			c.Anchor("function %s does not resolve", n)
		}
	}
	if svc == nil {
		c.Anchor("type swap.SwapService does not resolve")
	}
	if !ifaceMethodExists(w, c29IfHasActive) || !ifaceMethodExists(w, c29IfListAll) {
		c.Anchor("interface method %s or %s does not resolve", c29IfHasActive, c29IfListAll)
	}
	if len(c.Anchors) > 0 {
		return
	}

	c29R1(c, setV, safe)
	c29R2(c, has, isFin)
	c29R3R4(c, svc)
}

// ---- R1 ---------------------------------------------------------------------------

func c29R1(c *an.Check, setV, safe *ssa.Function) {
	w := c.W
	// (a) the only writer of the version bucket
	nMut := 0
	for _, fn := range prodFuncs(w) {
		if w.FnRel(fn) != "version" {
			continue
		}
		for _, call := range an.Calls(fn) {
			ci := w.Info(call)
			if ci.Static == nil || ci.PkgPath != c29BoltPath || !c29BoltMutators[ci.Method] {
				continue
			}
			nMut++
			top := an.EnclosingTop(fn)
			cons := w.FuncName(top) + " call bbolt." + c29Recv(ci) + "." + ci.Method
			switch c29OnlyCalledFrom(w, top, setV, 0) {
			case "yes":
				c.OK("C29.R1", cons, w.Pos(call.Pos()), "bbolt mutator of package version lies inside SetVersion (or a helper only SetVersion calls)")
			case "no":
				c.Bad("C29.R1", cons, w.Pos(call.Pos()), "package version changes its bucket outside SetVersion: the stored version can change without the active-swap test")
			default:
				c.Unknown("C29.R1", cons, w.Pos(call.Pos()), "cannot establish who calls this function")
			}
		}
	}
	c.AtLeast("C29.R1", "bbolt mutator calls in package version", nMut, 1)

	// (b) callers of SetVersion
	sites := findCallSites(w, c29FnSetVersion)
	c.AtLeast("C29.R1", "production call sites of versionStore.SetVersion", len(sites), 1)
	for _, site0 := range sites {
		cons := w.FuncName(site0.Parent()) + " call SetVersion"
		// lift the site through helpers that only SafeUpgrade calls
		lifted := []ssa.CallInstruction{site0}
		verdict := ""
		for depth := 0; depth < 3 && verdict == ""; depth++ {
			var next []ssa.CallInstruction
			done := true
			for _, st := range lifted {
				top := an.EnclosingTop(st.Parent())
				if st.Parent() == safe {
					next = append(next, st)
					continue
				}
				done = false
				var callers []ssa.CallInstruction
				for _, g := range prodFuncs(w) {
					for _, call := range an.Calls(g) {
						if call.Common().StaticCallee() == top {
							callers = append(callers, call)
						}
					}
				}
				switch {
				case st.Parent() != top:
					verdict = "unknown" // inside a closure
				case len(callers) == 0 && top.Object() != nil && top.Object().Exported():
					verdict = "bad"
				case len(callers) == 0:
					verdict = "unknown"
				}
				for _, k := range callers {
					if an.EnclosingTop(k.Parent()) != safe && c29OnlyCalledFrom(w, an.EnclosingTop(k.Parent()), safe, 0) == "no" {
						verdict = "bad"
					}
				}
				next = append(next, callers...)
			}
			lifted = next
			if done {
				break
			}
		}
		for _, st := range lifted {
			if verdict == "" && st.Parent() != safe {
				verdict = "unknown"
			}
		}
		switch verdict {
		case "bad":
			c.Bad("C29.R1", cons, w.Pos(site0.Pos()), "versionStore.SetVersion is called outside SafeUpgrade: the version is replaced without consulting HasActiveSwaps")
			continue
		case "unknown":
			c.Unknown("C29.R1", cons, w.Pos(site0.Pos()), "SetVersion is called from a helper whose callers this rule cannot enumerate")
			continue
		}
		// (c) every (lifted) site is dominated by err==nil and result==false of one HasActiveSwaps call
		hs := c29ActiveCalls(w, safe)
		allGuarded := len(lifted) > 0
		var why []string
		for _, site := range lifted {
			guarded := false
			for _, hc := range hs {
				okE, _ := an.OkEdges(hc)
				var fE []an.Edge
				for _, rv := range an.ResultValues(hc, 0) {
					_, f := an.BoolEdges(rv)
					fE = append(fE, f...)
				}
				e1 := len(okE) > 0 && an.EdgesDominate(okE, site.Block())
				e2 := len(fE) > 0 && an.EdgesDominate(fE, site.Block())
				if e1 && e2 {
					guarded = true
				} else {
					why = append(why, fmt.Sprintf("HasActiveSwaps at %s: dominated by err==nil edge: %v, by result==false edge: %v", w.Pos(hc.Pos()), e1, e2))
				}
			}
			if !guarded {
				allGuarded = false
			}
		}
		switch {
		case allGuarded:
			c.OK("C29.R1", cons, w.Pos(site0.Pos()), "SetVersion is reached only through the err==nil and hasActive==false edges of HasActiveSwaps")
		case len(hs) == 0 && w.Summary(safe).HasEffect(c29IfHasActive):
			c.Unknown("C29.R1", cons, w.Pos(site0.Pos()), "HasActiveSwaps is consulted in a helper of SafeUpgrade that does not hand its two results back unchanged; the guard is not followed")
		default:
			c.Bad("C29.R1", cons, w.Pos(site0.Pos()), "SetVersion can be reached without `HasActiveSwaps() == (false, nil)`: the version is upgraded while a swap may be active. "+strings.Join(why, "; ")+". Facts that do hold: "+an.DescribeFacts(w.FactsDominating(site0)))
		}
	}

	// (d) the refusing edges return an error
	hs := c29ActiveCalls(w, safe)
	c.AtLeast("C29.R1", "HasActiveSwaps calls in SafeUpgrade (direct or through a helper handing the results back)", len(hs), 1)
	for _, hc := range hs {
		h := ssa.CallInstruction(hc)
		_, failE := an.OkEdges(hc)
		var errV ssa.Value
		if vs := an.ResultValues(hc, 1); len(vs) > 0 {
			errV = vs[0]
		}
		c29EdgeReturnsErr(c, "C29.R1", "SafeUpgrade HasActiveSwaps error edge", safe, failE, errV, h,
			"an error of HasActiveSwaps makes SafeUpgrade fail",
			"SafeUpgrade can return nil although HasActiveSwaps failed: start-up continues with an unknown set of active swaps")
		var tE []an.Edge
		for _, rv := range an.ResultValues(hc, 0) {
			t, _ := an.BoolEdges(rv)
			tE = append(tE, t...)
		}
		c29EdgeReturnsErr(c, "C29.R1", "SafeUpgrade HasActiveSwaps==true edge", safe, tE, nil, h,
			"active swaps make SafeUpgrade fail",
			"SafeUpgrade can return nil although a swap is active: start-up continues (and recovers swaps) with a database of another version")
	}
}

// c29ActiveCalls: the HasActiveSwaps calls of fn: direct interface calls, and
// calls of in-module helpers that hand the two results of one HasActiveSwaps
// call back unchanged.
func c29ActiveCalls(w *an.World, fn *ssa.Function) []*ssa.Call {
	var out []*ssa.Call
	for _, call := range an.Calls(fn) {
		cc, ok := call.(*ssa.Call)
		if !ok {
			continue
		}
		ci := w.Info(call)
		if ci.Name == c29IfHasActive {
			out = append(out, cc)
			continue
		}
		f := ci.Static
		if f == nil || !w.InModule(f) || f.Blocks == nil {
			continue
		}
		inner := callsNamed(w, f, c29IfHasActive)
		if len(inner) != 1 {
			continue
		}
		pass := true
		for _, r := range an.Returns(f) {
			if len(r.Results) != 2 {
				pass = false
				continue
			}
			for i, res := range r.Results {
				ex, isEx := res.(*ssa.Extract)
				if !isEx || ex.Index != i || ex.Tuple != inner[0].Value() {
					pass = false
				}
			}
		}
		if pass {
			out = append(out, cc)
		}
	}
	return out
}

// c29OnlyCalledFrom: every production chain of static calls into fn starts in
// root ("yes"), some caller is another function ("no"), or it cannot be told.
func c29OnlyCalledFrom(w *an.World, fn, root *ssa.Function, depth int) string {
	if fn == root {
		return "yes"
	}
	if c29IsAPI(fn) {
		return "no" // another entry point of the package
	}
	if depth > 3 {
		return "unknown"
	}
	n := 0
	res := "yes"
	for _, g := range prodFuncs(w) {
		for _, call := range an.Calls(g) {
			if call.Common().StaticCallee() != fn {
				continue
			}
			n++
			switch c29OnlyCalledFrom(w, an.EnclosingTop(g), root, depth+1) {
			case "no":
				return "no"
			case "unknown":
				res = "unknown"
			}
		}
	}
	if n == 0 {
		if fn.Object() != nil && fn.Object().Exported() {
			return "no"
		}
		// an unexported function nobody calls statically (method value, interface): another entry point
		return "no"
	}
	return res
}

func c29Recv(ci an.CallInfo) string {
	if ci.Recv != nil {
		return ci.Recv.Obj().Name()
	}
	return "?"
}

// c29EdgeReturnsErr: every return reachable from the given edges returns a
// provably non-nil error.
func c29EdgeReturnsErr(c *an.Check, rule, cons string, fn *ssa.Function, edges []an.Edge, nonNil ssa.Value, at ssa.Instruction, okText, badText string) {
	w := c.W
	if len(edges) == 0 {
		// discarded (no use at all) is a verdict; handed on to something else is not
		used := false
		if cv, ok := at.(ssa.Value); ok && cv.Referrers() != nil {
			for _, r := range *cv.Referrers() {
				if ex, isEx := r.(*ssa.Extract); isEx && ex.Referrers() != nil && len(*ex.Referrers()) > 0 {
					used = true
				}
			}
		}
		if used {
			c.Unknown(rule, cons, w.Pos(at.Pos()), "the result is not branched on in this function but handed on; the rule does not follow it")
		} else {
			c.Bad(rule, cons, w.Pos(at.Pos()), "the result is never tested: "+badText)
		}
		return
	}
	var start []*ssa.BasicBlock
	for _, e := range edges {
		start = append(start, e.To())
	}
	reach := an.ReachBlocks(start, nil, nil)
	n := 0
	for _, r := range an.Returns(fn) {
		if !reach[r.Block()] {
			continue
		}
		n++
		i := c29ErrIdx(fn)
		if i < 0 || i >= len(r.Results) {
			c.Bad(rule, cons, w.Pos(r.Pos()), fn.Name()+" has no error result: "+badText)
			continue
		}
		switch c29NonNilErr(w, r.Results[i], nonNil, 0) {
		case "yes":
			c.OK(rule, cons, w.Pos(r.Pos()), okText)
		case "no":
			c.Bad(rule, cons, w.Pos(r.Pos()), badText)
		default:
			c.Unknown(rule, cons, w.Pos(r.Pos()), "cannot prove that the error returned here is non-nil ("+w.Term(r.Results[i])+")")
		}
	}
	if n == 0 {
		// no return reachable: the edge ends in a process exit or an endless wait
		c.OK(rule, cons, w.Pos(at.Pos()), okText+" (no return reachable from the edge)")
	}
}

func c29ErrIdx(fn *ssa.Function) int {
	res := fn.Signature.Results()
	for i := res.Len() - 1; i >= 0; i-- {
		if an.IsErrorType(res.At(i).Type()) {
			return i
		}
	}
	return -1
}

// c29NonNilErr classifies an error value: "yes" provably non-nil, "no" may be
// the nil constant, "unknown" otherwise. nonNil is a value known to be non-nil on
// the edge under consideration.
func c29NonNilErr(w *an.World, v ssa.Value, nonNil ssa.Value, depth int) string {
	if depth > 8 {
		return "unknown"
	}
	if nonNil != nil && v == nonNil {
		return "yes"
	}
	switch x := v.(type) {
	case *ssa.Const:
		if x.Value == nil {
			return "no"
		}
		return "unknown"
	case *ssa.MakeInterface:
		// a concrete non-pointer value, or the address of a fresh object
		if _, isPtr := x.X.Type().Underlying().(*types.Pointer); !isPtr {
			return "yes"
		}
		if _, ok := x.X.(*ssa.Alloc); ok {
			return "yes"
		}
		return "unknown"
	case *ssa.ChangeInterface:
		return c29NonNilErr(w, x.X, nonNil, depth+1)
	case *ssa.Call:
		switch w.Info(x).Name {
		case "func:fmt.Errorf", "func:errors.New":
			return "yes"
		}
		return "unknown"
	case *ssa.Phi:
		res := "yes"
		for _, e := range x.Edges {
			switch c29NonNilErr(w, e, nonNil, depth+1) {
			case "no":
				return "no"
			case "unknown":
				res = "unknown"
			}
		}
		return res
	case *ssa.UnOp:
		// load of a named result slot: all stores
		if x.Op == token.MUL {
			if al, ok := x.X.(*ssa.Alloc); ok && al.Referrers() != nil {
				// result slot written just before `rundefers; return *slot`: the
				// last store of the same block decides, unless a closure captures
				// the slot (a deferred function could overwrite it)
				captured := false
				for _, r := range *al.Referrers() {
					if _, isMC := r.(*ssa.MakeClosure); isMC {
						captured = true
					}
				}
				if !captured {
					instrs := x.Block().Instrs
					for i := an.InstrIndex(x) - 1; i >= 0; i-- {
						if s, ok := instrs[i].(*ssa.Store); ok && s.Addr == al {
							return c29NonNilErr(w, s.Val, nonNil, depth+1)
						}
					}
				}
				res := "yes"
				n := 0
				for _, r := range *al.Referrers() {
					if s, ok := r.(*ssa.Store); ok && s.Addr == al {
						n++
						if c29NonNilErr(w, s.Val, nonNil, depth+1) != "yes" {
							res = "unknown"
						}
					}
				}
				if n == 0 {
					return "no"
				}
				return res
			}
		}
	}
	return "unknown"
}

// ---- R2 ---------------------------------------------------------------------------

// c29EvalStatePred runs fn (a predicate over the receiver's Current field) on
// the abstract input Current == state, following only decided branches.
func c29EvalStatePred(fn *ssa.Function, state string) (res bool, ok bool, why string) {
	if len(fn.Params) == 0 || len(fn.Blocks) == 0 {
		return false, false, "no receiver"
	}
	recv := fn.Params[0]
	env := map[ssa.Value]bool{}
	var isCur func(v ssa.Value) bool
	isCur = func(v ssa.Value) bool {
		switch x := v.(type) {
		case *ssa.ChangeType:
			return isCur(x.X)
		case *ssa.Convert:
			return isCur(x.X)
		case *ssa.UnOp:
			if x.Op != token.MUL {
				return false
			}
			fa, ok := x.X.(*ssa.FieldAddr)
			return ok && fa.X == recv && an.FieldName(fa.X.Type(), fa.Field) == "SwapStateMachine.Current"
		case *ssa.Field:
			return false
		}
		return false
	}
	var eval func(v ssa.Value) (bool, bool)
	eval = func(v ssa.Value) (bool, bool) {
		if b, ok := env[v]; ok {
			return b, true
		}
		switch x := v.(type) {
		case *ssa.Const:
			if x.Value != nil && x.Value.Kind() == constant.Bool {
				return constant.BoolVal(x.Value), true
			}
		case *ssa.UnOp:
			if x.Op == token.NOT {
				b, ok := eval(x.X)
				return !b, ok
			}
		case *ssa.BinOp:
			if x.Op != token.EQL && x.Op != token.NEQ {
				return false, false
			}
			var k string
			var kok bool
			switch {
			case isCur(x.X):
				k, kok = an.ConstString(x.Y)
			case isCur(x.Y):
				k, kok = an.ConstString(x.X)
			}
			if !kok {
				return false, false
			}
			return (k == state) == (x.Op == token.EQL), true
		}
		return false, false
	}
	blk := fn.Blocks[0]
	var prev *ssa.BasicBlock
	for steps := 0; steps < 4096; steps++ {
		// phis first, with the edge actually taken
		for _, in := range blk.Instrs {
			p, ok := in.(*ssa.Phi)
			if !ok {
				break
			}
			for i, pr := range blk.Preds {
				if pr == prev {
					if b, ok := eval(p.Edges[i]); ok {
						env[p] = b
					}
					break
				}
			}
		}
		for _, in := range blk.Instrs {
			if ci, ok := in.(ssa.CallInstruction); ok {
				_ = ci
				return false, false, "the predicate calls another function; only comparisons of Current with constants are evaluated"
			}
		}
		last := blk.Instrs[len(blk.Instrs)-1]
		switch x := last.(type) {
		case *ssa.Return:
			if len(x.Results) != 1 {
				return false, false, "unexpected result arity"
			}
			b, ok := eval(x.Results[0])
			if !ok {
				return false, false, "returned value is not a decided boolean"
			}
			return b, true, ""
		case *ssa.Jump:
			prev, blk = blk, blk.Succs[0]
		case *ssa.If:
			b, ok := eval(x.Cond)
			if !ok {
				return false, false, "branch condition is not a comparison of Current with a constant"
			}
			prev = blk
			if b {
				blk = blk.Succs[0]
			} else {
				blk = blk.Succs[1]
			}
		default:
			return false, false, fmt.Sprintf("unsupported terminator %T", last)
		}
	}
	return false, false, "evaluation did not terminate"
}

func c29R2(c *an.Check, has, isFin *ssa.Function) {
	w := c.W
	ts := tables(c)
	if ts == nil {
		return
	}
	// --- IsFinished == terminal
	termIn := map[string][]string{}
	liveIn := map[string][]string{}
	var names []string
	for _, t := range ts {
		for _, s := range t.T.Order {
			if len(termIn[s])+len(liveIn[s]) == 0 {
				names = append(names, s)
			}
			if t.T.States[s].Terminal() {
				termIn[s] = append(termIn[s], t.Name())
			} else {
				liveIn[s] = append(liveIn[s], t.Name())
			}
		}
	}
	sort.Strings(names)
	nTerm := 0
	for _, t := range ts {
		nTerm += len(t.terminals())
	}
	c.AtLeast("C29.R2", "terminal states over the four tables", nTerm, 14)
	pos := w.Pos(isFin.Pos())
	for _, s := range names {
		cons := "IsFinished(" + nonEmpty(s) + ")"
		got, ok, why := c29EvalStatePred(isFin, s)
		if !ok {
			c.Unknown("C29.R2", cons, pos, "cannot evaluate IsFinished for this state: "+why)
			continue
		}
		switch {
		case len(termIn[s]) > 0 && len(liveIn[s]) > 0:
			c.Bad("C29.R2", cons, pos, fmt.Sprintf("state is terminal in %v but has outgoing events in %v: a predicate over the state name alone cannot tell finished from active", termIn[s], liveIn[s]))
		case len(termIn[s]) > 0:
			c.Decide(got, "C29.R2", cons, pos, "terminal state counts as finished",
				fmt.Sprintf("state is terminal in %v but IsFinished is false: a finished swap blocks every upgrade and is recovered again", termIn[s]))
		default:
			c.Decide(!got, "C29.R2", cons, pos, "non-terminal state counts as active",
				fmt.Sprintf("state has outgoing events in %v but IsFinished is true: HasActiveSwaps ignores a swap in this state, so the version is upgraded (and RecoverSwaps skips the swap) while it is still running", liveIn[s]))
		}
	}

	// --- HasActiveSwaps: bounded execution over every list of up to 3 swaps
	c29HasActive(c, has, isFin)
}

// ---- R3 / R4 ----------------------------------------------------------------------

func c29R3R4(c *an.Check, svc *types.Named) {
	w := c.W
	recs := findCallSites(w, c29FnRecover)
	c.AtLeast("C29.R3", "production call sites of RecoverSwaps", len(recs), 2)
	safes := findCallSites(w, c29FnSafe)
	c.AtLeast("C29.R3", "production call sites of SafeUpgrade", len(safes), 2)

	for _, r := range recs {
		fn := r.Parent()
		cons := w.FuncName(fn) + " call RecoverSwaps"
		var recvV ssa.Value
		if len(r.Common().Args) > 0 {
			recvV = r.Common().Args[0]
		}
		good := false
		var why []string
		for _, s := range callsNamed(w, fn, c29FnSafe) {
			sc, ok := s.(*ssa.Call)
			if !ok {
				continue
			}
			okE, _ := an.OkEdges(sc)
			if len(okE) == 0 || !an.EdgesDominate(okE, r.Block()) {
				why = append(why, "SafeUpgrade at "+w.Pos(s.Pos())+" does not dominate with its err==nil edge")
				continue
			}
			arg := c29StripIface(sc.Call.Args[1])
			switch {
			case an.NamedOf(arg.Type()) != svc:
				why = append(why, fmt.Sprintf("SafeUpgrade at %s consults a %s, not the *swap.SwapService whose HasActiveSwaps is analysed by R2", w.Pos(s.Pos()), arg.Type()))
			case recvV != nil && arg != recvV && w.Term(arg) != w.Term(recvV):
				why = append(why, "SafeUpgrade at "+w.Pos(s.Pos())+" is handed another service object ("+w.Term(arg)+") than the one that recovers ("+w.Term(recvV)+")")
			default:
				good = true
			}
		}
		switch {
		case good:
			c.OK("C29.R3", cons, w.Pos(r.Pos()), "swaps are recovered only after SafeUpgrade(<this swap service>) succeeded")
		case len(callsNamed(w, fn, c29FnSafe)) == 0 && c29SafeNearby(w, fn):
			// the upgrade check lives in a helper or in a caller of this function:
			// the sequence is not followed across functions
			c.Unknown("C29.R3", cons, w.Pos(r.Pos()), "SafeUpgrade is not called in "+w.FuncName(fn)+" itself but in a helper or caller of it; the order across functions is not followed")
		default:
			c.Bad("C29.R3", cons, w.Pos(r.Pos()), "RecoverSwaps can run although SafeUpgrade did not succeed before it: swaps written by another version are resumed. "+strings.Join(why, "; "))
		}
	}

	for _, s := range safes {
		fn := s.Parent()
		sc, ok := s.(*ssa.Call)
		if !ok {
			c.Bad("C29.R3", w.FuncName(fn)+" SafeUpgrade error edge", w.Pos(s.Pos()), "SafeUpgrade is called with go/defer: its verdict is lost")
			continue
		}
		arg := c29StripIface(sc.Call.Args[1])
		c.Decide(an.NamedOf(arg.Type()) == svc, "C29.R3", w.FuncName(fn)+" SafeUpgrade argument", w.Pos(s.Pos()),
			"SafeUpgrade consults *swap.SwapService.HasActiveSwaps",
			fmt.Sprintf("SafeUpgrade is handed a %s: the active-swap test analysed by R2 is not the one that guards the upgrade", arg.Type()))
		c29Propagate(c, fn, sc, map[*ssa.Function]bool{}, 0, []string{w.FuncName(fn) + " calls SafeUpgrade at " + w.Pos(s.Pos())})
	}
}

// c29SafeNearby: SafeUpgrade is reached from fn through in-module static
// callees, or called in a function that (transitively, two levels) calls fn.
func c29SafeNearby(w *an.World, fn *ssa.Function) bool {
	if w.Summary(fn).HasEffect(c29FnSafe) {
		return true
	}
	level := []*ssa.Function{an.EnclosingTop(fn)}
	for depth := 0; depth < 2; depth++ {
		var next []*ssa.Function
		for _, g := range prodFuncs(w) {
			for _, call := range an.Calls(g) {
				for _, f := range level {
					if call.Common().StaticCallee() == f {
						if w.Summary(g).HasEffect(c29FnSafe) {
							return true
						}
						next = append(next, an.EnclosingTop(g))
					}
				}
			}
		}
		level = next
	}
	return false
}

func c29StripIface(v ssa.Value) ssa.Value {
	for {
		switch x := v.(type) {
		case *ssa.MakeInterface:
			v = x.X
		case *ssa.ChangeInterface:
			v = x.X
		default:
			return v
		}
	}
}

// process terminators (frozen: the ones used by the two mains and the standard
// library equivalents).
func c29IsExit(w *an.World, in ssa.Instruction) bool {
	call, ok := in.(ssa.CallInstruction)
	if !ok {
		if _, isPanic := in.(*ssa.Panic); isPanic {
			return true
		}
		return false
	}
	ci := w.Info(call)
	if ci.Static == nil {
		return false
	}
	// identified by package path (the module has its own package named log)
	switch ci.PkgPath {
	case "os":
		return ci.Static.Name() == "Exit"
	case "log":
		switch ci.Static.Name() {
		case "Fatal", "Fatalf", "Fatalln", "Panic", "Panicf", "Panicln":
			return true
		}
	}
	return false
}

// c29Propagate follows the error of call k (in fn) to the process exit.
func c29Propagate(c *an.Check, fn *ssa.Function, k *ssa.Call, seen map[*ssa.Function]bool, depth int, path []string) {
	w := c.W
	rule := "C29.R4"
	cons := w.FuncName(fn) + " on error of " + strings.TrimPrefix(w.Info(k).Name, "func:")
	if seen[fn] || depth > 6 {
		c.Unknown(rule, cons, w.Pos(k.Pos()), "caller chain too deep or recursive")
		return
	}
	seen[fn] = true
	_, failE := an.OkEdges(k)
	if len(failE) == 0 {
		c.Bad(rule, cons, w.Pos(k.Pos()), "the error is never tested: a refused upgrade does not stop start-up", path...)
		return
	}
	var errV ssa.Value
	if i := an.ErrResultIndex(k); i >= 0 {
		if vs := an.ResultValues(k, i); len(vs) > 0 {
			errV = vs[0]
		}
	}
	stop := map[*ssa.BasicBlock]bool{}
	for _, b := range fn.Blocks {
		for _, in := range b.Instrs {
			if c29IsExit(w, in) {
				stop[b] = true
			}
		}
	}
	var start []*ssa.BasicBlock
	for _, e := range failE {
		start = append(start, e.To())
	}
	reach := an.ReachBlocks(start, nil, stop)
	isMain := fn.Name() == "main" && fn.Parent() == nil && fn.Signature.Recv() == nil && fn.Pkg != nil && fn.Pkg.Pkg.Name() == "main"
	verdict := "ok"
	detail := ""
	pos := w.Pos(k.Pos())
	nRet := 0
	for _, r := range an.Returns(fn) {
		if !reach[r.Block()] || stop[r.Block()] {
			continue
		}
		nRet++
		if isMain {
			continue // returning from main ends the process
		}
		i := c29ErrIdx(fn)
		if i < 0 {
			verdict, detail, pos = "bad", "the function has no error result, so its caller continues", w.Pos(r.Pos())
			break
		}
		switch c29NonNilErr(w, r.Results[i], errV, 0) {
		case "no":
			verdict, detail, pos = "bad", "after the failure this return yields a nil error", w.Pos(r.Pos())
		case "unknown":
			if verdict == "ok" {
				verdict, detail, pos = "unknown", "cannot prove the error returned here is non-nil: "+w.Term(r.Results[i]), w.Pos(r.Pos())
			}
		}
		if verdict == "bad" {
			break
		}
	}
	switch verdict {
	case "bad":
		if depth > 0 {
			// The start-up routine itself failed and returned the error (checked at
			// depth 0), so nothing after the refused upgrade ran. Whether an outer
			// caller then ends the process or idles is more than the property states.
			c.Note(rule, cons, pos, "the start-up routine returned the SafeUpgrade error, but this caller does not end the process ("+detail+"): the daemon idles without peerswap having started")
			return
		}
		c.Bad(rule, cons, pos, "the error of SafeUpgrade (active swaps with a database of another version) is swallowed here: "+detail+"; the process keeps running instead of failing start-up", path...)
		return
	case "unknown":
		c.Unknown(rule, cons, pos, detail)
		return
	}
	if isMain || nRet == 0 {
		c.OK(rule, cons, w.Pos(k.Pos()), "the failure ends the process (exit call, or return from main)")
		return
	}
	c.OK(rule, cons, w.Pos(k.Pos()), "the failure is returned as a non-nil error")
	// callers
	n := 0
	for _, g := range prodFuncs(w) {
		for _, call := range an.Calls(g) {
			ci := w.Info(call)
			if ci.Static != fn {
				continue
			}
			n++
			cc, ok := call.(*ssa.Call)
			if !ok {
				c.Bad(rule, w.FuncName(g)+" on error of "+w.FuncName(fn), w.Pos(call.Pos()), "called with go/defer: the error of SafeUpgrade is lost", path...)
				continue
			}
			c29Propagate(c, g, cc, seen, depth+1, append(append([]string{}, path...), w.FuncName(g)+" calls "+w.FuncName(fn)+" at "+w.Pos(call.Pos())))
		}
	}
	if n == 0 {
		c.Unknown(rule, cons, w.Pos(k.Pos()), "no static caller of "+w.FuncName(fn)+" found: cannot follow the error to the process exit")
	}
}

// ---- bounded execution of HasActiveSwaps ---------------------------------------

type c29Val struct {
	kind string // int | bool | elem | elemaddr | slice | err | tuple | unk
	i    int64
	b    bool // bool value / err is nil
}

type c29Scenario struct {
	storeErr bool
	fin      []bool
}

func (sc c29Scenario) String() string {
	if sc.storeErr {
		return "ListAll fails"
	}
	var p []string
	for _, f := range sc.fin {
		if f {
			p = append(p, "finished")
		} else {
			p = append(p, "ACTIVE")
		}
	}
	return "stored swaps [" + strings.Join(p, ", ") + "]"
}

// c29Exec runs fn on the scenario. Unknown branch conditions fork. It returns
// the set of distinct outcomes "true|false|?" x "nil|err|?" and a reason when
// the function leaves the interpreted subset.
func c29Exec(w *an.World, fn, isFin *ssa.Function, sc c29Scenario) (outs map[string]bool, why string) {
	outs = map[string]bool{}
	type frame struct {
		blk, prev *ssa.BasicBlock
		env       map[ssa.Value]c29Val
		steps     int
	}
	unk := c29Val{kind: "unk"}
	work := []frame{{blk: fn.Blocks[0], env: map[ssa.Value]c29Val{}}}
	forks := 0
	for len(work) > 0 {
		f := work[len(work)-1]
		work = work[:len(work)-1]
		env := f.env
		get := func(v ssa.Value) c29Val {
			if x, ok := env[v]; ok {
				return x
			}
			switch k := v.(type) {
			case *ssa.Const:
				if k.Value == nil {
					if an.IsErrorType(k.Type()) {
						return c29Val{kind: "err", b: true}
					}
					return unk
				}
				switch k.Value.Kind() {
				case constant.Bool:
					return c29Val{kind: "bool", b: constant.BoolVal(k.Value)}
				case constant.Int:
					if i, ok := constant.Int64Val(k.Value); ok {
						return c29Val{kind: "int", i: i}
					}
				}
			}
			return unk
		}
	run:
		for {
			f.steps++
			if f.steps > 2000 {
				return outs, "execution does not terminate within the step bound"
			}
			blk := f.blk
			// phis with the edge taken
			newPhi := map[ssa.Value]c29Val{}
			for _, in := range blk.Instrs {
				p, ok := in.(*ssa.Phi)
				if !ok {
					break
				}
				newPhi[p] = unk
				for i, pr := range blk.Preds {
					if pr == f.prev {
						newPhi[p] = get(p.Edges[i])
						break
					}
				}
			}
			for k, v := range newPhi {
				env[k] = v
			}
			for _, in := range blk.Instrs {
				switch x := in.(type) {
				case *ssa.Phi:
				case *ssa.Call:
					ci := w.Info(x)
					switch {
					case ci.Name == c29IfListAll || (ci.Static != nil && c29ListHelpers[ci.Static]):
						env[x] = c29Val{kind: "tuple"}
					case ci.Static != nil && ci.Static == isFin:
						r := get(x.Call.Args[0])
						if r.kind != "elem" || sc.storeErr || r.i < 0 || int(r.i) >= len(sc.fin) {
							return outs, "IsFinished is called on something that is not an element of the ListAll() result: " + w.Term(x.Call.Args[0])
						}
						env[x] = c29Val{kind: "bool", b: sc.fin[r.i]}
					case ci.Name == "builtin:len" && len(x.Call.Args) == 1 && get(x.Call.Args[0]).kind == "slice":
						env[x] = c29Val{kind: "int", i: int64(len(sc.fin))}
					case ci.Name == "func:fmt.Errorf" || ci.Name == "func:errors.New":
						env[x] = c29Val{kind: "err", b: false}
					default:
						env[x] = unk
					}
				case *ssa.Extract:
					if get(x.Tuple).kind == "tuple" {
						if x.Index == 0 {
							if sc.storeErr {
								env[x] = unk
							} else {
								env[x] = c29Val{kind: "slice"}
							}
						} else {
							env[x] = c29Val{kind: "err", b: !sc.storeErr}
						}
					} else {
						env[x] = unk
					}
				case *ssa.IndexAddr:
					s, i := get(x.X), get(x.Index)
					if s.kind == "slice" && i.kind == "int" {
						if i.i < 0 || int(i.i) >= len(sc.fin) {
							return outs, "index out of range while walking the stored swaps"
						}
						env[x] = c29Val{kind: "elemaddr", i: i.i}
					} else {
						env[x] = unk
					}
				case *ssa.UnOp:
					v := get(x.X)
					switch {
					case x.Op == token.MUL && v.kind == "elemaddr":
						env[x] = c29Val{kind: "elem", i: v.i}
					case x.Op == token.NOT && v.kind == "bool":
						env[x] = c29Val{kind: "bool", b: !v.b}
					case x.Op == token.SUB && v.kind == "int":
						env[x] = c29Val{kind: "int", i: -v.i}
					default:
						env[x] = unk
					}
				case *ssa.BinOp:
					l, r := get(x.X), get(x.Y)
					switch {
					case l.kind == "int" && r.kind == "int":
						switch x.Op {
						case token.ADD:
							env[x] = c29Val{kind: "int", i: l.i + r.i}
						case token.SUB:
							env[x] = c29Val{kind: "int", i: l.i - r.i}
						case token.MUL:
							env[x] = c29Val{kind: "int", i: l.i * r.i}
						case token.EQL:
							env[x] = c29Val{kind: "bool", b: l.i == r.i}
						case token.NEQ:
							env[x] = c29Val{kind: "bool", b: l.i != r.i}
						case token.LSS:
							env[x] = c29Val{kind: "bool", b: l.i < r.i}
						case token.LEQ:
							env[x] = c29Val{kind: "bool", b: l.i <= r.i}
						case token.GTR:
							env[x] = c29Val{kind: "bool", b: l.i > r.i}
						case token.GEQ:
							env[x] = c29Val{kind: "bool", b: l.i >= r.i}
						default:
							env[x] = unk
						}
					case l.kind == "err" && r.kind == "err" && (x.Op == token.EQL || x.Op == token.NEQ) && (an.IsNilConst(x.X) || an.IsNilConst(x.Y)):
						env[x] = c29Val{kind: "bool", b: (l.b == r.b) == (x.Op == token.EQL)}
					case l.kind == "bool" && r.kind == "bool" && (x.Op == token.EQL || x.Op == token.NEQ):
						env[x] = c29Val{kind: "bool", b: (l.b == r.b) == (x.Op == token.EQL)}
					default:
						env[x] = unk
					}
				case *ssa.ChangeType:
					env[x] = get(x.X)
				case *ssa.Convert:
					env[x] = get(x.X)
				case *ssa.ChangeInterface:
					env[x] = get(x.X)
				case *ssa.MakeInterface:
					if an.IsErrorType(x.Type()) {
						env[x] = c29Val{kind: "err", b: false}
					} else {
						env[x] = unk
					}
				case *ssa.Return:
					r0, r1 := get(x.Results[0]), get(x.Results[1])
					o := "?"
					if r0.kind == "bool" {
						o = fmt.Sprint(r0.b)
					}
					e := "?"
					if r1.kind == "err" {
						e = map[bool]string{true: "nil", false: "err"}[r1.b]
					}
					outs["("+o+", "+e+")"] = true
					break run
				case *ssa.Jump:
					f.prev, f.blk = blk, blk.Succs[0]
					continue run
				case *ssa.If:
					cv := get(x.Cond)
					if cv.kind == "bool" {
						f.prev = blk
						if cv.b {
							f.blk = blk.Succs[0]
						} else {
							f.blk = blk.Succs[1]
						}
						continue run
					}
					// undetermined by the scenario: both ways
					forks++
					if forks > 256 {
						return outs, "too many undetermined branches"
					}
					e2 := map[ssa.Value]c29Val{}
					for k, v := range env {
						e2[k] = v
					}
					work = append(work, frame{blk: blk.Succs[1], prev: blk, env: e2, steps: f.steps})
					f.prev, f.blk = blk, blk.Succs[0]
					continue run
				case *ssa.Panic:
					outs["panic"] = true
					break run
				case ssa.Value:
					env[x] = unk
				case *ssa.Store, *ssa.DebugRef, *ssa.RunDefers, *ssa.Defer, *ssa.Go, *ssa.MapUpdate, *ssa.Send:
				default:
					return outs, fmt.Sprintf("instruction %T is outside the interpreted subset", in)
				}
			}
			return outs, "block without terminator"
		}
	}
	return outs, ""
}

// c29ListHelpers: in-module functions that return Store.ListAll's results
// unchanged (set by c29HasActive for c29Exec).
var c29ListHelpers = map[*ssa.Function]bool{}

func c29HasActive(c *an.Check, has, isFin *ssa.Function) {
	w := c.W
	pos := w.Pos(has.Pos())
	// the list of stored swaps: Store.ListAll, directly or through a helper that
	// hands its two results back unchanged
	c29ListHelpers = map[*ssa.Function]bool{}
	nList := len(callsNamed(w, has, c29IfListAll))
	for _, call := range an.Calls(has) {
		f := call.Common().StaticCallee()
		if f == nil || !w.InModule(f) || f.Blocks == nil {
			continue
		}
		inner := callsNamed(w, f, c29IfListAll)
		if len(inner) != 1 {
			continue
		}
		pass := true
		for _, r := range an.Returns(f) {
			if len(r.Results) != 2 {
				pass = false
				continue
			}
			for i, res := range r.Results {
				ex, isEx := res.(*ssa.Extract)
				if !isEx || ex.Index != i || ex.Tuple != inner[0].Value() {
					pass = false
				}
			}
		}
		if pass {
			c29ListHelpers[f] = true
			nList++
		}
	}
	if nList == 0 {
		// does any read of the swap store reach this function at all?
		reads := false
		for _, ef := range w.Summary(has).Effects {
			if strings.HasPrefix(ef.Name, "iface:swap.Store.") || (ef.Info.Static != nil && ef.Info.PkgPath == c29BoltPath) {
				reads = true
			}
		}
		if !reads {
			c.Bad("C29.R2", "HasActiveSwaps", pos, "HasActiveSwaps answers from memory, not from the store: no read of the swap store (Store.ListAll / GetData / bbolt) is reached from it, so its result cannot depend on the persisted swaps — before RecoverSwaps has run nothing is in memory and the answer is `false` although unfinished swaps are stored: the version is replaced while a swap is active")
			return
		}
		c.Unknown("C29.R2", "HasActiveSwaps", pos, "the swap store is read, but not through one Store.ListAll call (or a helper handing its results back) in HasActiveSwaps")
		return
	}
	if nList != 1 {
		c.Unknown("C29.R2", "HasActiveSwaps", pos, fmt.Sprintf("expected exactly one Store.ListAll call, found %d", nList))
		return
	}
	if has.Signature.Results().Len() != 2 {
		c.Unknown("C29.R2", "HasActiveSwaps", pos, "unexpected signature")
		return
	}
	var scs []c29Scenario
	for n := 0; n <= 3; n++ {
		for m := 0; m < 1<<n; m++ {
			fin := make([]bool, n)
			for i := range fin {
				fin[i] = m&(1<<i) != 0
			}
			scs = append(scs, c29Scenario{fin: fin})
		}
	}
	var bad, unknown []string
	nOK := 0
	for _, sc := range scs {
		outs, why := c29Exec(w, has, isFin, sc)
		if why != "" {
			unknown = append(unknown, sc.String()+": "+why)
			continue
		}
		active := false
		for _, f := range sc.fin {
			if !f {
				active = true
			}
		}
		want := fmt.Sprintf("(%v, nil)", active)
		okSc := len(outs) > 0
		for o := range outs {
			switch {
			case o == want:
			case active && o == "(true, err)", o == "(?, err)", o == "(false, err)" && !active:
				// answering with an error also refuses the upgrade
			case strings.Contains(o, "?"):
				okSc = false
				unknown = append(unknown, sc.String()+": result "+o+" is not determined")
			default:
				okSc = false
				bad = append(bad, sc.String()+" -> "+o+", expected "+want)
			}
		}
		if okSc {
			nOK++
		}
	}
	switch {
	case len(bad) > 0:
		if len(bad) > 6 {
			bad = append(bad[:6], fmt.Sprintf("… %d more", len(bad)-6))
		}
		c.Bad("C29.R2", "HasActiveSwaps", pos, "HasActiveSwaps is not `some stored swap is not finished`: "+strings.Join(bad, "; ")+" — the version is replaced while a swap is active (or an upgrade is refused without one)")
	case len(unknown) > 0:
		c.Unknown("C29.R2", "HasActiveSwaps", pos, "cannot execute HasActiveSwaps on the bounded store contents: "+unknown[0])
	default:
		c.OK("C29.R2", "HasActiveSwaps", pos, fmt.Sprintf("%d store contents (all lists of <= 3 swaps, each finished or active): result is exactly `some swap is not finished`", nOK))
	}
	c.AtLeast("C29.R2", "bounded store contents", len(scs), 15)
	// every persisted swap is accounted for: a record that does not decode must
	// surface as an error of ListAll, not be skipped
	c29StoreDecodes(c)
	// the test itself must leave the store alone
	var writes []string
	for _, ef := range w.Summary(has).Effects {
		if ef.Name == fxStoreUpdate || (ef.Info.Static != nil && ef.Info.PkgPath == c29BoltPath && c29BoltMutators[ef.Info.Method]) {
			writes = append(writes, ef.Name+" in "+w.FuncName(ef.In))
		}
	}
	c.Decide(len(writes) == 0, "C29.R2", "HasActiveSwaps read-only", pos, "the active-swap test performs no store write",
		fmt.Sprintf("HasActiveSwaps writes to the store (%v): a refused upgrade does not leave the swaps unchanged", writes))
	// store error
	outs, why := c29Exec(w, has, isFin, c29Scenario{storeErr: true})
	var wrong []string
	for o := range outs {
		if !strings.HasSuffix(o, ", err)") {
			wrong = append(wrong, o)
		}
	}
	sort.Strings(wrong)
	switch {
	case why != "":
		c.Unknown("C29.R2", "HasActiveSwaps store error", pos, "cannot execute: "+why)
	case len(wrong) > 0 || len(outs) == 0:
		c.Bad("C29.R2", "HasActiveSwaps store error", pos, fmt.Sprintf("when Store.ListAll fails HasActiveSwaps can return %v: SafeUpgrade then sees `no active swaps` (or an undetermined answer) instead of an error", wrong))
	default:
		c.OK("C29.R2", "HasActiveSwaps store error", pos, "a failing Store.ListAll is reported as an error")
	}
}

// c29IsAPI: an exported function, or an exported method of an exported type.
func c29IsAPI(fn *ssa.Function) bool {
	if fn == nil || fn.Object() == nil || !fn.Object().Exported() || fn.Parent() != nil {
		return false
	}
	if recv := fn.Signature.Recv(); recv != nil {
		n := an.NamedOf(recv.Type())
		return n != nil && n.Obj().Exported()
	}
	return true
}

// ---- every stored record is accounted for ---------------------------------------

var c29DecodeLib = map[string]bool{
	"func:encoding/json.Unmarshal": true, "func:(*encoding/json.Decoder).Decode": true,
}

// c29StoreDecodes: on the chain Store.ListAll -> (walker, callback, decode
// helper) every decode failure must come back as a non-nil error: at each
// fallible decode (json.Unmarshal / Decoder.Decode, an in-module helper built on
// them, a library walker that is handed a callback containing one) the error is
// tested or handed back, and no path from the error edge returns a nil error or
// goes on to the next record.
func c29StoreDecodes(c *an.Check) {
	w := c.W
	storeT := w.Named("swap", "Store")
	if storeT == nil {
		c.Anchor("swap.Store does not resolve")
		return
	}
	si, _ := storeT.Underlying().(*types.Interface)
	// ListAll implementations of production types
	var roots []*ssa.Function
	for _, rel := range c29SortedRels(w) {
		if an.IsTestSupport(rel) {
			continue
		}
		scope := w.ByRel[rel].Types.Scope()
		for _, name := range scope.Names() {
			tn, ok := scope.Lookup(name).(*types.TypeName)
			if !ok {
				continue
			}
			nt, ok := tn.Type().(*types.Named)
			if !ok || si == nil || types.IsInterface(nt) {
				continue
			}
			if !types.Implements(nt, si) && !types.Implements(types.NewPointer(nt), si) {
				continue
			}
			if m := w.Method(nt, "ListAll"); m != nil && m.Blocks != nil {
				roots = append(roots, m)
			}
		}
	}
	if !c.AtLeast("C29.R2", "production implementations of Store.ListAll", len(roots), 1) {
		return
	}
	// the functions of the chain: static in-module callees and closures, three levels
	chain := map[*ssa.Function]bool{}
	var order []*ssa.Function
	var visit func(f *ssa.Function, depth int)
	visit = func(f *ssa.Function, depth int) {
		if f == nil || f.Blocks == nil || chain[f] || depth > 3 || !w.InModule(f) || w.FnRel(f) == "log" {
			return
		}
		chain[f] = true
		order = append(order, f)
		for _, a := range f.AnonFuncs {
			visit(a, depth+1)
		}
		for _, call := range an.Calls(f) {
			visit(call.Common().StaticCallee(), depth+1)
		}
	}
	for _, r := range roots {
		visit(r, 0)
	}
	// which chain functions can fail by a decode (transitively)?
	canFail := map[*ssa.Function]bool{}
	for changed := true; changed; {
		changed = false
		for _, f := range order {
			if canFail[f] {
				continue
			}
			for _, call := range an.Calls(f) {
				g := call.Common().StaticCallee()
				if c29DecodeLib[w.Info(call).Name] || (g != nil && canFail[g]) {
					canFail[f], changed = true, true
				}
				for _, a := range call.Common().Args {
					if mc, ok := a.(*ssa.MakeClosure); ok {
						if cf, ok := mc.Fn.(*ssa.Function); ok && canFail[cf] {
							canFail[f], changed = true, true
						}
					}
				}
			}
		}
	}
	n := 0
	seen := map[string]int{}
	for _, f := range order {
		errIdx := c29ErrIdx(f)
		for _, call := range an.Calls(f) {
			cc, ok := call.(*ssa.Call)
			if !ok || an.ErrResultIndex(cc) < 0 {
				continue
			}
			ci := w.Info(call)
			kind := ""
			switch {
			case c29DecodeLib[ci.Name]:
				kind = "decode"
			case ci.Static != nil && canFail[ci.Static]:
				kind = "decode helper"
			default:
				for _, a := range cc.Call.Args {
					if mc, ok := a.(*ssa.MakeClosure); ok {
						if cf, ok := mc.Fn.(*ssa.Function); ok && canFail[cf] {
							kind = "walker with a decoding callback"
						}
					}
				}
			}
			if kind == "" {
				continue
			}
			n++
			name := strings.TrimPrefix(strings.TrimPrefix(ci.Name, "func:"), "iface:")
			cons := w.FuncName(f) + " " + kind + " " + name
			seen[cons]++
			if seen[cons] > 1 {
				cons += fmt.Sprintf(" #%d", seen[cons])
			}
			pos := w.Pos(call.Pos())
			var errV ssa.Value
			if cc.Call.Signature().Results().Len() == 1 {
				errV = cc
			} else if vs := an.ResultValues(cc, an.ErrResultIndex(cc)); len(vs) > 0 {
				errV = vs[0]
			}
			_, failE := an.OkEdges(cc)
			switch {
			case errV == nil || errV.Referrers() == nil || len(*errV.Referrers()) == 0:
				c.Bad("C29.R2", cons, pos, "the error of this "+kind+" is discarded: a stored swap that does not decode is silently left out of ListAll, HasActiveSwaps does not see it and answers (false, nil)")
			case len(failE) == 0:
				// handed back as this function's error at every return?
				propagated := errIdx >= 0
				if propagated {
					any := false
					for _, r := range an.Returns(f) {
						if r.Results[errIdx] == errV {
							any = true
						}
					}
					propagated = any
				}
				if propagated {
					c.OK("C29.R2", cons, pos, "the error is handed back to the caller")
				} else {
					c.Unknown("C29.R2", cons, pos, "the error is neither compared with nil nor returned here; the rule does not follow it")
				}
			default:
				var start []*ssa.BasicBlock
				for _, e := range failE {
					start = append(start, e.To())
				}
				reach := an.ReachBlocks(start, nil, map[*ssa.BasicBlock]bool{cc.Block(): true})
				verdict, detail := "ok", ""
				if reach[cc.Block()] {
					verdict, detail = "bad", "the error edge leads back to the decode of the next record (log-and-continue)"
				}
				delete(reach, cc.Block())
				for _, r := range an.Returns(f) {
					if !reach[r.Block()] || verdict == "bad" {
						continue
					}
					if errIdx < 0 {
						verdict, detail = "unknown", "the function has no error result"
						continue
					}
					switch c29NonNilErr(w, r.Results[errIdx], errV, 0) {
					case "no":
						verdict, detail = "bad", "the error edge reaches the return at "+w.Pos(r.Pos())+", which yields a nil error (log-and-skip)"
					case "unknown":
						if verdict == "ok" {
							verdict, detail = "unknown", "cannot prove that the return at "+w.Pos(r.Pos())+" carries a non-nil error"
						}
					}
				}
				switch verdict {
				case "ok":
					c.OK("C29.R2", cons, pos, "a decode failure is returned as an error")
				case "bad":
					c.Bad("C29.R2", cons, pos, "a stored swap record that does not decode is swallowed: "+detail+". The record is left out of ListAll, so HasActiveSwaps answers (false, nil) for an unfinished swap it cannot read and SafeUpgrade stamps the new version while that swap is active")
				default:
					c.Unknown("C29.R2", cons, pos, detail)
				}
			}
		}
	}
	c.AtLeast("C29.R2", "decode sites on the chain Store.ListAll -> record decode", n, 1)
}

func c29SortedRels(w *an.World) []string {
	var out []string
	for r := range w.ByRel {
		out = append(out, r)
	}
	sort.Strings(out)
	return out
}
