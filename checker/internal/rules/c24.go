package rules

import (
	"fmt"
	"go/token"
	"go/types"
	"sort"
	"strings"

	"golang.org/x/tools/go/ssa"

	"psv/internal/an"
)

// C24 — swap payments are a single HTLC over the swap channel to the swap peer.
//
// The rules start at the two channel-bound payment methods of every production
// implementation of swap.LightningClient, walk the static in-module call tree
// ("frames", so that a parameter is resolved to the argument of the call it was
// reached through) and check the arguments of the payment primitive that is
// finally invoked on the node API.

func init() {
	Register(&Prop{
		ID: "C24",
		Expl: "Decides on SSA, for every production implementation of swap.LightningClient and both channel-bound methods (PayInvoiceViaChannel, RebalancePayment), following parameters through the static call tree: " +
			"(R1) every CLN payment primitive reached is glightning SendPay; its route argument is a slice literal with exactly one hop whose Id and AmountMsat are the Payee / AmountMsat of the invoice decoded (DecodeBolt11) from the method's payreq parameter, whose ShortChannelId is the method's channel parameter passed through lightning.Scid.ClnStyle (which replaces ':' by 'x'); the msat, payment-hash and bolt11 arguments come from the same decoded invoice / the same payreq. " +
			"(R2) every LND payment primitive reached is RouterClient.SendPaymentV2; its request is a composite literal whose PaymentRequest is the payreq parameter, MaxParts is the constant 1, OutgoingChanIds is a one-element literal holding ChanId of the channel returned by a lookup that was given the channel parameter and only returns a channel selected under an equality test between that parameter and a value derived from the candidate; no other routing/amount field is set; and the literal (or the primitive) is dominated by the passing edge of `decoded.Destination == channel.RemotePubkey` for the invoice decoded from the same payreq and the same channel. " +
			"(R3) no production code calls LightningClient.PayInvoice; every call of PayInvoiceViaChannel / RebalancePayment passes as channel a parameterless SwapData method (GetScid, GetScidInBoltFormat) or the request's Scid field of the same SwapData its payreq field is read from, and that method returns only the Scid of the stored swap-in/swap-out request (possibly re-spelled with strings.ReplaceAll) or \"\"; every other node-API call reachable from the payment methods through static in-module calls (on any path, including error and retry paths, and through in-module wrappers such as PayInvoice) is classified: non-paying calls are ignored, a path-finding primitive (glightning Pay/PayBolt/keysend/xpay/renepay, lnd SendPaymentSync without an outgoing-channel restriction) is a violation because the payment can then leave the swap channel, explicit-route primitives other than SendPay/SendPayLite and unclassified calls are undecided. " +
			"Quantified over all implementations, call paths, route/request literals and call sites.",
		NotD: "What the Lightning node does with a correct request (trusted); CLTV values (C04/C05); that both spellings of a channel id are accepted by the LND lookup (only that a returned channel was matched against the requested id); probe payments (ProbePayment sends an unsettleable HTLC and is not a fee or claim payment).",
		Run:  runC24,
	})
}

// ---- frames ----------------------------------------------------------------------

type c24Frame struct {
	fn   *ssa.Function
	site ssa.CallInstruction // call in up.fn that entered fn (nil for the entry)
	up   *c24Frame
}

type c24Val struct {
	v  ssa.Value
	fr *c24Frame
}

func (a c24Val) same(b c24Val) bool { return a.v != nil && a.v == b.v && c24SameFrame(a.fr, b.fr) }

// frames are equal when they describe the same call path
func c24SameFrame(a, b *c24Frame) bool {
	for a != nil && b != nil {
		if a == b {
			return true
		}
		if a.fn != b.fn || a.site != b.site {
			return false
		}
		a, b = a.up, b.up
	}
	return a == nil && b == nil
}

func c24Strip(v ssa.Value) ssa.Value {
	for {
		switch x := v.(type) {
		case *ssa.ChangeType:
			v = x.X
			continue
		case *ssa.MakeInterface:
			v = x.X
			continue
		case *ssa.Convert:
			// string <-> named string only
			if c24IsString(x.Type()) && c24IsString(x.X.Type()) {
				v = x.X
				continue
			}
		}
		return v
	}
}

func c24IsString(t types.Type) bool {
	b, ok := t.Underlying().(*types.Basic)
	return ok && b.Info()&types.IsString != 0
}

func c24ParamIdx(fn *ssa.Function, v ssa.Value) int {
	for i, p := range fn.Params {
		if ssa.Value(p) == v {
			return i
		}
	}
	return -1
}

// resolve follows parameters up the call path.
func (fr *c24Frame) resolve(v ssa.Value) c24Val {
	for {
		v = c24Strip(v)
		if _, ok := v.(*ssa.Parameter); !ok || fr.up == nil || fr.site == nil {
			return c24Val{v, fr}
		}
		i := c24ParamIdx(fr.fn, v)
		args := fr.site.Common().Args
		if fr.site.Common().IsInvoke() || i < 0 || i >= len(args) {
			return c24Val{v, fr}
		}
		v, fr = args[i], fr.up
	}
}

// entryParam: the value is parameter #idx of the entry method.
func (x c24Val) entryParam() int {
	if x.fr == nil || x.fr.up != nil {
		return -1
	}
	return c24ParamIdx(x.fr.fn, x.v)
}

func c24Describe(w *an.World, x c24Val) string {
	if x.v == nil {
		return "<nothing>"
	}
	if i := x.entryParam(); i >= 0 {
		return fmt.Sprintf("parameter #%d of %s", i, w.FuncName(x.fr.fn))
	}
	return w.Term(x.v) + " in " + w.FuncName(x.fr.fn)
}

// c24Opaque: a value the resolver does not look through (merge points, locals
// whose address is taken); a mismatch on such a value is "cannot decide".
func c24Opaque(v ssa.Value) bool {
	switch x := v.(type) {
	case *ssa.Phi:
		return true
	case *ssa.UnOp:
		if x.Op == token.MUL {
			_, isAlloc := x.X.(*ssa.Alloc)
			return isAlloc
		}
	case *ssa.Lookup, *ssa.Index, *ssa.Call, *ssa.Extract, *ssa.BinOp:
		// element of a container, or a value computed by a call / an operator the
		// rules do not interpret
		return true
	}
	return false
}

// walk visits every frame reachable from fr through static in-module calls.
func c24Walk(w *an.World, fr *c24Frame, depth int, visit func(*c24Frame)) {
	visit(fr)
	if depth >= 6 {
		return
	}
	for _, call := range an.Calls(fr.fn) {
		ci := w.Info(call)
		if ci.Static == nil || ci.IsGo || !w.InModule(ci.Static) || ci.Static.Blocks == nil {
			continue
		}
		rec := false
		for f := fr; f != nil; f = f.up {
			if f.fn == ci.Static {
				rec = true
			}
		}
		if rec {
			continue
		}
		c24Walk(w, &c24Frame{fn: ci.Static, site: call, up: fr}, depth+1, visit)
	}
}

// ---- small matchers ------------------------------------------------------------------

// c24FieldOf: v is a load of field typ.field, or the protobuf getter Get<field>
// of *typ; returns the struct (pointer) value.
func c24FieldOf(w *an.World, v ssa.Value, typ, field string) (ssa.Value, bool) {
	v = c24Strip(v)
	switch x := v.(type) {
	case *ssa.UnOp:
		if x.Op == token.MUL {
			if fa, ok := x.X.(*ssa.FieldAddr); ok && an.FieldName(fa.X.Type(), fa.Field) == typ+"."+field {
				return fa.X, true
			}
		}
	case *ssa.Field:
		if an.FieldName(x.X.Type(), x.Field) == typ+"."+field {
			return x.X, true
		}
	case *ssa.Call:
		ci := w.Info(x)
		if ci.Static != nil && ci.Recv != nil && ci.Recv.Obj().Name() == typ && ci.Static.Name() == "Get"+field && len(x.Call.Args) == 1 {
			return x.Call.Args[0], true
		}
	}
	return nil, false
}

// c24CallOf: v is result #idx of a call; returns the call.
func c24CallOf(v ssa.Value, idx int) *ssa.Call {
	v = c24Strip(v)
	switch x := v.(type) {
	case *ssa.Extract:
		if c, ok := x.Tuple.(*ssa.Call); ok && x.Index == idx {
			return c
		}
	case *ssa.Call:
		if idx == 0 && x.Common().Signature().Results().Len() == 1 {
			return x
		}
	}
	return nil
}

// c24StructFields collects the values stored into the fields of the struct at
// addr (a composite literal); a whole-struct store of a loaded local literal is
// looked through.
func c24StructFields(addr ssa.Value) (map[string]ssa.Value, bool) {
	out := map[string]ssa.Value{}
	if addr.Referrers() == nil {
		return out, true
	}
	ok := true
	for _, r := range *addr.Referrers() {
		switch x := r.(type) {
		case *ssa.FieldAddr:
			if x.X != addr || x.Referrers() == nil {
				continue
			}
			name := an.FieldName(addr.Type(), x.Field)
			if i := strings.LastIndex(name, "."); i >= 0 {
				name = name[i+1:]
			}
			for _, rr := range *x.Referrers() {
				if s, isS := rr.(*ssa.Store); isS && s.Addr == x {
					if _, dup := out[name]; dup {
						ok = false // assigned twice: not a plain literal
					}
					out[name] = s.Val
				}
			}
		case *ssa.Store:
			if x.Addr != addr {
				continue
			}
			if ld, isLd := x.Val.(*ssa.UnOp); isLd && ld.Op == token.MUL {
				if al, isAl := ld.X.(*ssa.Alloc); isAl {
					sub, sok := c24StructFields(al)
					for k, v := range sub {
						out[k] = v
					}
					ok = ok && sok
					continue
				}
			}
			ok = false
		}
	}
	return out, ok
}

type c24Lit struct {
	alloc *ssa.Alloc
	fr    *c24Frame
}

// c24Literals resolves v to the composite literals (slice literal backing arrays
// when slice is true, else &T{} literals) it may denote, looking through
// parameters (up), results of static in-module callees (down), phis and nil.
func c24Literals(w *an.World, x c24Val, slice bool, depth int, seen map[ssa.Value]bool) (lits []c24Lit, bad string) {
	if depth > 8 {
		return nil, "too deep"
	}
	x = x.fr.resolve(x.v)
	v := x.v
	if seen[v] {
		return nil, ""
	}
	seen[v] = true
	if an.IsNilConst(v) {
		return nil, ""
	}
	switch y := v.(type) {
	case *ssa.Slice:
		if al, ok := y.X.(*ssa.Alloc); ok && slice && y.Low == nil && y.High == nil {
			return []c24Lit{{al, x.fr}}, ""
		}
		return nil, "a slice expression that is not a full slice literal"
	case *ssa.Alloc:
		if !slice {
			return []c24Lit{{y, x.fr}}, ""
		}
	case *ssa.Phi:
		for _, e := range y.Edges {
			l, b := c24Literals(w, c24Val{e, x.fr}, slice, depth+1, seen)
			if b != "" {
				return nil, b
			}
			lits = append(lits, l...)
		}
		return lits, ""
	case *ssa.Extract, *ssa.Call:
		idx := 0
		var call *ssa.Call
		if ex, ok := y.(*ssa.Extract); ok {
			idx = ex.Index
			call, _ = ex.Tuple.(*ssa.Call)
		} else {
			call = y.(*ssa.Call)
		}
		if call == nil {
			break
		}
		ci := w.Info(call)
		if ci.Static == nil || !w.InModule(ci.Static) || ci.Static.Blocks == nil {
			return nil, "the result of " + ci.Name
		}
		sub := &c24Frame{fn: ci.Static, site: call, up: x.fr}
		for _, r := range an.Returns(ci.Static) {
			if idx >= len(r.Results) {
				continue
			}
			l, b := c24Literals(w, c24Val{r.Results[idx], sub}, slice, depth+1, seen)
			if b != "" {
				return nil, b
			}
			lits = append(lits, l...)
		}
		return lits, ""
	}
	return nil, "a value of shape " + fmt.Sprintf("%T", v) + " (" + w.Term(v) + ")"
}

// c24Elems returns the per-index element addresses of a slice-literal backing array.
func c24Elems(al *ssa.Alloc) (n int64, elems map[int64]*ssa.IndexAddr, ok bool) {
	pt, _ := al.Type().Underlying().(*types.Pointer)
	if pt == nil {
		return 0, nil, false
	}
	at, _ := pt.Elem().Underlying().(*types.Array)
	if at == nil {
		return 0, nil, false
	}
	elems = map[int64]*ssa.IndexAddr{}
	ok = true
	if al.Referrers() != nil {
		for _, r := range *al.Referrers() {
			if ia, isIA := r.(*ssa.IndexAddr); isIA && ia.X == al {
				i, isC := an.ConstInt(ia.Index)
				if !isC {
					ok = false
					continue
				}
				elems[i] = ia
			}
		}
	}
	return at.Len(), elems, ok
}

// c24StoredTo returns the single value stored directly to addr.
func c24StoredTo(addr ssa.Value) ssa.Value {
	var out ssa.Value
	if addr.Referrers() == nil {
		return nil
	}
	for _, r := range *addr.Referrers() {
		if s, ok := r.(*ssa.Store); ok && s.Addr == addr {
			if out != nil {
				return nil
			}
			out = s.Val
		}
	}
	return out
}

func c24IsZero(v ssa.Value) bool {
	c, ok := v.(*ssa.Const)
	if !ok {
		return false
	}
	if c.Value == nil {
		return true
	}
	if i, ok := an.ConstInt(c); ok {
		return i == 0
	}
	if s, ok := an.ConstString(c); ok {
		return s == ""
	}
	return c.Value.String() == "false"
}

// ---- node API classification -----------------------------------------------------------

// Calls on the node API inside a payment method. Frozen, confirmed by reading
// glightning/lightning.go (da2a093f) and lnd v0.18.4 lnrpc / routerrpc.
//
// harmless: does not create an HTLC.
var c24Harmless = map[string]string{
	"DecodeBolt11":       "decodes an invoice",
	"DecodePay":          "decodes an invoice",
	"WaitSendPay":        "waits for a sendpay that was already issued",
	"WaitSendPayPart":    "waits for a sendpay part that was already issued",
	"ListSendPaysByHash": "lists payments",
	"ListSendPays":       "lists payments",
	"ListSendPaysAll":    "lists payments",
	"ListPays":           "lists payments",
	"ListPaysToBolt11":   "lists payments",
	"ListPayStatuses":    "lists payment attempts",
	"GetPayStatus":       "lists payment attempts",
	"GetRoute":           "computes a route, sends nothing",
	"GetRouteSimple":     "computes a route, sends nothing",
	"DecodePayReq":       "decodes an invoice",
	"ListChannels":       "lists channels",
	"ListPeers":          "lists peers",
	"GetPeer":            "peer info",
	"QueryRoutes":        "computes a route, sends nothing",
	"BuildRoute":         "computes a route, sends nothing",
	"EstimateRouteFee":   "estimates a fee, sends nothing",
	"TrackPaymentV2":     "follows a payment that was already issued",
	"TrackPayment":       "follows a payment that was already issued",
	"TrackPayments":      "follows payments that were already issued",
	"ListPayments":       "lists payments",
	"LookupInvoice":      "invoice info",
	"Recv":               "reads the payment status stream",
	"CloseSend":          "closes the stream",
	"Context":            "stream context",
	"Header":             "stream metadata",
	"Trailer":            "stream metadata",
	"GetInfo":            "node info",
}

// path-finding: the node chooses the route itself (any channel, several hops,
// several parts). Reaching one of these from a channel-bound payment method on
// any path — also an error / retry path — breaks the property.
var c24PathFinding = map[string]string{
	"Pay":             "lightningd `pay`: path-finding, multi-part",
	"PayBolt":         "lightningd `pay`: path-finding, multi-part",
	"KeySend":         "lightningd `keysend`: path-finding",
	"Keysend":         "lightningd `keysend`: path-finding",
	"Xpay":            "lightningd `xpay`: path-finding, multi-part",
	"RenePay":         "lightningd `renepay`: path-finding, multi-part",
	"SendPaymentSync": "lnd SendPaymentSync: path-finding",
	"SendPayment":     "lnd SendPayment: path-finding",
}

// explicit-route primitives other than SendPay: bound to the route they are
// given, which the rules do not model (undecided, not a violation).
var c24ExplicitRoute = map[string]bool{
	"SendOnion": true, "SendOnionWithDetails": true, "SendToRoute": true, "SendToRouteSync": true, "SendToRouteV2": true,
}

func c24NodeAPI(w *an.World, ci an.CallInfo) (method string, is bool) {
	if ci.Static != nil && ci.Recv != nil && ci.Recv.Obj().Name() == "Lightning" && strings.HasSuffix(ci.PkgPath, "glightning/glightning") {
		return ci.Static.Name(), true
	}
	if ci.Iface != nil && strings.Contains(ci.PkgPath, "/lnd/lnrpc") {
		return ci.Method, true
	}
	return "", false
}

// ---- run ---------------------------------------------------------------------------------

const (
	c24PayreqParam  = 1 // receiver is #0; positions fixed by the swap.LightningClient interface
	c24ChannelParam = 2
)

func runC24(c *an.Check) {
	c.Rule("C24.R1", "CLN: the only payment primitive behind PayInvoiceViaChannel/RebalancePayment is SendPay with a one-hop route literal (Id, AmountMsat from the decoded invoice; ShortChannelId = ClnStyle(channel parameter)) and msat/hash/bolt11 of the same invoice")
	c.Rule("C24.R2", "LND: the only payment primitive is SendPaymentV2 with a request literal: PaymentRequest = payreq parameter, MaxParts = 1, OutgoingChanIds = {lookup(channel parameter).ChanId}, no other routing/amount field, dominated by invoice destination == channel.RemotePubkey")
	c.Rule("C24.R3", "package swap pays only through PayInvoiceViaChannel / RebalancePayment with GetScid() of the swap the payreq belongs to; LightningClient.PayInvoice has no production caller; no path-finding node primitive is reachable from a channel-bound payment method on any path; unclassified node-API calls there are undecided")
	w := c.W
	if !needEffects(c, fxPay, fxPayViaChannel, fxPayInvoice) {
		return
	}
	lcT := w.Named("swap", "LightningClient")
	lci, _ := lcT.Underlying().(*types.Interface)
	if lci == nil {
		c.Anchor("swap.LightningClient is not an interface")
		return
	}
	var impls []*types.Named
	var rels []string
	for r := range w.ByRel {
		rels = append(rels, r)
	}
	sort.Strings(rels)
	for _, rel := range rels {
		if an.IsTestSupport(rel) {
			continue
		}
		sc := w.ByRel[rel].Types.Scope()
		for _, nm := range sc.Names() {
			tn, ok := sc.Lookup(nm).(*types.TypeName)
			if !ok || tn.IsAlias() {
				continue
			}
			nt, ok := tn.Type().(*types.Named)
			if !ok {
				continue
			}
			if _, isI := nt.Underlying().(*types.Interface); isI {
				continue
			}
			if types.Implements(nt, lci) || types.Implements(types.NewPointer(nt), lci) {
				impls = append(impls, nt)
			}
		}
	}
	if !c.AtLeast("C24", "production implementations of swap.LightningClient", len(impls), 2) {
		return
	}
	nSendPay, nSendV2 := 0, 0
	for _, nt := range impls {
		for _, mname := range []string{"PayInvoiceViaChannel", "RebalancePayment"} {
			entry := w.Method(nt, mname)
			if entry == nil || entry.Blocks == nil || len(entry.Params) <= c24ChannelParam {
				c.Anchor("%s.%s has no analysable body", nt.Obj().Name(), mname)
				continue
			}
			prefix := w.FuncName(entry)
			nPrim := 0
			c24Walk(w, &c24Frame{fn: entry}, 0, func(fr *c24Frame) {
				for _, call := range an.Calls(fr.fn) {
					ci := w.Info(call)
					m, is := c24NodeAPI(w, ci)
					if !is {
						continue
					}
					switch {
					case (m == "SendPay" || m == "SendPayLite") && ci.Static != nil:
						nPrim++
						nSendPay++
						c24SendPay(c, prefix, fr, call, m == "SendPayLite")
					case m == "SendPaymentV2" && ci.Iface != nil:
						nPrim++
						nSendV2++
						c24SendPaymentV2(c, prefix, fr, call)
					case c24Harmless[m] != "":
						// classified: does not pay
					case c24PathFinding[m] != "":
						c24PathFindingCall(c, prefix, fr, call, ci, m)
					case c24ExplicitRoute[m]:
						c.Unknown("C24.R3", prefix+" node API "+m, w.Pos(call.Pos()), "call of "+ci.Name+" (via "+c24Chain(w, fr)+"): an explicit-route primitive other than SendPay; the payment is bound to the route it is given, which the rules do not model")
					default:
						c.Unknown("C24.R3", prefix+" node API "+m, w.Pos(call.Pos()), "call of "+ci.Name+" (via "+c24Chain(w, fr)+") inside a channel-bound payment method is not classified")
					}
				}
			})
			c.Decide(nPrim > 0, "C24.R3", prefix+" reaches a checked primitive", w.Pos(entry.Pos()), fmt.Sprintf("%d payment primitive call path(s) checked", nPrim), "the method does not reach SendPay / SendPaymentV2 through static calls: the payment is made by something the rules do not see")
		}
	}
	c.AtLeast("C24.R1", "SendPay call paths behind the channel-bound methods", nSendPay, 2)
	c.AtLeast("C24.R2", "SendPaymentV2 call paths behind the channel-bound methods", nSendV2, 2)
	c24Normaliser(c)
	c24Callers(c)
}

// c24Chain renders the static call path of a frame: entry -> ... -> fn.
func c24Chain(w *an.World, fr *c24Frame) string {
	var names []string
	for x := fr; x != nil; x = x.up {
		names = append([]string{w.FuncName(x.fn)}, names...)
	}
	return strings.Join(names, " -> ")
}

// c24PathFindingCall: a path-finding payment primitive is reachable from a
// channel-bound payment method (on whatever path: the success path, an error
// path, a retry). lnd's unary SendPaymentSync carries an OutgoingChanId field; a
// request that sets it is not modelled (undecided), one that provably does not is
// a violation like every other path-finding call.
func c24PathFindingCall(c *an.Check, prefix string, fr *c24Frame, call ssa.CallInstruction, ci an.CallInfo, m string) {
	w := c.W
	cons := prefix + " reaches path-finding " + m
	pos := w.Pos(call.Pos())
	detail := "a channel-bound payment method reaches " + ci.Name + " (" + c24PathFinding[m] + ") via " + c24Chain(w, fr) + ": a path-finding payment can leave the swap channel (any channel, several hops, several parts), so the invoice may be settled without the HTLC over the swap channel"
	if ci.Iface != nil {
		args := call.Common().Args
		if m != "SendPaymentSync" || len(args) < 2 {
			c.Unknown("C24.R3", cons, pos, "path-finding lnd primitive whose request the rules cannot see (stream): "+ci.Name+" via "+c24Chain(w, fr))
			return
		}
		lits, bad := c24Literals(w, c24Val{args[1], fr}, false, 0, map[ssa.Value]bool{})
		if bad != "" || len(lits) == 0 {
			c.Unknown("C24.R3", cons, pos, "path-finding lnd primitive with a request that is not a composite literal: "+bad)
			return
		}
		for _, lit := range lits {
			fields, fok := c24StructFields(lit.alloc)
			if v := fields["OutgoingChanId"]; !fok || (v != nil && !c24IsZero(v)) {
				c.Unknown("C24.R3", cons, pos, "SendPaymentSync with an OutgoingChanId restriction is not modelled (only SendPaymentV2 with OutgoingChanIds, MaxParts=1 and the destination guard is accepted)")
				return
			}
		}
		detail += "; the request sets no outgoing-channel restriction"
	}
	c.Bad("C24.R3", cons, pos, detail)
}

// verdict helper: mismatch on an opaque value is "cannot decide"
func c24Verdict(c *an.Check, ok bool, opaque bool, rule, cons, pos, good, bad string) {
	switch {
	case ok:
		c.OK(rule, cons, pos, good)
	case opaque:
		c.Unknown(rule, cons, pos, "unsupported shape: "+bad)
	default:
		c.Bad(rule, cons, pos, bad)
	}
}

// ---- R1: CLN SendPay -----------------------------------------------------------------------

func c24SendPay(c *an.Check, prefix string, fr *c24Frame, call ssa.CallInstruction, lite bool) {
	w := c.W
	pos := w.Pos(call.Pos())
	args := call.Common().Args // recv, route, hash, label, msat, bolt11, secret, partid
	if (!lite && len(args) < 8) || len(args) < 3 {
		c.Unknown("C24.R1", prefix+" SendPay", pos, "unexpected SendPay signature")
		return
	}
	// the decoded invoice: root of the payment hash argument
	var dec c24Val
	hashRoot, ok := c24FieldOf(w, args[2], "DecodedBolt11", "PaymentHash")
	if ok {
		dec = fr.resolve(hashRoot)
	}
	var payreq c24Val
	decOK := false
	if dc := c24CallOf(dec.v, 0); dc != nil {
		di := w.Info(dc)
		if m, is := c24NodeAPI(w, di); is && m == "DecodeBolt11" && len(dc.Call.Args) == 2 {
			payreq = dec.fr.resolve(dc.Call.Args[1])
			decOK = payreq.entryParam() == c24PayreqParam
		}
	}
	c24Verdict(c, decOK, dec.v != nil && c24Opaque(dec.v), "C24.R1", prefix+" SendPay payment hash", pos,
		"payment hash of the invoice decoded from the payreq parameter",
		"the payment-hash argument is not PaymentHash of DecodeBolt11(payreq parameter): "+c24Describe(w, fr.resolve(args[2])))
	if !decOK {
		return
	}
	if !lite {
		c24SendPayAmounts(c, prefix, fr, call, dec, payreq)
	}
	c24SendPayRoute(c, prefix, fr, call, dec)
}

// c24SendPayAmounts: bolt11 and msat arguments of the full SendPay.
func c24SendPayAmounts(c *an.Check, prefix string, fr *c24Frame, call ssa.CallInstruction, dec, payreq c24Val) {
	w := c.W
	pos := w.Pos(call.Pos())
	args := call.Common().Args
	b := fr.resolve(args[5])
	c24Verdict(c, b.same(payreq), c24Opaque(b.v), "C24.R1", prefix+" SendPay bolt11", pos, "bolt11 argument is the payreq parameter",
		"the bolt11 argument is "+c24Describe(w, b)+", not the invoice that was decoded")
	// msat
	mv := c24Strip(args[4])
	if mc, isCall := mv.(*ssa.Call); isCall && mc.Common().StaticCallee() != nil && mc.Common().StaticCallee().Name() == "MSat" && len(mc.Call.Args) == 1 {
		mv = mc.Call.Args[0]
	}
	mroot, mok := c24FieldOf(w, mv, "DecodedBolt11", "AmountMsat")
	c24Verdict(c, mok && fr.resolve(mroot).same(dec), c24Opaque(c24Strip(args[4])), "C24.R1", prefix+" SendPay msat", pos, "amount argument is AmountMsat of the decoded invoice",
		"the msat argument is "+c24Describe(w, fr.resolve(args[4]))+", not the amount of the decoded invoice")
}

// c24SendPayRoute: the route argument (#1) of SendPay / SendPayLite.
func c24SendPayRoute(c *an.Check, prefix string, fr *c24Frame, call ssa.CallInstruction, dec c24Val) {
	w := c.W
	pos := w.Pos(call.Pos())
	args := call.Common().Args
	lits, bad := c24Literals(w, c24Val{args[1], fr}, true, 0, map[ssa.Value]bool{})
	if bad != "" || len(lits) == 0 {
		c.Unknown("C24.R1", prefix+" SendPay route", pos, "the route argument is not a slice literal (possibly returned by a helper): "+bad)
		return
	}
	clnStyle := w.Func("lightning", "(Scid).ClnStyle")
	for _, lit := range lits {
		lpos := w.Pos(lit.alloc.Pos())
		n, elems, eok := c24Elems(lit.alloc)
		if !eok {
			c.Unknown("C24.R1", prefix+" SendPay route", lpos, "route literal with computed indices")
			continue
		}
		if !c.Decide(n == 1, "C24.R1", prefix+" SendPay route", lpos, "route literal has exactly one hop", fmt.Sprintf("the route literal has %d hops: the payment is not a single HTLC to the channel peer", n)) {
			continue
		}
		hop := elems[0]
		if hop == nil {
			c.Unknown("C24.R1", prefix+" SendPay route", lpos, "hop 0 of the route literal is never written")
			continue
		}
		ffields, fok := c24StructFieldsFr(w, hop, lit.fr, 0)
		if !fok {
			c.Unknown("C24.R1", prefix+" SendPay route", lpos, "the hop is not a plain composite literal (nor one returned by an in-module helper)")
			continue
		}
		fv := func(name string) (ssa.Value, *c24Frame) {
			if x, ok := ffields[name]; ok {
				return x.v, x.fr
			}
			return nil, lit.fr
		}
		// Id
		idV, idFr := fv("Id")
		idRoot, iok := c24FieldOf(w, idV, "DecodedBolt11", "Payee")
		c24Verdict(c, iok && idFr.resolve(idRoot).same(dec), idV != nil && c24Opaque(idFr.resolve(idV).v), "C24.R1", prefix+" hop.Id", lpos, "hop destination is the payee of the decoded invoice",
			"hop.Id is "+c24DescribeField(w, idFr, idV)+", not Payee of the invoice decoded from the payreq parameter")
		// AmountMsat
		amV, amFr := fv("AmountMsat")
		aRoot, aok := c24FieldOf(w, amV, "DecodedBolt11", "AmountMsat")
		c24Verdict(c, aok && amFr.resolve(aRoot).same(dec), amV != nil && c24Opaque(amFr.resolve(amV).v), "C24.R1", prefix+" hop.AmountMsat", lpos, "hop amount is the amount of the decoded invoice",
			"hop.AmountMsat is "+c24DescribeField(w, amFr, amV)+", not AmountMsat of the decoded invoice")
		// ShortChannelId
		sv, svFr := fv("ShortChannelId")
		cons := prefix + " hop.ShortChannelId"
		if sv == nil {
			c.Bad("C24.R1", cons, lpos, "the hop has no ShortChannelId: the node is free to choose the channel")
			continue
		}
		sres := svFr.resolve(sv)
		if sc, isCall := sres.v.(*ssa.Call); isCall && clnStyle != nil && sc.Common().StaticCallee() == clnStyle && len(sc.Call.Args) == 1 {
			inner := sres.fr.resolve(sc.Call.Args[0])
			c24Verdict(c, inner.entryParam() == c24ChannelParam, c24Opaque(inner.v), "C24.R1", cons, lpos, "ClnStyle(channel parameter)",
				"hop.ShortChannelId is ClnStyle of "+c24Describe(w, inner)+", not of the channel parameter of the method")
		} else if sres.entryParam() == c24ChannelParam {
			c.Bad("C24.R1", cons, lpos, "hop.ShortChannelId is the channel parameter without lightning.Scid.ClnStyle: an id spelled 1:2:3 is not the channel CLN knows as 1x2x3")
		} else {
			c24Verdict(c, false, c24Opaque(sres.v), "C24.R1", cons, lpos, "", "hop.ShortChannelId is "+c24Describe(w, sres)+", not the channel parameter of the method")
		}
	}
}

// c24StructFieldsFr is c24StructFields with frames: a struct value returned by an
// in-module helper (`elem = mkHop(a, b)`, helper returns a composite literal) is
// looked through, its field values living in the helper's frame.
func c24StructFieldsFr(w *an.World, addr ssa.Value, fr *c24Frame, depth int) (map[string]c24Val, bool) {
	out := map[string]c24Val{}
	if addr.Referrers() == nil {
		return out, true
	}
	ok := true
	merge := func(sub map[string]c24Val, sok bool) {
		for k, v := range sub {
			if old, dup := out[k]; dup && !(old.v == v.v && c24SameFrame(old.fr, v.fr)) {
				ok = false
			}
			out[k] = v
		}
		ok = ok && sok
	}
	for _, r := range *addr.Referrers() {
		switch x := r.(type) {
		case *ssa.FieldAddr:
			if x.X != addr || x.Referrers() == nil {
				continue
			}
			name := an.FieldName(addr.Type(), x.Field)
			if i := strings.LastIndex(name, "."); i >= 0 {
				name = name[i+1:]
			}
			for _, rr := range *x.Referrers() {
				if s, isS := rr.(*ssa.Store); isS && s.Addr == x {
					if _, dup := out[name]; dup {
						ok = false
					}
					out[name] = c24Val{s.Val, fr}
				}
			}
		case *ssa.Store:
			if x.Addr != addr {
				continue
			}
			switch y := x.Val.(type) {
			case *ssa.UnOp:
				if al, isAl := y.X.(*ssa.Alloc); isAl && y.Op == token.MUL {
					merge(c24StructFieldsFr(w, al, fr, depth+1))
					continue
				}
				ok = false
			case *ssa.Call:
				cal := y.Common().StaticCallee()
				if cal == nil || cal.Blocks == nil || !w.InModule(cal) || depth >= 3 {
					ok = false
					continue
				}
				sub := &c24Frame{fn: cal, site: y, up: fr}
				rets := an.Returns(cal)
				if len(rets) == 0 {
					ok = false
				}
				for _, ret := range rets {
					if len(ret.Results) != 1 {
						ok = false
						continue
					}
					ld, isLd := ret.Results[0].(*ssa.UnOp)
					if !isLd || ld.Op != token.MUL {
						ok = false
						continue
					}
					al, isAl := ld.X.(*ssa.Alloc)
					if !isAl {
						ok = false
						continue
					}
					merge(c24StructFieldsFr(w, al, sub, depth+1))
				}
			default:
				ok = false
			}
		}
	}
	return out, ok
}

func c24DescribeField(w *an.World, fr *c24Frame, v ssa.Value) string {
	if v == nil {
		return "unset"
	}
	return c24Describe(w, fr.resolve(v))
}

// c24Normaliser checks lightning.Scid.ClnStyle itself: it must rewrite ':' to
// 'x' — strings.ReplaceAll(s, ":", "x") or a strings.Replacer built from
// (":", "x"). A different constant pair is a violation; any other way of
// computing the result is "cannot decide".
func c24Normaliser(c *an.Check) {
	w := c.W
	fn := w.Func("lightning", "(Scid).ClnStyle")
	if fn == nil || fn.Blocks == nil {
		c.Anchor("lightning.Scid.ClnStyle does not resolve")
		return
	}
	cons := w.FuncName(fn)
	pos := w.Pos(fn.Pos())
	rets := an.Returns(fn)
	if len(rets) == 0 {
		c.Unknown("C24.R1", cons, pos, "ClnStyle never returns")
		return
	}
	verdict, why := "ok", ""
	worse := func(v, y string) {
		if v == "bad" || (v == "unknown" && verdict == "ok") {
			verdict, why = v, y
		}
	}
	judge := func(pairs []string, known bool) {
		switch {
		case !known:
			worse("unknown", "the replacement pairs are not constants")
		case len(pairs) == 2 && pairs[0] == ":" && pairs[1] == "x":
		default:
			worse("bad", fmt.Sprintf("ClnStyle rewrites %q instead of \":\" -> \"x\": the route would name a channel id CLN does not know", pairs))
		}
	}
	for _, r := range rets {
		call, isCall := c24Strip(r.Results[0]).(*ssa.Call)
		if !isCall {
			worse("unknown", "the result is not a call of a strings replacement function")
			continue
		}
		name := w.Info(call).Name
		args := call.Call.Args
		switch {
		case name == "func:strings.ReplaceAll" && len(args) == 3:
			if c24ParamIdx(fn, c24Strip(args[0])) != 0 {
				worse("unknown", "ReplaceAll is not applied to the receiver")
				continue
			}
			from, ok1 := an.ConstString(args[1])
			to, ok2 := an.ConstString(args[2])
			judge([]string{from, to}, ok1 && ok2)
		case name == "func:(*strings.Replacer).Replace" && len(args) == 2:
			if c24ParamIdx(fn, c24Strip(args[1])) != 0 {
				worse("unknown", "Replace is not applied to the receiver")
				continue
			}
			pairs, known := c24ReplacerPairs(w, args[0])
			judge(pairs, known)
		default:
			worse("unknown", "the result is computed by "+name)
		}
	}
	switch verdict {
	case "ok":
		c.OK("C24.R1", cons, pos, "rewrites \":\" to \"x\" in the receiver")
	case "bad":
		c.Bad("C24.R1", cons, pos, why)
	default:
		c.Unknown("C24.R1", cons, pos, "cannot interpret ClnStyle: "+why)
	}
}

// c24ReplacerPairs: v is a *strings.Replacer loaded from a package-level variable
// that is assigned exactly once, from strings.NewReplacer(constants...).
func c24ReplacerPairs(w *an.World, v ssa.Value) ([]string, bool) {
	ld, ok := c24Strip(v).(*ssa.UnOp)
	if !ok || ld.Op != token.MUL {
		return nil, false
	}
	g, ok := ld.X.(*ssa.Global)
	if !ok {
		return nil, false
	}
	var stored []ssa.Value
	for _, f := range w.SrcFuncs(nil) {
		for _, b := range f.Blocks {
			for _, in := range b.Instrs {
				if st, ok := in.(*ssa.Store); ok && st.Addr == g {
					stored = append(stored, st.Val)
				}
			}
		}
	}
	if init := g.Pkg.Func("init"); init != nil {
		for _, b := range init.Blocks {
			for _, in := range b.Instrs {
				if st, ok := in.(*ssa.Store); ok && st.Addr == g {
					dup := false
					for _, x := range stored {
						if x == st.Val {
							dup = true
						}
					}
					if !dup {
						stored = append(stored, st.Val)
					}
				}
			}
		}
	}
	if len(stored) != 1 {
		return nil, false
	}
	call, ok := stored[0].(*ssa.Call)
	if !ok || w.Info(call).Name != "func:strings.NewReplacer" || len(call.Call.Args) != 1 {
		return nil, false
	}
	sl, ok := call.Call.Args[0].(*ssa.Slice)
	if !ok {
		return nil, false
	}
	al, ok := sl.X.(*ssa.Alloc)
	if !ok {
		return nil, false
	}
	n, elems, eok := c24Elems(al)
	if !eok {
		return nil, false
	}
	out := make([]string, n)
	for i := int64(0); i < n; i++ {
		if elems[i] == nil {
			return nil, false
		}
		s, ok := an.ConstString(c24StoredTo(elems[i]))
		if !ok {
			return nil, false
		}
		out[i] = s
	}
	return out, true
}

// ---- R2: LND SendPaymentV2 ------------------------------------------------------------------

var c24AllowedReqFields = map[string]bool{
	"PaymentRequest": true, "TimeoutSeconds": true, "CltvLimit": true, "OutgoingChanIds": true, "MaxParts": true,
	"FeeLimitMsat": true, "FeeLimitSat": true, "NoInflightUpdates": true, "TimePref": true, "Cancelable": true,
}

func c24SendPaymentV2(c *an.Check, prefix string, fr *c24Frame, call ssa.CallInstruction) {
	w := c.W
	pos := w.Pos(call.Pos())
	args := call.Common().Args // ctx, req, opts...
	if len(args) < 2 {
		c.Unknown("C24.R2", prefix+" SendPaymentV2", pos, "unexpected SendPaymentV2 signature")
		return
	}
	lits, bad := c24Literals(w, c24Val{args[1], fr}, false, 0, map[ssa.Value]bool{})
	if bad != "" || len(lits) == 0 {
		c.Unknown("C24.R2", prefix+" request", pos, "the request is not a composite literal (possibly returned by a helper): "+bad)
		return
	}
	for _, lit := range lits {
		lpos := w.Pos(lit.alloc.Pos())
		if n := an.NamedOf(lit.alloc.Type()); n == nil || n.Obj().Name() != "SendPaymentRequest" {
			c.Unknown("C24.R2", prefix+" request", lpos, "the request value is not a SendPaymentRequest literal")
			continue
		}
		fields, fok := c24StructFields(lit.alloc)
		if !fok {
			c.Unknown("C24.R2", prefix+" request", lpos, "the request is not a plain composite literal (a field is assigned more than once)")
			continue
		}
		// fields that change routing or amount
		var extra []string
		for name, v := range fields {
			if !c24AllowedReqFields[name] && !c24IsZero(v) {
				extra = append(extra, name)
			}
		}
		sort.Strings(extra)
		c.Decide(len(extra) == 0, "C24.R2", prefix+" request fields", lpos, "only PaymentRequest, limits, OutgoingChanIds and MaxParts are set",
			"the request sets "+strings.Join(extra, ", ")+": destination, amount, route hints or the channel restriction are overridden")
		// PaymentRequest
		pr := c24Val{}
		if fields["PaymentRequest"] != nil {
			pr = lit.fr.resolve(fields["PaymentRequest"])
		}
		c24Verdict(c, pr.entryParam() == c24PayreqParam, pr.v != nil && c24Opaque(pr.v), "C24.R2", prefix+" request.PaymentRequest", lpos, "the payreq parameter",
			"PaymentRequest is "+c24Describe(w, pr)+", not the payreq parameter of the method")
		// MaxParts
		mp, isC := int64(0), false
		if fields["MaxParts"] != nil {
			mp, isC = an.ConstInt(fields["MaxParts"])
		}
		if fields["MaxParts"] != nil && !isC {
			c.Unknown("C24.R2", prefix+" request.MaxParts", lpos, "MaxParts is not a constant: "+w.Term(fields["MaxParts"]))
		} else {
			c.Decide(isC && mp == 1, "C24.R2", prefix+" request.MaxParts", lpos, "MaxParts = 1", fmt.Sprintf("MaxParts is %s: lnd may split the payment into several HTLCs (0 means its default of 16)", c24ConstDesc(w, fields["MaxParts"])))
		}
		// OutgoingChanIds
		var channel c24Val
		cons := prefix + " request.OutgoingChanIds"
		if fields["OutgoingChanIds"] == nil {
			c.Bad("C24.R2", cons, lpos, "OutgoingChanIds is not set: lnd is free to choose the first hop")
		} else {
			sl, sbad := c24Literals(w, c24Val{fields["OutgoingChanIds"], lit.fr}, true, 0, map[ssa.Value]bool{})
			if sbad != "" || len(sl) == 0 {
				c.Unknown("C24.R2", cons, lpos, "OutgoingChanIds is not a slice literal: "+sbad)
			}
			for _, s := range sl {
				n, elems, eok := c24Elems(s.alloc)
				if !eok || elems[0] == nil {
					c.Unknown("C24.R2", cons, lpos, "OutgoingChanIds literal with computed indices")
					continue
				}
				if !c.Decide(n == 1, "C24.R2", cons, lpos, "one outgoing channel", fmt.Sprintf("%d outgoing channels are allowed", n)) {
					continue
				}
				ev := c24StoredTo(elems[0])
				croot, cok := c24FieldOf(w, ev, "Channel", "ChanId")
				if cok {
					channel = s.fr.resolve(croot)
				}
				chOK := false
				why := "the channel id is " + c24DescribeField(w, s.fr, ev) + ", not ChanId of a channel looked up with the channel parameter"
				if lc := c24CallOf(channel.v, 0); lc != nil {
					li := w.Info(lc)
					if li.Static != nil && w.InModule(li.Static) && li.Static.Blocks != nil {
						k := -1
						for i, a := range lc.Call.Args {
							if channel.fr.resolve(a).entryParam() == c24ChannelParam {
								k = i
							}
						}
						if k >= 0 {
							chOK = true
							c24Lookup(c, prefix, li.Static, k)
						} else {
							why = "the channel comes from " + li.Name + " which is not given the channel parameter of the method"
						}
					}
				}
				c24Verdict(c, chOK, channel.v != nil && c24Opaque(channel.v), "C24.R2", cons, lpos, "ChanId of the channel looked up with the channel parameter", why)
			}
		}
		// guard: invoice destination == channel.RemotePubkey, dominating the literal or the primitive
		c24DestGuard(c, prefix, lit, fr, call, channel)
	}
}

func c24ConstDesc(w *an.World, v ssa.Value) string {
	if v == nil {
		return "unset (0)"
	}
	return w.Term(v)
}

// c24FactsAbove collects, for a program point inside frame fr, the facts that
// dominate it in its function and the facts that dominate each call site on
// the way up, each with the frame its values live in.
type c24Fact struct {
	f  an.Fact
	fr *c24Frame
}

func c24FactsAbove(w *an.World, b *ssa.BasicBlock, fr *c24Frame) []c24Fact {
	var out []c24Fact
	for fr != nil && b != nil {
		for _, f := range w.FactsDominatingBlock(b) {
			out = append(out, c24Fact{f, fr})
			out = append(out, c24HelperFacts(w, f, fr, 0)...)
		}
		if fr.site == nil {
			break
		}
		b = fr.site.Block()
		fr = fr.up
	}
	return out
}

// c24HelperFacts: the fact says that an in-module helper returned a nil error
// (`if err := check(a, b); err != nil { return }`) or true (`if !matches(a, b) {
// return }`): the facts that hold on every such return of the helper then hold
// too, in the helper's frame (parameters bound to the call's arguments).
func c24HelperFacts(w *an.World, f an.Fact, fr *c24Frame, depth int) []c24Fact {
	out, _ := c24HelperFacts2(w, f, fr, depth)
	return out
}

// c24HelperFacts2 also says whether the helper behind the fact (if any) could be interpreted.
func c24HelperFacts2(w *an.World, f an.Fact, fr *c24Frame, depth int) ([]c24Fact, bool) {
	if depth >= 2 {
		return nil, false
	}
	var call *ssa.Call
	idx := 0
	wantTrue := false
	switch {
	case f.NonNum && f.Rel == "==" && f.LV != nil && f.RV != nil && (an.IsNilConst(f.LV) || an.IsNilConst(f.RV)):
		v := f.LV
		if an.IsNilConst(v) {
			v = f.RV
		}
		switch x := v.(type) {
		case *ssa.Call:
			call = x
		case *ssa.Extract:
			call, _ = x.Tuple.(*ssa.Call)
			idx = x.Index
		}
	case f.Rel == "true":
		call, _ = f.Cond.(*ssa.Call)
		wantTrue = true
	}
	if call == nil {
		return nil, true
	}
	cal := call.Common().StaticCallee()
	if cal == nil || cal.Blocks == nil || !w.InModule(cal) {
		return nil, cal == nil || !w.InModule(cal)
	}
	sub := &c24Frame{fn: cal, site: call, up: fr}
	var sets [][]c24Fact
	for _, r := range an.Returns(cal) {
		if idx >= len(r.Results) {
			return nil, false
		}
		res := r.Results[idx]
		var set []c24Fact
		if wantTrue {
			if cst, ok := res.(*ssa.Const); ok {
				if cst.Value != nil && cst.Value.String() == "false" {
					continue
				}
			} else if bo, ok := res.(*ssa.BinOp); ok && bo.Op == token.EQL {
				set = append(set, c24Fact{an.Fact{NonNum: true, Rel: "==", LV: bo.X, RV: bo.Y, L: w.Term(bo.X), R: w.Term(bo.Y), Cond: bo}, sub})
			} else {
				return nil, false // a result we cannot interpret may be true
			}
		} else {
			if !an.IsNilConst(res) {
				if _, isConst := res.(*ssa.Const); !isConst {
					// a non-constant error: may be nil on a path we cannot see
					if _, isPhi := res.(*ssa.Phi); isPhi {
						return nil, false
					}
				}
				continue
			}
		}
		for _, hf := range w.FactsDominatingBlock(r.Block()) {
			set = append(set, c24Fact{hf, sub})
			set = append(set, c24HelperFacts(w, hf, sub, depth+1)...)
		}
		sets = append(sets, set)
	}
	if len(sets) == 0 {
		return nil, true
	}
	// facts common to all accepting returns (same branch edge, or same synthetic comparison)
	var out []c24Fact
	for _, cand := range sets[0] {
		inAll := true
		for _, other := range sets[1:] {
			found := false
			for _, o := range other {
				if o.f.Cond == cand.f.Cond && o.f.Edge == cand.f.Edge && o.f.Rel == cand.f.Rel {
					found = true
				}
			}
			if !found {
				inAll = false
			}
		}
		if inAll {
			out = append(out, cand)
		}
	}
	return out, true
}

func c24DestGuard(c *an.Check, prefix string, lit c24Lit, fr *c24Frame, call ssa.CallInstruction, channel c24Val) {
	w := c.W
	cons := prefix + " destination guard"
	pos := w.Pos(lit.alloc.Pos())
	facts := append(c24FactsAbove(w, lit.alloc.Block(), lit.fr), c24FactsAbove(w, call.Block(), fr)...)
	var seen []string
	for _, cf := range facts {
		f := cf.f
		if !f.NonNum || f.LV == nil || f.RV == nil {
			continue
		}
		for _, sides := range [][2]ssa.Value{{f.LV, f.RV}, {f.RV, f.LV}} {
			droot, dok := c24FieldOf(w, sides[0], "PayReq", "Destination")
			croot, cok := c24FieldOf(w, sides[1], "Channel", "RemotePubkey")
			if !dok || !cok {
				continue
			}
			seen = append(seen, f.String())
			if f.Rel != "==" {
				continue
			}
			// the invoice must be the one decoded from the payreq parameter
			dec := cf.fr.resolve(droot)
			decOK := false
			if dc := c24CallOf(dec.v, 0); dc != nil {
				if m, is := c24NodeAPI(w, w.Info(dc)); is && m == "DecodePayReq" && len(dc.Call.Args) >= 2 {
					if al, isAl := c24Strip(dc.Call.Args[1]).(*ssa.Alloc); isAl {
						rf, _ := c24StructFields(al)
						if rf["PayReq"] != nil && dec.fr.resolve(rf["PayReq"]).entryParam() == c24PayreqParam {
							decOK = true
						}
					}
				}
			}
			ch := cf.fr.resolve(croot)
			if decOK && channel.v != nil && ch.same(channel) {
				c.OK("C24.R2", cons, pos, "the request is only built when Destination of the invoice decoded from the payreq parameter equals RemotePubkey of the outgoing channel")
				return
			}
		}
	}
	var all []an.Fact
	for _, cf := range facts {
		all = append(all, cf.f)
	}
	// a guard we cannot interpret: some dominating test is the result of an in-module
	// helper that was handed the outgoing channel or a decoded invoice
	for _, cf := range facts {
		for _, v := range []ssa.Value{cf.f.Cond, cf.f.LV, cf.f.RV} {
			var hc *ssa.Call
			switch x := v.(type) {
			case *ssa.Call:
				hc = x
			case *ssa.Extract:
				hc, _ = x.Tuple.(*ssa.Call)
			}
			if hc == nil {
				continue
			}
			cal := hc.Common().StaticCallee()
			if cal == nil || !w.InModule(cal) {
				continue
			}
			onPath := false
			for _, chain := range []*c24Frame{lit.fr, fr} {
				for x := chain; x != nil; x = x.up {
					if x.fn == cal {
						onPath = true // a function the rule has looked into itself
					}
				}
			}
			if _, interpreted := c24HelperFacts2(w, cf.f, cf.fr, 0); onPath || interpreted {
				continue
			}
			for _, a := range hc.Call.Args {
				ra := cf.fr.resolve(a)
				isDec := false
				if dc := c24CallOf(ra.v, 0); dc != nil {
					if m, is := c24NodeAPI(w, w.Info(dc)); is && m == "DecodePayReq" {
						isDec = true
					}
				}
				if isDec || (channel.v != nil && ra.same(channel)) {
					c.Unknown("C24.R2", cons, pos, "the request is guarded by "+w.FuncName(cal)+", which is given the invoice or the outgoing channel, but the rule cannot read the destination test out of it")
					return
				}
			}
		}
	}
	detail := "no dominating test `invoice destination == RemotePubkey of the outgoing channel` (invoice decoded from the payreq parameter, same channel as OutgoingChanIds): the node would pay an invoice of a third party over the swap channel. Facts that do hold: " + an.DescribeFacts(all)
	if len(seen) > 0 {
		detail += ". Destination/RemotePubkey comparisons found but not usable: " + strings.Join(seen, " ; ")
	}
	c.Bad("C24.R2", cons, pos, detail)
}

// c24Lookup: every channel the lookup returns was selected under an equality
// test between parameter k and a value derived from that candidate.
func c24Lookup(c *an.Check, prefix string, fn *ssa.Function, k int) {
	w := c.W
	cons := w.FuncName(fn) + " selects by id"
	if k >= len(fn.Params) {
		c.Unknown("C24.R2", cons, w.Pos(fn.Pos()), "parameter index out of range")
		return
	}
	param := ssa.Value(fn.Params[k])
	// guards: true edges of `param == f(candidate)`
	type guard struct {
		e     an.Edge
		other ssa.Value
	}
	var guards []guard
	for _, f := range w.Facts(fn) {
		if !f.NonNum || f.Rel != "==" || f.LV == nil || f.RV == nil {
			continue
		}
		switch {
		case c24Strip(f.LV) == param:
			guards = append(guards, guard{f.Edge, f.RV})
		case c24Strip(f.RV) == param:
			guards = append(guards, guard{f.Edge, f.LV})
		}
	}
	dependsOn := func(v, cand ssa.Value) bool {
		seen := map[ssa.Value]bool{}
		var rec func(x ssa.Value, d int) bool
		rec = func(x ssa.Value, d int) bool {
			if x == nil || seen[x] || d > 12 {
				return false
			}
			seen[x] = true
			if x == cand {
				return true
			}
			in, ok := x.(ssa.Instruction)
			if !ok {
				return false
			}
			for _, op := range in.Operands(nil) {
				if op != nil && *op != nil && rec(*op, d+1) {
					return true
				}
			}
			return false
		}
		return rec(v, 0)
	}
	n := 0
	okAll := true
	var visit func(v ssa.Value, at *ssa.BasicBlock, seen map[ssa.Value]bool)
	visit = func(v ssa.Value, at *ssa.BasicBlock, seen map[ssa.Value]bool) {
		if an.IsNilConst(v) || seen[v] {
			return
		}
		if phi, ok := v.(*ssa.Phi); ok {
			seen[v] = true
			for i, e := range phi.Edges {
				visit(e, phi.Block().Preds[i], seen)
			}
			return
		}
		n++
		var es []an.Edge
		for _, g := range guards {
			if dependsOn(g.other, v) {
				es = append(es, g.e)
			}
		}
		if len(es) == 0 || !an.EdgesDominate(es, at) {
			okAll = false
			vpos := w.Pos(v.Pos())
			if vpos == "-" {
				vpos = w.Pos(fn.Pos())
			}
			c.Bad("C24.R2", cons, vpos, fmt.Sprintf("a channel (%s) is returned without having been selected under `id parameter == <id of that channel>` (%d such tests exist but do not dominate the selection): the payment may leave over a different channel than the swap's", w.Term(v), len(es)))
		}
	}
	for _, r := range an.Returns(fn) {
		if len(r.Results) > 0 {
			visit(r.Results[0], r.Block(), map[ssa.Value]bool{})
		}
	}
	if n == 0 {
		c.Unknown("C24.R2", cons, w.Pos(fn.Pos()), "the lookup never returns a channel")
		return
	}
	if okAll {
		c.OK("C24.R2", cons, w.Pos(fn.Pos()), fmt.Sprintf("%d returned candidate(s), each selected under an equality test with the id parameter", n))
	}
}

// ---- R3: callers ------------------------------------------------------------------------------

func c24Callers(c *an.Check) {
	w := c.W
	bad := findCallSites(w, fxPayInvoice)
	for _, s := range bad {
		c.Bad("C24.R3", w.FuncName(s.Parent())+" calls LightningClient.PayInvoice", w.Pos(s.Pos()), "PayInvoice lets the node choose any route and split the payment: a swap payment made with it is not bound to the swap channel")
	}
	if len(bad) == 0 {
		c.OK("C24.R3", "LightningClient.PayInvoice callers", "-", "no production call site")
	}
	data := w.Named("swap", "SwapData")
	if data == nil {
		c.Anchor("swap.SwapData does not resolve")
		return
	}
	// A channel-id getter is a method of SwapData without further parameters whose
	// results are only the Scid of the stored swap-in / swap-out request (possibly
	// re-spelled with strings.ReplaceAll) or "".
	getterOK := map[*ssa.Function]bool{}
	isGetter := func(fn *ssa.Function) bool {
		if v, ok := getterOK[fn]; ok {
			return v
		}
		gok, nField := fn.Blocks != nil && len(fn.Params) == 1 && an.NamedOf(fn.Params[0].Type()) == data, 0
		var names []string
		if gok {
			for _, r := range an.Returns(fn) {
				if len(r.Results) != 1 {
					gok = false
					continue
				}
				ss := w.Sources(r.Results[0], an.FlowOpts{ThroughCalls: map[string]bool{"func:strings.ReplaceAll": true}})
				for _, l := range ss.Leaves {
					names = append(names, l.String())
					switch {
					case l.Kind == "const":
					case l.Kind == "field" && (strings.HasSuffix(l.Name, "SwapInRequestMessage.Scid") || strings.HasSuffix(l.Name, "SwapOutRequestMessage.Scid")):
						if _, root := w.FieldChain(l.Val); c24ParamIdx(fn, root) == 0 {
							nField++
						} else {
							gok = false
						}
					default:
						gok = false
					}
				}
			}
		}
		sort.Strings(names)
		getterOK[fn] = gok && nField >= 1
		c.Decide(getterOK[fn], "C24.R3", w.FuncName(fn), w.Pos(fn.Pos()), "returns the Scid of the stored swap-in / swap-out request", fmt.Sprintf("the method used as channel id does not return exactly the stored request's Scid: %v", names))
		return getterOK[fn]
	}

	n := 0
	for _, name := range []string{fxPayViaChannel, fxPay} {
		for _, s := range findCallSites(w, name) {
			n++
			fn := s.Parent()
			cons := w.FuncName(fn) + " call " + strings.TrimPrefix(name, "iface:")
			args := s.Common().Args
			if len(args) < 2 {
				c.Unknown("C24.R3", cons, w.Pos(s.Pos()), "unexpected signature")
				continue
			}
			// the swap the channel id belongs to
			var swapOfScid ssa.Value
			sv := c24Strip(args[1])
			if call, ok := sv.(*ssa.Call); ok && call.Common().StaticCallee() != nil && w.InModule(call.Common().StaticCallee()) && len(call.Call.Args) == 1 && an.NamedOf(call.Call.Args[0].Type()) == data {
				if !isGetter(call.Common().StaticCallee()) {
					continue // reported on the getter
				}
				swapOfScid = call.Call.Args[0]
			} else if chain, root := w.FieldChain(sv); strings.HasSuffix(chain, "RequestMessage.Scid") && strings.HasPrefix(chain, "SwapData.") {
				swapOfScid = root
			}
			chain, root := w.FieldChain(c24Strip(args[0]))
			payOK := strings.HasPrefix(chain, "SwapData.") && strings.HasSuffix(chain, ".Payreq")
			switch {
			case swapOfScid == nil:
				c24Verdict(c, false, c24Opaque(sv), "C24.R3", cons, w.Pos(s.Pos()), "", "the channel argument is "+w.Term(sv)+", not GetScid() / the request's Scid of a SwapData")
			case !payOK:
				c24Verdict(c, false, c24Opaque(c24Strip(args[0])), "C24.R3", cons, w.Pos(s.Pos()), "", "the payreq argument is "+w.Term(args[0])+", not a Payreq field of the swap's stored messages")
			default:
				c.Decide(root == swapOfScid, "C24.R3", cons, w.Pos(s.Pos()), "pays "+chain+" over GetScid() of the same swap", "the payreq ("+chain+") and the channel id belong to different SwapData values")
			}
		}
	}
	c.AtLeast("C24.R3", "payment call sites (PayInvoiceViaChannel / RebalancePayment / PayInvoice)", n+len(bad), 2)
}
