package rules

import (
	"fmt"
	"go/token"
	"go/types"
	"sort"
	"strings"

	"golang.org/x/tools/go/ssa"

	"psv/internal/an"
)

// C09 — a swap is affected only by its own counterparty; swap ids cannot be reused.
//
// Everything is decided on the SSA form of swap/service.go and swap/fsm.go.
// Functions are found through w.Func (the anchors named in the property
// record), values are compared by where they come from ("origin": root value +
// field chain), never by local names.

func init() {
	Register(&Prop{
		ID:   "C09",
		Expl: "Decides on SSA, for every synchronous static call path that starts in SwapService.OnMessageReceived (handler parameters are bound to the dispatcher's values along the path): (R1) every SendEvent/Recover on a machine that the same function did not lock in is reached only through the passing edge of a sender test applied to the dispatcher's peer parameter — isMessageSenderExpectedPeer(peer, id), a wrapper or local closure (with the peer as parameter or captured variable) all of whose success returns lie behind it, or the inlined comparison activeSwaps[id].Data.PeerNodeId == peer — and isMessageSenderExpectedPeer itself returns only false or that comparison; (R2) the machine that receives the event is the activeSwaps entry looked up under exactly the id whose sender was tested (same message object, same SwapId field); (R3) in every function on such a path that locks a new swap in (the two request handlers) each lockSwap/SendEvent is preceded on all paths by a test of an existence oracle keyed by the requested id for the persistent store (Store.GetData, a pass-through wrapper such as GetSwap, or a boolean predicate over the id computed from such tests; tested through err == nil, err ==/!= ErrDataNotAvailable, errors.Is, or result != nil) and for the live map (GetActiveSwap, an activeSwaps lookup, or a not-present test inside lockSwap before the insert whose present edge returns an error), whose may-exist edge cannot reach them; and between the passing edge of a handler-level existence test and the lock-in no call leaves the process (the impure service interfaces LightningClient, Wallet, TxWatcher, Policy, Messenger, Store …, directly or through module callees), so that no swap with that id can be created and finished between check and lock-in; (R4) every EventContext.ApplyToSwapData call is dominated by the success edge of the next-state lookup (getNextState — found as the method that looks its event parameter up in an Events map — or any method that succeeds only behind it, e.g. EventIsValid) for the event delivered with the context, on the same machine; when the apply sits in a wrapper, at every call of the wrapper; (R5) no function reachable from OnMessageReceived outside SendEvent/Recover stores into a SwapData / SwapStateMachine it did not allocate itself or calls Store.UpdateData. (R6) once the sender test has passed in a dispatch arm, every path to a return that may be nil passes the handler call, and inside the handlers every such path passes SendEvent: a skipped delivery that depends on stored service/swap state (named, with a note when that state is written before the sender is authenticated) or is unconditional is a violation, a condition that cannot be interpreted makes the obligation undecided, a condition on the message content alone is accepted. Quantifier: all message types (every call site in the dispatcher), all handlers, all CFG paths.",
		NotD: "Races between an existence test made in a handler and the insert in lockSwap (a test in the handler is accepted like one inside lockSwap); that bboltStore.GetData reports every stored id; dynamic calls inside handlers (only static calls and directly called local closures are followed; a closure that itself reaches SendEvent/lockSwap makes the check undecided); a sender test, existence test or acceptance test of a shape that is not understood makes the obligation undecided (exit 2), a VIOLATION is reported only when no condition on the peer / no test of the oracle / no lookup exists on the path or the wrong thing is positively compared; the messenger implementations that invoke OnMessageReceived; whether Validate implementations are read-only; events injected by timers, chain watchers and payment notifications (not peer messages).",
		Run:  runC09,
	})
}

const (
	c09Apply     = "iface:swap.EventContext.ApplyToSwapData"
	c09StoreGet  = "iface:swap.Store.GetData"
	c09StoreUpd  = "iface:swap.Store.UpdateData"
	c09ActiveMap = "SwapService.activeSwaps"
	c09MaxDepth  = 5
)

type c09Ctx struct {
	c *an.Check
	w *an.World

	root, sendEvent, recoverFn, lockSwap, idString *ssa.Function
	senderOracle, getNext, eventValid              *ssa.Function

	tSM, tData, tId *types.Named

	lockFsmIdx, lockIdIdx int

	lookupFns     map[*ssa.Function]int // live-map oracle functions -> key parameter index
	storeWrappers map[*ssa.Function]int // pass-through wrappers of Store.GetData -> key parameter index

	errNoData, errNoSwap *ssa.Global

	oracles map[*ssa.Function]c09Oracle // functions whose passing result implies the sender test

	acceptFns map[*ssa.Function]bool // getNextState and the methods that succeed only behind it

	condVals map[string]map[ssa.Value]bool // kind -> boolean value -> "true means the id may be known"
	preds    map[string]map[*ssa.Function]*c09Pred
	lockers  map[*ssa.Function]int // lockSwap and wrappers that succeed only behind its success edge -> machine parameter index

	// results of the walk
	guardedSites int
	r6Sites      int
	unguarded    int
	r2Sites      int
	creators     map[*ssa.Function]*c09Frame
	visitedR5    map[*ssa.Function]bool
}

// c09Org names a value by where it comes from: Root (a parameter, a local
// allocation, a call result …), the chain of field selections applied to it and
// whether SwapId.String() was applied.
type c09Org struct {
	Root  ssa.Value
	Chain string
	Str   bool
}

func (o c09Org) same(p c09Org) bool {
	return o.Root != nil && o.Root == p.Root && o.Chain == p.Chain
}

type c09Frame struct {
	fn     *ssa.Function
	bind   map[*ssa.Parameter]c09Org // parameter -> origin in terms of the root frame
	parent *c09Frame
	site   ssa.CallInstruction // call in parent.fn that enters fn
	depth  int
}

// c09Oracle describes a sender-test function: parameter indices of the sender
// and the id, and the index of its bool result (-1: success = nil error).
type c09Oracle struct {
	si, ii, bi int
	fv         int // >= 0: the sender is the captured variable FreeVars[fv] of a closure (si == -1)
}

// peerIn: the value that denotes the sender inside oracle function g.
func (o c09Oracle) peerIn(g *ssa.Function) ssa.Value {
	if o.si >= 0 {
		return g.Params[o.si]
	}
	return g.FreeVars[o.fv]
}

// c09Pred is a boolean existence predicate over an id: parameter pi is the id,
// result bi is true when the id may be known (may) or when it is not known (!may).
type c09Pred struct {
	pi, bi int
	may    bool
	ok     bool
}

type c09Guard struct {
	edge    an.Edge // the passing edge of the sender test
	hasEdge bool
	unsure  string // non-empty: something that looks like a sender test passed but could not be verified
	id      c09Org // the id that was tested, in root terms
	desc    string
	call    *ssa.Call // lookup call of the inline variant (its machine may be reused)
}

func runC09(c *an.Check) {
	c.Rule("C09.R1", "every SendEvent on an existing swap reachable from OnMessageReceived is dominated by the passing edge of the sender test on (peer parameter, message id); the sender test compares machine(id).Data.PeerNodeId with the sender")
	c.Rule("C09.R2", "the machine that receives a peer event is activeSwaps[id] for exactly the id whose sender was tested")
	c.Rule("C09.R3", "request handlers: every lockSwap/SendEvent is preceded on all paths by a store-existence test and a live-map existence test keyed by the requested id whose may-exist edge cannot reach them")
	c.Rule("C09.R4", "every ApplyToSwapData call is dominated by the success edge of the next-state lookup for the delivered event on the same machine")
	c.Rule("C09.R6", "once the sender test has passed, every path to a nil return passes the handler call / SendEvent: an authenticated message is not dropped on stored state")
	c.Rule("C09.R7", "an activeSwaps entry is removed only for the id of a machine whose SendEvent/Recover just returned done, or as roll-back behind the success edge of this chain's own lock-in of that id")
	c.Rule("C09.R5", "no function reachable from OnMessageReceived outside SendEvent writes a SwapData/SwapStateMachine it did not allocate, or calls Store.UpdateData")

	w := c.W
	x := &c09Ctx{c: c, w: w, creators: map[*ssa.Function]*c09Frame{}, visitedR5: map[*ssa.Function]bool{},
		lookupFns: map[*ssa.Function]int{}, storeWrappers: map[*ssa.Function]int{}, oracles: map[*ssa.Function]c09Oracle{},
		condVals: map[string]map[ssa.Value]bool{"store": {}, "live": {}}, preds: map[string]map[*ssa.Function]*c09Pred{"store": {}, "live": {}}}
	if !needEffects(c, c09Apply, c09StoreGet, c09StoreUpd) {
		return
	}
	need := func(name string) *ssa.Function {
		fn := w.Func("swap", name)
		if fn == nil || fn.Blocks == nil {
			c.Anchor("function swap.%s does not resolve", name)
			return nil
		}
		return fn
	}
	x.root = need("(*SwapService).OnMessageReceived")
	x.sendEvent = need("(*SwapStateMachine).SendEvent")
	x.recoverFn = need("(*SwapStateMachine).Recover")
	x.idString = need("(*SwapId).String")
	// unexported helpers are found by what they do, not by their name
	x.lockSwap = c09FindGate(w)
	if x.lockSwap == nil {
		c.Anchor("no function of package swap performs `SwapService.activeSwaps[param] = param` (lockSwap)")
	}
	x.getNext = c09FindNextState(w)
	if x.getNext == nil {
		c.Anchor("no method of SwapStateMachine looks its EventType parameter up in a swap.Events map (getNextState)")
	}
	x.senderOracle = c09FindSenderOracle(w)                           // optional: the test may be inlined
	x.eventValid = w.Func("swap", "(*SwapStateMachine).EventIsValid") // optional
	x.tSM, x.tData, x.tId = w.Named("swap", "SwapStateMachine"), w.Named("swap", "SwapData"), w.Named("swap", "SwapId")
	if x.tSM == nil || x.tData == nil || x.tId == nil {
		c.Anchor("types swap.SwapStateMachine / SwapData / SwapId do not resolve")
	}
	if sp := w.SSA["swap"]; sp != nil {
		x.errNoData = sp.Var("ErrDataNotAvailable")
		x.errNoSwap = sp.Var("ErrSwapDoesNotExist")
	}
	if len(c.Anchors) > 0 {
		return
	}
	if !x.lockParams() {
		return
	}
	x.findOracles()
	x.addLookupWrappers()
	x.findLockers()
	if !c.AtLeast("C09", "functions that look a machine up in activeSwaps by a parameter", len(x.lookupFns), 1) {
		return
	}
	peerIdx := c09FirstParamOfBasic(x.root, types.String)
	if peerIdx < 0 {
		c.Anchor("OnMessageReceived has no string parameter (peer id)")
		return
	}

	x.checkSenderOracle()
	x.deriveOracles()

	rootFrame := &c09Frame{fn: x.root, bind: map[*ssa.Parameter]c09Org{}}
	x.walk(rootFrame, x.root.Params[peerIdx], nil, map[*ssa.Function]bool{})
	c.AtLeast("C09.R1", "dispatch sites to existing swaps examined (guarded + unguarded)", x.guardedSites+x.unguarded, 5)
	c.AtLeast("C09.R2", "SendEvent sites on existing swaps examined", x.r2Sites+x.unguarded, 5)
	c.AtLeast("C09.R6", "dispatched message types that go to an existing swap (delivery examined)", x.r6Sites+x.unguarded, 5)

	x.ruleR3()
	x.ruleR4()
	x.ruleR5()
	x.ruleR7()
}

// c09FindGate: the unique production function of package swap that inserts a
// parameter under a parameter key into SwapService.activeSwaps.
func c09FindGate(w *an.World) *ssa.Function {
	var found []*ssa.Function
	for _, fn := range prodFuncs(w) {
		if w.FnRel(fn) != "swap" {
			continue
		}
		for _, b := range fn.Blocks {
			for _, in := range b.Instrs {
				if mu, ok := in.(*ssa.MapUpdate); ok && c09IsActiveMap(mu.Map) {
					_, kp := c09Strip(mu.Key).(*ssa.Parameter)
					_, vp := c09Strip(mu.Value).(*ssa.Parameter)
					if kp && vp {
						found = append(found, fn)
					}
				}
			}
		}
	}
	if len(found) == 1 {
		return found[0]
	}
	if fn := w.Func("swap", "(*SwapService).lockSwap"); fn != nil && fn.Blocks != nil {
		return fn
	}
	return nil
}

// c09FindNextState: the method of SwapStateMachine with one EventType parameter
// that looks this parameter up (comma-ok) in a swap.Events map.
func c09FindNextState(w *an.World) *ssa.Function {
	var found []*ssa.Function
	for _, fn := range prodFuncs(w) {
		if w.FnRel(fn) != "swap" || fn.Signature.Recv() == nil || len(fn.Params) != 2 {
			continue
		}
		if n := an.NamedOf(fn.Params[0].Type()); n == nil || n.Obj().Name() != "SwapStateMachine" {
			continue
		}
		for _, b := range fn.Blocks {
			for _, in := range b.Instrs {
				if lk, ok := in.(*ssa.Lookup); ok && lk.CommaOk {
					if n := an.NamedOf(lk.X.Type()); n != nil && n.Obj().Name() == "Events" && c09Strip(lk.Index) == ssa.Value(fn.Params[1]) {
						found = append(found, fn)
					}
				}
			}
		}
	}
	if len(found) == 1 {
		return found[0]
	}
	if fn := w.Func("swap", "(*SwapStateMachine).getNextState"); fn != nil && fn.Blocks != nil {
		return fn
	}
	return nil
}

// c09FindSenderOracle: the function of package swap with parameters (string,
// *SwapId) and a bool first result that reads SwapData.PeerNodeId.
func c09FindSenderOracle(w *an.World) *ssa.Function {
	var found []*ssa.Function
	for _, fn := range prodFuncs(w) {
		if w.FnRel(fn) != "swap" || fn.Parent() != nil {
			continue
		}
		res := fn.Signature.Results()
		if res.Len() < 1 {
			continue
		}
		if b, ok := res.At(0).Type().(*types.Basic); !ok || b.Kind() != types.Bool {
			continue
		}
		nStr, nId := 0, 0
		for i, p := range fn.Params {
			if i == 0 && fn.Signature.Recv() != nil {
				continue
			}
			if b, ok := p.Type().(*types.Basic); ok && b.Kind() == types.String {
				nStr++
			} else if pt, ok := p.Type().(*types.Pointer); ok {
				if n, ok := pt.Elem().(*types.Named); ok && n.Obj().Name() == "SwapId" {
					nId++
				}
			}
		}
		if nStr != 1 || nId != 1 {
			continue
		}
		reads := false
		for _, b := range fn.Blocks {
			for _, in := range b.Instrs {
				if fa, ok := in.(*ssa.FieldAddr); ok && strings.HasPrefix(an.FieldName(fa.X.Type(), fa.Field), "SwapData.") {
					reads = true
				}
			}
		}
		if reads {
			found = append(found, fn)
		}
	}
	if len(found) == 1 {
		return found[0]
	}
	return w.Func("swap", "(*SwapService).isMessageSenderExpectedPeer")
}

// ---- small value helpers ---------------------------------------------------------

func c09Strip(v ssa.Value) ssa.Value {
	for i := 0; i < 32; i++ {
		switch y := v.(type) {
		case *ssa.ChangeType:
			v = y.X
		case *ssa.MakeInterface:
			v = y.X
		case *ssa.ChangeInterface:
			v = y.X
		case *ssa.Phi:
			var one ssa.Value
			for _, e := range y.Edges {
				s := c09Strip(e)
				if one == nil {
					one = s
				} else if one != s {
					return v
				}
			}
			if one == nil {
				return v
			}
			v = one
		default:
			return v
		}
	}
	return v
}

func c09FirstParamOfBasic(fn *ssa.Function, k types.BasicKind) int {
	for i, p := range fn.Params {
		if i == 0 && fn.Signature.Recv() != nil {
			continue
		}
		if b, ok := p.Type().Underlying().(*types.Basic); ok && b.Kind() == k {
			if _, named := p.Type().(*types.Named); !named {
				return i
			}
		}
	}
	return -1
}

func c09ParamIndex(p *ssa.Parameter) int {
	for i, q := range p.Parent().Params {
		if q == p {
			return i
		}
	}
	return -1
}

func (x *c09Ctx) isPtrTo(t types.Type, n *types.Named) bool {
	p, ok := t.(*types.Pointer)
	if !ok {
		return false
	}
	m, ok := p.Elem().(*types.Named)
	return ok && m.Obj() == n.Obj()
}

// isActiveMap: v is a load of SwapService.activeSwaps.
func c09IsFieldLoad(v ssa.Value, field string) (*ssa.FieldAddr, bool) {
	u, ok := c09Strip(v).(*ssa.UnOp)
	if !ok || u.Op != token.MUL {
		return nil, false
	}
	fa, ok := u.X.(*ssa.FieldAddr)
	if !ok {
		return nil, false
	}
	return fa, an.FieldName(fa.X.Type(), fa.Field) == field
}

func c09IsActiveMap(v ssa.Value) bool {
	_, ok := c09IsFieldLoad(v, c09ActiveMap)
	return ok
}

func c09AllocStores(al *ssa.Alloc) int {
	n := 0
	if al.Referrers() == nil {
		return 0
	}
	for _, r := range *al.Referrers() {
		if s, ok := r.(*ssa.Store); ok && s.Addr == al {
			n++
		}
	}
	return n
}

func c09AllocStored(al *ssa.Alloc) ssa.Value {
	for _, r := range *al.Referrers() {
		if st, ok := r.(*ssa.Store); ok && st.Addr == al {
			return st.Val
		}
	}
	return nil
}

// origin computes the origin of v inside its own function.
func (x *c09Ctx) origin(v ssa.Value) (c09Org, bool) {
	v = c09Strip(v)
	if call, ok := v.(*ssa.Call); ok && call.Common().StaticCallee() == x.idString && len(call.Call.Args) == 1 {
		o, ok := x.origin(call.Call.Args[0])
		o.Str = true
		return o, ok
	}
	var parts []string
	for i := 0; i < 32; i++ {
		v = c09Strip(v)
		switch y := v.(type) {
		case *ssa.FieldAddr:
			parts = append([]string{an.FieldName(y.X.Type(), y.Field)}, parts...)
			v = y.X
			continue
		case *ssa.Field:
			parts = append([]string{an.FieldName(y.X.Type(), y.Field)}, parts...)
			v = y.X
			continue
		case *ssa.UnOp:
			if y.Op == token.MUL {
				switch a := y.X.(type) {
				case *ssa.FieldAddr:
					v = a
					continue
				case *ssa.Alloc:
					// a local variable whose address is taken (var msg *T; Unmarshal(&msg)):
					// all loads denote the same object when it is assigned at most once
					switch c09AllocStores(a) {
					case 0:
						return c09Org{Root: a, Chain: strings.Join(parts, ">")}, true
					case 1:
						// a variable captured by a closure is spilled to a cell and
						// assigned once: it denotes the stored value
						v = c09AllocStored(a)
						continue
					}
					return c09Org{}, false
				case *ssa.FreeVar:
					// the cell of a captured variable
					return c09Org{Root: a, Chain: strings.Join(parts, ">")}, true
				}
			}
		}
		break
	}
	return c09Org{Root: v, Chain: strings.Join(parts, ">")}, true
}

func c09Join(a, b string) string {
	switch {
	case a == "":
		return b
	case b == "":
		return a
	}
	return a + ">" + b
}

// resolve expresses v (a value of fr.fn) in terms of the root frame.
func (x *c09Ctx) resolve(fr *c09Frame, v ssa.Value) (c09Org, bool) {
	o, ok := x.origin(v)
	if !ok {
		return o, false
	}
	if p, isP := o.Root.(*ssa.Parameter); isP && fr.parent != nil && p.Parent() == fr.fn {
		b, ok := fr.bind[p]
		if !ok {
			return o, false
		}
		if b.Str && o.Chain != "" {
			return o, false
		}
		return c09Org{Root: b.Root, Chain: c09Join(b.Chain, o.Chain), Str: b.Str || o.Str}, true
	}
	return o, true
}

func (x *c09Ctx) enter(fr *c09Frame, site ssa.CallInstruction, g *ssa.Function) *c09Frame {
	nf := &c09Frame{fn: g, bind: map[*ssa.Parameter]c09Org{}, parent: fr, site: site, depth: fr.depth + 1}
	args := site.Common().Args
	for i, p := range g.Params {
		if i < len(args) {
			if o, ok := x.resolve(fr, args[i]); ok {
				nf.bind[p] = o
			}
		}
	}
	return nf
}

func (x *c09Ctx) fname(fn *ssa.Function) string {
	return strings.TrimPrefix(x.w.FuncName(fn), "swap.")
}

// ---- anchors computed from structure --------------------------------------------

// lockParams finds which lockSwap parameter is the map key and which the machine.
func (x *c09Ctx) lockParams() bool {
	x.lockFsmIdx, x.lockIdIdx = -1, -1
	for _, b := range x.lockSwap.Blocks {
		for _, in := range b.Instrs {
			mu, ok := in.(*ssa.MapUpdate)
			if !ok || !c09IsActiveMap(mu.Map) {
				continue
			}
			if p, ok := c09Strip(mu.Key).(*ssa.Parameter); ok {
				x.lockIdIdx = c09ParamIndex(p)
			}
			if p, ok := c09Strip(mu.Value).(*ssa.Parameter); ok {
				x.lockFsmIdx = c09ParamIndex(p)
			}
		}
	}
	if x.lockFsmIdx < 0 || x.lockIdIdx < 0 {
		x.c.Anchor("lockSwap: no `activeSwaps[idParam] = machineParam` insert found")
		return false
	}
	return true
}

func (x *c09Ctx) findOracles() {
	for _, fn := range prodFuncs(x.w) {
		if x.w.FnRel(fn) != "swap" || fn == x.lockSwap {
			continue
		}
		// live map: a lookup in activeSwaps keyed by a parameter, in a function that returns the machine
		res := fn.Signature.Results()
		retSM := false
		for i := 0; i < res.Len(); i++ {
			if x.isPtrTo(res.At(i).Type(), x.tSM) {
				retSM = true
			}
		}
		for _, b := range fn.Blocks {
			for _, in := range b.Instrs {
				if lk, ok := in.(*ssa.Lookup); ok && retSM && c09IsActiveMap(lk.X) {
					if p, ok := c09Strip(lk.Index).(*ssa.Parameter); ok {
						x.lookupFns[fn] = c09ParamIndex(p)
					}
				}
			}
		}
		// store: `return store.GetData(param)` and nothing else
		var only *ssa.Call
		n := 0
		for _, call := range an.Calls(fn) {
			if x.w.Info(call).Name == c09StoreGet {
				n++
				only, _ = call.(*ssa.Call)
			}
		}
		if n == 1 && only != nil && len(only.Call.Args) == 1 {
			if p, ok := c09Strip(only.Call.Args[0]).(*ssa.Parameter); ok {
				pass := true
				for _, r := range an.Returns(fn) {
					for i, rv := range r.Results {
						ex, ok := rv.(*ssa.Extract)
						if !ok || ex.Tuple != only || ex.Index != i {
							pass = false
						}
					}
				}
				if pass {
					x.storeWrappers[fn] = c09ParamIndex(p)
				}
			}
		}
	}
}

// addLookupWrappers: a function that returns result #0 of a lookup function
// called with one of its own parameters as key is a lookup function as well.
func (x *c09Ctx) addLookupWrappers() {
	for round := 0; round < 2; round++ {
		for _, g := range prodFuncs(x.w) {
			if _, done := x.lookupFns[g]; done || x.w.FnRel(g) != "swap" || g == x.lockSwap {
				continue
			}
			for _, ci := range an.Calls(g) {
				k, ok := ci.(*ssa.Call)
				if !ok {
					continue
				}
				ki, isL := x.lookupFns[k.Common().StaticCallee()]
				if !isL || ki >= len(k.Call.Args) {
					continue
				}
				p, isP := c09Strip(k.Call.Args[ki]).(*ssa.Parameter)
				if !isP || p.Parent() != g {
					continue
				}
				for _, r := range an.Returns(g) {
					for _, rv := range r.Results {
						if ex, isEx := c09Strip(rv).(*ssa.Extract); isEx && ex.Tuple == ssa.Value(k) && ex.Index == 0 {
							x.lookupFns[g] = c09ParamIndex(p)
						}
					}
				}
			}
		}
	}
}

// findLockers: lockSwap plus the functions that pass their machine parameter to
// a locker and can return a nil error only behind that call's success edge.
func (x *c09Ctx) findLockers() {
	x.lockers = map[*ssa.Function]int{x.lockSwap: x.lockFsmIdx}
	for round := 0; round < 2; round++ {
		for _, g := range prodFuncs(x.w) {
			if _, done := x.lockers[g]; done || x.w.FnRel(g) != "swap" || g.Parent() != nil {
				continue
			}
			for _, ci := range an.Calls(g) {
				k, ok := ci.(*ssa.Call)
				if !ok {
					continue
				}
				mi, isL := x.lockers[k.Common().StaticCallee()]
				if !isL || mi >= len(k.Call.Args) {
					continue
				}
				p, isP := c09Strip(k.Call.Args[mi]).(*ssa.Parameter)
				if !isP || p.Parent() != g {
					continue
				}
				okE, _ := an.OkEdges(k)
				all := len(okE) > 0
				for _, r := range an.Returns(g) {
					if x.retErr(r) == "nonnil" {
						continue
					}
					dom := false
					for _, e := range okE {
						if an.EdgeDominates(e, r.Block()) {
							dom = true
						}
					}
					if !dom {
						all = false
					}
				}
				if all {
					x.lockers[g] = c09ParamIndex(p)
				}
			}
		}
	}
}

// ---- R1: semantics of the sender oracle ------------------------------------------

// machineKey: the id under which machine value m was looked up in activeSwaps.
func (x *c09Ctx) machineKey(fr *c09Frame, m ssa.Value) (c09Org, *ssa.Call, bool) {
	m = c09Strip(m)
	// a machine handed to a helper: the caller looked it up
	if p, isP := m.(*ssa.Parameter); isP && fr != nil && fr.parent != nil && fr.site != nil && p.Parent() == fr.fn {
		if i := c09ParamIndex(p); i >= 0 && i < len(fr.site.Common().Args) {
			return x.machineKey(fr.parent, fr.site.Common().Args[i])
		}
	}
	var tuple ssa.Value = m
	if ex, ok := m.(*ssa.Extract); ok {
		if ex.Index != 0 {
			return c09Org{}, nil, false
		}
		tuple = ex.Tuple
	}
	switch t := tuple.(type) {
	case *ssa.Call:
		if g := t.Common().StaticCallee(); g != nil {
			if ki, ok := x.lookupFns[g]; ok && ki < len(t.Call.Args) {
				o, ok := x.resolve(fr, t.Call.Args[ki])
				return o, t, ok
			}
		}
	case *ssa.Lookup:
		if c09IsActiveMap(t.X) {
			o, ok := x.resolve(fr, t.Index)
			return o, nil, ok
		}
	}
	return c09Org{}, nil, false
}

// peerOfMachine: v is <machine>.Data.PeerNodeId; returns the machine value.
func (x *c09Ctx) peerOfMachine(v ssa.Value) (ssa.Value, bool) {
	fa, ok := c09IsFieldLoad(v, "SwapData.PeerNodeId")
	if !ok {
		return nil, false
	}
	fd, ok := c09IsFieldLoad(fa.X, "SwapStateMachine.Data")
	if !ok {
		return nil, false
	}
	return fd.X, true
}

func (x *c09Ctx) checkSenderOracle() {
	fn := x.senderOracle
	if fn == nil || fn.Blocks == nil {
		x.c.Note("C09.R1", "sender oracle", "-", "isMessageSenderExpectedPeer does not resolve; only inlined sender comparisons are accepted")
		x.senderOracle = nil
		return
	}
	c, w := x.c, x.w
	cons := x.fname(fn) + " result"
	si, ii := -1, -1
	for i, p := range fn.Params {
		if i == 0 {
			continue
		}
		if b, ok := p.Type().(*types.Basic); ok && b.Kind() == types.String {
			si = i
		}
		if x.isPtrTo(p.Type(), x.tId) {
			ii = i
		}
	}
	if si < 0 || ii < 0 || fn.Signature.Results().Len() < 1 {
		c.Unknown("C09.R1", cons, w.Pos(fn.Pos()), "unsupported signature of the sender oracle (want (sender string, id *SwapId) (bool, …))")
		return
	}
	fr := &c09Frame{fn: fn}
	isPair := func(a, b ssa.Value) bool {
		for _, pr := range [][2]ssa.Value{{a, b}, {b, a}} {
			if c09Strip(pr[0]) != ssa.Value(fn.Params[si]) {
				continue
			}
			m, ok := x.peerOfMachine(pr[1])
			if !ok {
				continue
			}
			o, _, ok := x.machineKey(fr, m)
			if ok && o.Root == ssa.Value(fn.Params[ii]) && o.Chain == "" && o.Str {
				return true
			}
		}
		return false
	}
	verdict, detail := "ok", ""
	nTrue := 0
	for _, r := range an.Returns(fn) {
		if len(r.Results) == 0 {
			continue
		}
		v := c09Strip(r.Results[0])
		neg := false
		for {
			u, isNot := v.(*ssa.UnOp)
			if !isNot || u.Op != token.NOT {
				break
			}
			neg = !neg
			v = c09Strip(u.X)
		}
		switch y := v.(type) {
		case *ssa.Const:
			if y.Value != nil && (y.Value.String() == "false") != neg {
				continue
			}
			// constant true: must be under the equality
			under := false
			for _, f := range w.FactsDominatingBlock(r.Block()) {
				if f.NonNum && f.Rel == "==" && isPair(f.LV, f.RV) {
					under = true
				}
			}
			if under {
				nTrue++
				continue
			}
			// is anything known about the sender at this return at all?
			mentions := false
			for _, f := range w.FactsDominatingBlock(r.Block()) {
				if f.Cond != nil && x.mentions(f.Cond, fn.Params[si], 0, map[ssa.Value]bool{}) {
					mentions = true
				}
			}
			if mentions {
				if verdict == "ok" {
					verdict, detail = "unknown", "returns true at "+w.Pos(r.Pos())+" under a condition on the sender that is not understood"
				}
			} else {
				verdict, detail = "bad", "returns true at "+w.Pos(r.Pos())+" without comparing the looked-up machine's PeerNodeId with the sender"
			}
		case *ssa.BinOp:
			op := y.Op
			if neg && op == token.EQL {
				op = token.NEQ
			} else if neg && op == token.NEQ {
				op = token.EQL
			}
			if op == token.EQL && isPair(y.X, y.Y) {
				nTrue++
				continue
			}
			if op == token.NEQ && isPair(y.X, y.Y) {
				verdict, detail = "bad", "returns PeerNodeId != sender (inverted test) at "+w.Pos(r.Pos())
				continue
			}
			// positively wrong: the sender is compared with another field of the swap data
			wrong := false
			for _, pr := range [][2]ssa.Value{{y.X, y.Y}, {y.Y, y.X}} {
				if c09Strip(pr[0]) != ssa.Value(fn.Params[si]) {
					continue
				}
				if u, isLoad := c09Strip(pr[1]).(*ssa.UnOp); isLoad && u.Op == token.MUL {
					if fa, isFA := u.X.(*ssa.FieldAddr); isFA {
						if n := an.NamedOf(fa.X.Type()); n != nil && n.Obj() == x.tData.Obj() && an.FieldName(fa.X.Type(), fa.Field) != "SwapData.PeerNodeId" {
							wrong = true
						}
					}
				}
			}
			if wrong {
				verdict, detail = "bad", "returns a comparison that is not activeSwaps[id].Data.PeerNodeId == sender at "+w.Pos(r.Pos())
			} else if verdict == "ok" {
				verdict, detail = "unknown", "the comparison returned at "+w.Pos(r.Pos())+" could not be resolved to activeSwaps[id].Data.PeerNodeId == sender"
			}
		default:
			if verdict == "ok" {
				verdict, detail = "unknown", fmt.Sprintf("result at %s has unsupported shape %T", w.Pos(r.Pos()), v)
			}
		}
	}
	switch {
	case verdict == "bad":
		c.Bad("C09.R1", cons, w.Pos(fn.Pos()), "the sender test "+detail+": a third party (or nobody but a third party) passes the test for a foreign swap")
	case verdict == "unknown":
		c.Unknown("C09.R1", cons, w.Pos(fn.Pos()), detail)
	case nTrue == 0:
		c.Bad("C09.R1", cons, w.Pos(fn.Pos()), "the sender test never returns the comparison of PeerNodeId with the sender")
	default:
		c.OK("C09.R1", cons, w.Pos(fn.Pos()), "returns false or activeSwaps[id.String()].Data.PeerNodeId == sender")
		x.oracles[fn] = c09Oracle{si: si, ii: ii, bi: 0, fv: -1}
	}
}

// mentions: value v is computed from target (through calls, comparisons,
// conversions, phis and once-assigned local cells).
func (x *c09Ctx) mentions(v ssa.Value, target ssa.Value, depth int, seen map[ssa.Value]bool) bool {
	if v == nil || depth > 10 || seen[v] {
		return false
	}
	seen[v] = true
	if v == target {
		return true
	}
	switch y := v.(type) {
	case *ssa.Call:
		for _, a := range y.Call.Args {
			if x.mentions(a, target, depth+1, seen) {
				return true
			}
		}
		if mc, ok := y.Call.Value.(*ssa.MakeClosure); ok {
			for _, b := range mc.Bindings {
				if x.mentions(b, target, depth+1, seen) {
					return true
				}
			}
		}
	case *ssa.Extract:
		return x.mentions(y.Tuple, target, depth+1, seen)
	case *ssa.BinOp:
		return x.mentions(y.X, target, depth+1, seen) || x.mentions(y.Y, target, depth+1, seen)
	case *ssa.UnOp:
		if al, ok := y.X.(*ssa.Alloc); ok && y.Op == token.MUL {
			return x.mentions(al, target, depth+1, seen)
		}
		return x.mentions(y.X, target, depth+1, seen)
	case *ssa.Alloc:
		if y.Referrers() != nil {
			for _, r := range *y.Referrers() {
				if st, ok := r.(*ssa.Store); ok && st.Addr == ssa.Value(y) && x.mentions(st.Val, target, depth+1, seen) {
					return true
				}
			}
		}
	case *ssa.Phi:
		for _, e := range y.Edges {
			if x.mentions(e, target, depth+1, seen) {
				return true
			}
		}
	case *ssa.ChangeType:
		return x.mentions(y.X, target, depth+1, seen)
	case *ssa.Convert:
		return x.mentions(y.X, target, depth+1, seen)
	case *ssa.MakeInterface:
		return x.mentions(y.X, target, depth+1, seen)
	case *ssa.FieldAddr:
		return x.mentions(y.X, target, depth+1, seen)
	}
	return false
}

// peerConditioned: on the path to instruction at (in frame fr and the frames
// above it) some branch condition that is not the result of a verified sender
// test is computed from the peer id: an uninterpreted test may be guarding.
func (x *c09Ctx) peerConditioned(fr *c09Frame, peer ssa.Value, at *ssa.BasicBlock) string {
	for f := fr; f != nil; f = f.parent {
		// the values that denote the peer in this frame
		targets := []ssa.Value{}
		if f.parent == nil {
			targets = append(targets, peer)
		}
		for p, o := range f.bind {
			if o.Root == peer && o.Chain == "" && !o.Str {
				targets = append(targets, p)
			}
		}
		for _, fact := range x.w.FactsDominatingBlock(at) {
			if fact.Cond == nil {
				continue
			}
			// results of verified oracles are interpreted exactly (only their passing edge counts)
			if x.fromOracleCall(fact.Cond) {
				continue
			}
			for _, t := range targets {
				if x.mentions(fact.Cond, t, 0, map[ssa.Value]bool{}) {
					return "the branch condition at " + x.w.Pos(fact.Cond.Pos()) + " in " + x.fname(f.fn) + " depends on the peer id but is not a recognised sender test"
				}
			}
		}
		if f.site != nil {
			at = f.site.Block()
		}
	}
	return ""
}

func (x *c09Ctx) fromOracleCall(v ssa.Value) bool {
	switch y := v.(type) {
	case *ssa.Call:
		_, ok := x.oracles[y.Common().StaticCallee()]
		return ok
	case *ssa.Extract:
		return x.fromOracleCall(y.Tuple)
	case *ssa.BinOp:
		return x.fromOracleCall(y.X) || x.fromOracleCall(y.Y)
	case *ssa.UnOp:
		return x.fromOracleCall(y.X)
	}
	return false
}

// sigOf: g has exactly one plain string parameter and one *SwapId parameter
// (besides the receiver) and a bool or error result.
func (x *c09Ctx) sigOf(g *ssa.Function) (c09Oracle, bool) {
	o := c09Oracle{si: -1, ii: -1, bi: -1, fv: -1}
	for i, p := range g.Params {
		if i == 0 && g.Signature.Recv() != nil {
			continue
		}
		if b, ok := p.Type().(*types.Basic); ok && b.Kind() == types.String {
			if o.si >= 0 {
				return o, false
			}
			o.si = i
		}
		if x.isPtrTo(p.Type(), x.tId) {
			if o.ii >= 0 {
				return o, false
			}
			o.ii = i
		}
	}
	if o.si < 0 && g.Parent() != nil {
		// a closure: the sender may be a captured string variable
		for i, fvv := range g.FreeVars {
			if pt, ok := fvv.Type().(*types.Pointer); ok {
				if b, ok := pt.Elem().(*types.Basic); ok && b.Kind() == types.String {
					if o.fv >= 0 {
						return o, false
					}
					o.fv = i
				}
			}
		}
	}
	if (o.si < 0 && o.fv < 0) || o.ii < 0 {
		return o, false
	}
	res := g.Signature.Results()
	hasErr := false
	for i := 0; i < res.Len(); i++ {
		if b, ok := res.At(i).Type().(*types.Basic); ok && b.Kind() == types.Bool && o.bi < 0 {
			o.bi = i
		}
		if an.IsErrorType(res.At(i).Type()) {
			hasErr = true
		}
	}
	return o, o.bi >= 0 || hasErr
}

// deriveOracles adds wrappers of the sender test: functions of (sender, id) all
// of whose success returns (true / nil error) lie behind a passing sender test
// on their own parameters.
func (x *c09Ctx) deriveOracles() {
	var cands []*ssa.Function
	for _, g := range prodFuncs(x.w) {
		if x.w.FnRel(g) != "swap" || g == x.root {
			continue
		}
		if _, ok := x.sigOf(g); ok {
			cands = append(cands, g)
		}
	}
	for round := 0; round < 3; round++ {
		for _, g := range cands {
			if _, done := x.oracles[g]; done {
				continue
			}
			o, _ := x.sigOf(g)
			fr := &c09Frame{fn: g}
			peer := o.peerIn(g)
			good, all := 0, true
			for _, r := range an.Returns(g) {
				if o.bi >= 0 {
					v := c09Strip(r.Results[o.bi])
					if cst, isC := v.(*ssa.Const); isC && cst.Value != nil && cst.Value.String() == "false" {
						continue
					}
					// the result of another oracle handed through
					if ex, isEx := v.(*ssa.Extract); isEx {
						if k, isCall := ex.Tuple.(*ssa.Call); isCall {
							if ko, isO := x.oracles[k.Common().StaticCallee()]; isO && ko.bi == ex.Index &&
								x.peerArgIs(fr, peer, k, ko) && c09Strip(k.Call.Args[ko.ii]) == ssa.Value(g.Params[o.ii]) {
								good++
								continue
							}
						}
					}
				} else if x.retErr(r) == "nonnil" {
					continue
				}
				gd := x.guardAt(fr, peer, r)
				if gd != nil && gd.id.Root == ssa.Value(g.Params[o.ii]) && gd.id.Chain == "" {
					good++
				} else {
					all = false
				}
			}
			if all && good > 0 {
				x.oracles[g] = o
				x.c.Note("C09.R1", x.fname(g)+" wraps the sender test", x.w.Pos(g.Pos()), "every success return lies behind a passing sender test on its own (sender, id) parameters")
			}
		}
	}
}

// retErr classifies the error returned by r: "nil", "nonnil" or "?".
func (x *c09Ctx) retErr(r *ssa.Return) string {
	v := c09RetErrValue(r)
	if v == nil {
		return "?"
	}
	return x.classErr(v, r.Block(), 0)
}

// classErr: a value is non-nil when it is a boxed concrete value, a
// package-level error variable, the result of fmt.Errorf / errors.New or of a
// module function that only returns such values, or when it is used under the
// fact value != nil.
func (x *c09Ctx) classErr(v ssa.Value, at *ssa.BasicBlock, depth int) string {
	if an.IsNilConst(v) {
		return "nil"
	}
	switch y := v.(type) {
	case *ssa.MakeInterface:
		return "nonnil"
	case *ssa.UnOp:
		if _, isG := y.X.(*ssa.Global); isG && y.Op == token.MUL {
			return "nonnil"
		}
	case *ssa.Call:
		if r := x.classCall(y, -1, depth); r != "?" {
			return r
		}
	case *ssa.Extract:
		if k, ok := y.Tuple.(*ssa.Call); ok {
			if r := x.classCall(k, y.Index, depth); r != "?" {
				return r
			}
		}
	}
	if at != nil {
		for _, f := range x.w.FactsDominatingBlock(at) {
			if f.NonNum && f.Rel == "!=" && ((f.LV == v && an.IsNilConst(f.RV)) || (f.RV == v && an.IsNilConst(f.LV))) {
				return "nonnil"
			}
		}
	}
	return "?"
}

func (x *c09Ctx) classCall(k *ssa.Call, idx int, depth int) string {
	ci := x.w.Info(k)
	if ci.Name == "func:fmt.Errorf" || ci.Name == "func:errors.New" {
		return "nonnil"
	}
	g := ci.Static
	if g == nil || !x.w.InModule(g) || g.Blocks == nil || depth > 2 {
		return "?"
	}
	rets := an.Returns(g)
	if len(rets) == 0 {
		return "?"
	}
	for _, r := range rets {
		var v ssa.Value
		if idx >= 0 && idx < len(r.Results) {
			v = r.Results[idx]
		} else {
			v = c09RetErrValue(r)
		}
		if v == nil || !an.IsErrorType(v.Type()) || x.classErr(v, r.Block(), depth+1) != "nonnil" {
			return "?"
		}
	}
	return "nonnil"
}

// ---- R1/R2: the walk ---------------------------------------------------------------

func (x *c09Ctx) isPeer(fr *c09Frame, peer ssa.Value, v ssa.Value) bool {
	o, ok := x.resolve(fr, v)
	return ok && o.Root == peer && o.Chain == "" && !o.Str
}

// peerArgIs: the sender that call k hands to oracle o is the peer.
func (x *c09Ctx) peerArgIs(fr *c09Frame, peer ssa.Value, k *ssa.Call, o c09Oracle) bool {
	if o.si >= 0 {
		return o.si < len(k.Call.Args) && x.isPeer(fr, peer, k.Call.Args[o.si])
	}
	mc, ok := k.Call.Value.(*ssa.MakeClosure)
	if !ok || o.fv >= len(mc.Bindings) {
		return false
	}
	switch b := mc.Bindings[o.fv].(type) {
	case *ssa.Alloc: // the cell of the captured variable
		if c09AllocStores(b) == 1 {
			return x.isPeer(fr, peer, c09AllocStored(b))
		}
	case *ssa.FreeVar: // a closure inside a closure passes the cell on
		return ssa.Value(b) == peer
	}
	return false
}

// guardAt looks for a sender test whose passing edge dominates instruction at.
func (x *c09Ctx) guardAt(fr *c09Frame, peer ssa.Value, at ssa.Instruction) *c09Guard {
	fn := fr.fn
	for _, ci := range an.Calls(fn) {
		k, ok := ci.(*ssa.Call)
		if !ok {
			continue
		}
		o, isO := x.oracles[k.Common().StaticCallee()]
		if !isO || !x.peerArgIs(fr, peer, k, o) {
			continue
		}
		var pass []an.Edge
		if o.bi >= 0 {
			for _, rv := range an.ResultValues(k, o.bi) {
				te, _ := an.BoolEdges(rv)
				pass = append(pass, te...)
			}
		} else {
			pass, _ = an.OkEdges(k)
		}
		for _, e := range pass {
			if an.EdgeDominates(e, at.Block()) {
				if org, ok := x.resolve(fr, k.Call.Args[o.ii]); ok {
					return &c09Guard{id: org, desc: x.fname(k.Common().StaticCallee()) + " passed", edge: e, hasEdge: true}
				}
			}
		}
	}
	// inlined: <lookup(id)>.Data.PeerNodeId == peer
	for _, f := range x.w.FactsDominating(at) {
		if !f.NonNum || f.Rel != "==" {
			continue
		}
		for _, pr := range [][2]ssa.Value{{f.LV, f.RV}, {f.RV, f.LV}} {
			if pr[0] == nil || pr[1] == nil || !x.isPeer(fr, peer, pr[0]) {
				continue
			}
			m, ok := x.peerOfMachine(pr[1])
			if !ok {
				continue
			}
			if o, call, ok := x.machineKey(fr, m); ok {
				return &c09Guard{id: o, desc: "PeerNodeId == peer", call: call, edge: f.Edge, hasEdge: true}
			}
		}
	}
	// a function of (sender, id) that is given the peer and whose passing result
	// dominates, but which could not be verified to be a sender test
	for _, ci := range an.Calls(fn) {
		k, ok := ci.(*ssa.Call)
		if !ok {
			continue
		}
		g := k.Common().StaticCallee()
		if g == nil || !x.w.InModule(g) || g.Blocks == nil {
			continue
		}
		if _, isO := x.oracles[g]; isO {
			continue
		}
		o, ok := x.sigOf(g)
		if !ok || !x.peerArgIs(fr, peer, k, o) {
			continue
		}
		var pass []an.Edge
		if o.bi >= 0 {
			for _, rv := range an.ResultValues(k, o.bi) {
				te, _ := an.BoolEdges(rv)
				pass = append(pass, te...)
			}
		} else {
			pass, _ = an.OkEdges(k)
		}
		for _, e := range pass {
			if an.EdgeDominates(e, at.Block()) {
				return &c09Guard{unsure: x.fname(g) + " (given the peer and an id) passed, but it could not be verified to compare activeSwaps[id].Data.PeerNodeId with the sender"}
			}
		}
	}
	return nil
}

func (x *c09Ctx) reachesSend(g *ssa.Function) bool {
	if g == x.sendEvent || g == x.recoverFn {
		return true
	}
	s := x.w.Summary(g)
	for _, e := range s.Effects {
		if e.Info.Static == x.sendEvent || e.Info.Static == x.recoverFn {
			return true
		}
	}
	return false
}

func (x *c09Ctx) reachesLock(g *ssa.Function) bool {
	if g == x.lockSwap {
		return true
	}
	for _, e := range x.w.Summary(g).Effects {
		if e.Info.Static == x.lockSwap {
			return true
		}
	}
	return false
}

// lockedHere: machine value m is the machine argument of a lockSwap call in fn.
func (x *c09Ctx) lockedHere(fn *ssa.Function, m ssa.Value) bool {
	m = c09Strip(m)
	for _, ci := range an.Calls(fn) {
		if mi, isL := x.lockers[ci.Common().StaticCallee()]; isL && mi < len(ci.Common().Args) {
			if c09Strip(ci.Common().Args[mi]) == m {
				return true
			}
		}
	}
	return false
}

// lockedIn: lockedHere, also when the machine was handed in by the caller that locked it in.
func (x *c09Ctx) lockedIn(fr *c09Frame, m ssa.Value) bool {
	if x.lockedHere(fr.fn, m) {
		return true
	}
	if p, isP := c09Strip(m).(*ssa.Parameter); isP && fr.parent != nil && fr.site != nil && p.Parent() == fr.fn {
		if i := c09ParamIndex(p); i >= 0 && i < len(fr.site.Common().Args) {
			return x.lockedIn(fr.parent, fr.site.Common().Args[i])
		}
	}
	return false
}

func c09EventOf(call ssa.CallInstruction) string {
	args := call.Common().Args
	if len(args) >= 2 {
		if s, ok := an.ConstString(args[1]); ok {
			return s
		}
	}
	return "?"
}

func (x *c09Ctx) walk(fr *c09Frame, peer ssa.Value, g *c09Guard, onPath map[*ssa.Function]bool) {
	c, w := x.c, x.w
	fn := fr.fn
	if onPath[fn] {
		return
	}
	onPath[fn] = true
	defer delete(onPath, fn)
	x.visitedR5[fn] = true
	if g != nil && g.unsure == "" && fr.parent != nil {
		x.deliveryInside(fr)
	}
	for _, a := range fn.AnonFuncs {
		// closures are not followed with parameter bindings
		if x.reachesSend(a) || x.reachesLock(a) {
			c.Unknown("C09.R1", x.fname(fn)+" closure", w.Pos(a.Pos()), "a closure inside a message handler reaches SendEvent/lockSwap; closures are not followed")
		} else {
			x.markR5(a, 0)
		}
	}
	for _, ci := range an.Calls(fn) {
		callee := ci.Common().StaticCallee()
		if callee == nil {
			continue
		}
		if _, isGo := ci.(*ssa.Go); isGo {
			continue
		}
		if _, isL := x.lockers[callee]; isL {
			if _, seen := x.creators[fn]; !seen {
				x.creators[fn] = fr
			}
			x.markR5(callee, 0)
			continue
		}
		if callee == x.sendEvent || callee == x.recoverFn {
			recv := ci.Common().Args[0]
			cons := fmt.Sprintf("%s %s(%s)", x.fname(fn), callee.Name(), c09EventOf(ci))
			if x.lockedIn(fr, recv) {
				continue // a machine created and locked in by this function (or its caller): R3 / C10.R1
			}
			gg := g
			if gg == nil {
				gg = x.guardAt(fr, peer, ci)
				if gg != nil && gg.unsure == "" {
					x.guardedSites++
					c.OK("C09.R1", cons, w.Pos(ci.Pos()), "dominated by "+gg.desc)
					x.delivery(fr, gg, ci, x.fname(fn)+" delivers "+callee.Name()+"("+c09EventOf(ci)+") once the sender test passed")
				}
			}
			if gg != nil && gg.unsure != "" {
				x.unguarded++
				c.Unknown("C09.R1", cons, w.Pos(ci.Pos()), gg.unsure)
				continue
			}
			if gg == nil {
				x.unguarded++
				if why := x.peerConditioned(fr, peer, ci.Block()); why != "" {
					c.Unknown("C09.R1", cons, w.Pos(ci.Pos()), "no recognised sender test dominates this event, but "+why)
					continue
				}
				c.Bad("C09.R1", cons, w.Pos(ci.Pos()), "an event is delivered to an existing swap on a path from OnMessageReceived that does not pass the sender test: any peer that knows (or guesses) the swap id moves the swap. Path: "+x.path(fr))
				continue
			}
			// R2
			x.r2Sites++
			key, call, ok := x.machineKey(fr, recv)
			switch {
			case !ok:
				c.Unknown("C09.R2", cons, w.Pos(ci.Pos()), "cannot resolve the receiver to an activeSwaps lookup keyed by a message id (receiver: "+w.Term(recv)+")")
			case gg.call != nil && gg.call == call:
				c.OK("C09.R2", cons, w.Pos(ci.Pos()), "the machine whose PeerNodeId was compared receives the event")
			case c09IsPhi(key.Root) || c09IsPhi(gg.id.Root):
				c.Unknown("C09.R2", cons, w.Pos(ci.Pos()), "the tested id or the lookup key is a merge of several values; cannot decide that they are the same id")
			case key.same(gg.id):
				c.OK("C09.R2", cons, w.Pos(ci.Pos()), "receiver is activeSwaps[<"+gg.id.Chain+">] of the message whose sender was tested")
			default:
				c.Bad("C09.R2", cons, w.Pos(ci.Pos()), fmt.Sprintf("the sender was tested for id <%s of %s> but the event goes to the swap looked up under <%s of %s>: a counterparty of one swap moves another", gg.id.Chain, w.Term(gg.id.Root), key.Chain, c09TermOf(w, key.Root)))
			}
			continue
		}
		if !w.InModule(callee) || callee.Blocks == nil {
			continue
		}
		sends, locks := x.reachesSend(callee), x.reachesLock(callee)
		if !sends && !locks {
			x.markR5(callee, 0)
			continue
		}
		gg := g
		if gg == nil && sends {
			gg = x.guardAt(fr, peer, ci)
			if gg != nil && gg.unsure == "" {
				x.guardedSites++
				c.OK("C09.R1", x.fname(fn)+" -> "+x.fname(callee), w.Pos(ci.Pos()), "dispatch dominated by "+gg.desc)
				x.delivery(fr, gg, ci, x.fname(fn)+" delivers to "+x.fname(callee)+" once the sender test passed")
			}
		}
		if fr.depth+1 > c09MaxDepth {
			c.Unknown("C09.R1", x.fname(fn)+" -> "+x.fname(callee), w.Pos(ci.Pos()), "call depth limit reached while following handlers")
			continue
		}
		x.walk(x.enter(fr, ci, callee), peer, gg, onPath)
	}
}

// ---- R6: delivery ------------------------------------------------------------------

// delivery: in frame fr the sender test passed on edge gg.edge; target is the
// call that hands the message on. Every return reachable from the passing edge
// without executing target must return a non-nil error.
func (x *c09Ctx) delivery(fr *c09Frame, gg *c09Guard, target ssa.CallInstruction, cons string) {
	if !gg.hasEdge {
		return
	}
	x.r6Sites++
	x.deliveryCheck(fr.fn, []*ssa.BasicBlock{gg.edge.To()}, []ssa.CallInstruction{target}, cons, x.w.Pos(target.Pos()), gg.edge.From)
}

// deliveryInside: fr.fn was entered behind a passed sender test; from its entry
// every nil return must pass one of the calls that lead to SendEvent.
func (x *c09Ctx) deliveryInside(fr *c09Frame) {
	fn := fr.fn
	var targets []ssa.CallInstruction
	for _, ci := range an.Calls(fn) {
		g := ci.Common().StaticCallee()
		if g == nil {
			continue
		}
		if _, isGo := ci.(*ssa.Go); isGo {
			continue
		}
		if g == x.sendEvent || g == x.recoverFn || (x.w.InModule(g) && g.Blocks != nil && x.reachesSend(g)) {
			targets = append(targets, ci)
		}
	}
	if len(targets) == 0 || len(fn.Blocks) == 0 {
		return
	}
	x.deliveryCheck(fn, []*ssa.BasicBlock{fn.Blocks[0]}, targets, x.fname(fn)+" delivers the authenticated message", x.w.Pos(fn.Pos()), nil)
}

func (x *c09Ctx) deliveryCheck(fn *ssa.Function, start []*ssa.BasicBlock, targets []ssa.CallInstruction, cons, pos string, guardBlock *ssa.BasicBlock) {
	c, w := x.c, x.w
	stop := map[*ssa.BasicBlock]bool{}
	for _, t := range targets {
		stop[t.Block()] = true
	}
	reach := an.ReachBlocks(start, nil, stop)
	var bad, unk []string
	for _, r := range an.Returns(fn) {
		if !reach[r.Block()] || stop[r.Block()] {
			continue
		}
		if fn.Recover != nil && r.Block() == fn.Recover {
			continue
		}
		if x.retErr(r) == "nonnil" {
			continue
		}
		// a return that may be nil and skips the delivery: on which condition?
		where := "the return at " + w.Pos(r.Pos())
		var named, opaque []string
		nConds := 0
		for _, f := range w.FactsDominatingBlock(r.Block()) {
			if f.Cond == nil || !(reach[f.Edge.From]) {
				continue
			}
			if f.Edge.From == guardBlock {
				continue
			}
			nConds++
			n, o := x.stateOf(f.Cond, 0, map[ssa.Value]bool{})
			for _, s := range n {
				extra := ""
				if guardBlock != nil {
					extra = x.beforeGuard(f.Cond, guardBlock)
				}
				named = append(named, s+extra)
			}
			opaque = append(opaque, o...)
		}
		switch {
		case len(named) > 0:
			bad = append(bad, where+" skips the delivery depending on "+strings.Join(c09Uniq(named), ", "))
		case nConds == 0:
			bad = append(bad, where+" ends the arm without delivering the message and without an error")
		case len(opaque) > 0:
			unk = append(unk, where+" skips the delivery on a condition that is not understood: "+strings.Join(c09Uniq(opaque), ", "))
		case x.retErr(r) != "nil":
			unk = append(unk, where+" skips the delivery; whether it reports an error could not be resolved")
		default:
			// a condition on the content of the (authenticated) message itself
		}
	}
	switch {
	case len(bad) > 0:
		c.Bad("C09.R6", cons, pos, strings.Join(c09Uniq(bad), "; ")+". History: state that is keyed by the swap id and written for every incoming message (also for a third party's message that the sender test then refuses) decides whether the real counterparty's message reaches the state machine: a non-counterparty that spoofs the message type first makes the counterparty's message and all its retries disappear")
	case len(unk) > 0:
		c.Unknown("C09.R6", cons, pos, strings.Join(c09Uniq(unk), "; "))
	default:
		c.OK("C09.R6", cons, pos, "every path that does not hand the message on returns a non-nil error")
	}
}

// beforeGuard: the stored state behind cond is produced by a call that runs
// before the sender test.
func (x *c09Ctx) beforeGuard(cond ssa.Value, guardBlock *ssa.BasicBlock) string {
	var call *ssa.Call
	var find func(v ssa.Value, d int)
	find = func(v ssa.Value, d int) {
		if d > 6 || call != nil {
			return
		}
		switch y := v.(type) {
		case *ssa.Call:
			call = y
		case *ssa.Extract:
			find(y.Tuple, d+1)
		case *ssa.UnOp:
			find(y.X, d+1)
		case *ssa.BinOp:
			find(y.X, d+1)
			find(y.Y, d+1)
		case *ssa.Phi:
			for _, e := range y.Edges {
				find(e, d+1)
			}
		}
	}
	find(cond, 0)
	if call == nil {
		return ""
	}
	if call.Block() == guardBlock || an.ReachBlocks([]*ssa.BasicBlock{call.Block()}, nil, nil)[guardBlock] {
		return " (computed at " + x.w.Pos(call.Pos()) + ", before the sender is authenticated: a refused third-party message changes it)"
	}
	return ""
}

// stateOf: which stored state (fields of SwapService / SwapStateMachine /
// SwapData, directly or through module functions that touch them) a condition
// depends on (named), and which parts of it cannot be interpreted (opaque).
func (x *c09Ctx) stateOf(v ssa.Value, depth int, seen map[ssa.Value]bool) (named, opaque []string) {
	if v == nil || seen[v] || depth > 10 {
		return
	}
	seen[v] = true
	add := func(n, o []string) {
		named = append(named, n...)
		opaque = append(opaque, o...)
	}
	isState := func(t types.Type) string {
		if n := an.NamedOf(t); n != nil && n.Obj().Pkg() != nil {
			switch n.Obj().Name() {
			case "SwapService", "SwapStateMachine", "SwapData", "SwapServices":
				return n.Obj().Name()
			}
		}
		return ""
	}
	switch y := v.(type) {
	case *ssa.Const, *ssa.Parameter, *ssa.Global, *ssa.Function:
	case *ssa.FieldAddr:
		if isState(y.X.Type()) != "" {
			named = append(named, "stored state "+an.FieldName(y.X.Type(), y.Field))
			return
		}
		add(x.stateOf(y.X, depth+1, seen))
	case *ssa.Field:
		add(x.stateOf(y.X, depth+1, seen))
	case *ssa.UnOp:
		if al, ok := y.X.(*ssa.Alloc); ok && y.Op == token.MUL {
			if al.Referrers() != nil {
				for _, r := range *al.Referrers() {
					if st, ok := r.(*ssa.Store); ok && st.Addr == ssa.Value(al) {
						add(x.stateOf(st.Val, depth+1, seen))
					}
				}
			}
			return
		}
		add(x.stateOf(y.X, depth+1, seen))
	case *ssa.BinOp:
		add(x.stateOf(y.X, depth+1, seen))
		add(x.stateOf(y.Y, depth+1, seen))
	case *ssa.Phi:
		for _, e := range y.Edges {
			add(x.stateOf(e, depth+1, seen))
		}
	case *ssa.Extract:
		add(x.stateOf(y.Tuple, depth+1, seen))
	case *ssa.Lookup:
		add(x.stateOf(y.X, depth+1, seen))
		add(x.stateOf(y.Index, depth+1, seen))
	case *ssa.Index:
		add(x.stateOf(y.X, depth+1, seen))
	case *ssa.IndexAddr:
		add(x.stateOf(y.X, depth+1, seen))
	case *ssa.Slice:
		add(x.stateOf(y.X, depth+1, seen))
	case *ssa.ChangeType:
		add(x.stateOf(y.X, depth+1, seen))
	case *ssa.Convert:
		add(x.stateOf(y.X, depth+1, seen))
	case *ssa.MakeInterface:
		add(x.stateOf(y.X, depth+1, seen))
	case *ssa.ChangeInterface:
		add(x.stateOf(y.X, depth+1, seen))
	case *ssa.TypeAssert:
		add(x.stateOf(y.X, depth+1, seen))
	case *ssa.Alloc:
	case *ssa.Call:
		info := x.w.Info(y)
		switch {
		case info.Static != nil && x.w.InModule(info.Static) && info.Static.Blocks != nil:
			if f := x.touchesState(info.Static, 0, map[*ssa.Function]bool{}); f != "" {
				named = append(named, "the result of "+x.fname(info.Static)+", which uses stored state "+f)
				return
			}
			for _, a := range y.Call.Args {
				add(x.stateOf(a, depth+1, seen))
			}
		case info.Static != nil || strings.HasPrefix(info.Name, "builtin:"):
			for _, a := range y.Call.Args {
				add(x.stateOf(a, depth+1, seen))
			}
		default:
			opaque = append(opaque, "the result of "+strings.TrimPrefix(info.Name, "iface:")+" ("+x.w.Pos(y.Pos())+")")
		}
	default:
		opaque = append(opaque, fmt.Sprintf("%s (%T)", x.w.Term(v), v))
	}
	return
}

// touchesState: fn (or a static module callee, depth 2) accesses a field of
// SwapService / SwapStateMachine / SwapData other than a mutex; returns the first such field.
func (x *c09Ctx) touchesState(fn *ssa.Function, depth int, seen map[*ssa.Function]bool) string {
	if fn == nil || seen[fn] || fn.Blocks == nil || depth > 2 {
		return ""
	}
	seen[fn] = true
	for _, b := range fn.Blocks {
		for _, in := range b.Instrs {
			if fa, ok := in.(*ssa.FieldAddr); ok {
				if n := an.NamedOf(fa.X.Type()); n != nil {
					switch n.Obj().Name() {
					case "SwapService", "SwapStateMachine", "SwapData":
						name := an.FieldName(fa.X.Type(), fa.Field)
						if strings.HasSuffix(name, "Mutex") || strings.HasSuffix(name, ".mutex") || strings.HasSuffix(name, ".swapServices") {
							continue
						}
						return name
					}
				}
			}
		}
	}
	for _, ci := range an.Calls(fn) {
		if g := ci.Common().StaticCallee(); g != nil && x.w.InModule(g) {
			if f := x.touchesState(g, depth+1, seen); f != "" {
				return f
			}
		}
	}
	return ""
}

func c09IsPhi(v ssa.Value) bool {
	_, ok := v.(*ssa.Phi)
	return ok
}

func c09TermOf(w *an.World, v ssa.Value) string {
	if v == nil {
		return "?"
	}
	return w.Term(v)
}

func (x *c09Ctx) path(fr *c09Frame) string {
	var p []string
	for f := fr; f != nil; f = f.parent {
		p = append([]string{x.fname(f.fn)}, p...)
	}
	return strings.Join(p, " -> ")
}

// markR5 adds callee and its static in-module callees (not SendEvent/Recover) to the R5 scan set.
func (x *c09Ctx) markR5(fn *ssa.Function, depth int) {
	if fn == nil || x.visitedR5[fn] || fn == x.sendEvent || fn == x.recoverFn || fn.Blocks == nil || depth > 6 {
		return
	}
	x.visitedR5[fn] = true
	for _, ci := range an.Calls(fn) {
		if _, isGo := ci.(*ssa.Go); isGo {
			continue
		}
		if g := ci.Common().StaticCallee(); g != nil && x.w.InModule(g) {
			x.markR5(g, depth+1)
		}
	}
	for _, a := range fn.AnonFuncs {
		x.markR5(a, depth+1)
	}
}

// ---- R3 -----------------------------------------------------------------------------

type c09Test struct {
	may  an.Edge // taken when the id may be known
	not  an.Edge // the other edge of the same branch
	desc string
}

// idLike: 1 = v is the stringified id of the request (a *SwapId parameter or a
// *SwapId field of a message / of the machine built from it), 0 = definitely
// something else, -1 = cannot tell.
func (x *c09Ctx) idLike(v ssa.Value) int {
	v = c09Strip(v)
	if x.isPtrTo(v.Type(), x.tId) {
		switch y := v.(type) {
		case *ssa.Parameter:
			return 1
		case *ssa.UnOp:
			if _, ok := y.X.(*ssa.FieldAddr); ok && y.Op == token.MUL {
				return 1
			}
		case *ssa.Phi:
			return -1
		}
		return 0
	}
	call, ok := v.(*ssa.Call)
	if !ok {
		if _, isPhi := v.(*ssa.Phi); isPhi {
			return -1
		}
		if _, isP := v.(*ssa.Parameter); isP {
			return -1
		}
		return 0
	}
	if call.Common().StaticCallee() != x.idString || len(call.Call.Args) != 1 {
		return 0
	}
	r := c09Strip(call.Call.Args[0])
	switch y := r.(type) {
	case *ssa.Parameter:
		if x.isPtrTo(y.Type(), x.tId) {
			return 1
		}
	case *ssa.UnOp:
		if y.Op == token.MUL {
			if _, ok := y.X.(*ssa.FieldAddr); ok && x.isPtrTo(y.Type(), x.tId) {
				return 1
			}
		}
	case *ssa.Phi:
		return -1
	}
	return 0
}

func c09IsGlobalLoad(v ssa.Value, g *ssa.Global) bool {
	u, ok := c09Strip(v).(*ssa.UnOp)
	return ok && g != nil && u.Op == token.MUL && u.X == ssa.Value(g)
}

// testsOf lists the branches that test the result of an existence oracle call
// of the given kind ("store" / "live") in fn whose key satisfies keyOK.
// c09Unk is something testsOf could not judge, with the block it sits in.
type c09Unk struct {
	msg string
	blk *ssa.BasicBlock
}

func (x *c09Ctx) testsOf(fn *ssa.Function, kind string, keyOK func(ssa.Value) int) (tests []c09Test, unknown []c09Unk) {
	w := x.w
	sentinel := x.errNoData
	if kind == "live" {
		sentinel = x.errNoSwap
	}
	addCond := func(cond ssa.Value, trueMeansMay bool, desc string) {
		x.condVals[kind][cond] = trueMeansMay
		for _, ce := range an.CondUses(cond) {
			if trueMeansMay {
				tests = append(tests, c09Test{may: ce.True, not: ce.False, desc: desc})
			} else {
				tests = append(tests, c09Test{may: ce.False, not: ce.True, desc: desc})
			}
		}
	}
	fromErr := func(ev ssa.Value, name string) {
		if ev.Referrers() == nil {
			return
		}
		for _, r := range *ev.Referrers() {
			switch y := r.(type) {
			case *ssa.BinOp:
				if y.Op != token.EQL && y.Op != token.NEQ {
					continue
				}
				other := y.Y
				if other == ev {
					other = y.X
				}
				switch {
				case an.IsNilConst(other): // err == nil  <=> known
					addCond(y, y.Op == token.EQL, name+" error is nil")
				case c09IsGlobalLoad(other, sentinel): // err == sentinel <=> unknown id
					addCond(y, y.Op == token.NEQ, name+" error is not "+sentinel.Name())
				}
			case *ssa.Call:
				if w.Info(y).Name == "func:errors.Is" && len(y.Call.Args) == 2 && c09Strip(y.Call.Args[0]) == ev && c09IsGlobalLoad(y.Call.Args[1], sentinel) {
					x.condVals[kind][y] = false
					te, fe := an.BoolEdges(y)
					for i := range te {
						if i < len(fe) {
							tests = append(tests, c09Test{may: fe[i], not: te[i], desc: name + " error is not " + sentinel.Name()})
						}
					}
				}
			case *ssa.MakeInterface, *ssa.ChangeInterface:
				// errors.Is(err, …) takes the error directly; nothing to follow
			}
		}
	}
	fromPtr := func(pv ssa.Value, name string) {
		if pv.Referrers() == nil {
			return
		}
		for _, r := range *pv.Referrers() {
			if y, ok := r.(*ssa.BinOp); ok && (y.Op == token.EQL || y.Op == token.NEQ) && (an.IsNilConst(y.X) || an.IsNilConst(y.Y)) {
				addCond(y, y.Op == token.NEQ, name+" result is non-nil")
			}
		}
	}
	for _, b := range fn.Blocks {
		for _, in := range b.Instrs {
			switch k := in.(type) {
			case *ssa.Call:
				ci := w.Info(k)
				var key ssa.Value
				name := ""
				switch {
				case kind == "store" && ci.Name == c09StoreGet && len(k.Call.Args) == 1:
					key, name = k.Call.Args[0], "Store.GetData"
				case kind == "store" && ci.Static != nil:
					if ki, ok := x.storeWrappers[ci.Static]; ok && ki < len(k.Call.Args) {
						key, name = k.Call.Args[ki], x.fname(ci.Static)
					}
				case kind == "live" && ci.Static != nil:
					if ki, ok := x.lookupFns[ci.Static]; ok && ki < len(k.Call.Args) {
						key, name = k.Call.Args[ki], x.fname(ci.Static)
					}
				}
				if key == nil && ci.Static != nil {
					if pr := x.existPred(ci.Static, kind); pr.ok && pr.pi < len(k.Call.Args) {
						switch keyOK(k.Call.Args[pr.pi]) {
						case 1:
							for _, bv := range an.ResultValues(k, pr.bi) {
								addCond(bv, pr.may, x.fname(ci.Static)+" says the id may be known")
							}
						case -1:
							unknown = append(unknown, c09Unk{x.fname(ci.Static) + " at " + w.Pos(k.Pos()) + ": cannot tell whether the argument is the requested id", b})
						}
						continue
					}
				}
				if key == nil {
					// a helper that hides an oracle: cannot be judged
					if ci.Static != nil && w.InModule(ci.Static) && ci.Static != x.lockSwap && ci.Static != x.sendEvent && ci.Static != x.recoverFn && !x.isOracle(ci.Static) && !x.reachesSend(ci.Static) {
						if x.hidesOracle(ci.Static, kind) {
							unknown = append(unknown, c09Unk{"call of " + x.fname(ci.Static) + " at " + w.Pos(k.Pos()) + " consults the " + kind + " oracle internally (unsupported helper shape)", b})
						}
					}
					continue
				}
				switch keyOK(key) {
				case 0:
					continue
				case -1:
					unknown = append(unknown, c09Unk{name + " at " + w.Pos(k.Pos()) + ": cannot tell whether the key is the requested id (" + w.Term(key) + ")", b})
					continue
				}
				t0, c0 := len(tests), len(x.condVals[kind])
				if ei := an.ErrResultIndex(k); ei >= 0 {
					for _, ev := range an.ResultValues(k, ei) {
						fromErr(ev, name)
					}
				}
				for _, pv := range an.ResultValues(k, 0) {
					if _, isPtr := pv.Type().(*types.Pointer); isPtr {
						fromPtr(pv, name)
					}
				}
				if len(tests) == t0 && len(x.condVals[kind]) == c0 {
					// the answer of the oracle is used, but not in a way that is understood
					used := false
					if k.Referrers() != nil {
						for _, r := range *k.Referrers() {
							if ex, isEx := r.(*ssa.Extract); isEx {
								if ex.Referrers() != nil && len(*ex.Referrers()) > 0 {
									used = true
								}
							} else if _, isDbg := r.(*ssa.DebugRef); !isDbg {
								used = true
							}
						}
					}
					if used {
						unknown = append(unknown, c09Unk{"the answer of " + name + " at " + w.Pos(k.Pos()) + " is used in a way that is not understood (no nil / sentinel / errors.Is test found)", b})
					}
				}
			case *ssa.Lookup:
				if kind != "live" || !c09IsActiveMap(k.X) {
					continue
				}
				switch keyOK(k.Index) {
				case 0:
					continue
				case -1:
					unknown = append(unknown, c09Unk{"activeSwaps lookup at " + w.Pos(k.Pos()) + ": cannot tell whether the key is the requested id", b})
					continue
				}
				if !k.CommaOk {
					fromPtr(k, "activeSwaps[id]")
					continue
				}
				if k.Referrers() == nil {
					continue
				}
				for _, r := range *k.Referrers() {
					ex, ok := r.(*ssa.Extract)
					if !ok {
						continue
					}
					if ex.Index == 1 {
						x.condVals[kind][ex] = true
						te, fe := an.BoolEdges(ex)
						for i := range te {
							if i < len(fe) {
								tests = append(tests, c09Test{may: te[i], not: fe[i], desc: "activeSwaps[id] is present"})
							}
						}
					} else {
						fromPtr(ex, "activeSwaps[id]")
					}
				}
			}
		}
	}
	return
}

// existPred recognises a boolean existence predicate: a module function with one
// id parameter (*SwapId, else one string) and a bool result that is computed
// from tests of the kind's oracle keyed by that parameter, such that the result
// says "may be known" (or its negation) on every return.
func (x *c09Ctx) existPred(g *ssa.Function, kind string) *c09Pred {
	if pr, done := x.preds[kind][g]; done {
		return pr
	}
	pr := &c09Pred{pi: -1, bi: -1}
	x.preds[kind][g] = pr // also stops recursion
	if g == nil || !x.w.InModule(g) || g.Blocks == nil || g == x.lockSwap || g == x.sendEvent || g == x.recoverFn {
		return pr
	}
	if _, isL := x.lookupFns[g]; isL {
		return pr
	}
	res := g.Signature.Results()
	for i := 0; i < res.Len(); i++ {
		if b, ok := res.At(i).Type().(*types.Basic); ok && b.Kind() == types.Bool && pr.bi < 0 {
			pr.bi = i
		}
	}
	nId, nStr, idI, strI := 0, 0, -1, -1
	for i, p := range g.Params {
		if i == 0 && g.Signature.Recv() != nil {
			continue
		}
		if x.isPtrTo(p.Type(), x.tId) {
			nId++
			idI = i
		} else if b, ok := p.Type().(*types.Basic); ok && b.Kind() == types.String {
			nStr++
			strI = i
		}
	}
	switch {
	case nId == 1:
		pr.pi = idI
	case nId == 0 && nStr == 1:
		pr.pi = strI
	}
	if pr.bi < 0 || pr.pi < 0 {
		return pr
	}
	idp := g.Params[pr.pi]
	tests, _ := x.testsOf(g, kind, func(v ssa.Value) int {
		if o, ok := x.origin(v); ok && o.Root == ssa.Value(idp) && o.Chain == "" {
			return 1
		}
		return 0
	})
	conds := x.condVals[kind]
	type item struct {
		v   ssa.Value
		blk *ssa.BasicBlock
	}
	var items []item
	var expand func(v ssa.Value, blk *ssa.BasicBlock, depth int)
	expand = func(v ssa.Value, blk *ssa.BasicBlock, depth int) {
		if ph, ok := v.(*ssa.Phi); ok && depth < 4 {
			for i, e := range ph.Edges {
				expand(e, ph.Block().Preds[i], depth+1)
			}
			return
		}
		items = append(items, item{v, blk})
	}
	for _, r := range an.Returns(g) {
		if pr.bi >= len(r.Results) {
			return pr
		}
		expand(r.Results[pr.bi], r.Block(), 0)
	}
	covered := func(blk *ssa.BasicBlock) bool {
		for _, t := range tests {
			if c09Covers(t, blk) {
				return true
			}
		}
		return false
	}
	mayOK, freeOK, n := true, true, 0
	for _, it := range items {
		v, neg := it.v, false
		for {
			u, isNot := v.(*ssa.UnOp)
			if !isNot || u.Op != token.NOT {
				break
			}
			neg = !neg
			v = u.X
		}
		if tm, ok := conds[v]; ok {
			n++
			if tm != neg { // true means may
				freeOK = false
			} else {
				mayOK = false
			}
			continue
		}
		cst, isC := v.(*ssa.Const)
		if !isC || cst.Value == nil {
			return pr
		}
		val := (cst.Value.String() == "true") != neg
		// a constant answer "not known" must lie behind the not-known edge of a test
		if val {
			if !covered(it.blk) {
				freeOK = false
			}
		} else if !covered(it.blk) {
			mayOK = false
		}
		if covered(it.blk) {
			n++
		}
	}
	switch {
	case n == 0:
	case mayOK:
		pr.ok, pr.may = true, true
	case freeOK:
		pr.ok, pr.may = true, false
	}
	return pr
}

func (x *c09Ctx) isOracle(g *ssa.Function) bool {
	_, ok := x.oracles[g]
	return ok || g == x.senderOracle
}

func (x *c09Ctx) hidesOracle(g *ssa.Function, kind string) bool {
	if _, ok := x.storeWrappers[g]; ok {
		return false
	}
	if _, ok := x.lookupFns[g]; ok {
		return false
	}
	check := func(f *ssa.Function) bool {
		for _, b := range f.Blocks {
			for _, in := range b.Instrs {
				if lk, ok := in.(*ssa.Lookup); ok && kind == "live" && c09IsActiveMap(lk.X) {
					return true
				}
			}
		}
		return false
	}
	if check(g) {
		return true
	}
	for _, e := range x.w.Summary(g).Effects {
		if kind == "store" && e.Name == c09StoreGet {
			return true
		}
		if kind == "live" && e.Info.Static != nil {
			if _, ok := x.lookupFns[e.Info.Static]; ok {
				return true
			}
		}
	}
	return false
}

// covers: test t makes block target unreachable when the id may be known, and
// lies on every path to target.
func c09Covers(t c09Test, target *ssa.BasicBlock) bool {
	if an.ReachBlocks([]*ssa.BasicBlock{t.may.To()}, nil, nil)[target] {
		return false
	}
	return an.EdgeDominates(t.not, target)
}

// c09RetErrValue returns the value of the (last) error result of r, looking
// through a named result that was spilled to a local because of a defer.
func c09RetErrValue(r *ssa.Return) ssa.Value {
	for i := len(r.Results) - 1; i >= 0; i-- {
		v := r.Results[i]
		if !an.IsErrorType(v.Type()) {
			continue
		}
		if u, ok := v.(*ssa.UnOp); ok && u.Op == token.MUL {
			if al, ok := u.X.(*ssa.Alloc); ok {
				var last ssa.Value
				for _, in := range r.Block().Instrs {
					if s, ok := in.(*ssa.Store); ok && s.Addr == ssa.Value(al) {
						last = s.Val
					}
				}
				return last
			}
		}
		return v
	}
	return nil
}

// lockInternal: lockSwap itself refuses an id of the given kind before inserting.
func (x *c09Ctx) lockInternal(kind string) (bool, string) {
	fn := x.lockSwap
	idp := fn.Params[x.lockIdIdx]
	tests, _ := x.testsOf(fn, kind, func(v ssa.Value) int {
		if c09Strip(v) == ssa.Value(idp) {
			return 1
		}
		return 0
	})
	if len(tests) == 0 {
		return false, "no test"
	}
	var inserts []*ssa.BasicBlock
	for _, b := range fn.Blocks {
		for _, in := range b.Instrs {
			if mu, ok := in.(*ssa.MapUpdate); ok && c09IsActiveMap(mu.Map) {
				inserts = append(inserts, b)
			}
		}
	}
	for _, t := range tests {
		ok := true
		for _, b := range inserts {
			if !c09Covers(t, b) {
				ok = false
			}
		}
		if !ok {
			continue
		}
		// the may-exist edge must report an error
		reach := an.ReachBlocks([]*ssa.BasicBlock{t.may.To()}, nil, nil)
		for _, r := range an.Returns(fn) {
			if reach[r.Block()] && x.retErr(r) != "nonnil" {
				ok = false
			}
		}
		if ok {
			return true, t.desc
		}
	}
	return false, "a test exists but its may-exist edge reaches the insert or returns nil"
}

func (x *c09Ctx) ruleR3() {
	c, w := x.c, x.w
	var hs []*ssa.Function
	for fn := range x.creators {
		hs = append(hs, fn)
	}
	sort.Slice(hs, func(i, j int) bool { return w.FuncName(hs[i]) < w.FuncName(hs[j]) })
	if !c.AtLeast("C09.R3", "functions below OnMessageReceived that lock a new swap in (request handlers)", len(hs), 2) {
		return
	}
	inLock := map[string]bool{}
	inLockWhy := map[string]string{}
	for _, kind := range []string{"store", "live"} {
		inLock[kind], inLockWhy[kind] = x.lockInternal(kind)
	}
	c.Note("C09.R3", "lockSwap insert", w.Pos(x.lockSwap.Pos()), fmt.Sprintf("activeSwaps[id] = machine is preceded inside lockSwap by a not-present test: live=%v (%s), store=%v (%s)", inLock["live"], inLockWhy["live"], inLock["store"], inLockWhy["store"]))
	for _, h := range hs {
		fr := x.creators[h]
		// the effects that create, lock or persist
		var effects []ssa.CallInstruction
		var locks []*ssa.Call
		for _, ci := range an.Calls(h) {
			g := ci.Common().StaticCallee()
			if g == nil {
				continue
			}
			_, isL := x.lockers[g]
			if isL || g == x.sendEvent || g == x.recoverFn || (w.InModule(g) && g.Blocks != nil && (x.reachesLock(g) || x.reachesSend(g))) {
				effects = append(effects, ci)
				if k, ok := ci.(*ssa.Call); ok && isL {
					locks = append(locks, k)
				}
			}
		}
		for _, kind := range []string{"store", "live"} {
			cons := x.fname(h) + " refuses a known id: " + map[string]string{"store": "persistent store", "live": "live map"}[kind]
			var unknown []string
			var seenTests []string
			uncovered := []string{}
			type c09Cand struct {
				f *c09Frame
				t c09Test
			}
			lockCands := map[ssa.CallInstruction][]c09Cand{}
			for _, e := range effects {
				cov := false
				// a test in the handler or in one of the frames above it
				at := e.Block()
				for f := fr; f != nil && !cov; f = f.parent {
					tests, unk := x.testsOf(f.fn, kind, x.idLike)
					for _, u := range unk {
						// only what can run before the effect matters
						if u.blk == at || an.ReachBlocks([]*ssa.BasicBlock{u.blk}, nil, nil)[at] {
							unknown = append(unknown, u.msg)
						}
					}
					for _, t := range tests {
						if t.may.From == at || an.ReachBlocks([]*ssa.BasicBlock{t.may.From}, nil, nil)[at] {
							seenTests = append(seenTests, x.fname(f.fn)+": "+t.desc)
						}
						if c09Covers(t, at) {
							cov = true
							if _, isL := x.lockers[e.Common().StaticCallee()]; isL {
								lockCands[e] = append(lockCands[e], c09Cand{f, t})
							}
						}
					}
					if f.site != nil {
						at = f.site.Block()
					}
				}
				// or inside lockSwap: then the effect must be the lockSwap call or lie behind its success edge
				if !cov && inLock[kind] {
					if _, isL := x.lockers[e.Common().StaticCallee()]; isL {
						cov = true
					}
					for _, l := range locks {
						okE, _ := an.OkEdges(l)
						for _, oe := range okE {
							if an.EdgeDominates(oe, e.Block()) {
								cov = true
							}
						}
					}
				}
				if !cov {
					uncovered = append(uncovered, fmt.Sprintf("%s at %s", strings.TrimPrefix(w.Info(e).Name, "func:"), w.Pos(e.Pos())))
				}
			}
			// adjacency: nothing that leaves the process (a service call that may take
			// seconds) between the passing edge of the existence test and the lock-in,
			// otherwise a swap with this id can be created and finished in between
			for _, lk := range locks {
				consA := x.fname(h) + " existence test adjacent to lock-in: " + map[string]string{"store": "persistent store", "live": "live map"}[kind]
				posA := w.Pos(lk.Pos())
				cands := lockCands[lk]
				if len(cands) == 0 {
					if inLock[kind] {
						c.OK("C09.R3", consA, posA, "the test is made inside lockSwap, under the lock of the insert")
					}
					continue // uncovered: reported above
				}
				best, bestUnsure := []string(nil), []string(nil)
				clean := false
				for i, cd := range cands {
					imp, uns := x.between(fr, cd.f, cd.t, lk)
					if len(imp) == 0 && len(uns) == 0 {
						clean = true
						break
					}
					if i == 0 || len(imp) < len(best) {
						best, bestUnsure = imp, uns
					}
				}
				switch {
				case clean:
					c.OK("C09.R3", consA, posA, "no service call between the passing edge of the test and the lock-in")
				case inLock[kind]:
					c.OK("C09.R3", consA, posA, "the test is repeated inside lockSwap, under the lock of the insert")
				case len(best) > 0:
					c.Bad("C09.R3", consA, posA, "between the passing edge of the existence test and the lock-in the handler calls out of the process: "+strings.Join(best, "; ")+". History: request A with id X passes the test and waits in that call (probe payment, balance query: seconds); meanwhile a swap with id X is created and finishes (lockSwap only consults the live map, where it is no longer present); A then locks in and its first UpdateData overwrites the finished swap's record and keys")
				default:
					c.Unknown("C09.R3", consA, posA, "between the existence test and the lock-in there are calls whose effects are not known: "+strings.Join(bestUnsure, "; "))
				}
			}
			pos := w.Pos(h.Pos())
			switch {
			case len(effects) == 0:
				c.Unknown("C09.R3", cons, pos, "no lockSwap/SendEvent effect found in a function that was classified as request handler")
			case len(uncovered) == 0:
				c.OK("C09.R3", cons, pos, "every lockSwap/SendEvent lies behind the not-known edge of an existence test keyed by the requested id")
			case len(unknown) > 0:
				c.Unknown("C09.R3", cons, pos, strings.Join(c09Uniq(unknown), "; "))
			default:
				why := "there is no test of the " + kind + " oracle keyed by the requested id"
				if len(seenTests) > 0 {
					why = "the tests found (" + strings.Join(c09Uniq(seenTests), "; ") + ") do not lie on every path or their may-exist edge continues"
				}
				hist := "a peer sends a request that reuses the id of a swap that is finished or not yet recovered (only in the store): SendEvent's first UpdateData is update-or-create and overwrites the stored record, keys and state"
				if kind == "live" {
					hist = "a peer sends a request that reuses the id of a live swap on another channel: lockSwap's map assignment replaces the running machine, which is then unreachable for its own counterparty, and the record is overwritten"
				}
				c.Bad("C09.R3", cons, pos, why+"; not covered: "+strings.Join(uncovered, ", ")+". History: "+hist)
			}
		}
	}
}

// between lists the calls that leave the process (impure) and the calls whose
// effects are not known (unsure) on the paths from the not-known edge of test t
// (in frame tf) to the lock-in call lk (in frame hf, tf being hf or a frame above it).
func (x *c09Ctx) between(hf, tf *c09Frame, t c09Test, lk ssa.CallInstruction) (impure, unsure []string) {
	w := x.w
	seg := func(fn *ssa.Function, start *ssa.BasicBlock, target ssa.Instruction) {
		tb := target.Block()
		fromStart := an.ReachBlocks([]*ssa.BasicBlock{start}, nil, nil)
		for _, b := range fn.Blocks {
			if !fromStart[b] {
				continue
			}
			if b != tb && !an.ReachBlocks([]*ssa.BasicBlock{b}, nil, nil)[tb] {
				continue
			}
			for i, in := range b.Instrs {
				if b == tb && i >= an.InstrIndex(target) {
					break
				}
				ci, ok := in.(ssa.CallInstruction)
				if !ok {
					continue
				}
				info := w.Info(ci)
				at := " at " + w.Pos(ci.Pos())
				switch {
				case isImpureServiceCall(info.Name):
					impure = append(impure, strings.TrimPrefix(info.Name, "iface:")+at)
				case info.IsGo:
					unsure = append(unsure, "goroutine started"+at)
				case info.Static != nil && w.InModule(info.Static):
					if info.Static.Blocks == nil {
						unsure = append(unsure, x.fname(info.Static)+" (no body)"+at)
						continue
					}
					for _, ef := range w.Summary(info.Static).Effects {
						if isImpureServiceCall(ef.Name) {
							impure = append(impure, strings.TrimPrefix(ef.Name, "iface:")+" (via "+x.fname(info.Static)+")"+at)
							break
						}
						if strings.HasPrefix(ef.Name, "dyn:") || strings.HasPrefix(ef.Name, "go:") {
							unsure = append(unsure, x.fname(info.Static)+" makes a dynamic call"+at)
							break
						}
					}
				case info.Static != nil || strings.HasPrefix(info.Name, "builtin:"):
					// library function: in-process computation
				case strings.HasPrefix(info.Name, "iface:swap.") || strings.HasPrefix(info.Name, "iface:"):
					if strings.HasPrefix(info.Name, "iface:error.") || strings.HasSuffix(info.Name, ".Error") || strings.HasSuffix(info.Name, ".String") {
						continue
					}
					unsure = append(unsure, strings.TrimPrefix(info.Name, "iface:")+" (interface call)"+at)
				default:
					unsure = append(unsure, info.Name+at)
				}
			}
		}
	}
	// chain of frames from the handler up to the frame of the test
	var chain []*c09Frame
	for f := hf; f != nil; f = f.parent {
		chain = append(chain, f)
		if f == tf {
			break
		}
	}
	for i, f := range chain {
		var target ssa.Instruction = lk
		if i > 0 {
			target = chain[i-1].site
		}
		if f == tf {
			seg(f.fn, t.not.To(), target)
		} else if len(f.fn.Blocks) > 0 {
			seg(f.fn, f.fn.Blocks[0], target)
		}
	}
	return c09Uniq(impure), c09Uniq(unsure)
}

func c09Uniq(in []string) []string {
	m := map[string]bool{}
	for _, s := range in {
		m[s] = true
	}
	return sortedKeys(m)
}

// ---- R4 -----------------------------------------------------------------------------

func (x *c09Ctx) ruleR4() {
	c, w := x.c, x.w
	sites := findCallSites(w, c09Apply)
	if !c.AtLeast("C09.R4", "ApplyToSwapData call sites", len(sites), 1) {
		return
	}
	// sanity of the acceptance oracle: getNextState looks its parameter up in an Events map
	evLookup := false
	for _, b := range x.getNext.Blocks {
		for _, in := range b.Instrs {
			if lk, ok := in.(*ssa.Lookup); ok {
				if n := an.NamedOf(lk.X.Type()); n != nil && n.Obj().Name() == "Events" {
					if _, ok := c09Strip(lk.Index).(*ssa.Parameter); ok && lk.CommaOk {
						evLookup = true
					}
				}
			}
		}
	}
	if !evLookup {
		c.Anchor("getNextState does not look its event parameter up in a swap.Events map")
		return
	}
	x.findAcceptFns()
	for _, site := range sites {
		fn := site.Parent()
		cons := x.fname(fn) + " ApplyToSwapData"
		pos := w.Pos(site.Pos())
		// the machine whose data is changed
		var machine ssa.Value
		if len(site.Common().Args) == 1 {
			if fa, ok := c09IsFieldLoad(site.Common().Args[0], "SwapStateMachine.Data"); ok {
				machine = c09Strip(fa.X)
			}
		}
		if machine == nil {
			c.Unknown("C09.R4", cons, pos, "the argument of ApplyToSwapData is not <machine>.Data")
			continue
		}
		verdict, how, seen := x.acceptedAt(fn, site.Block(), machine, 0)
		accepted := ""
		switch verdict {
		case "ok":
			accepted = how
		case "unknown":
			c.Unknown("C09.R4", cons, pos, how)
			continue
		}
		if accepted != "" {
			c.OK("C09.R4", cons, pos, "dominated by: "+accepted)
			continue
		}
		later := "no acceptability lookup for the delivered event exists in this function"
		if len(seen) > 0 {
			later = "the acceptability lookups (" + strings.Join(seen, ", ") + ") do not dominate it"
		}
		// is the change also persisted before the lookup?
		persisted := ""
		reach := an.ReachBlocks(site.Block().Succs, nil, nil)
		for _, u := range callsNamed(w, fn, c09StoreUpd) {
			if !reach[u.Block()] {
				continue
			}
			dom := false
			for _, ci := range an.Calls(fn) {
				if k, ok := ci.(*ssa.Call); ok && k.Common().StaticCallee() == x.getNext {
					okE, _ := an.OkEdges(k)
					for _, e := range okE {
						if an.EdgeDominates(e, u.Block()) {
							dom = true
						}
					}
				}
			}
			if !dom {
				persisted = " and persisted by Store.UpdateData at " + w.Pos(u.Pos())
			}
		}
		c.Bad("C09.R4", cons, pos, "the message is applied to the swap data"+persisted+" before the state machine decided whether the event is acceptable in the current state ("+later+"). History: the counterparty sends opening_tx_broadcasted (or coop_close / an agreement) while the swap is in a state that does not accept it; the event is rejected but the message content stays in SwapData and in the store, and the legitimate later message fails with AlreadyExistsError; a cancel message overwrites SwapData.Cancel in any state")
	}
}

// findAcceptFns: getNextState plus every method of the state machine with one
// EventType parameter all of whose success returns (true / nil error) lie behind
// the success edge of an acceptance function applied to (its receiver, its
// event parameter) — e.g. EventIsValid.
func (x *c09Ctx) findAcceptFns() {
	x.acceptFns = map[*ssa.Function]bool{x.getNext: true}
	for round := 0; round < 3; round++ {
		for _, g := range prodFuncs(x.w) {
			if x.acceptFns[g] || x.w.FnRel(g) != "swap" || g.Signature.Recv() == nil || len(g.Params) != 2 || !x.isPtrTo(g.Params[0].Type(), x.tSM) {
				continue
			}
			if n, ok := g.Params[1].Type().(*types.Named); !ok || n.Obj().Name() != "EventType" {
				continue
			}
			res := g.Signature.Results()
			bi, hasErr := -1, false
			for i := 0; i < res.Len(); i++ {
				if b, ok := res.At(i).Type().(*types.Basic); ok && b.Kind() == types.Bool && bi < 0 {
					bi = i
				}
				if an.IsErrorType(res.At(i).Type()) {
					hasErr = true
				}
			}
			if bi < 0 && !hasErr {
				continue
			}
			var pass []an.Edge
			for _, ci := range an.Calls(g) {
				k, ok := ci.(*ssa.Call)
				if !ok || !x.acceptFns[k.Common().StaticCallee()] || len(k.Call.Args) < 2 {
					continue
				}
				if c09Strip(k.Call.Args[0]) != ssa.Value(g.Params[0]) || c09Strip(k.Call.Args[1]) != ssa.Value(g.Params[1]) {
					continue
				}
				pass = append(pass, x.acceptEdges(k)...)
			}
			if len(pass) == 0 {
				continue
			}
			sound, good := true, 0
			for _, r := range an.Returns(g) {
				if bi >= 0 {
					if cst, isC := c09Strip(r.Results[bi]).(*ssa.Const); isC && cst.Value != nil && cst.Value.String() == "false" {
						continue
					}
				} else if x.retErr(r) == "nonnil" {
					continue
				}
				dom := false
				for _, e := range pass {
					if an.EdgeDominates(e, r.Block()) {
						dom = true
					}
				}
				if dom {
					good++
				} else {
					sound = false
				}
			}
			if sound && good > 0 {
				x.acceptFns[g] = true
			}
		}
	}
}

// acceptEdges: the edges on which acceptance call k succeeded.
func (x *c09Ctx) acceptEdges(k *ssa.Call) []an.Edge {
	res := k.Common().Signature().Results()
	for i := 0; i < res.Len(); i++ {
		if b, ok := res.At(i).Type().(*types.Basic); ok && b.Kind() == types.Bool {
			var out []an.Edge
			for _, rv := range an.ResultValues(k, i) {
				te, _ := an.BoolEdges(rv)
				out = append(out, te...)
			}
			return out
		}
	}
	okE, _ := an.OkEdges(k)
	return okE
}

// acceptedAt decides whether block at of fn executes only after the next-state
// lookup for the delivered event succeeded on machine. The event is fn's
// EventType parameter. When fn itself has no dominating lookup and the machine
// is one of its parameters (a wrapper around the apply), its production callers
// are examined at their call sites. Verdicts: "ok", "bad", "unknown".
func (x *c09Ctx) acceptedAt(fn *ssa.Function, at *ssa.BasicBlock, machine ssa.Value, depth int) (verdict, how string, seen []string) {
	w := x.w
	var evParam *ssa.Parameter
	nEv := 0
	for _, p := range fn.Params {
		if n, ok := p.Type().(*types.Named); ok && n.Obj().Name() == "EventType" {
			nEv++
			evParam = p
		}
	}
	if nEv != 1 {
		evParam = nil
	}
	unsure := ""
	if evParam != nil {
		isEv := func(v ssa.Value) bool {
			v = c09Strip(v)
			if v == ssa.Value(evParam) {
				return true
			}
			if ph, ok := v.(*ssa.Phi); ok {
				for _, e := range ph.Edges {
					if c09Strip(e) == ssa.Value(evParam) {
						return true
					}
				}
			}
			return false
		}
		for _, ci := range an.Calls(fn) {
			k, ok := ci.(*ssa.Call)
			if !ok {
				continue
			}
			g := k.Common().StaticCallee()
			if g == nil || len(k.Call.Args) < 2 || c09Strip(k.Call.Args[0]) != machine || !isEv(k.Call.Args[1]) {
				continue
			}
			if !x.acceptFns[g] {
				// something is asked about (machine, event) whose meaning is not known
				if x.w.InModule(g) && g != x.sendEvent && g != x.recoverFn {
					for _, e := range x.acceptEdges(k) {
						if an.EdgeDominates(e, at) {
							unsure = x.fname(g) + " at " + w.Pos(k.Pos()) + " is asked about the machine and the event before the context is applied, but it could not be verified to be the next-state lookup"
						}
					}
				}
				continue
			}
			okEdges := x.acceptEdges(k)
			seen = append(seen, g.Name()+" at "+w.Pos(k.Pos()))
			for _, e := range okEdges {
				if an.EdgeDominates(e, at) {
					return "ok", g.Name() + " succeeded (in " + x.fname(fn) + ")", seen
				}
			}
		}
	}
	// lift to the callers when the machine is handed in
	mp, isP := machine.(*ssa.Parameter)
	if unsure != "" {
		return "unknown", unsure, seen
	}
	if !isP || mp.Parent() != fn || depth >= 3 {
		if evParam != nil {
			return "bad", "", seen
		}
		return "unknown", x.fname(fn) + " has no single EventType parameter and the machine is not one of its parameters", seen
	}
	mi := c09ParamIndex(mp)
	n := 0
	allOK := true
	unk := ""
	for _, caller := range prodFuncs(w) {
		for _, ci := range an.Calls(caller) {
			if ci.Common().StaticCallee() != fn {
				continue
			}
			if _, isGo := ci.(*ssa.Go); isGo || mi >= len(ci.Common().Args) {
				allOK, unk = false, "called asynchronously from "+x.fname(caller)
				continue
			}
			n++
			v, h, sn := x.acceptedAt(caller, ci.Block(), c09Strip(ci.Common().Args[mi]), depth+1)
			seen = append(seen, sn...)
			switch v {
			case "ok":
				how = h
			case "unknown":
				allOK = false
				if unk == "" {
					unk = h
				}
			default:
				allOK = false
			}
		}
	}
	switch {
	case n > 0 && allOK:
		return "ok", how + ", at every call of " + x.fname(fn), seen
	case evParam != nil:
		// this function knows the event and the machine and does not ask; neither do all its callers
		return "bad", "", seen
	case n == 0:
		return "unknown", x.fname(fn) + " has no EventType parameter and no static production caller", seen
	case unk != "":
		return "unknown", unk, seen
	}
	return "bad", "", seen
}

// ---- R7: eviction only by the owner -------------------------------------------------

type c09Removal struct {
	fn  *ssa.Function
	ci  ssa.CallInstruction
	key ssa.Value
}

// idArgOf: the id argument of a locker call (only lockSwap itself has a known id position).
func (x *c09Ctx) lockIdArg(l *ssa.Call) ssa.Value {
	if l.Common().StaticCallee() == x.lockSwap && x.lockIdIdx < len(l.Call.Args) {
		return l.Call.Args[x.lockIdIdx]
	}
	return nil
}

// justified decides whether removing the entry with key origin o (in terms of
// fn's values) at block at is justified. doneArg, when non-nil, is a value of fn
// that carries the done flag handed to a helper. Verdicts "ok", "bad", "unknown".
func (x *c09Ctx) justified(fn *ssa.Function, at *ssa.BasicBlock, o c09Org, doneArg ssa.Value, depth int) (verdict, why string, weight int) {
	w := x.w
	fr := &c09Frame{fn: fn}
	machineOf := func(o c09Org) ssa.Value {
		if o.Str && o.Chain == "SwapStateMachine.SwapId" {
			return c09Strip(o.Root)
		}
		return nil
	}
	relatesToMachine := func(m ssa.Value) bool {
		m = c09Strip(m)
		if mo := machineOf(o); mo != nil && mo == m {
			return true
		}
		if ko, _, ok := x.machineKey(fr, m); ok && ko.same(o) {
			return true
		}
		return false
	}
	type just struct {
		what    string
		relates bool
	}
	var js []just
	// (b) done == true of SendEvent/Recover
	for _, ci := range an.Calls(fn) {
		k, ok := ci.(*ssa.Call)
		if !ok {
			continue
		}
		g := k.Common().StaticCallee()
		if g != x.sendEvent && g != x.recoverFn {
			continue
		}
		dom := false
		for _, dv := range an.ResultValues(k, 0) {
			if doneArg != nil && c09Strip(doneArg) == dv {
				dom = true // the flag itself is handed to the helper that tests it
			}
			te, _ := an.BoolEdges(dv)
			for _, e := range te {
				if an.EdgeDominates(e, at) {
					dom = true
				}
			}
		}
		if dom {
			js = append(js, just{g.Name() + " returned done at " + w.Pos(k.Pos()), relatesToMachine(k.Call.Args[0])})
		}
	}
	// (a) behind the success edge of this function's own lock-in
	for _, ci := range an.Calls(fn) {
		l, ok := ci.(*ssa.Call)
		if !ok {
			continue
		}
		mi, isL := x.lockers[l.Common().StaticCallee()]
		if !isL || mi >= len(l.Call.Args) {
			continue
		}
		okE, _ := an.OkEdges(l)
		dom := false
		for _, e := range okE {
			if an.EdgeDominates(e, at) {
				dom = true
			}
		}
		if !dom {
			continue
		}
		rel := relatesToMachine(l.Call.Args[mi])
		if ida := x.lockIdArg(l); ida != nil && !rel {
			if io, ok := x.origin(ida); ok && io.same(o) {
				rel = true
			}
		}
		if !rel {
			// the machine was built from this very id
			if cc, isCall := c09Strip(l.Call.Args[mi]).(*ssa.Call); isCall {
				for _, a := range cc.Call.Args {
					if ao, ok := x.origin(a); ok && ao.Root == o.Root && ao.Chain == o.Chain {
						rel = true
					}
				}
			}
		}
		js = append(js, just{"lock-in succeeded at " + w.Pos(l.Pos()), rel})
	}
	for _, j := range js {
		if j.relates {
			return "ok", j.what, 1
		}
	}
	if len(js) > 0 {
		return "unknown", "the removal lies behind " + js[0].what + ", but the removed id could not be related to that machine", 1
	}
	// nothing in this function justifies it: do the callers?
	var keyParam *ssa.Parameter
	if p, ok := c09Strip(o.Root).(*ssa.Parameter); ok && p.Parent() == fn {
		keyParam = p
	}
	var doneParam *ssa.Parameter
	for _, p := range fn.Params {
		if b, isB := p.Type().(*types.Basic); !isB || b.Kind() != types.Bool {
			continue
		}
		te, _ := an.BoolEdges(p)
		for _, e := range te {
			if an.EdgeDominates(e, at) {
				doneParam = p
			}
		}
	}
	// a function that locks a swap in or delivers events itself is the place
	// where the justification has to be: its callers cannot supply it
	own := ""
	for _, ci := range an.Calls(fn) {
		g := ci.Common().StaticCallee()
		if _, isL := x.lockers[g]; isL {
			own = "the lock-in at " + w.Pos(ci.Pos())
		} else if (g == x.sendEvent || g == x.recoverFn) && own == "" {
			own = g.Name() + " at " + w.Pos(ci.Pos())
		}
	}
	if own != "" {
		return "bad", "in " + x.fname(fn) + " it lies on a path that is neither behind the success edge of " + own + " nor behind a done == true result of SendEvent/Recover (e.g. a refusal before the lock-in succeeded)", 1
	}
	if keyParam == nil || depth >= 3 {
		if depth >= 3 {
			return "unknown", "call depth limit reached while following the removed id to the callers", 1
		}
		return "bad", "in " + x.fname(fn) + " neither a done == true result of SendEvent/Recover nor the success edge of a lock-in dominates it", 1
	}
	n := 0
	for _, caller := range prodFuncs(w) {
		for _, ci := range an.Calls(caller) {
			if ci.Common().StaticCallee() != fn {
				continue
			}
			if _, isGo := ci.(*ssa.Go); isGo {
				return "unknown", x.fname(fn) + " is started as a goroutine in " + x.fname(caller), 1
			}
			n++
			cf := &c09Frame{fn: caller}
			child := x.enter(cf, ci, fn)
			co, ok := child.bind[keyParam]
			if !ok {
				return "unknown", "cannot trace the removed id through the call of " + x.fname(fn) + " in " + x.fname(caller) + " (" + w.Pos(ci.Pos()) + ")", n
			}
			full := c09Org{Root: co.Root, Chain: c09Join(co.Chain, o.Chain), Str: co.Str || o.Str}
			var da ssa.Value
			if doneParam != nil {
				if i := c09ParamIndex(doneParam); i < len(ci.Common().Args) {
					da = ci.Common().Args[i]
				}
			}
			v, why, _ := x.justified(caller, ci.Block(), full, da, depth+1)
			if v != "ok" {
				return v, why + "; reached through " + x.fname(fn) + " called at " + w.Pos(ci.Pos()), n
			}
		}
	}
	if n == 0 {
		return "none", "", 1
	}
	return "ok", "justified at every call of " + x.fname(fn), n
}

func (x *c09Ctx) ruleR7() {
	c, w := x.c, x.w
	// functions that delete activeSwaps[parameter]
	rel := map[*ssa.Function]int{}
	var sites []c09Removal
	for _, fn := range prodFuncs(w) {
		for _, ci := range an.Calls(fn) {
			if w.Info(ci).Name != "builtin:delete" || len(ci.Common().Args) != 2 || !c09IsActiveMap(ci.Common().Args[0]) {
				continue
			}
			if p, ok := c09Strip(ci.Common().Args[1]).(*ssa.Parameter); ok && p.Parent() == fn {
				rel[fn] = c09ParamIndex(p)
			} else {
				sites = append(sites, c09Removal{fn, ci, ci.Common().Args[1]})
			}
		}
	}
	if !c.AtLeast("C09.R7", "functions that delete an activeSwaps entry", len(rel)+len(sites), 1) {
		return
	}
	for _, fn := range prodFuncs(w) {
		for _, ci := range an.Calls(fn) {
			if ki, ok := rel[ci.Common().StaticCallee()]; ok && ki < len(ci.Common().Args) {
				if _, isGo := ci.(*ssa.Go); !isGo {
					sites = append(sites, c09Removal{fn, ci, ci.Common().Args[ki]})
				}
			}
		}
	}
	// liveness: a function nothing in production calls or takes the value of
	addrTaken := map[*ssa.Function]bool{}
	for _, fn := range prodFuncs(w) {
		for _, b := range fn.Blocks {
			for _, in := range b.Instrs {
				var static *ssa.Function
				if ci, ok := in.(ssa.CallInstruction); ok {
					static = ci.Common().StaticCallee()
				}
				for _, op := range in.Operands(nil) {
					if f, ok := (*op).(*ssa.Function); ok && f != static {
						addrTaken[f] = true
					}
				}
			}
		}
	}
	cg := w.CG()
	var live func(fn *ssa.Function, seen map[*ssa.Function]bool) bool
	live = func(fn *ssa.Function, seen map[*ssa.Function]bool) bool {
		if seen[fn] {
			return false
		}
		seen[fn] = true
		if addrTaken[fn] {
			return true
		}
		n := cg.Nodes[fn]
		if n == nil {
			return false
		}
		for _, e := range n.In {
			if e.Caller == nil || e.Caller.Func == nil {
				continue
			}
			cf := e.Caller.Func
			if cf.Synthetic != "" {
				if live(cf, seen) {
					return true
				}
				continue
			}
			if w.InModule(cf) && !an.IsTestSupport(w.FnRel(cf)) {
				return true
			}
		}
		return false
	}
	total := 0
	for _, st := range sites {
		fn := st.fn
		cons := x.fname(fn) + " removes an activeSwaps entry"
		pos := w.Pos(st.ci.Pos())
		o, ok := x.origin(st.key)
		if !ok {
			total++
			c.Unknown("C09.R7", cons, pos, "cannot trace the removed id ("+w.Term(st.key)+")")
			continue
		}
		v, why, wgt := x.justified(fn, st.ci.Block(), o, nil, 0)
		total += wgt
		handler := ""
		if x.visitedR5[fn] {
			handler = " (reachable from OnMessageReceived: a peer message gets here)"
		}
		switch v {
		case "ok":
			c.OK("C09.R7", cons, pos, why)
		case "unknown":
			c.Unknown("C09.R7", cons, pos, why)
		case "none":
			c.Note("C09.R7", cons+" (dead)", pos, "a removal helper without production callers")
		default:
			top := an.EnclosingTop(fn)
			if top == fn && !live(fn, map[*ssa.Function]bool{}) {
				c.Note("C09.R7", cons+" (dead)", pos, "unjustified removal in a function without production callers in the call graph: ignored while it stays unreachable ("+why+")")
				continue
			}
			c.Bad("C09.R7", cons, pos, "the entry for "+w.Term(st.key)+" is removed although "+why+handler+". History: a request (or any message handled here) that carries the id of a LIVE swap and is refused evicts that swap from the active map: it gets no more messages, payment notifications, chain callbacks or timeouts (GetActiveSwap fails) and its channel lock is gone, so a second swap can start on the channel")
		}
	}
	c.AtLeast("C09.R7", "removal sites examined (a helper counts once per call)", total, 6)
}

// ---- R5 -----------------------------------------------------------------------------

func (x *c09Ctx) ruleR5() {
	c, w := x.c, x.w
	var fns []*ssa.Function
	for fn := range x.visitedR5 {
		fns = append(fns, fn)
	}
	sort.Slice(fns, func(i, j int) bool { return w.FuncName(fns[i]) < w.FuncName(fns[j]) })
	if !c.AtLeast("C09.R5", "functions reachable from OnMessageReceived outside SendEvent", len(fns), 20) {
		return
	}
	for _, fn := range fns {
		bad := []string{}
		pos := w.Pos(fn.Pos())
		for _, b := range fn.Blocks {
			for _, in := range b.Instrs {
				switch y := in.(type) {
				case *ssa.Store:
					through, root := x.addrThrough(y.Addr)
					if through == "" {
						continue
					}
					if _, fresh := root.(*ssa.Alloc); fresh {
						continue
					}
					if par, isPar := root.(*ssa.Parameter); isPar && x.paramAlwaysFresh(fn, par) {
						// the object was allocated by the message handler that passes it in
						// (e.g. lockSwap recording the channel in the machine it locks in)
						continue
					}
					bad = append(bad, fmt.Sprintf("store to %s at %s", through, w.Pos(y.Pos())))
					pos = w.Pos(y.Pos())
				case ssa.CallInstruction:
					if w.Info(y).Name == c09StoreUpd {
						bad = append(bad, "Store.UpdateData at "+w.Pos(y.Pos()))
						pos = w.Pos(y.Pos())
					}
				}
			}
		}
		cons := x.fname(fn) + " writes"
		if an.IsTestSupport(w.FnRel(fn)) {
			continue
		}
		if len(bad) == 0 {
			c.OK("C09.R5", cons, pos, "no store into swap state outside SendEvent")
		} else {
			c.Bad("C09.R5", cons, pos, "a message handler changes swap state outside SendEvent, i.e. without the sender test / acceptability lookup applying to it: "+strings.Join(bad, "; "))
		}
	}
}

// addrThrough: the address is a field (possibly nested) of a SwapData or
// SwapStateMachine; returns the first such field and the root of the chain.
func (x *c09Ctx) addrThrough(a ssa.Value) (string, ssa.Value) {
	through := ""
	v := a
	for i := 0; i < 32; i++ {
		switch y := v.(type) {
		case *ssa.FieldAddr:
			if n := an.NamedOf(y.X.Type()); n != nil && through == "" && (n.Obj() == x.tData.Obj() || n.Obj() == x.tSM.Obj()) {
				through = an.FieldName(y.X.Type(), y.Field)
			}
			v = y.X
			continue
		case *ssa.IndexAddr:
			v = y.X
			continue
		case *ssa.UnOp:
			if y.Op == token.MUL {
				v = y.X
				continue
			}
		case *ssa.ChangeType:
			v = y.X
			continue
		case *ssa.Phi:
			// a pointer chosen among several: take the first non-fresh one
			for _, e := range y.Edges {
				if _, fresh := e.(*ssa.Alloc); !fresh {
					v = e
					break
				}
			}
			if v == ssa.Value(y) {
				return through, v
			}
			continue
		}
		break
	}
	return through, v
}

// paramAlwaysFresh: at every call site of fn inside the functions walked for R5
// the argument bound to par is the result of an in-module constructor, i.e. a
// call whose every returned value is a fresh allocation.
func (x *c09Ctx) paramAlwaysFresh(fn *ssa.Function, par *ssa.Parameter) bool {
	return x.paramFreshDepth(fn, par, 0)
}

func (x *c09Ctx) paramFreshDepth(fn *ssa.Function, par *ssa.Parameter, depth int) bool {
	if depth > 3 {
		return false
	}
	idx := -1
	for i, p := range fn.Params {
		if p == par {
			idx = i
		}
	}
	if idx < 0 {
		return false
	}
	sites := 0
	for caller := range x.visitedR5 {
		for _, call := range an.Calls(caller) {
			if call.Common().StaticCallee() != fn {
				continue
			}
			sites++
			args := call.Common().Args
			if idx >= len(args) {
				return false
			}
			if pp, isPar := args[idx].(*ssa.Parameter); isPar {
				// handed through a wrapper: the wrapper's callers decide
				if !x.paramFreshDepth(caller, pp, depth+1) {
					return false
				}
				continue
			}
			cv, ok := args[idx].(*ssa.Call)
			if !ok {
				return false
			}
			callee := cv.Common().StaticCallee()
			if callee == nil || !x.w.InModule(callee) || callee.Blocks == nil {
				return false
			}
			for _, r := range an.Returns(callee) {
				if len(r.Results) != 1 {
					return false
				}
				if _, isAlloc := r.Results[0].(*ssa.Alloc); !isAlloc {
					return false
				}
			}
		}
	}
	return sites > 0
}
