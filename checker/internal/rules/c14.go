package rules

import (
	"fmt"
	"go/token"
	"go/types"
	"reflect"
	"sort"
	"strings"

	"golang.org/x/tools/go/ssa"

	"psv/internal/an"
)

// C14 — persisted swap records reload to identical swap data.
//
// The rules decide the structural preconditions of the JSON round trip of the
// record type that the bbolt store writes (the type handed to json.Marshal in the
// swap.Store implementation), not the codec itself (encoding/json is trusted).

func init() {
	Register(&Prop{
		ID: "C14",
		Expl: "Decides, over go/types of the record type that the swap.Store implementation hands to encoding/json and over the SSA of every action, event context, codec method and store method: " +
			"(R1) every exported field of every struct reachable from the record root through persisted fields has a JSON name other than \"-\" unless the recovery path (the function that calls SwapStateMachine.Recover and its static callees) re-assigns it; JSON names are unique under case folding inside a struct; no persisted field has a type encoding/json cannot round-trip (func, chan, complex, unsafe pointer, map with a non string/integer key, an interface that production code ever assigns); omitempty never sits on a slice or map; no embedded fields (unsupported shape -> undecided). " +
			"(R2) a type with MarshalJSON/MarshalText has the matching Unmarshal method with a pointer receiver, both sides use the same Go type at the JSON level (argument of json.Marshal = target of json.Unmarshal), and a pointer-receiver marshaller is never used for a non-addressable value. " +
			"(R3) every field of a record struct that an action (Execute and its static callees, one unit per concrete Action type) or an event context (ApplyToSwapData) loads without having stored it itself (directly, or through a callee that always stores it) on every path before the load - i.e. whose value comes from an earlier state, an earlier execution of the same state or an event - is persisted (exported, JSON name != \"-\"), because Recover re-runs the unit on the decoded record. " +
			"(R4) SwapStateMachine.Current and SwapData.FSMState are written together: every write site of one (direct store, or call of a parameter-setter) has a write site of the other in the same function, for the same record, with the same SSA value, and no return separates them. " +
			"(R5) every swap.Store implementation marshals a pointer to the record root, unmarshals into the same type, puts the marshalled bytes, derives every bucket key with one and the same key function (from SwapStateMachine.SwapId of the marshalled record on writes), and uses one bucket name. " +
			"(R6) the target of every json.Unmarshal in a swap.Store implementation is a fresh allocation per decoded record: an allocation (or constructor call) in the decoding function that is re-executed before every execution of the decode, looked through parameters to the production callers; a target captured by the per-record callback of bbolt's Bucket.ForEach, or carried around a loop by a phi or an outer variable, is a violation because encoding/json leaves fields absent from the input (omitempty) at the previous record's values. " +
			"Quantified over all structs/fields/codecs/units/store call sites of the tree.",
		NotD: "Value-level equality of encode/decode for all inputs (encoding/json's contract, trusted); fields filled only by reflection; record fields accessed only through their address (&swap.F handed to a callee) are not seen as loads by R3; whether code outside actions and event contexts (RPC listing, SendEvent itself) relies on in-memory-only fields after a restart (reported as info only); pairwise distinctness of StateType/EventType constants (DESIGN C14.R4 first half) is not claimed: inside one table the compiler rejects duplicate constant keys, across tables sharing a value is how the tables share states, so a 'distinct values' rule would alarm on a harmless alias and catch nothing that compiles.",
		Run:  runC14,
	})
}

// ---- record graph ---------------------------------------------------------------

type c14Field struct {
	Owner     *types.Named
	Var       *types.Var
	Key       string // "SwapData.ClaimTxId"
	JSONName  string
	Opts      []string
	Exported  bool
	Dash      bool
	Persisted bool
}

type c14Struct struct {
	N      *types.Named
	Fields []*c14Field
}

type c14CodecUse struct {
	Where       string
	Pos         token.Pos
	Pointer     bool // the use is *T
	Addressable bool
}

type c14Graph struct {
	w       *an.World
	c       *an.Check
	Structs map[*types.Named]*c14Struct
	Order   []*types.Named
	ByKey   map[string]*c14Field
	Codecs  map[*types.Named][]c14CodecUse
	COrder  []*types.Named
	rebuilt map[*ssa.Function]bool // recovery closure
}

func c14Tag(v *types.Var, tag string) (name string, opts []string, dash bool) {
	name = v.Name()
	js, ok := reflect.StructTag(tag).Lookup("json")
	if !ok {
		return name, nil, false
	}
	if js == "-" {
		return "", nil, true
	}
	parts := strings.Split(js, ",")
	if parts[0] != "" {
		name = parts[0]
	}
	return name, parts[1:], false
}

// c14Methods looks up the codec methods of a named type (on T or *T).
func c14Method(n *types.Named, name string) *types.Func {
	ms := types.NewMethodSet(types.NewPointer(n))
	for i := 0; i < ms.Len(); i++ {
		if f, ok := ms.At(i).Obj().(*types.Func); ok && f.Name() == name {
			return f
		}
	}
	return nil
}

func c14HasCodec(n *types.Named) bool {
	for _, m := range []string{"MarshalJSON", "UnmarshalJSON", "MarshalText", "UnmarshalText"} {
		if c14Method(n, m) != nil {
			return true
		}
	}
	return false
}

func c14PtrRecv(f *types.Func) bool {
	sig, _ := f.Type().(*types.Signature)
	if sig == nil || sig.Recv() == nil {
		return false
	}
	_, ok := sig.Recv().Type().(*types.Pointer)
	return ok
}

// visitType checks that t can be round-tripped and descends into structs.
// where names the field being examined; it returns a defect text or "".
func (g *c14Graph) visitType(t types.Type, where string, pos token.Pos, addressable bool, depth int) string {
	if depth > 12 {
		return ""
	}
	t = types.Unalias(t)
	if p, ok := t.(*types.Pointer); ok {
		if n, ok := types.Unalias(p.Elem()).(*types.Named); ok && c14HasCodec(n) {
			g.codecUse(n, c14CodecUse{Where: where, Pos: pos, Pointer: true, Addressable: true})
			return ""
		}
		return g.visitType(p.Elem(), where, pos, true, depth+1)
	}
	if n, ok := t.(*types.Named); ok {
		if c14HasCodec(n) {
			g.codecUse(n, c14CodecUse{Where: where, Pos: pos, Pointer: false, Addressable: addressable})
			return ""
		}
		if _, isStruct := n.Underlying().(*types.Struct); isStruct {
			g.visitStruct(n)
			return ""
		}
	}
	switch u := t.Underlying().(type) {
	case *types.Basic:
		switch {
		case u.Info()&types.IsComplex != 0:
			return "complex numbers are not supported by encoding/json"
		case u.Kind() == types.UnsafePointer:
			return "unsafe.Pointer is not supported by encoding/json"
		}
		return ""
	case *types.Slice:
		return g.visitType(u.Elem(), where, pos, true, depth+1)
	case *types.Array:
		return g.visitType(u.Elem(), where, pos, addressable, depth+1)
	case *types.Map:
		kb, _ := u.Key().Underlying().(*types.Basic)
		keyOK := kb != nil && (kb.Info()&types.IsString != 0 || kb.Info()&types.IsInteger != 0)
		if kn, ok := types.Unalias(u.Key()).(*types.Named); ok && !keyOK {
			keyOK = c14Method(kn, "MarshalText") != nil && c14Method(kn, "UnmarshalText") != nil
		}
		if !keyOK {
			return "map key type " + types.TypeString(u.Key(), nil) + " cannot be a JSON object key"
		}
		return g.visitType(u.Elem(), where, pos, false, depth+1)
	case *types.Struct:
		// anonymous struct type: check its fields in place
		for i := 0; i < u.NumFields(); i++ {
			f := u.Field(i)
			_, _, dash := c14Tag(f, u.Tag(i))
			if !f.Exported() || dash {
				continue
			}
			if d := g.visitType(f.Type(), where+"."+f.Name(), pos, addressable, depth+1); d != "" {
				return d
			}
		}
		return ""
	case *types.Interface:
		return "interface"
	case *types.Signature:
		return "func values are not supported by encoding/json"
	case *types.Chan:
		return "channels are not supported by encoding/json"
	}
	return ""
}

func (g *c14Graph) codecUse(n *types.Named, u c14CodecUse) {
	if _, ok := g.Codecs[n]; !ok {
		g.COrder = append(g.COrder, n)
	}
	g.Codecs[n] = append(g.Codecs[n], u)
}

func (g *c14Graph) visitStruct(n *types.Named) {
	if _, ok := g.Structs[n]; ok {
		return
	}
	st := n.Underlying().(*types.Struct)
	cs := &c14Struct{N: n}
	g.Structs[n] = cs
	g.Order = append(g.Order, n)
	w, c := g.w, g.c
	names := map[string][]string{}
	for i := 0; i < st.NumFields(); i++ {
		v := st.Field(i)
		f := &c14Field{Owner: n, Var: v, Key: n.Obj().Name() + "." + v.Name(), Exported: v.Exported()}
		f.JSONName, f.Opts, f.Dash = c14Tag(v, st.Tag(i))
		f.Persisted = f.Exported && !f.Dash
		cs.Fields = append(cs.Fields, f)
		g.ByKey[f.Key] = f
		pos := w.Pos(v.Pos())
		cons := f.Key
		if v.Embedded() {
			c.Unknown("C14.R1", cons, pos, "embedded field: encoding/json promotes its fields into the parent object; this shape is not supported by the rule")
			continue
		}
		if !f.Exported {
			continue // in-memory only by Go's rules; R3 polices its use
		}
		if f.Dash {
			// declared not persisted: acceptable only when the recovery path re-assigns it
			var by []string
			for _, s := range w.FieldWriters(f.Key) {
				if g.rebuilt[s.Parent()] && c14IsFieldOf(s, n) {
					by = append(by, w.FuncName(s.Parent()))
				}
			}
			sort.Strings(by)
			by = c14Uniq(by)
			if len(by) > 0 {
				c.OK("C14.R1", cons, pos, "json:\"-\" but re-assigned on the recovery path by "+strings.Join(by, ", "))
			} else if wh := g.wholeStructStores(n); len(wh) > 0 {
				c.Unknown("C14.R1", cons, pos, "json:\"-\" and no field store on the recovery path, but the recovery path assigns whole "+n.Obj().Name()+" values ("+strings.Join(wh, ", ")+"): cannot tell whether the field is rebuilt")
			} else {
				c.Bad("C14.R1", cons, pos, "exported field of the persisted record is tagged json:\"-\" and the recovery path (caller of SwapStateMachine.Recover and its callees) never re-assigns it: the value is lost by every reload")
			}
			continue
		}
		names[strings.ToLower(f.JSONName)] = append(names[strings.ToLower(f.JSONName)], v.Name())
		// type discipline
		defect := g.visitType(v.Type(), f.Key, v.Pos(), true, 0)
		if defect == "interface" {
			var ws []string
			for _, s := range w.FieldWriters(f.Key) {
				if an.IsTestSupport(w.FnRel(s.Parent())) || !c14IsFieldOf(s, n) || an.IsNilConst(s.Val) {
					continue
				}
				ws = append(ws, w.FuncName(s.Parent())+" ("+w.Pos(s.Pos())+")")
			}
			sort.Strings(ws)
			if len(ws) == 0 {
				defect = ""
			} else {
				defect = "field of interface type " + types.TypeString(v.Type(), types.RelativeTo(n.Obj().Pkg())) + " is assigned by " + strings.Join(ws, ", ") + ": json.Unmarshal cannot decode an object into it, the record becomes unreadable (and a nil-only field would be fine)"
			}
		}
		if defect == "" {
			for _, o := range f.Opts {
				if o != "omitempty" {
					continue
				}
				switch types.Unalias(v.Type()).Underlying().(type) {
				case *types.Slice, *types.Map:
					defect = "omitempty on a slice/map field: an empty non-nil value is dropped and reloads as nil"
				}
			}
		}
		if defect != "" {
			c.Bad("C14.R1", cons, pos, defect)
		} else {
			c.OK("C14.R1", cons, pos, "persisted as \""+f.JSONName+"\"")
		}
	}
	for _, k := range sortedKeysOfSlices(names) {
		if len(names[k]) > 1 {
			c.Bad("C14.R1", n.Obj().Name()+" json name "+k, w.Pos(n.Obj().Pos()), "fields "+strings.Join(names[k], ", ")+" share the JSON name \""+k+"\" (case-insensitively): encoding/json drops or misroutes them")
		}
	}
}

// wholeStructStores: functions of the recovery closure that store a whole value
// of struct type n through a pointer (the fields are then set without a field store).
func (g *c14Graph) wholeStructStores(n *types.Named) []string {
	var out []string
	for fn := range g.rebuilt {
		for _, b := range fn.Blocks {
			for _, in := range b.Instrs {
				st, ok := in.(*ssa.Store)
				if !ok {
					continue
				}
				if _, isAlloc := st.Addr.(*ssa.Alloc); isAlloc {
					continue // initialisation of a local
				}
				if pt, ok := st.Addr.Type().Underlying().(*types.Pointer); ok && types.Unalias(pt.Elem()) == types.Type(n) {
					out = append(out, g.w.FuncName(fn))
				}
			}
		}
	}
	sort.Strings(out)
	return c14Uniq(out)
}

func sortedKeysOfSlices(m map[string][]string) []string {
	var out []string
	for k := range m {
		out = append(out, k)
	}
	sort.Strings(out)
	return out
}

func c14Uniq(s []string) []string {
	var out []string
	for i, x := range s {
		if i == 0 || x != s[i-1] {
			out = append(out, x)
		}
	}
	return out
}

// c14IsFieldOf: the store's address is a field of struct type n.
func c14IsFieldOf(s *ssa.Store, n *types.Named) bool {
	fa, ok := s.Addr.(*ssa.FieldAddr)
	return ok && an.NamedOf(fa.X.Type()) == n
}

// c14Closure is fn plus everything it reaches synchronously through static
// in-module calls and closures (the unit of an action / event context).
func c14Closure(w *an.World, fn *ssa.Function) map[*ssa.Function]bool {
	out := map[*ssa.Function]bool{fn: true}
	for _, ef := range w.Summary(fn).Effects {
		if ef.In != nil {
			out[ef.In] = true
		}
		if s := ef.Info.Static; s != nil && !ef.Info.IsGo && w.InModule(s) && s.Blocks != nil {
			out[s] = true
		}
	}
	// closures created in any member
	var add func(f *ssa.Function)
	add = func(f *ssa.Function) {
		for _, a := range f.AnonFuncs {
			if !out[a] {
				out[a] = true
				add(a)
			}
		}
	}
	for f := range out {
		add(f)
	}
	return out
}

// ---- run -----------------------------------------------------------------------

func runC14(c *an.Check) {
	c.Rule("C14.R1", "exported fields of the persisted record graph have a JSON name (\"-\" only when the recovery path re-assigns the field), unique per struct under case folding, of a type encoding/json round-trips; no assigned interface fields; omitempty not on slices/maps")
	c.Rule("C14.R2", "custom JSON/Text codecs are paired (pointer-receiver Unmarshal, same encoding packages, same JSON-level Go type) and pointer-receiver marshallers are only used on addressable values")
	c.Rule("C14.R3", "a record field that an action or event context loads without having stored it first in the same function (value from another state / earlier execution / event) is persisted")
	c.Rule("C14.R4", "SwapStateMachine.Current and SwapData.FSMState are written together (same function, same record, same value, no return in between)")
	c.Rule("C14.R6", "every json.Unmarshal of a stored record decodes into a value allocated for that decode (not one reused across loop iterations / per-record callbacks): encoding/json leaves absent fields of the target untouched")
	c.Rule("C14.R5", "swap.Store implementations: json.Marshal(*root) / json.Unmarshal(into *root); Put value is the marshalled record; one key function for Put/Get/Delete, fed from SwapStateMachine.SwapId of the written record; one bucket")
	w := c.W
	root := w.Named("swap", "SwapStateMachine")
	data := w.Named("swap", "SwapData")
	storeI := w.Named("swap", "Store")
	recoverFn := w.Func("swap", "(*SwapStateMachine).Recover")
	if root == nil || data == nil || storeI == nil || recoverFn == nil {
		c.Anchor("swap.SwapStateMachine / swap.SwapData / swap.Store / (*SwapStateMachine).Recover do not resolve")
		return
	}

	// recovery closure: callers of Recover (outside Recover itself) and what they reach
	rebuilt := map[*ssa.Function]bool{}
	nRec := 0
	for _, fn := range prodFuncs(w) {
		for _, call := range an.Calls(fn) {
			if w.Info(call).Static == recoverFn && fn != recoverFn {
				nRec++
				for f := range c14Closure(w, fn) {
					if f != recoverFn && !c14Closure(w, recoverFn)[f] {
						rebuilt[f] = true
					}
				}
			}
		}
	}
	if !c.AtLeast("C14.R1", "production callers of SwapStateMachine.Recover (recovery path)", nRec, 1) {
		return
	}

	g := &c14Graph{w: w, c: c, Structs: map[*types.Named]*c14Struct{}, ByKey: map[string]*c14Field{}, Codecs: map[*types.Named][]c14CodecUse{}, rebuilt: rebuilt}
	g.visitStruct(root)
	nPersisted := 0
	for _, n := range g.Order {
		for _, f := range g.Structs[n].Fields {
			if f.Persisted {
				nPersisted++
			}
		}
	}
	c.AtLeast("C14.R1", "struct types in the persisted record graph", len(g.Order), 9)
	c.AtLeast("C14.R1", "persisted fields", nPersisted, 60)
	if g.Structs[data] == nil {
		c.Anchor("swap.SwapData is not reachable from swap.SwapStateMachine through persisted fields")
		return
	}
	c.Extra["record_structs"] = len(g.Order)
	c.Extra["persisted_fields"] = nPersisted

	c14Codecs(c, g)
	c14CrossState(c, g)
	c14CoWrite(c, root, data)
	c14Store(c, root, storeI)
}

// ---- R2 ------------------------------------------------------------------------

func c14Codecs(c *an.Check, g *c14Graph) {
	w := c.W
	c.AtLeast("C14.R2", "types with a custom codec in the record graph", len(g.COrder), 1)
	for _, n := range g.COrder {
		name := types.TypeString(n, func(p *types.Package) string { return p.Name() })
		pos := w.Pos(n.Obj().Pos())
		inModule := false
		if n.Obj().Pkg() != nil {
			_, inModule = w.Rel(n.Obj().Pkg().Path())
		}
		for _, pair := range [][2]string{{"MarshalJSON", "UnmarshalJSON"}, {"MarshalText", "UnmarshalText"}} {
			m, u := c14Method(n, pair[0]), c14Method(n, pair[1])
			if m == nil && u == nil {
				continue
			}
			cons := name + " " + pair[0] + "/" + pair[1]
			if m == nil || u == nil {
				c.Bad("C14.R2", cons, pos, fmt.Sprintf("only one half of the codec exists (%s: %v, %s: %v): the record is written in one representation and read in another", pair[0], m != nil, pair[1], u != nil))
				continue
			}
			if !c14PtrRecv(u) {
				c.Bad("C14.R2", cons, pos, pair[1]+" has a value receiver: it decodes into a copy and the field stays zero")
				continue
			}
			// every use must be able to reach a pointer-receiver marshaller
			usesOK := true
			if c14PtrRecv(m) {
				for _, use := range g.Codecs[n] {
					if !use.Pointer && !use.Addressable {
						usesOK = false
						c.Bad("C14.R2", cons+" used by "+use.Where, w.Pos(use.Pos), pair[0]+" has a pointer receiver but this value is not addressable when the record is encoded (map element): the default encoding is written while "+pair[1]+" expects the custom one")
					}
				}
			}
			if !inModule {
				if usesOK {
					c.OK("C14.R2", cons, pos, "dependency type, pair exists (bodies not analysed)")
				}
				continue
			}
			mf, uf := w.Prog.FuncValue(m), w.Prog.FuncValue(u)
			if mf == nil || uf == nil || mf.Blocks == nil || uf.Blocks == nil {
				c.Unknown("C14.R2", cons, pos, "no SSA body for the codec methods")
				continue
			}
			mp, mt, merr := c14CodecSide(w, mf, "Marshal", 0)
			up, ut, uerr := c14CodecSide(w, uf, "Unmarshal", 1)
			if merr != "" || uerr != "" {
				c.Unknown("C14.R2", cons, pos, "unsupported codec shape: "+merr+" "+uerr)
				continue
			}
			var diff []string
			_ = up
			if mt != nil && ut != nil && !types.Identical(mt, ut) {
				diff = append(diff, fmt.Sprintf("%s encodes a %s but %s decodes a %s", pair[0], types.TypeString(mt, nil), pair[1], types.TypeString(ut, nil)))
			}
			if len(diff) > 0 {
				c.Bad("C14.R2", cons, w.Pos(mf.Pos()), "the two halves use different representations: "+strings.Join(diff, "; "))
			} else if usesOK {
				c.OK("C14.R2", cons, pos, fmt.Sprintf("paired, same JSON-level type %s on both sides (encoder uses %v), %d uses", c14TypeStr(mt), mp, len(g.Codecs[n])))
			}
		}
	}
}

func c14TypeStr(t types.Type) string {
	if t == nil {
		return "-"
	}
	return types.TypeString(t, nil)
}

// c14CodecSide returns the encoding/* packages a codec method uses (through its
// static in-module callees) and the Go type it hands to json.Marshal (argIdx 0)
// or decodes into with json.Unmarshal (argIdx 1, pointer stripped). Text codecs
// have no JSON-level call; then the type is nil.
func c14CodecSide(w *an.World, fn *ssa.Function, jsonFn string, argIdx int) (pkgs []string, jt types.Type, err string) {
	set := map[string]bool{}
	n := 0
	for f := range c14Closure(w, fn) {
		for _, call := range an.Calls(f) {
			ci := w.Info(call)
			if ci.Static == nil || !strings.HasPrefix(ci.PkgPath, "encoding/") {
				continue
			}
			set[ci.PkgPath] = true
			if ci.PkgPath == "encoding/json" && ci.Static.Name() == jsonFn && ci.Recv == nil {
				n++
				args := call.Common().Args
				if argIdx >= len(args) {
					return nil, nil, "json." + jsonFn + " call without argument"
				}
				mi, ok := args[argIdx].(*ssa.MakeInterface)
				if !ok {
					return nil, nil, "argument of json." + jsonFn + " is not a concrete value"
				}
				t := mi.X.Type()
				if argIdx == 1 {
					p, ok := t.Underlying().(*types.Pointer)
					if !ok {
						return nil, nil, "json.Unmarshal target is not a pointer"
					}
					t = p.Elem()
				}
				if jt != nil && !types.Identical(jt, t) {
					return nil, nil, "several json." + jsonFn + " calls with different types"
				}
				jt = t
			}
		}
	}
	if strings.HasSuffix(fn.Name(), "JSON") && n == 0 {
		return nil, nil, fn.Name() + " does not go through json." + jsonFn
	}
	return sortedKeys(set), jt, ""
}

// ---- R3 ------------------------------------------------------------------------

type c14Unit struct {
	Name string
	Fn   *ssa.Function
	Set  map[*ssa.Function]bool
}

// c14Fresh: the load reads a value this very function stored before on every
// path, either directly or by calling a function that always stores the field of
// the struct it is handed (e.g. HandleError for LastErr).
func c14Fresh(load ssa.Instruction, base ssa.Value, stores []*ssa.Store, always map[*ssa.Function]int) bool {
	var via []ssa.Instruction
	for _, s := range stores {
		if s.Parent() != load.Parent() {
			continue
		}
		if fa, ok := s.Addr.(*ssa.FieldAddr); ok && fa.X == base {
			via = append(via, s)
		}
	}
	if len(always) > 0 {
		for _, call := range an.Calls(load.Parent()) {
			callee := call.Common().StaticCallee()
			if callee == nil {
				continue
			}
			if _, isGo := call.(*ssa.Go); isGo {
				continue
			}
			if _, isDefer := call.(*ssa.Defer); isDefer {
				continue
			}
			if i, ok := always[callee]; ok && i < len(call.Common().Args) && call.Common().Args[i] == base {
				via = append(via, call)
			}
		}
	}
	return an.MustPassInstr(load, via)
}

// c14CallersOf indexes the production static call sites (not go/defer) per callee.
var c14CallerIdx = map[*an.World]map[*ssa.Function][]ssa.CallInstruction{}

func c14CallersOf(w *an.World, callee *ssa.Function) []ssa.CallInstruction {
	idx := c14CallerIdx[w]
	if idx == nil {
		idx = map[*ssa.Function][]ssa.CallInstruction{}
		for _, fn := range prodFuncs(w) {
			for _, call := range an.Calls(fn) {
				if _, isGo := call.(*ssa.Go); isGo {
					continue
				}
				if _, isDefer := call.(*ssa.Defer); isDefer {
					continue
				}
				if cal := call.Common().StaticCallee(); cal != nil {
					idx[cal] = append(idx[cal], call)
				}
			}
		}
		c14CallerIdx[w] = idx
	}
	return idx[callee]
}

// c14AlwaysStores: functions that store the field of one of their parameters on
// every path to every return (directly, or by always calling such a function
// with that parameter); value = index of that parameter.
func c14AlwaysStores(w *an.World, stores []*ssa.Store) map[*ssa.Function]int {
	out := map[*ssa.Function]int{}
	allReturnsPass := func(fn *ssa.Function, in ssa.Instruction) bool {
		rets := an.Returns(fn)
		for _, r := range rets {
			if !an.MustPassInstr(r, []ssa.Instruction{in}) {
				return false
			}
		}
		return len(rets) > 0
	}
	var work []*ssa.Function
	for _, s := range stores {
		fa, ok := s.Addr.(*ssa.FieldAddr)
		if !ok {
			continue
		}
		fn := s.Parent()
		i := c14ParamIdx(fn, fa.X)
		if i < 0 {
			continue
		}
		if _, done := out[fn]; !done && allReturnsPass(fn, s) {
			out[fn] = i
			work = append(work, fn)
		}
	}
	for depth := 0; len(work) > 0 && depth < 4; depth++ {
		var next []*ssa.Function
		for _, callee := range work {
			for _, call := range c14CallersOf(w, callee) {
				fn := call.Parent()
				if _, done := out[fn]; done {
					continue
				}
				args := call.Common().Args
				if out[callee] >= len(args) {
					continue
				}
				i := c14ParamIdx(fn, args[out[callee]])
				if i >= 0 && allReturnsPass(fn, call) {
					out[fn] = i
					next = append(next, fn)
				}
			}
		}
		work = next
	}
	return out
}

func c14LoadBase(in ssa.Instruction) (ssa.Value, types.Type) {
	switch x := in.(type) {
	case *ssa.UnOp:
		if fa, ok := x.X.(*ssa.FieldAddr); ok {
			return fa.X, fa.X.Type()
		}
	case *ssa.Field:
		return x.X, x.X.Type()
	}
	return nil, nil
}

func c14CrossState(c *an.Check, g *c14Graph) {
	w := c.W
	f, err := w.FSM()
	if err != nil {
		c.Anchor("cannot extract state tables: %v", err)
		return
	}
	var units []*c14Unit
	var acts []*types.Named
	for nt := range f.Exec {
		acts = append(acts, nt)
	}
	sort.Slice(acts, func(i, j int) bool { return acts[i].Obj().Name() < acts[j].Obj().Name() })
	for _, nt := range acts {
		fn := f.Exec[nt]
		if an.IsTestSupport(w.FnRel(fn)) {
			continue
		}
		units = append(units, &c14Unit{Name: "action " + nt.Obj().Name(), Fn: fn, Set: c14Closure(w, fn)})
	}
	nAct := len(units)
	// event contexts: every production type implementing swap.EventContext
	ecT := w.Named("swap", "EventContext")
	if ecT == nil {
		c.Anchor("swap.EventContext does not resolve")
		return
	}
	eci, _ := ecT.Underlying().(*types.Interface)
	nEv := 0
	var rels []string
	for r := range w.ByRel {
		rels = append(rels, r)
	}
	sort.Strings(rels)
	for _, rel := range rels {
		if an.IsTestSupport(rel) || eci == nil {
			continue
		}
		sc := w.ByRel[rel].Types.Scope()
		for _, nm := range sc.Names() {
			tn, ok := sc.Lookup(nm).(*types.TypeName)
			if !ok || tn.IsAlias() {
				continue
			}
			nt, ok := tn.Type().(*types.Named)
			if !ok {
				continue
			}
			if _, isI := nt.Underlying().(*types.Interface); isI {
				continue
			}
			if !types.Implements(nt, eci) && !types.Implements(types.NewPointer(nt), eci) {
				continue
			}
			fn := w.Method(nt, "ApplyToSwapData")
			if fn == nil || fn.Blocks == nil {
				c.Unknown("C14.R3", "event context "+nt.Obj().Name(), w.Pos(nt.Obj().Pos()), "no SSA body for ApplyToSwapData")
				continue
			}
			nEv++
			units = append(units, &c14Unit{Name: "event context " + nt.Obj().Name(), Fn: fn, Set: c14Closure(w, fn)})
		}
	}
	c.AtLeast("C14.R3", "concrete actions", nAct, 25)
	c.AtLeast("C14.R3", "event contexts (ApplyToSwapData)", nEv, 8)

	nCross, nCrossPersisted := 0, 0
	for _, n := range g.Order {
		for _, fd := range g.Structs[n].Fields {
			var stores []*ssa.Store
			var writers []string
			for _, s := range w.FieldWriters(fd.Key) {
				if an.IsTestSupport(w.FnRel(s.Parent())) || !c14IsFieldOf(s, n) {
					continue
				}
				stores = append(stores, s)
				writers = append(writers, w.FuncName(s.Parent()))
			}
			sort.Strings(writers)
			writers = c14Uniq(writers)
			always := c14AlwaysStores(w, stores)
			readBy := map[*c14Unit]ssa.Instruction{}
			var others []string
			for _, ld := range w.FieldReaders(fd.Key) {
				base, bt := c14LoadBase(ld)
				if base == nil || an.NamedOf(bt) != n || an.IsTestSupport(w.FnRel(ld.Parent())) {
					continue
				}
				if c14Fresh(ld, base, stores, always) {
					continue
				}
				in := false
				for _, u := range units {
					if u.Set[ld.Parent()] {
						in = true
						if _, ok := readBy[u]; !ok {
							readBy[u] = ld
						}
					}
				}
				if !in {
					others = append(others, w.FuncName(ld.Parent()))
				}
			}
			sort.Strings(others)
			others = c14Uniq(others)
			pos := w.Pos(fd.Var.Pos())
			if len(readBy) == 0 {
				if !fd.Persisted && len(others) > 0 && !g.rebuiltField(fd) {
					c.Note("C14.R3", fd.Key+" outside actions", pos, "in-memory-only field read by "+strings.Join(others, ", ")+" (not an action or event context: not decided)")
				}
				continue
			}
			nCross++
			var us []*c14Unit
			for u := range readBy {
				us = append(us, u)
			}
			sort.Slice(us, func(i, j int) bool { return us[i].Name < us[j].Name })
			if fd.Persisted {
				nCrossPersisted++
				var names []string
				for _, u := range us {
					names = append(names, u.Name)
				}
				c.OK("C14.R3", fd.Key, pos, fmt.Sprintf("persisted as %q; carried into %s", fd.JSONName, strings.Join(names, ", ")))
				continue
			}
			if mirror, okM := g.mirrorOf(fd); okM {
				// not stored itself, but rebuilt on the recovery path from a persisted
				// field of the same record: every other writer must keep that mirror in step
				bad := g.unsyncedWriters(fd, mirror)
				if len(bad) == 0 {
					nCrossPersisted++
					c.OK("C14.R3", fd.Key, pos, "not stored, but rebuilt on recovery from the persisted "+mirror+", which every writer keeps in step")
				} else {
					c.Bad("C14.R3", fd.Key+" mirror "+mirror, pos, fd.Key+" is rebuilt on recovery from "+mirror+", but these writers set it without (a path to) writing the mirror, so the value is lost by a restart: "+strings.Join(bad, "; "))
				}
				continue
			}
			why := "unexported"
			if fd.Dash {
				why = "tagged json:\"-\""
			}
			for _, u := range us {
				ld := readBy[u]
				detail := fmt.Sprintf("%s is %s, i.e. not part of the stored record, but %s (%s) loads it without having stored it on every path before: the value comes from an earlier state, an earlier run of the state or an event, and is the zero value after a restart (Recover re-runs the action on the decoded record). Production writers: %s", fd.Key, why, u.Name, w.FuncName(ld.Parent()), strings.Join(writers, ", "))
				if len(others) > 0 {
					detail += ". Also read outside actions by: " + strings.Join(others, ", ")
				}
				c.Bad("C14.R3", fd.Key+" read by "+u.Name, w.Pos(ld.Pos()), detail)
			}
		}
	}
	c.AtLeast("C14.R3", "record fields carried across executions", nCross, 40)
	c.AtLeast("C14.R3", "persisted record fields carried across executions", nCrossPersisted, 40)
	c.Extra["fields_carried_across_states"] = nCross
}

func (g *c14Graph) rebuiltField(fd *c14Field) bool {
	for _, s := range g.w.FieldWriters(fd.Key) {
		if g.rebuilt[s.Parent()] && c14IsFieldOf(s, fd.Owner) {
			return true
		}
	}
	return false
}

// ---- R4 ------------------------------------------------------------------------

type c14Write struct {
	At   ssa.Instruction
	Val  ssa.Value
	Base ssa.Value // the struct whose field is written (pointer value)
}

// c14WriteSites lists the production stores to field key of struct type n.
func c14WriteSites(w *an.World, key string, n *types.Named) []c14Write {
	var out []c14Write
	for _, s := range w.FieldWriters(key) {
		if an.IsTestSupport(w.FnRel(s.Parent())) || !c14IsFieldOf(s, n) {
			continue
		}
		out = append(out, c14Write{At: s, Val: s.Val, Base: s.Addr.(*ssa.FieldAddr).X})
	}
	return out
}

// c14Lift sees a write from the callers of its function: possible when the
// struct is a parameter and the value a parameter or a constant. ok=false when
// the write cannot be expressed in the callers' terms.
func c14Lift(w *an.World, a c14Write) (lifted []c14Write, ok bool) {
	fn := a.At.Parent()
	bi, vi := c14ParamIdx(fn, a.Base), c14ParamIdx(fn, a.Val)
	_, isConst := a.Val.(*ssa.Const)
	if bi < 0 || (vi < 0 && !isConst) {
		return nil, false
	}
	for _, call := range c14CallersOf(w, fn) {
		args := call.Common().Args
		if bi >= len(args) || vi >= len(args) {
			continue
		}
		v := a.Val
		if vi >= 0 {
			v = args[vi]
		}
		lifted = append(lifted, c14Write{At: call, Val: v, Base: args[bi]})
	}
	return lifted, true
}

// c14Forms: a write and everything it lifts to (bounded).
func c14Forms(w *an.World, a c14Write, depth int) []c14Write {
	out := []c14Write{a}
	if depth >= 3 {
		return out
	}
	if l, ok := c14Lift(w, a); ok {
		for _, x := range l {
			out = append(out, c14Forms(w, x, depth+1)...)
		}
	}
	return out
}

// c14Opaque: a value the rules do not look through (merge points, locals whose
// address is taken, map/slice elements).
func c14Opaque(v ssa.Value) bool {
	switch x := v.(type) {
	case *ssa.Phi, *ssa.Lookup, *ssa.Index:
		return true
	case *ssa.UnOp:
		if x.Op == token.MUL {
			_, isAlloc := x.X.(*ssa.Alloc)
			return isAlloc
		}
	}
	return false
}

func c14StructField(n *types.Named, name string) *types.Var {
	st, _ := n.Underlying().(*types.Struct)
	if st == nil {
		return nil
	}
	for i := 0; i < st.NumFields(); i++ {
		if st.Field(i).Name() == name {
			return st.Field(i)
		}
	}
	return nil
}

func c14ParamIdx(fn *ssa.Function, v ssa.Value) int {
	for i, p := range fn.Params {
		if p == v {
			return i
		}
	}
	return -1
}

// c14Together: no return can be reached after a without executing b (or b ran
// before a on every path), and vice versa is checked by the caller.
func c14Together(a, b ssa.Instruction) bool {
	if a.Parent() != b.Parent() {
		return false
	}
	if a.Block() == b.Block() {
		return true
	}
	if an.MustPassInstr(a, []ssa.Instruction{b}) {
		return true // b always precedes a
	}
	// every path from a to a return passes b
	reach := an.ReachBlocks(a.Block().Succs, nil, map[*ssa.BasicBlock]bool{b.Block(): true})
	for _, r := range an.Returns(a.Parent()) {
		if reach[r.Block()] && r.Block() != b.Block() {
			return false
		}
	}
	return reach[b.Block()]
}

func c14CoWrite(c *an.Check, root, data *types.Named) {
	w := c.W
	cur := c14WriteSites(w, "SwapStateMachine.Current", root)
	fsm := c14WriteSites(w, "SwapData.FSMState", data)
	if c14StructField(data, "FSMState") == nil {
		c.Note("C14.R4", "SwapData.FSMState", w.Pos(data.Obj().Pos()), "the record has no second state field any more: nothing to keep in step with SwapStateMachine.Current")
		return
	}
	if !c.AtLeast("C14.R4", "stores to SwapStateMachine.Current", len(cur), 1) {
		return
	}
	// the machine a write belongs to: the struct itself for Current, the root of
	// the field chain SwapStateMachine.Data for a SwapData write
	machineOf := func(v ssa.Value, isCur bool) ssa.Value {
		if isCur {
			return v
		}
		chain, r := w.FieldChain(v)
		if chain == "SwapStateMachine.Data" {
			return r
		}
		return nil
	}
	var curForms, fsmForms []c14Write
	for _, a := range cur {
		curForms = append(curForms, c14Forms(w, a, 0)...)
	}
	for _, a := range fsm {
		fsmForms = append(fsmForms, c14Forms(w, a, 0)...)
	}
	// check decides one write (or one of its lifted forms); verdicts are reported
	// on the function where the decision falls.
	var check func(a c14Write, pool []c14Write, aIsCur bool, what, other string, depth int)
	check = func(a c14Write, pool []c14Write, aIsCur bool, what, other string, depth int) {
		fn := a.At.Parent()
		cons := w.FuncName(fn) + " writes " + what
		ma := machineOf(a.Base, aIsCur)
		sameFn, opaque := 0, false
		for _, b := range pool {
			if b.At.Parent() != fn {
				continue
			}
			sameFn++
			mb := machineOf(b.Base, !aIsCur)
			if ma == nil || mb == nil {
				continue // expressed in terms this level cannot relate: decided after lifting
			}
			if !c14SameValue(a.Val, b.Val) {
				if c14Opaque(a.Val) || c14Opaque(b.Val) {
					opaque = true
				}
				continue
			}
			if ma != mb {
				if c14Opaque(ma) || c14Opaque(mb) {
					opaque = true
				}
				continue
			}
			if c14Together(a.At, b.At) {
				c.OK("C14.R4", cons, w.Pos(a.At.Pos()), other+" is written with the same value for the same record and no return separates the two")
				return
			}
		}
		if depth < 3 {
			if lifted, ok := c14Lift(w, a); ok {
				if len(lifted) == 0 {
					c.Note("C14.R4", cons, w.Pos(a.At.Pos()), "setter without production caller")
				}
				for _, l := range lifted {
					check(l, pool, aIsCur, what, other, depth+1)
				}
				return
			}
		}
		detail := what + " is written without " + other + " being written with the same value for the same record on every path: the two state fields of the stored record diverge"
		if opaque && sameFn > 0 {
			c.Unknown("C14.R4", cons, w.Pos(a.At.Pos()), "unsupported shape (value or record reaches the write through a merge or a local): cannot relate the write of "+what+" to a write of "+other)
			return
		}
		c.Bad("C14.R4", cons, w.Pos(a.At.Pos()), detail)
	}
	for _, a := range cur {
		check(a, fsmForms, true, "SwapStateMachine.Current", "SwapData.FSMState", 0)
	}
	for _, a := range fsm {
		check(a, curForms, false, "SwapData.FSMState", "SwapStateMachine.Current", 0)
	}
}

// ---- R5 ------------------------------------------------------------------------

func c14Store(c *an.Check, root, storeI *types.Named) {
	w := c.W
	si, _ := storeI.Underlying().(*types.Interface)
	if si == nil {
		c.Anchor("swap.Store is not an interface")
		return
	}
	var impls []*types.Named
	var rels []string
	for r := range w.ByRel {
		rels = append(rels, r)
	}
	sort.Strings(rels)
	for _, rel := range rels {
		if an.IsTestSupport(rel) {
			continue
		}
		sc := w.ByRel[rel].Types.Scope()
		for _, nm := range sc.Names() {
			tn, ok := sc.Lookup(nm).(*types.TypeName)
			if !ok || tn.IsAlias() {
				continue
			}
			nt, ok := tn.Type().(*types.Named)
			if !ok {
				continue
			}
			if _, isI := nt.Underlying().(*types.Interface); isI {
				continue
			}
			if types.Implements(nt, si) || types.Implements(types.NewPointer(nt), si) {
				impls = append(impls, nt)
			}
		}
	}
	if !c.AtLeast("C14.R5", "production implementations of swap.Store", len(impls), 1) {
		return
	}
	rootPtr := types.NewPointer(root)
	// vacuity floors count (implementation, swap.Store method) pairs that reach a
	// site of the kind, so that sharing the code between methods changes nothing
	reach := map[string]int{}
	defer func() {
		c.AtLeast("C14.R5", "swap.Store methods that reach json.Marshal", reach["marshal"], 1)
		c.AtLeast("C14.R5", "swap.Store methods that reach json.Unmarshal", reach["unmarshal"], 3)
		c.AtLeast("C14.R5", "swap.Store methods that reach Bucket.Put", reach["put"], 1)
		c.AtLeast("C14.R5", "swap.Store methods that reach a keyed bucket access", reach["keyed"], 2)
		c.AtLeast("C14.R5", "swap.Store methods that reach Tx.Bucket", reach["bucket"], 3)
	}()
	kindOf := func(ci an.CallInfo, nargs int) string {
		switch {
		case ci.Static == nil:
			return ""
		case ci.PkgPath == "encoding/json" && ci.Recv == nil && ci.Static.Name() == "Marshal":
			return "marshal"
		case ci.PkgPath == "encoding/json" && ci.Recv == nil && ci.Static.Name() == "Unmarshal":
			return "unmarshal"
		case c14IsBucketMethod(ci, "Put") && nargs == 3:
			return "put"
		case c14IsBucketMethod(ci, "Get") && nargs == 2:
			return "get"
		case c14IsBucketMethod(ci, "Delete") && nargs == 2:
			return "delete"
		case ci.Static.Name() == "Bucket" && ci.Recv != nil && ci.Recv.Obj().Name() == "Tx" && nargs == 2:
			return "bucket"
		}
		return ""
	}
	for _, nt := range impls {
		tname := nt.Obj().Name()
		for i := 0; i < si.NumMethods(); i++ {
			mf := w.Method(nt, si.Method(i).Name())
			if mf == nil || mf.Blocks == nil {
				continue
			}
			kinds := map[string]bool{}
			for f := range c14Closure(w, mf) {
				for _, call := range an.Calls(f) {
					switch k := kindOf(w.Info(call), len(call.Common().Args)); k {
					case "":
					case "put", "get", "delete":
						kinds[k], kinds["keyed"] = true, true
					default:
						kinds[k] = true
					}
				}
			}
			for k := range kinds {
				reach[k]++
			}
		}
		// all methods of the type and what they reach
		fns := map[*ssa.Function]bool{}
		for _, t := range []types.Type{nt, types.NewPointer(nt)} {
			ms := w.Prog.MethodSets.MethodSet(t)
			for i := 0; i < ms.Len(); i++ {
				if f := w.Prog.MethodValue(ms.At(i)); f != nil && f.Synthetic == "" && f.Blocks != nil {
					for x := range c14Closure(w, f) {
						if w.FnRel(x) == w.FnRel(f) {
							fns[x] = true
						}
					}
				}
			}
		}
		var fl []*ssa.Function
		for f := range fns {
			fl = append(fl, f)
		}
		sort.Slice(fl, func(i, j int) bool { return w.FuncName(fl[i]) < w.FuncName(fl[j]) })

		nSites := 0
		keyFns := map[string][]string{}
		keyOpaque := false
		buckets := map[string]bool{}
		bucketOpaque := false
		for _, fn := range fl {
			fname := w.FuncName(fn)
			for _, call := range an.Calls(fn) {
				ci := w.Info(call)
				args := call.Common().Args
				kind := kindOf(ci, len(args))
				if kind != "" {
					nSites++
				}
				switch kind {
				case "marshal":
					t := c14IfaceArgType(args, 0)
					c.Decide(t != nil && types.Identical(t, rootPtr), "C14.R5", fname+" json.Marshal", w.Pos(call.Pos()),
						"encodes *SwapStateMachine", "the store encodes a "+c14TypeStr(t)+" instead of a pointer to the record root *SwapStateMachine (pointer-receiver codecs and the decoded type depend on it)")
				case "unmarshal":
					t := c14IfaceArgType(args, 1)
					if c.Decide(t != nil && types.Identical(t, rootPtr), "C14.R5", fname+" json.Unmarshal", w.Pos(call.Pos()),
						"decodes into *SwapStateMachine", "the store decodes into a "+c14TypeStr(t)+" although it encodes *SwapStateMachine") {
						c14FreshTarget(c, fname+" json.Unmarshal target", call, args[1])
					}
				case "put":
					cons := fname + " Bucket.Put"
					// value: the marshalled record
					vs := w.Sources(args[2], an.FlowOpts{IntoCallers: true})
					var recs []ssa.Value
					var wrong, opaque []string
					for _, l := range vs.Leaves {
						if l.Kind == "call" && l.Call != nil && l.Idx == 0 {
							li := w.Info(l.Call)
							if li.PkgPath == "encoding/json" && li.Static != nil && li.Static.Name() == "Marshal" && li.Recv == nil {
								if mi, ok := l.Call.Common().Args[0].(*ssa.MakeInterface); ok {
									recs = append(recs, mi.X)
								}
								continue
							}
						}
						switch l.Kind {
						case "param", "unknown", "freevar", "alloc", "global":
							opaque = append(opaque, l.String())
						default:
							wrong = append(wrong, l.String())
						}
					}
					switch {
					case len(wrong) > 0:
						c.Bad("C14.R5", cons, w.Pos(call.Pos()), fmt.Sprintf("the stored value is not (only) the result of json.Marshal: %v", wrong))
						continue
					case len(opaque) > 0 || len(recs) == 0:
						c.Unknown("C14.R5", cons, w.Pos(call.Pos()), fmt.Sprintf("cannot trace the stored value to json.Marshal: %v", vs.Names()))
						continue
					}
					kfs, leaves, kop := c14Key(w, args[1], 0)
					for _, kf := range kfs {
						keyFns[kf] = append(keyFns[kf], cons)
					}
					keyOpaque = keyOpaque || kop
					okKey, leafOpaque := len(leaves) > 0, false
					for _, l := range leaves {
						if l.Kind != "field" || l.Name != "SwapStateMachine.SwapId" {
							okKey = false
							if l.Kind == "param" || l.Kind == "unknown" || l.Kind == "freevar" || l.Kind == "alloc" {
								leafOpaque = true
							}
							continue
						}
						_, r := w.FieldChain(l.Val)
						same := false
						for _, rec := range recs {
							if r == rec {
								same = true
							}
						}
						if !same {
							okKey = false
							if c14Opaque(r) {
								leafOpaque = true
							}
						}
					}
					switch {
					case okKey:
						c.OK("C14.R5", cons, w.Pos(call.Pos()), "value = json.Marshal(record), key = "+strings.Join(kfs, "|")+"(record.SwapId)")
					case kop || leafOpaque:
						c.Unknown("C14.R5", cons, w.Pos(call.Pos()), fmt.Sprintf("cannot trace the key of the written record: %v", c14LeafNames(leaves)))
					default:
						c.Bad("C14.R5", cons, w.Pos(call.Pos()), fmt.Sprintf("the key of the written record does not derive only from SwapStateMachine.SwapId of the record that is marshalled: %v", c14LeafNames(leaves)))
					}
				case "get", "delete":
					kfs, _, kop := c14Key(w, args[1], 0)
					for _, kf := range kfs {
						keyFns[kf] = append(keyFns[kf], fname+" Bucket."+ci.Static.Name())
					}
					keyOpaque = keyOpaque || kop
				case "bucket":
					for _, l := range w.Sources(args[1], an.FlowOpts{IntoCallers: true}).Leaves {
						if l.Kind == "param" || l.Kind == "unknown" || l.Kind == "freevar" {
							bucketOpaque = true
							continue
						}
						buckets[l.String()] = true
					}
				}
			}
		}
		pos := w.Pos(nt.Obj().Pos())
		if nSites == 0 {
			c.Note("C14.R5", tname, pos, "implements swap.Store without JSON or bucket access (not a persistent store): nothing to check")
			continue
		}
		switch {
		case len(keyFns) > 1:
			var parts []string
			for _, k := range sortedKeysOfSlices(keyFns) {
				parts = append(parts, k+" in "+strings.Join(c14Uniq(keyFns[k]), ", "))
			}
			c.Bad("C14.R5", tname+" key function", pos, "bucket keys are derived differently, so a record written under one key is looked up under another: "+strings.Join(parts, " | "))
		case keyOpaque || len(keyFns) == 0:
			c.Unknown("C14.R5", tname+" key function", pos, "cannot trace every bucket key to the function that produced it")
		default:
			for k, v := range keyFns {
				c.Decide(strings.HasPrefix(k, "func:"), "C14.R5", tname+" key function", pos, fmt.Sprintf("all %d keyed accesses derive the key with %s", len(v), k), "bucket keys are not produced by a key function: "+k)
			}
		}
		bl := sortedKeys(buckets)
		switch {
		case len(bl) > 1:
			c.Bad("C14.R5", tname+" bucket", pos, "store methods use different bucket names: "+strings.Join(bl, ", "))
		case bucketOpaque || len(bl) == 0:
			c.Unknown("C14.R5", tname+" bucket", pos, "cannot trace every bucket name")
		default:
			c.OK("C14.R5", tname+" bucket", pos, "one bucket: "+bl[0])
		}
	}
}

func c14IsBucketMethod(ci an.CallInfo, m string) bool {
	return ci.Static != nil && ci.Static.Name() == m && ci.Recv != nil && ci.Recv.Obj().Name() == "Bucket" && strings.HasSuffix(ci.PkgPath, "bbolt")
}

func c14IfaceArgType(args []ssa.Value, i int) types.Type {
	if i >= len(args) {
		return nil
	}
	if mi, ok := args[i].(*ssa.MakeInterface); ok {
		return mi.X.Type()
	}
	return args[i].Type()
}

// c14Key names the function(s) that produced a bucket key and returns the sources
// of that function's argument, looking through Stringer-like calls on SwapId and,
// for a key that is a parameter, through the production callers. opaque: some
// form of the key could not be interpreted.
func c14Key(w *an.World, key ssa.Value, depth int) (kfs []string, leaves []an.Src, opaque bool) {
	for {
		if ct, ok := key.(*ssa.ChangeType); ok {
			key = ct.X
			continue
		}
		break
	}
	add := func(k []string, l []an.Src, o bool) {
		kfs = append(kfs, k...)
		leaves = append(leaves, l...)
		opaque = opaque || o
	}
	switch x := key.(type) {
	case *ssa.Call:
		ci := w.Info(x)
		through := map[string]bool{ci.Name: true}
		ss := w.Sources(key, an.FlowOpts{ThroughCalls: through})
		for _, l := range ss.Leaves {
			if l.Kind == "call" && l.Call != nil {
				li := w.Info(l.Call)
				// (*SwapId).String-like: method without parameters
				if li.Static != nil && li.Recv != nil && li.Static.Signature.Params().Len() == 0 && len(l.Call.Common().Args) == 1 {
					sub := w.Sources(l.Call.Common().Args[0], an.FlowOpts{})
					leaves = append(leaves, sub.Leaves...)
					continue
				}
			}
			leaves = append(leaves, l)
		}
		kfs = []string{ci.Name}
	case *ssa.Parameter:
		fn := x.Parent()
		i := c14ParamIdx(fn, x)
		callers := c14CallersOf(w, fn)
		if depth >= 3 || i < 0 || len(callers) == 0 {
			return nil, nil, true
		}
		for _, call := range callers {
			if i < len(call.Common().Args) {
				add(c14Key(w, call.Common().Args[i], depth+1))
			}
		}
	case *ssa.Phi:
		if depth >= 3 {
			return nil, nil, true
		}
		for _, e := range x.Edges {
			add(c14Key(w, e, depth+1))
		}
	case *ssa.Convert, *ssa.Slice, *ssa.Const, *ssa.MakeSlice:
		ss := w.Sources(key, an.FlowOpts{})
		return []string{"direct:" + strings.Join(ss.Names(), "+")}, ss.Leaves, false
	default:
		return nil, nil, true
	}
	sort.Strings(kfs)
	return c14Uniq(kfs), leaves, opaque
}

func c14LeafNames(ls []an.Src) []string {
	m := map[string]bool{}
	for _, l := range ls {
		m[l.String()] = true
	}
	return sortedKeys(m)
}

// c14SameValue: identical SSA value, or two constants with the same value
// (each use of a named constant is its own *ssa.Const).
func c14SameValue(a, b ssa.Value) bool {
	if a == b {
		return true
	}
	if sa, ok := an.ConstString(a); ok {
		if sb, ok := an.ConstString(b); ok {
			return sa == sb
		}
	}
	return false
}

// mirrorOf: fd is not persisted but the recovery closure assigns it from a
// value derived from a persisted field of the same struct; returns that field's key.
func (g *c14Graph) mirrorOf(fd *c14Field) (string, bool) {
	for _, st := range g.w.FieldWriters(fd.Key) {
		if !g.rebuilt[st.Parent()] || !c14IsFieldOf(st, fd.Owner) {
			continue
		}
		src := g.w.Sources(st.Val, an.FlowOpts{ThroughCalls: map[string]bool{"func:errors.New": true, "func:fmt.Errorf": true}})
		for _, l := range src.Leaves {
			if l.Kind != "field" {
				continue
			}
			name := l.Name
			if i := strings.LastIndex(name, ">"); i >= 0 {
				name = name[i+1:]
			}
			if m := g.ByKey[name]; m != nil && m.Persisted && m.Owner == fd.Owner && m != fd {
				return name, true
			}
		}
	}
	return "", false
}

// unsyncedWriters lists production stores to fd (outside the recovery closure)
// after which some path reaches a return without a store to the mirror, directly
// or inside a callee.
func (g *c14Graph) unsyncedWriters(fd *c14Field, mirror string) []string {
	w := g.w
	storesMirror := map[*ssa.Function]bool{}
	for _, st := range w.FieldWriters(mirror) {
		storesMirror[st.Parent()] = true
	}
	var bad []string
	for _, st := range w.FieldWriters(fd.Key) {
		fn := st.Parent()
		if an.IsTestSupport(w.FnRel(fn)) || g.rebuilt[fn] || !c14IsFieldOf(st, fd.Owner) {
			continue
		}
		var via []ssa.Instruction
		for _, b := range fn.Blocks {
			for _, in := range b.Instrs {
				switch y := in.(type) {
				case *ssa.Store:
					if fa, ok := y.Addr.(*ssa.FieldAddr); ok && an.FieldName(fa.X.Type(), fa.Field) == mirror {
						via = append(via, y)
					}
				case ssa.CallInstruction:
					if cal := y.Common().StaticCallee(); cal != nil && storesMirror[cal] {
						via = append(via, y)
					}
				}
			}
		}
		// a path on which the stored value is known to be nil has nothing to mirror
		cut := map[an.Edge]bool{}
		for _, f := range w.Facts(fn) {
			if f.NonNum && f.Rel == "==" && ((f.LV == st.Val && an.IsNilConst(f.RV)) || (f.RV == st.Val && an.IsNilConst(f.LV))) {
				cut[f.Edge] = true
			}
		}
		ok := !c14ReachesReturnAvoiding(st, via, cut)
		if !ok {
			bad = append(bad, w.FuncName(fn)+" at "+w.Pos(st.Pos()))
		}
	}
	sort.Strings(bad)
	return bad
}

// c14ReachesReturnAvoiding: some path from just after `from` reaches a return
// without executing an instruction of via and without taking a cut edge.
func c14ReachesReturnAvoiding(from ssa.Instruction, via []ssa.Instruction, cut map[an.Edge]bool) bool {
	fb, fi := from.Block(), an.InstrIndex(from)
	stop := map[*ssa.BasicBlock]bool{}
	for _, v := range via {
		if v.Block() == fb {
			if an.InstrIndex(v) > fi {
				return false
			}
			continue
		}
		stop[v.Block()] = true
	}
	isRet := func(b *ssa.BasicBlock) bool {
		if len(b.Instrs) == 0 {
			return false
		}
		_, ok := b.Instrs[len(b.Instrs)-1].(*ssa.Return)
		return ok
	}
	if isRet(fb) {
		return true
	}
	var start []*ssa.BasicBlock
	for i, sb := range fb.Succs {
		if !cut[an.Edge{From: fb, Idx: i}] {
			start = append(start, sb)
		}
	}
	reach := an.ReachBlocks(start, cut, stop)
	for b := range reach {
		if !stop[b] && isRet(b) {
			return true
		}
	}
	return false
}

// ---- R6 ------------------------------------------------------------------------

// c14PerRecordCallback: fn is a closure handed to bbolt's (*Bucket).ForEach,
// which calls it once per stored record.
func c14PerRecordCallback(w *an.World, fn *ssa.Function) bool {
	par := fn.Parent()
	if par == nil {
		return false
	}
	for _, call := range an.Calls(par) {
		ci := w.Info(call)
		if ci.Static == nil || ci.Static.Name() != "ForEach" || ci.Recv == nil || ci.Recv.Obj().Name() != "Bucket" || !strings.HasSuffix(ci.PkgPath, "bbolt") {
			continue
		}
		for _, a := range call.Common().Args {
			if mc, ok := a.(*ssa.MakeClosure); ok && mc.Fn == fn {
				return true
			}
		}
	}
	return false
}

// c14Reexecuted: some path leads from just after `at` back to `at` without
// executing one of fresh (the points where a new target is allocated).
func c14Reexecuted(at ssa.Instruction, fresh []ssa.Instruction) bool {
	ab, ai := at.Block(), an.InstrIndex(at)
	stop := map[*ssa.BasicBlock]bool{}
	for _, f := range fresh {
		if f.Block() == ab {
			if an.InstrIndex(f) < ai {
				return false // re-allocated right before every execution
			}
			continue
		}
		stop[f.Block()] = true
	}
	reach := an.ReachBlocks(ab.Succs, nil, stop)
	return reach[ab] && !stop[ab]
}

// c14FreshTarget decides that the value json.Unmarshal decodes a stored record
// into is a new allocation for every decoded record. encoding/json leaves fields
// that are absent from the input (omitempty!) untouched, so a target that still
// holds the previous record makes a record reload with another swap's data.
func c14FreshTarget(c *an.Check, cons string, call ssa.CallInstruction, target ssa.Value) {
	w := c.W
	verdict, why := c14TargetVerdict(w, call, target, 0)
	pos := w.Pos(call.Pos())
	switch verdict {
	case "ok":
		c.OK("C14.R6", cons, pos, why)
	case "bad":
		c.Bad("C14.R6", cons, pos, why+": fields that are absent from a stored record (omitempty, older versions) keep the values of the record decoded before, so a swap reloads with another swap's data")
	default:
		c.Unknown("C14.R6", cons, pos, "cannot decide whether the decode target is a fresh value per record: "+why)
	}
}

func c14TargetVerdict(w *an.World, at ssa.CallInstruction, target ssa.Value, depth int) (string, string) {
	for {
		switch x := target.(type) {
		case *ssa.MakeInterface:
			target = x.X
			continue
		case *ssa.ChangeType:
			target = x.X
			continue
		}
		break
	}
	fn := at.Parent()
	isNew := func(v ssa.Value) (ssa.Instruction, bool) {
		switch x := v.(type) {
		case *ssa.Alloc:
			return x, true
		case *ssa.Call:
			// constructor: in-module static callee all of whose results #0 are allocations
			cal := x.Common().StaticCallee()
			if cal == nil || cal.Blocks == nil || !w.InModule(cal) {
				return nil, false
			}
			rets := an.Returns(cal)
			for _, r := range rets {
				if len(r.Results) == 0 {
					return nil, false
				}
				if _, ok := r.Results[0].(*ssa.Alloc); !ok {
					return nil, false
				}
			}
			return x, len(rets) > 0
		}
		return nil, false
	}
	if in, ok := isNew(target); ok {
		if in.Parent() != fn {
			return "unknown", "target allocated in another function"
		}
		if c14Reexecuted(at, []ssa.Instruction{in}) {
			return "bad", "the decode is executed again (loop) with the target allocated once, outside the iteration"
		}
		return "ok", "decodes into a value allocated for this decode"
	}
	switch x := target.(type) {
	case *ssa.Parameter:
		i := c14ParamIdx(fn, x)
		callers := c14CallersOf(w, fn)
		if depth >= 3 || i < 0 || len(callers) == 0 {
			return "unknown", "the target is a parameter of " + w.FuncName(fn) + " without resolvable production callers"
		}
		worst, wwhy := "ok", "every caller of "+w.FuncName(fn)+" passes a value allocated for the decode"
		for _, call := range callers {
			if i >= len(call.Common().Args) {
				continue
			}
			v, y := c14TargetVerdict(w, call, call.Common().Args[i], depth+1)
			if v == "bad" || (v == "unknown" && worst == "ok") {
				worst, wwhy = v, y+" (caller "+w.FuncName(call.Parent())+")"
			}
		}
		return worst, wwhy
	case *ssa.Phi:
		// a target merged at a loop head: carried over when the phi feeds itself
		seen := map[ssa.Value]bool{}
		var fresh []ssa.Instruction
		self, other := false, false
		var walk func(v ssa.Value, top bool)
		walk = func(v ssa.Value, top bool) {
			if p, ok := v.(*ssa.Phi); ok {
				if p == x && !top {
					self = true
					return
				}
				if seen[p] {
					return
				}
				seen[p] = true
				for _, e := range p.Edges {
					walk(e, false)
				}
				return
			}
			if in, ok := isNew(v); ok && in.Parent() == fn {
				fresh = append(fresh, in)
				return
			}
			other = true
		}
		walk(x, true)
		switch {
		case other:
			return "unknown", "the target is a merge of values that are not all local allocations"
		case self || c14Reexecuted(at, fresh):
			return "bad", "the same target value is carried from one loop iteration to the next (it is only sometimes re-allocated)"
		}
		return "ok", "every merged target is allocated for this decode"
	case *ssa.FreeVar:
		if c14PerRecordCallback(w, fn) {
			return "bad", "the per-record callback of Bucket.ForEach decodes every record into one value captured from the enclosing function"
		}
		return "unknown", "the target is captured from the enclosing function"
	case *ssa.UnOp:
		if x.Op != token.MUL {
			break
		}
		// loaded from a variable cell (local whose address is taken, or a captured variable)
		cell := x.X
		var via []ssa.Instruction
		opaqueStore := false
		if refs := cell.Referrers(); refs != nil {
			for _, r := range *refs {
				if st, ok := r.(*ssa.Store); ok && st.Addr == cell && st.Parent() == fn {
					if _, ok := isNew(st.Val); ok {
						via = append(via, st)
					} else {
						opaqueStore = true
					}
				}
			}
		}
		if opaqueStore {
			return "unknown", "the variable holding the target is assigned values that are not local allocations"
		}
		_, captured := cell.(*ssa.FreeVar)
		if an.MustPassInstr(at, via) && !c14Reexecuted(at, via) {
			return "ok", "the variable holding the target is re-allocated before every decode"
		}
		if captured {
			if c14PerRecordCallback(w, fn) {
				return "bad", "the per-record callback of Bucket.ForEach decodes into a variable of the enclosing function that is not re-allocated before every decode (the value of the previous record is reused)"
			}
			return "unknown", "the target lives in a variable captured from the enclosing function"
		}
		if _, isAlloc := cell.(*ssa.Alloc); isAlloc && len(via) > 0 && c14Reexecuted(at, via) && an.MustPassInstr(at, via) {
			return "bad", "the decode is executed again (loop) without re-allocating the variable that holds the target"
		}
		return "unknown", "the target is loaded from " + w.Term(cell)
	}
	return "unknown", "target of shape " + fmt.Sprintf("%T", target)
}
