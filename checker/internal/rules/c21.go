package rules

import (
	"fmt"
	"go/constant"
	"go/token"
	"go/types"
	"reflect"
	"sort"
	"strings"

	"golang.org/x/tools/go/ssa"

	"psv/internal/an"
)

func init() {
	Register(&Prop{
		ID:   "C21",
		Expl: "Decides from go/constant values, go/types struct tags and the SSA form: (R1) the constants of type messages.MessageType are exactly the nine protocol numbers 42069..42085 (odd, distinct), each bound to its protocol name; (R2) every type implementing swap.PeerMessage returns exactly one constant from MessageType(), the one the protocol table gives its struct, no two types share a number; in OnMessageReceived every json.Unmarshal target struct is decoded under `msgType == <that struct's number>` and each of the seven swap messages has an arm; MarshalPeerswapMessage returns json.Marshal(msg) together with int(msg.MessageType()) of the same msg; PeerswapCustomMessageType, evaluated on every table number and on neighbouring / even / out-of-range numbers, returns the number itself resp. the not-peerswap error, and parses and prints the type in base 16; (R3) the seven message structs have only exported fields with case-insensitively unique JSON names, scalar or paired-codec field types, and cover the field list of docs/peer-protocol.md; (R4) in OnMessageReceived every decoding / handler / service call is dominated by the pass edge of a size guard that rejects everything above 100 KiB, by the err==nil edge of the type parse, and every handler call additionally by the err==nil edge of the json.Unmarshal of its arm and by the arm's `msgType == c` test (so oversized, foreign and undecodable messages reach no handler); (R5) every SendMessage call of package swap sends a (payload, type) pair that comes from one MarshalPeerswapMessage call, directly or through the NextMessage/NextMessageType fields that are always stored together from one call, and the redundant messenger forwards its parameters unchanged; (R6) a decoded message pointer is dereferenced only after a nil test (payload `null`).",
		NotD: "Byte-exact encodings of arbitrary field values and value-level decode(encode(x)) == x; what the handlers do with a well-formed but semantically invalid message (C09/C11); the framing done by the Lightning node (CLN hex prefix slicing, LND custom message transport).",
		Run:  runC21,
	})
}

// The protocol table (docs/peer-protocol.md, "The types are in range
// 42069-42085"; poll/request_poll from the peersync extension).
var c21Proto = []struct {
	konst string
	num   int64
	wire  string
	typ   string   // struct in package swap ("" = no swap.PeerMessage struct)
	doc   []string // JSON field names of the protocol document
}{
	{"MESSAGETYPE_SWAPINREQUEST", 42069, "swap_in_request", "SwapInRequestMessage", []string{"protocol_version", "swap_id", "asset", "network", "scid", "amount", "pubkey"}},
	{"MESSAGETYPE_SWAPOUTREQUEST", 42071, "swap_out_request", "SwapOutRequestMessage", []string{"protocol_version", "swap_id", "asset", "network", "scid", "amount", "pubkey"}},
	{"MESSAGETYPE_SWAPINAGREEMENT", 42073, "swap_in_agreement", "SwapInAgreementMessage", []string{"protocol_version", "swap_id", "pubkey", "premium"}},
	{"MESSAGETYPE_SWAPOUTAGREEMENT", 42075, "swap_out_agreement", "SwapOutAgreementMessage", []string{"protocol_version", "swap_id", "pubkey", "payreq", "premium"}},
	{"MESSAGETYPE_OPENINGTXBROADCASTED", 42077, "opening_tx_broadcasted", "OpeningTxBroadcastedMessage", []string{"swap_id", "payreq", "tx_id", "script_out", "blinding_key"}},
	{"MESSAGETYPE_CANCELED", 42079, "cancel", "CancelMessage", []string{"swap_id", "message"}},
	{"MESSAGETYPE_COOPCLOSE", 42081, "coop_close", "CoopCloseMessage", []string{"swap_id", "message", "privkey"}},
	{"MESSAGETYPE_POLL", 42083, "poll", "", nil},
	{"MESSAGETYPE_REQUEST_POLL", 42085, "request_poll", "", nil},
}

const (
	c21FnMarshal   = "func:swap.MarshalPeerswapMessage"
	c21FnCustom    = "func:messages.PeerswapCustomMessageType"
	c21FnUnmarshal = "func:encoding/json.Unmarshal"
	c21IfSend      = "iface:swap.Messenger.SendMessage"
	c21MaxPayload  = 100 * 1024
)

func runC21(c *an.Check) {
	c.Rule("C21.R1", "the MessageType constants are exactly the protocol numbers 42069..42085, odd, distinct, each under its protocol name")
	c.Rule("C21.R2", "struct <-> number: MessageType() methods, the receive switch, MarshalPeerswapMessage and PeerswapCustomMessageType agree with the protocol table; type strings are base 16")
	c.Rule("C21.R3", "message structs: exported fields, unique JSON names (case-insensitive), scalar or paired-codec types, protocol field list covered")
	c.Rule("C21.R4", "OnMessageReceived: oversized (> 100 KiB), non-peerswap and undecodable messages reach no decoder / handler / service call")
	c.Rule("C21.R5", "every sent (payload, type) pair comes from one MarshalPeerswapMessage call")
	c.Rule("C21.R6", "a decoded message pointer is nil-tested before it is dereferenced (payload `null`)")
	w := c.W
	onMsg := w.Func("swap", "(*SwapService).OnMessageReceived")
	marshal := w.Func("swap", "MarshalPeerswapMessage")
	custom := w.Func("messages", "PeerswapCustomMessageType")
	toHex := w.Func("messages", "MessageTypeToHexString")
	for n, f := range map[string]*ssa.Function{"swap.(*SwapService).OnMessageReceived": onMsg, "swap.MarshalPeerswapMessage": marshal, "messages.PeerswapCustomMessageType": custom, "messages.MessageTypeToHexString": toHex} {
		if f == nil || f.Blocks == nil {
			c.Anchor("function %s does not resolve", n)
		}
	}
	mt := w.Named("messages", "MessageType")
	pm := w.Named("swap", "PeerMessage")
	if mt == nil || pm == nil {
		c.Anchor("messages.MessageType / swap.PeerMessage do not resolve")
	}
	if !ifaceMethodExists(w, c21IfSend) {
		c.Anchor("%s does not resolve", c21IfSend)
	}
	if len(c.Anchors) > 0 {
		return
	}
	byNum := map[int64]int{}
	for i, e := range c21Proto {
		byNum[e.num] = i
	}

	c21R1(c, mt, byNum)
	numOf := c21R2Types(c, pm, byNum)
	c21R2Switch(c, onMsg, numOf)
	c21R2Marshal(c, marshal)
	c21R2Custom(c, custom, toHex, byNum)
	c21R3(c)
	c21R4(c, onMsg, numOf)
	c21R5(c, marshal)
	c21R6(c, onMsg)
}

// ---- R1 ------------------------------------------------------------------------------

func c21R1(c *an.Check, mt *types.Named, byNum map[int64]int) {
	w := c.W
	scope := w.ByRel["messages"].Types.Scope()
	for _, e := range c21Proto {
		k, ok := scope.Lookup(e.konst).(*types.Const)
		cons := "messages." + e.konst
		if !ok {
			c.Anchor("constant messages.%s (%s, %d) does not resolve", e.konst, e.wire, e.num)
			continue
		}
		v, exact := constant.Int64Val(k.Val())
		c.Decide(exact && k.Val().Kind() == constant.Int && v == e.num && types.Identical(k.Type(), mt), "C21.R1", cons, w.Pos(k.Pos()),
			fmt.Sprintf("%s = %d", e.wire, e.num),
			fmt.Sprintf("%s has the value %s (type %s), the protocol number of %s is %d", e.konst, k.Val().ExactString(), k.Type(), e.wire, e.num))
	}
	// every constant of the type: in the table, odd, distinct
	seen := map[int64]string{}
	n := 0
	for _, name := range scope.Names() {
		k, ok := scope.Lookup(name).(*types.Const)
		if !ok || !types.Identical(k.Type(), mt) {
			continue
		}
		n++
		v, exact := constant.Int64Val(k.Val())
		cons := "messages." + name + " in protocol range"
		_, inTab := byNum[v]
		switch {
		case !exact:
			c.Bad("C21.R1", cons, w.Pos(k.Pos()), "not an integer constant")
		case seen[v] != "":
			c.Bad("C21.R1", cons, w.Pos(k.Pos()), fmt.Sprintf("%s and %s share the number %d", name, seen[v], v))
		case !inTab || v%2 == 0:
			c.Bad("C21.R1", cons, w.Pos(k.Pos()), fmt.Sprintf("%d is not one of the odd protocol numbers 42069..42085", v))
		default:
			c.OK("C21.R1", cons, w.Pos(k.Pos()), fmt.Sprintf("%d is odd, distinct and in the protocol table", v))
		}
		seen[v] = name
	}
	c.AtLeast("C21.R1", "constants of type messages.MessageType", n, 9)
}

// ---- R2 ------------------------------------------------------------------------------

// c21R2Types checks the MessageType() methods and returns struct -> number.
func c21R2Types(c *an.Check, pm *types.Named, byNum map[int64]int) map[*types.Named]int64 {
	w := c.W
	out := map[*types.Named]int64{}
	iface, _ := pm.Underlying().(*types.Interface)
	if iface == nil {
		c.Anchor("swap.PeerMessage is not an interface")
		return out
	}
	want := map[string]int64{}
	for _, e := range c21Proto {
		if e.typ != "" {
			want[e.typ] = e.num
		}
	}
	owner := map[int64]string{}
	found := map[string]bool{}
	var rels []string
	for r := range w.ByRel {
		if !an.IsTestSupport(r) {
			rels = append(rels, r)
		}
	}
	sort.Strings(rels)
	for _, rel := range rels {
		scope := w.ByRel[rel].Types.Scope()
		for _, name := range scope.Names() {
			tn, ok := scope.Lookup(name).(*types.TypeName)
			if !ok {
				continue
			}
			nt, ok := tn.Type().(*types.Named)
			if !ok || types.IsInterface(nt) {
				continue
			}
			if !types.Implements(nt, iface) && !types.Implements(types.NewPointer(nt), iface) {
				continue
			}
			cons := rel + "." + name + ".MessageType()"
			m := c21DeclaredMethod(w, nt, "MessageType")
			if m == nil || m.Blocks == nil {
				c.Unknown("C21.R2", cons, w.Pos(tn.Pos()), "method body not found")
				continue
			}
			vals := map[int64]bool{}
			okConst := true
			for _, r := range an.Returns(m) {
				v, isK := an.ConstInt(r.Results[0])
				if !isK {
					okConst = false
				}
				vals[v] = true
			}
			if !okConst || len(vals) != 1 {
				c.Bad("C21.R2", cons, w.Pos(m.Pos()), "MessageType() does not return one constant: the type number of an encoded message depends on run-time state")
				continue
			}
			var v int64
			for k := range vals {
				v = k
			}
			out[nt] = v
			exp, inTab := want[name]
			_, known := byNum[v]
			switch {
			case rel == "swap" && inTab && v == exp:
				found[name] = true
				c.OK("C21.R2", cons, w.Pos(m.Pos()), fmt.Sprintf("returns %d (%s)", v, c21Proto[byNum[v]].wire))
			case rel == "swap" && inTab:
				found[name] = true
				c.Bad("C21.R2", cons, w.Pos(m.Pos()), fmt.Sprintf("returns %d, but the protocol number of this message is %d: the peer decodes the payload as another message", v, exp))
			case !known:
				c.Bad("C21.R2", cons, w.Pos(m.Pos()), fmt.Sprintf("returns %d, which is not a protocol number", v))
			default:
				c.Unknown("C21.R2", cons, w.Pos(m.Pos()), fmt.Sprintf("a PeerMessage type that the frozen protocol table does not list (returns %d)", v))
			}
			if o := owner[v]; o != "" {
				c.Bad("C21.R2", cons, w.Pos(m.Pos()), fmt.Sprintf("%s and %s are both sent as type %d", name, o, v))
			}
			owner[v] = name
		}
	}
	for t := range want {
		if !found[t] {
			c.Anchor("message struct swap.%s does not resolve as a swap.PeerMessage", t)
		}
	}
	c.AtLeast("C21.R2", "types implementing swap.PeerMessage", len(out), 7)
	return out
}

// c21UnmarshalTarget: the struct type a json.Unmarshal call decodes into and
// the local slot that receives it.
func c21UnmarshalTarget(call ssa.CallInstruction) (*types.Named, *ssa.Alloc, bool) {
	args := call.Common().Args
	if len(args) != 2 {
		return nil, nil, false
	}
	v := args[1]
	for {
		switch x := v.(type) {
		case *ssa.MakeInterface:
			v = x.X
			continue
		case *ssa.ChangeInterface:
			v = x.X
			continue
		}
		break
	}
	al, _ := v.(*ssa.Alloc)
	nt := an.NamedOf(v.Type())
	if nt == nil {
		return nil, al, false
	}
	if _, isStruct := nt.Underlying().(*types.Struct); !isStruct {
		return nil, al, false
	}
	return nt, al, true
}

// c21ArmConst: the constant c of a dominating `msgType == c` fact, where
// msgType is result #0 of PeerswapCustomMessageType.
func c21ArmConsts(w *an.World, at ssa.Instruction) []int64 {
	var out []int64
	for _, f := range w.FactsDominating(at) {
		if f.NonNum || f.Rel != "==" || len(f.Terms) != 1 {
			continue
		}
		for k, coef := range f.Terms {
			if !strings.HasSuffix(k, "call:"+c21FnCustom+"#0") && k != "call:"+c21FnCustom+"#0" {
				continue
			}
			switch coef {
			case 1:
				out = append(out, -f.Const)
			case -1:
				out = append(out, f.Const)
			}
		}
	}
	return out
}

func c21R2Switch(c *an.Check, onMsg *ssa.Function, numOf map[*types.Named]int64) {
	w := c.W
	decoded := map[string]bool{}
	n := 0
	for _, u := range callsNamed(w, onMsg, c21FnUnmarshal) {
		nt, _, ok := c21UnmarshalTarget(u)
		if !ok {
			c.Unknown("C21.R2", "OnMessageReceived decode", w.Pos(u.Pos()), "json.Unmarshal target is not a (pointer to a) named struct")
			continue
		}
		n++
		cons := "OnMessageReceived arm decoding " + nt.Obj().Name()
		num, isMsg := numOf[nt]
		arms := c21ArmConsts(w, u)
		switch {
		case !isMsg:
			c.Bad("C21.R2", cons, w.Pos(u.Pos()), "the decoded struct is not a swap.PeerMessage: the writer's table has no number for it")
		case len(arms) == 0:
			c.Bad("C21.R2", cons, w.Pos(u.Pos()), "the payload is decoded without a dominating `msgType == <constant>` test. Facts that do hold: "+an.DescribeFacts(w.FactsDominating(u)))
		case len(arms) > 1 || arms[0] != num:
			c.Bad("C21.R2", cons, w.Pos(u.Pos()), fmt.Sprintf("a payload received with type %v is decoded as %s, which the sender marks with type %d: reader and writer disagree", arms, nt.Obj().Name(), num))
		default:
			decoded[nt.Obj().Name()] = true
			c.OK("C21.R2", cons, w.Pos(u.Pos()), fmt.Sprintf("decoded under msgType == %d", num))
		}
	}
	c.AtLeast("C21.R2", "json.Unmarshal arms in OnMessageReceived", n, 7)
	for _, e := range c21Proto {
		if e.typ != "" && !decoded[e.typ] {
			c.Bad("C21.R2", "OnMessageReceived arm decoding "+e.typ, w.Pos(onMsg.Pos()), fmt.Sprintf("no arm decodes %s (%d) into %s under the right type test: the message is dropped or mis-decoded", e.wire, e.num, e.typ))
		}
	}
}

func c21StripConv(v ssa.Value) ssa.Value {
	for {
		switch x := v.(type) {
		case *ssa.ChangeType:
			v = x.X
		case *ssa.Convert:
			v = x.X
		case *ssa.MakeInterface:
			v = x.X
		case *ssa.ChangeInterface:
			v = x.X
		default:
			return v
		}
	}
}

func c21R2Marshal(c *an.Check, fn *ssa.Function) {
	w := c.W
	if len(fn.Params) != 1 || fn.Signature.Results().Len() != 3 {
		c.Unknown("C21.R2", "MarshalPeerswapMessage", w.Pos(fn.Pos()), "unexpected signature")
		return
	}
	msg := ssa.Value(fn.Params[0])
	n := 0
	for _, r := range an.Returns(fn) {
		if !an.IsNilConst(r.Results[2]) {
			continue // error return
		}
		n++
		good := true
		var why []string
		// payload
		ex, _ := r.Results[0].(*ssa.Extract)
		var jm *ssa.Call
		if ex != nil && ex.Index == 0 {
			jm, _ = ex.Tuple.(*ssa.Call)
		}
		if jm == nil || w.Info(jm).Name != "func:encoding/json.Marshal" || c21StripConv(jm.Call.Args[0]) != msg {
			good = false
			why = append(why, "the payload is not json.Marshal(msg): "+w.Term(r.Results[0]))
		} else if okE, _ := an.OkEdges(jm); len(okE) == 0 || !an.EdgesDominate(okE, r.Block()) {
			good = false
			why = append(why, "the payload is returned without the json.Marshal error being nil")
		}
		// type
		tc, _ := c21StripConv(r.Results[1]).(*ssa.Call)
		if tc == nil || !tc.Call.IsInvoke() || tc.Call.Method.Name() != "MessageType" || tc.Call.Value != msg {
			good = false
			why = append(why, "the type is not msg.MessageType() of the marshalled message: "+w.Term(r.Results[1]))
		}
		c.Decide(good, "C21.R2", "MarshalPeerswapMessage", w.Pos(r.Pos()), "returns json.Marshal(msg) with int(msg.MessageType())",
			"payload and type number are not derived from the same message: "+strings.Join(why, "; "))
	}
	c.AtLeast("C21.R2", "success returns of MarshalPeerswapMessage", n, 1)
}

// c21Walk enumerates acyclic paths (see c30Walk; duplicated to keep the files independent).
func c21Walk(fn *ssa.Function, decide func(i *ssa.If) (t, f, ok bool), ret func(r *ssa.Return)) (ok bool, why string) {
	ok = true
	n := 0
	var rec func(b *ssa.BasicBlock, path []*ssa.BasicBlock)
	rec = func(b *ssa.BasicBlock, path []*ssa.BasicBlock) {
		if !ok {
			return
		}
		for _, x := range path {
			if x == b {
				ok, why = false, "a loop lies on an explored path"
				return
			}
		}
		path = append(path, b)
		switch x := b.Instrs[len(b.Instrs)-1].(type) {
		case *ssa.Return:
			n++
			if n > 256 {
				ok, why = false, "too many paths"
				return
			}
			ret(x)
		case *ssa.Jump:
			rec(b.Succs[0], path)
		case *ssa.If:
			t, f, dok := decide(x)
			if !dok {
				ok, why = false, "a branch condition could not be interpreted at "+fmt.Sprint(x.Cond)
				return
			}
			if t {
				rec(b.Succs[0], path)
			}
			if f {
				rec(b.Succs[1], path)
			}
		case *ssa.Panic:
		default:
			ok, why = false, fmt.Sprintf("unsupported terminator %T", x)
		}
	}
	rec(fn.Blocks[0], nil)
	return
}

func c21R2Custom(c *an.Check, fn, toHex *ssa.Function, byNum map[int64]int) {
	w := c.W
	pos := w.Pos(fn.Pos())
	// the parse call
	var parse *ssa.Call
	for _, call := range an.Calls(fn) {
		if cc, ok := call.(*ssa.Call); ok && w.Info(call).Name == "func:strconv.ParseInt" {
			if parse != nil {
				c.Unknown("C21.R2", "PeerswapCustomMessageType", pos, "more than one ParseInt call")
				return
			}
			parse = cc
		}
	}
	if parse == nil || len(fn.Params) != 1 {
		c.Unknown("C21.R2", "PeerswapCustomMessageType", pos, "the type string is not parsed with strconv.ParseInt")
		return
	}
	base, _ := an.ConstInt(parse.Call.Args[1])
	c.Decide(parse.Call.Args[0] == ssa.Value(fn.Params[0]) && base == 16, "C21.R2", "PeerswapCustomMessageType parse base", w.Pos(parse.Pos()),
		"the type string is parsed as base 16", fmt.Sprintf("the type string is parsed with base %d (argument %s): the hexadecimal type prefix of a custom message is misread", base, w.Term(parse.Call.Args[0])))
	var parsed, perr ssa.Value
	if vs := an.ResultValues(parse, 0); len(vs) == 1 {
		parsed = vs[0]
	}
	if vs := an.ResultValues(parse, 1); len(vs) == 1 {
		perr = vs[0]
	}
	if parsed == nil || perr == nil {
		c.Unknown("C21.R2", "PeerswapCustomMessageType", pos, "ParseInt results are not both used")
		return
	}
	// evaluate on sample numbers
	samples := map[int64]bool{0: true, 1: true, 42067: true, 42068: true, 42086: true, 42087: true, 65535: true}
	for _, e := range c21Proto {
		samples[e.num], samples[e.num+1], samples[e.num-1] = true, true, true
	}
	var keys []int64
	for k := range samples {
		keys = append(keys, k)
	}
	sort.Slice(keys, func(i, j int) bool { return keys[i] < keys[j] })
	var wrong []string
	unknown := ""
	for _, v := range keys {
		type res struct {
			val    int64
			isK    bool
			nilErr bool
			errSrc []string
		}
		var rs []res
		decide := func(i *ssa.If) (bool, bool, bool) {
			cond := i.Cond
			neg := false
			for {
				u, isU := cond.(*ssa.UnOp)
				if !isU || u.Op != token.NOT {
					break
				}
				neg, cond = !neg, u.X
			}
			bo, isB := cond.(*ssa.BinOp)
			if !isB {
				return false, false, false
			}
			var holds bool
			switch {
			case (bo.X == perr && an.IsNilConst(bo.Y)) || (bo.Y == perr && an.IsNilConst(bo.X)):
				holds = bo.Op == token.EQL // the parse succeeded
			default:
				val := func(x ssa.Value) (int64, bool) {
					if k, ok := an.ConstInt(x); ok {
						return k, true
					}
					if c21StripConv(x) == parsed {
						return v, true
					}
					return 0, false
				}
				a, ok1 := val(bo.X)
				b, ok2 := val(bo.Y)
				if !ok1 || !ok2 {
					return false, false, false
				}
				switch bo.Op {
				case token.EQL:
					holds = a == b
				case token.NEQ:
					holds = a != b
				case token.LSS:
					holds = a < b
				case token.LEQ:
					holds = a <= b
				case token.GTR:
					holds = a > b
				case token.GEQ:
					holds = a >= b
				default:
					return false, false, false
				}
			}
			if neg {
				holds = !holds
			}
			return holds, !holds, true
		}
		ret := func(r *ssa.Return) {
			k, isK := an.ConstInt(r.Results[0])
			if !isK && c21StripConv(r.Results[0]) == parsed {
				k, isK = v, true
			}
			rr := res{val: k, isK: isK, nilErr: an.IsNilConst(r.Results[1])}
			if !rr.nilErr {
				rr.errSrc = w.Sources(r.Results[1], an.FlowOpts{}).Names()
			}
			rs = append(rs, rr)
		}
		okW, why := c21Walk(fn, decide, ret)
		if !okW {
			unknown = why
			break
		}
		_, isProto := byNum[v]
		if len(rs) != 1 {
			wrong = append(wrong, fmt.Sprintf("%d: %d outcomes", v, len(rs)))
			continue
		}
		r := rs[0]
		switch {
		case isProto && !(r.nilErr && r.isK && r.val == v):
			wrong = append(wrong, fmt.Sprintf("%d (%s) is answered with (%d, nil-error=%v)", v, c21Proto[byNum[v]].wire, r.val, r.nilErr))
		case !isProto && r.nilErr:
			wrong = append(wrong, fmt.Sprintf("%d is not a protocol number but is accepted as %d", v, r.val))
		case !isProto && !c21HasSrc(r.errSrc, "NewErrNotPeerswapCustomMessage") && !c21HasSrc(r.errSrc, "ErrNotPeerswapCustomMessage"):
			wrong = append(wrong, fmt.Sprintf("%d is rejected with %v instead of ErrNotPeerswapCustomMessage (OnMessageReceived then reports an error instead of ignoring the message)", v, r.errSrc))
		}
	}
	switch {
	case unknown != "":
		c.Unknown("C21.R2", "PeerswapCustomMessageType table", pos, "cannot evaluate: "+unknown)
	case len(wrong) > 0:
		if len(wrong) > 6 {
			wrong = append(wrong[:6], fmt.Sprintf("… %d more", len(wrong)-6))
		}
		c.Bad("C21.R2", "PeerswapCustomMessageType table", pos, "the reader's type table deviates from the protocol table: "+strings.Join(wrong, "; "))
	default:
		c.OK("C21.R2", "PeerswapCustomMessageType table", pos, fmt.Sprintf("%d numbers evaluated: the nine protocol numbers map to themselves, all others to ErrNotPeerswapCustomMessage", len(keys)))
	}
	c.AtLeast("C21.R2", "evaluated type numbers", len(keys), 20)

	// printing side
	good := false
	for _, r := range an.Returns(toHex) {
		if cc, ok := r.Results[0].(*ssa.Call); ok && w.Info(cc).Name == "func:strconv.FormatInt" && len(toHex.Params) == 1 {
			b, _ := an.ConstInt(cc.Call.Args[1])
			good = b == 16 && c21StripConv(cc.Call.Args[0]) == ssa.Value(toHex.Params[0])
		}
	}
	c.Decide(good, "C21.R2", "MessageTypeToHexString base", w.Pos(toHex.Pos()), "the type is printed as base 16 of the number",
		"MessageTypeToHexString does not return strconv.FormatInt(int64(type), 16): sender and parser use different encodings of the type")
}

func c21HasSrc(names []string, sub string) bool {
	for _, n := range names {
		if strings.Contains(n, sub) {
			return true
		}
	}
	return false
}

// ---- R3 ------------------------------------------------------------------------------

func c21JSONName(f *types.Var, tag string) (name string, skipped bool, tagged bool) {
	v, ok := reflect.StructTag(tag).Lookup("json")
	if !ok {
		return f.Name(), false, false
	}
	if v == "-" {
		return "", true, true
	}
	n := strings.Split(v, ",")[0]
	if n == "" {
		return f.Name(), false, false
	}
	return n, false, true
}

func c21R3(c *an.Check) {
	w := c.W
	nStructs := 0
	for _, e := range c21Proto {
		if e.typ == "" {
			continue
		}
		nt := w.Named("swap", e.typ)
		if nt == nil {
			c.Anchor("struct swap.%s does not resolve", e.typ)
			continue
		}
		st, ok := nt.Underlying().(*types.Struct)
		if !ok {
			c.Unknown("C21.R3", "swap."+e.typ, w.Pos(nt.Obj().Pos()), "not a struct")
			continue
		}
		nStructs++
		lower := map[string]string{}
		for i := 0; i < st.NumFields(); i++ {
			f := st.Field(i)
			cons := "swap." + e.typ + "." + f.Name()
			pos := w.Pos(f.Pos())
			name, skipped, tagged := c21JSONName(f, st.Tag(i))
			switch {
			case f.Embedded():
				c.Unknown("C21.R3", cons, pos, "embedded field: JSON promotion rules are not modelled")
				continue
			case !f.Exported():
				c.Bad("C21.R3", cons, pos, "unexported field: encoding/json drops it, the decoded message differs from the sent one")
				continue
			case skipped:
				c.Bad("C21.R3", cons, pos, "field tagged json:\"-\": it is dropped on the wire, the decoded message differs from the sent one")
				continue
			}
			if prev, dup := lower[strings.ToLower(name)]; dup {
				c.Bad("C21.R3", cons, pos, fmt.Sprintf("JSON name %q collides (case-insensitively, as Go's decoder matches) with field %s: one of the two values is lost when decoding", name, prev))
				continue
			}
			lower[strings.ToLower(name)] = f.Name()
			if why := c21FieldCodec(w, f.Type()); why != "" {
				c.Unknown("C21.R3", cons, pos, why)
				continue
			}
			c.OK("C21.R3", cons, pos, "encoded as "+name)
			if !tagged {
				c.Note("C21.R3", cons+" untagged", pos, fmt.Sprintf("no json tag: encoded as %q; Go peers decode it (case-insensitive match), a case-sensitive implementation of the protocol would not", name))
			}
		}
		// protocol document coverage
		var missing []string
		for _, d := range e.doc {
			if lower[strings.ToLower(d)] == "" {
				missing = append(missing, d)
			}
		}
		c.Decide(len(missing) == 0, "C21.R3", "swap."+e.typ+" protocol fields", w.Pos(nt.Obj().Pos()),
			fmt.Sprintf("all %d fields of %s in docs/peer-protocol.md have a JSON name", len(e.doc), e.wire),
			fmt.Sprintf("the protocol fields %v of %s have no field with that JSON name: a peer's value is silently dropped and our message lacks it", missing, e.wire))
	}
	c.AtLeast("C21.R3", "message structs", nStructs, 7)
}

// c21FieldCodec returns "" when values of the type round-trip through
// encoding/json by construction: basic scalars, or a named type (or pointer to
// one) that declares both MarshalJSON and UnmarshalJSON.
func c21FieldCodec(w *an.World, t types.Type) string {
	if b, ok := t.Underlying().(*types.Basic); ok {
		if b.Info()&(types.IsInteger|types.IsString|types.IsBoolean) != 0 {
			return ""
		}
		return "field of basic type " + b.Name() + ": float / complex values are not claimed to round-trip"
	}
	nt := an.NamedOf(t)
	if nt == nil {
		return "field type " + t.String() + " is not modelled"
	}
	has := func(m string) bool {
		for _, tt := range []types.Type{nt, types.NewPointer(nt)} {
			ms := types.NewMethodSet(tt)
			for i := 0; i < ms.Len(); i++ {
				if ms.At(i).Obj().Name() == m {
					return true
				}
			}
		}
		return false
	}
	mj, uj := has("MarshalJSON"), has("UnmarshalJSON")
	switch {
	case mj && uj:
		return ""
	case mj != uj:
		return "type " + nt.Obj().Name() + " declares only one of MarshalJSON / UnmarshalJSON"
	}
	return "field type " + t.String() + " is not modelled"
}

// ---- R4 ------------------------------------------------------------------------------

// c21Effectful: calls of OnMessageReceived that decode, consult or change
// state: json.Unmarshal, in-module static calls (other than the type parser and
// pure error constructors) and interface / dynamic calls.
func c21Effectful(w *an.World, fn *ssa.Function) []ssa.CallInstruction {
	var out []ssa.CallInstruction
	for _, call := range an.Calls(fn) {
		ci := w.Info(call)
		switch {
		case ci.Name == c21FnUnmarshal:
			out = append(out, call)
		case ci.Name == c21FnCustom:
		case strings.HasPrefix(ci.Name, "builtin:"):
		case ci.Static != nil && !w.InModule(ci.Static):
			// library helpers (errors.New, errors.Is, fmt.*)
		default:
			out = append(out, call)
		}
	}
	return out
}

func c21R4(c *an.Check, fn *ssa.Function, numOf map[*types.Named]int64) {
	w := c.W
	pos := w.Pos(fn.Pos())
	// payload parameter: the []byte one
	pi := -1
	for i, p := range fn.Params {
		if s, ok := p.Type().Underlying().(*types.Slice); ok {
			if b, ok := s.Elem().Underlying().(*types.Basic); ok && b.Kind() == types.Byte {
				if pi >= 0 {
					c.Unknown("C21.R4", "OnMessageReceived size guard", pos, "more than one []byte parameter")
					return
				}
				pi = i
			}
		}
	}
	if pi < 0 {
		c.Unknown("C21.R4", "OnMessageReceived size guard", pos, "no []byte payload parameter")
		return
	}
	term := fmt.Sprintf("len(param#%d)", pi)
	// size guard: an edge with fact len(payload) - K > 0 (K <= 102400) or >= (K <= 102401)
	var pass *an.Edge
	var limit int64
	for _, f := range w.Facts(fn) {
		if f.NonNum || len(f.Terms) != 1 || f.Terms[term] != 1 {
			continue
		}
		k := -f.Const
		rejects := (f.Rel == ">" && k <= c21MaxPayload) || (f.Rel == ">=" && k <= c21MaxPayload+1)
		if !rejects || k < 1 {
			continue
		}
		e := an.Edge{From: f.Edge.From, Idx: 1 - f.Edge.Idx}
		pass, limit = &e, k
		if f.Rel == ">=" {
			limit = k - 1
		}
		// the rejecting edge must not fall through into the handling code
		rej := an.ReachBlocks([]*ssa.BasicBlock{f.Edge.To()}, nil, nil)
		if rej[e.To()] {
			pass = nil
			continue
		}
		break
	}
	if pass == nil {
		c.Bad("C21.R4", "OnMessageReceived size guard", pos, fmt.Sprintf("no test of len(payload) rejects every payload above %d bytes (100 KiB). Tests in the function: %s", c21MaxPayload, an.DescribeFacts(w.Facts(fn))))
	} else {
		c.OK("C21.R4", "OnMessageReceived size guard", w.Pos(pass.From.Instrs[len(pass.From.Instrs)-1].(*ssa.If).Cond.Pos()), fmt.Sprintf("payloads longer than %d bytes take the rejecting edge", limit))
	}
	// type parse
	var okParse []an.Edge
	parses := callsNamed(w, fn, c21FnCustom)
	if len(parses) == 1 {
		if pc, ok := parses[0].(*ssa.Call); ok {
			okParse, _ = an.OkEdges(pc)
		}
	}
	if len(okParse) == 0 {
		c.Bad("C21.R4", "OnMessageReceived type guard", pos, "the result of PeerswapCustomMessageType is not tested (or it is not called exactly once): non-peerswap types are not filtered")
	} else {
		c.OK("C21.R4", "OnMessageReceived type guard", w.Pos(parses[0].Pos()), "the message type is parsed once and its error tested")
	}
	// unmarshal calls with their ok edges and number
	type arm struct {
		call *ssa.Call
		ok   []an.Edge
		num  int64
		has  bool
	}
	var arms []arm
	for _, u := range callsNamed(w, fn, c21FnUnmarshal) {
		uc, isCall := u.(*ssa.Call)
		if !isCall {
			continue
		}
		okE, _ := an.OkEdges(uc)
		a := arm{call: uc, ok: okE}
		if nt, _, ok := c21UnmarshalTarget(u); ok {
			a.num, a.has = numOf[nt]
		}
		arms = append(arms, a)
	}
	eff := c21Effectful(w, fn)
	c.AtLeast("C21.R4", "decoding / handler / service calls in OnMessageReceived", len(eff), 20)
	seen := map[string]int{}
	for _, call := range eff {
		ci := w.Info(call)
		name := strings.TrimPrefix(strings.TrimPrefix(ci.Name, "func:"), "iface:")
		isUnm := ci.Name == c21FnUnmarshal
		armNums := c21ArmConsts(w, call)
		cons := "OnMessageReceived call " + name
		if len(armNums) == 1 {
			cons += fmt.Sprintf(" [arm %d]", armNums[0])
		}
		seen[cons]++
		if seen[cons] > 1 {
			cons += fmt.Sprintf(" #%d", seen[cons])
		}
		var missing []string
		if pass != nil && !an.EdgeDominates(*pass, call.Block()) {
			missing = append(missing, "not behind the size guard: an oversized payload reaches it")
		}
		if len(okParse) > 0 && !an.EdgesDominate(okParse, call.Block()) {
			missing = append(missing, "not behind the err==nil edge of PeerswapCustomMessageType: a non-peerswap type reaches it")
		}
		if !isUnm {
			if len(armNums) != 1 {
				missing = append(missing, "not inside exactly one `msgType == c` arm: it runs for unknown message types too")
			} else {
				okArm := false
				for _, a := range arms {
					if a.has && a.num == armNums[0] && len(a.ok) > 0 && an.EdgesDominate(a.ok, call.Block()) {
						okArm = true
					}
				}
				if !okArm {
					missing = append(missing, "not behind the err==nil edge of the json.Unmarshal of its arm: an undecodable payload reaches it")
				}
			}
		}
		c.Decide(len(missing) == 0, "C21.R4", cons, w.Pos(call.Pos()), "reached only by a well-sized peerswap message that decoded",
			strings.Join(missing, "; "))
	}
}

// ---- R5 ------------------------------------------------------------------------------

// c21Pair classifies a (payload, type) argument pair.
func c21Pair(w *an.World, payload, typ ssa.Value) (ok bool, why string) {
	p, t := c21StripConv(payload), c21StripConv(typ)
	// both from one MarshalPeerswapMessage call
	if pe, isE := p.(*ssa.Extract); isE {
		te, isT := t.(*ssa.Extract)
		if !isT {
			return false, "the payload comes from a call but the type does not (" + w.Term(t) + ")"
		}
		pc, _ := pe.Tuple.(*ssa.Call)
		if pc == nil || w.Info(pc).Name != c21FnMarshal || te.Tuple != pe.Tuple {
			return false, "payload and type are not results of one MarshalPeerswapMessage call"
		}
		if pe.Index != 0 || te.Index != 1 {
			return false, fmt.Sprintf("results #%d/#%d of MarshalPeerswapMessage are passed as payload/type", pe.Index, te.Index)
		}
		return true, ""
	}
	// both loaded from the NextMessage / NextMessageType fields of one object
	pf, pb := c21FieldLoad(p)
	tf, tb := c21FieldLoad(t)
	if pf == "SwapData.NextMessage" && tf == "SwapData.NextMessageType" {
		if pb != tb {
			return false, "NextMessage and NextMessageType are read from different swaps"
		}
		return true, ""
	}
	return false, "payload is " + w.Term(p) + ", type is " + w.Term(t)
}

func c21FieldLoad(v ssa.Value) (field string, base ssa.Value) {
	u, ok := v.(*ssa.UnOp)
	if !ok || u.Op != token.MUL {
		return "", nil
	}
	fa, ok := u.X.(*ssa.FieldAddr)
	if !ok {
		return "", nil
	}
	return an.FieldName(fa.X.Type(), fa.Field), fa.X
}

func c21R5(c *an.Check, marshal *ssa.Function) {
	w := c.W
	// (a) send sites in package swap
	n := 0
	seen := map[string]int{}
	for _, fn := range prodFuncs(w) {
		if w.FnRel(fn) != "swap" {
			continue
		}
		for _, call := range an.Calls(fn) {
			ci := w.Info(call)
			isSend := ci.Name == c21IfSend || (ci.Method == "SendMessage" && (ci.Static != nil || ci.Iface != nil))
			if !isSend {
				continue
			}
			args := call.Common().Args
			if ci.Static != nil && len(args) == 4 {
				args = args[1:] // receiver
			}
			if len(args) != 3 {
				continue
			}
			n++
			cons := w.FuncName(fn) + " SendMessage"
			seen[cons]++
			if seen[cons] > 1 {
				cons += fmt.Sprintf(" #%d", seen[cons])
			}
			ok, why := c21Pair(w, args[1], args[2])
			c.Decide(ok, "C21.R5", cons, w.Pos(call.Pos()), "payload and type come from one MarshalPeerswapMessage call",
				"a payload is sent with a type number that is not the one of the marshalled message: "+why)
		}
	}
	c.AtLeast("C21.R5", "SendMessage call sites in package swap", n, 14)

	// (b) the stored pair
	nSt := 0
	for _, st := range w.FieldWriters("SwapData.NextMessageType") {
		fn := st.Parent()
		if an.IsTestSupport(w.FnRel(fn)) {
			continue
		}
		nSt++
		cons := w.FuncName(fn) + " store NextMessageType"
		fa := st.Addr.(*ssa.FieldAddr)
		te, _ := c21StripConv(st.Val).(*ssa.Extract)
		var mc *ssa.Call
		if te != nil && te.Index == 1 {
			mc, _ = te.Tuple.(*ssa.Call)
		}
		if mc == nil || w.Info(mc).Name != c21FnMarshal {
			c.Bad("C21.R5", cons, w.Pos(st.Pos()), "NextMessageType is not result #1 of MarshalPeerswapMessage: "+w.Term(st.Val))
			continue
		}
		paired := false
		for _, ps := range w.FieldWriters("SwapData.NextMessage") {
			if ps.Parent() != fn {
				continue
			}
			pe, _ := c21StripConv(ps.Val).(*ssa.Extract)
			if pe != nil && pe.Index == 0 && pe.Tuple == ssa.Value(mc) && ps.Addr.(*ssa.FieldAddr).X == fa.X {
				paired = true
			}
		}
		c.Decide(paired, "C21.R5", cons, w.Pos(st.Pos()), "stored together with NextMessage from the same MarshalPeerswapMessage call",
			"NextMessageType is stored without NextMessage from the same MarshalPeerswapMessage call on the same swap: a later SendMessage pairs the payload with another message's number")
	}
	c.AtLeast("C21.R5", "stores to SwapData.NextMessageType", nSt, 5)
	// every production store to NextMessage has its type stored too
	for _, ps := range w.FieldWriters("SwapData.NextMessage") {
		fn := ps.Parent()
		if an.IsTestSupport(w.FnRel(fn)) {
			continue
		}
		cons := w.FuncName(fn) + " store NextMessage"
		pe, _ := c21StripConv(ps.Val).(*ssa.Extract)
		paired := false
		if pe != nil && pe.Index == 0 {
			for _, ts := range w.FieldWriters("SwapData.NextMessageType") {
				te, _ := c21StripConv(ts.Val).(*ssa.Extract)
				if ts.Parent() == fn && te != nil && te.Index == 1 && te.Tuple == pe.Tuple && ts.Addr.(*ssa.FieldAddr).X == ps.Addr.(*ssa.FieldAddr).X {
					paired = true
				}
			}
		}
		if an.IsNilConst(ps.Val) {
			paired = true // clearing the slot
		}
		c.Decide(paired, "C21.R5", cons, w.Pos(ps.Pos()), "stored together with NextMessageType from the same MarshalPeerswapMessage call",
			"NextMessage is replaced without the matching NextMessageType: the new payload would be sent with the previous message's number")
	}

	// (c) forwarding messengers in package messages pass their parameters through
	nFw := 0
	for _, fn := range prodFuncs(w) {
		if w.FnRel(fn) != "messages" {
			continue
		}
		top := an.EnclosingTop(fn)
		if top.Name() != "SendMessage" || len(top.Params) != 4 {
			continue
		}
		for _, call := range an.Calls(fn) {
			ci := w.Info(call)
			if ci.Method != "SendMessage" || !call.Common().IsInvoke() || len(call.Common().Args) != 3 {
				continue
			}
			nFw++
			good := true
			for i, a := range call.Common().Args {
				if c21ParamOrigin(a) != ssa.Value(top.Params[i+1]) {
					good = false
				}
			}
			c.Decide(good, "C21.R5", w.FuncName(fn)+" forward SendMessage", w.Pos(call.Pos()), "the redundant messenger forwards (peer, payload, type) unchanged",
				"the redundant messenger does not forward its (peer, payload, type) parameters unchanged")
		}
	}
	c.AtLeast("C21.R5", "forwarding SendMessage calls in package messages", nFw, 2)
}

// c21ParamOrigin resolves a value to the parameter it is (directly or as a
// captured free variable of a closure).
func c21ParamOrigin(v ssa.Value) ssa.Value {
	for depth := 0; depth < 4; depth++ {
		switch x := v.(type) {
		case *ssa.Parameter:
			return x
		case *ssa.FreeVar:
			fn := x.Parent()
			idx := -1
			for i, fv := range fn.FreeVars {
				if fv == x {
					idx = i
				}
			}
			par := fn.Parent()
			if par == nil || idx < 0 {
				return nil
			}
			var bound ssa.Value
			for _, b := range par.Blocks {
				for _, in := range b.Instrs {
					if mc, ok := in.(*ssa.MakeClosure); ok && mc.Fn == fn && idx < len(mc.Bindings) {
						bound = mc.Bindings[idx]
					}
				}
			}
			if bound == nil {
				return nil
			}
			v = bound
		case *ssa.UnOp:
			// captured by reference: *alloc whose only store is the parameter
			if x.Op != token.MUL {
				return nil
			}
			switch a := x.X.(type) {
			case *ssa.FreeVar:
				v = a
				// the free variable is the address: resolve to the alloc, then its store
				r := c21ParamOrigin(a)
				if al, ok := r.(*ssa.Alloc); ok {
					return c21AllocParam(al)
				}
				return nil
			case *ssa.Alloc:
				return c21AllocParam(a)
			default:
				return nil
			}
		case *ssa.Alloc:
			return x
		default:
			return nil
		}
	}
	return nil
}

func c21AllocParam(al *ssa.Alloc) ssa.Value {
	if al.Referrers() == nil {
		return nil
	}
	var vals []ssa.Value
	for _, r := range *al.Referrers() {
		if s, ok := r.(*ssa.Store); ok && s.Addr == al {
			vals = append(vals, s.Val)
		}
	}
	if len(vals) == 1 {
		if p, ok := vals[0].(*ssa.Parameter); ok {
			return p
		}
	}
	return nil
}

// ---- R6 ------------------------------------------------------------------------------

func c21R6(c *an.Check, fn *ssa.Function) {
	w := c.W
	n := 0
	for _, u := range callsNamed(w, fn, c21FnUnmarshal) {
		nt, al, ok := c21UnmarshalTarget(u)
		if !ok || al == nil {
			continue
		}
		cons := "OnMessageReceived decoded *" + nt.Obj().Name()
		// decoded into a value: `null` leaves the zero value, nothing to dereference
		ptr, isPtr := al.Type().Underlying().(*types.Pointer)
		if !isPtr {
			continue
		}
		if _, toPtr := ptr.Elem().Underlying().(*types.Pointer); !toPtr {
			n++
			c.OK("C21.R6", cons, w.Pos(u.Pos()), "decoded into a struct value: a `null` payload leaves the zero value")
			continue
		}
		n++
		if al.Referrers() == nil {
			continue
		}
		// non-nil edges of tests on loads of the slot
		var nonNil []an.Edge
		var derefs []ssa.Instruction
		for _, r := range *al.Referrers() {
			ld, isLoad := r.(*ssa.UnOp)
			if !isLoad || ld.Op != token.MUL || ld.Referrers() == nil {
				continue
			}
			for _, rr := range *ld.Referrers() {
				switch x := rr.(type) {
				case *ssa.BinOp:
					if (x.Op == token.EQL || x.Op == token.NEQ) && (an.IsNilConst(x.X) || an.IsNilConst(x.Y)) {
						for _, ce := range an.CondUses(x) {
							if x.Op == token.NEQ {
								nonNil = append(nonNil, ce.True)
							} else {
								nonNil = append(nonNil, ce.False)
							}
						}
					}
				case *ssa.FieldAddr:
					if x.X == ssa.Value(ld) {
						derefs = append(derefs, x)
					}
				case *ssa.UnOp:
					if x.Op == token.MUL && x.X == ssa.Value(ld) {
						derefs = append(derefs, x)
					}
				case ssa.CallInstruction:
					// value-receiver method call on the pointer dereferences it
					if f := x.Common().StaticCallee(); f != nil && f.Signature.Recv() != nil && len(x.Common().Args) > 0 && x.Common().Args[0] == ssa.Value(ld) {
						if _, recvPtr := f.Signature.Recv().Type().(*types.Pointer); !recvPtr {
							derefs = append(derefs, x)
						}
					}
				}
			}
		}
		var first ssa.Instruction
		for _, d := range derefs {
			if len(nonNil) > 0 && an.EdgesDominate(nonNil, d.Block()) {
				continue
			}
			if first == nil || d.Pos() < first.Pos() {
				first = d
			}
		}
		if first == nil {
			c.OK("C21.R6", cons, w.Pos(u.Pos()), fmt.Sprintf("%d dereferences, all behind a nil test", len(derefs)))
			continue
		}
		c.Bad("C21.R6", cons, w.Pos(first.Pos()), "the payload `null` decodes without error into a nil *"+nt.Obj().Name()+
			", which is dereferenced here without a nil test: the message is not ignored, the handler goroutine panics (no recover in the module) and the daemon/plugin terminates")
	}
	c.AtLeast("C21.R6", "decoded message slots in OnMessageReceived", n, 7)
}

// c21DeclaredMethod returns the declared (non-synthetic) method body.
func c21DeclaredMethod(w *an.World, nt *types.Named, name string) *ssa.Function {
	for _, t := range []types.Type{nt, types.NewPointer(nt)} {
		ms := w.Prog.MethodSets.MethodSet(t)
		for i := 0; i < ms.Len(); i++ {
			if ms.At(i).Obj().Name() != name {
				continue
			}
			if f := w.Prog.MethodValue(ms.At(i)); f != nil && f.Synthetic == "" && f.Blocks != nil {
				return f
			}
		}
	}
	return nil
}
