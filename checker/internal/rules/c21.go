package rules

import (
	"errors"
	"fmt"
	"go/constant"
	"go/token"
	"go/types"
	"reflect"
	"regexp"
	"sort"
	"strconv"
	"strings"

	"golang.org/x/tools/go/ssa"

	"psv/internal/an"
)

func init() {
	Register(&Prop{
		ID:   "C21",
		Expl: "Decides from go/constant values, go/types struct tags and the SSA form: (R1) the constants of type messages.MessageType are exactly the nine protocol numbers 42069..42085 (odd, distinct), each bound to its protocol name; (R2) every type implementing swap.PeerMessage returns exactly one constant from MessageType(), the one the protocol table gives its struct, no two types share a number; in OnMessageReceived every json.Unmarshal target struct is decoded under `msgType == <that struct's number>` and each of the seven swap messages has an arm; MarshalPeerswapMessage returns json.Marshal(msg) together with int(msg.MessageType()) of the same msg; PeerswapCustomMessageType, evaluated on every table number and on neighbouring / even / out-of-range numbers, returns the number itself resp. the not-peerswap error, and parses and prints the type in base 16; (R3) the seven message structs have only exported fields with case-insensitively unique JSON names, scalar or paired-codec field types, and cover the field list of docs/peer-protocol.md; (R4) in OnMessageReceived every decoding / handler / service call is dominated by the pass edge of a size guard that rejects everything above 100 KiB, by the err==nil edge of the type parse, and every handler call additionally by the err==nil edge of the json.Unmarshal of its arm and by the arm's `msgType == c` test (so oversized, foreign and undecodable messages reach no handler); (R5) every SendMessage call of package swap sends a (payload, type) pair that comes from one MarshalPeerswapMessage call, directly or through the NextMessage/NextMessageType fields that are always stored together from one call, and the redundant messenger forwards its parameters unchanged; (R6) a decoded message pointer is dereferenced only after a nil test (payload `null`).",
		NotD: "Byte-exact encodings of arbitrary field values and value-level decode(encode(x)) == x; what the handlers do with a well-formed but semantically invalid message (C09/C11); the framing done by the Lightning node (CLN hex prefix slicing, LND custom message transport).",
		Run:  runC21,
	})
}

// The protocol table (docs/peer-protocol.md, "The types are in range
// 42069-42085"; poll/request_poll from the peersync extension).
var c21Proto = []struct {
	konst string
	num   int64
	wire  string
	typ   string   // struct in package swap ("" = no swap.PeerMessage struct)
	doc   []string // JSON field names of the protocol document
}{
	{"MESSAGETYPE_SWAPINREQUEST", 42069, "swap_in_request", "SwapInRequestMessage", []string{"protocol_version", "swap_id", "asset", "network", "scid", "amount", "pubkey"}},
	{"MESSAGETYPE_SWAPOUTREQUEST", 42071, "swap_out_request", "SwapOutRequestMessage", []string{"protocol_version", "swap_id", "asset", "network", "scid", "amount", "pubkey"}},
	{"MESSAGETYPE_SWAPINAGREEMENT", 42073, "swap_in_agreement", "SwapInAgreementMessage", []string{"protocol_version", "swap_id", "pubkey", "premium"}},
	{"MESSAGETYPE_SWAPOUTAGREEMENT", 42075, "swap_out_agreement", "SwapOutAgreementMessage", []string{"protocol_version", "swap_id", "pubkey", "payreq", "premium"}},
	{"MESSAGETYPE_OPENINGTXBROADCASTED", 42077, "opening_tx_broadcasted", "OpeningTxBroadcastedMessage", []string{"swap_id", "payreq", "tx_id", "script_out", "blinding_key"}},
	{"MESSAGETYPE_CANCELED", 42079, "cancel", "CancelMessage", []string{"swap_id", "message"}},
	{"MESSAGETYPE_COOPCLOSE", 42081, "coop_close", "CoopCloseMessage", []string{"swap_id", "message", "privkey"}},
	{"MESSAGETYPE_POLL", 42083, "poll", "", nil},
	{"MESSAGETYPE_REQUEST_POLL", 42085, "request_poll", "", nil},
}

const (
	c21FnMarshal   = "func:swap.MarshalPeerswapMessage"
	c21FnCustom    = "func:messages.PeerswapCustomMessageType"
	c21FnUnmarshal = "func:encoding/json.Unmarshal"
	c21FnDecode    = "func:(*encoding/json.Decoder).Decode"
	c21IfSend      = "iface:swap.Messenger.SendMessage"
	c21MaxPayload  = 100 * 1024
)

func runC21(c *an.Check) {
	c.Rule("C21.R1", "the MessageType constants are exactly the protocol numbers 42069..42085, odd, distinct, each under its protocol name")
	c.Rule("C21.R2", "struct <-> number: MessageType() methods, the receive switch, MarshalPeerswapMessage and PeerswapCustomMessageType agree with the protocol table; type strings are base 16")
	c.Rule("C21.R3", "message structs: exported fields, unique JSON names (case-insensitive), scalar or paired-codec types, protocol field list covered")
	c.Rule("C21.R4", "OnMessageReceived: oversized (> 100 KiB), non-peerswap and undecodable messages reach no decoder / handler / service call")
	c.Rule("C21.R5", "every sent (payload, type) pair comes from one MarshalPeerswapMessage call")
	c.Rule("C21.R7", "fallible decodes on the receive path (hex, strconv, json, and helpers built on them): the error is tested and on the error edge the decoded value reaches no handler / dispatch call and is not returned as if valid")
	c.Rule("C21.R6", "a decoded message pointer is nil-tested before it is dereferenced (payload `null`)")
	w := c.W
	onMsg := w.Func("swap", "(*SwapService).OnMessageReceived")
	marshal := w.Func("swap", "MarshalPeerswapMessage")
	custom := w.Func("messages", "PeerswapCustomMessageType")
	toHex := w.Func("messages", "MessageTypeToHexString")
	for n, f := range map[string]*ssa.Function{"swap.(*SwapService).OnMessageReceived": onMsg, "swap.MarshalPeerswapMessage": marshal, "messages.PeerswapCustomMessageType": custom, "messages.MessageTypeToHexString": toHex} {
		if f == nil || f.Blocks == nil {
			c.Anchor("function %s does not resolve", n)
		}
	}
	mt := w.Named("messages", "MessageType")
	pm := w.Named("swap", "PeerMessage")
	if mt == nil || pm == nil {
		c.Anchor("messages.MessageType / swap.PeerMessage do not resolve")
	}
	if !ifaceMethodExists(w, c21IfSend) {
		c.Anchor("%s does not resolve", c21IfSend)
	}
	if len(c.Anchors) > 0 {
		return
	}
	byNum := map[int64]int{}
	for i, e := range c21Proto {
		byNum[e.num] = i
	}

	c21R1(c, mt, byNum)
	numOf := c21R2Types(c, pm, byNum)
	disp := c21NewDispatch(w, onMsg)
	c21R2Switch(c, disp, numOf)
	c21R2Marshal(c, marshal)
	c21R2Custom(c, custom, toHex, byNum)
	c21R2Conversions(c, mt)
	c21R2Received(c, custom, byNum)
	c21R3(c)
	c21R4(c, disp, numOf)
	c21R5(c, marshal)
	c21R4Streaming(c, disp)
	c21R6(c, disp)
	c21R7(c, onMsg, custom)
}

// ---- R1 ------------------------------------------------------------------------------

func c21R1(c *an.Check, mt *types.Named, byNum map[int64]int) {
	w := c.W
	scope := w.ByRel["messages"].Types.Scope()
	for _, e := range c21Proto {
		k, ok := scope.Lookup(e.konst).(*types.Const)
		cons := "messages." + e.konst
		if !ok {
			c.Anchor("constant messages.%s (%s, %d) does not resolve", e.konst, e.wire, e.num)
			continue
		}
		v, exact := constant.Int64Val(k.Val())
		c.Decide(exact && k.Val().Kind() == constant.Int && v == e.num && types.Identical(k.Type(), mt), "C21.R1", cons, w.Pos(k.Pos()),
			fmt.Sprintf("%s = %d", e.wire, e.num),
			fmt.Sprintf("%s has the value %s (type %s), the protocol number of %s is %d", e.konst, k.Val().ExactString(), k.Type(), e.wire, e.num))
	}
	// every constant of the type: in the table, odd, distinct
	seen := map[int64]string{}
	n := 0
	for _, name := range scope.Names() {
		k, ok := scope.Lookup(name).(*types.Const)
		if !ok || !types.Identical(k.Type(), mt) {
			continue
		}
		n++
		v, exact := constant.Int64Val(k.Val())
		cons := "messages." + name + " in protocol range"
		_, inTab := byNum[v]
		switch {
		case !exact:
			c.Bad("C21.R1", cons, w.Pos(k.Pos()), "not an integer constant")
		case seen[v] != "":
			c.Bad("C21.R1", cons, w.Pos(k.Pos()), fmt.Sprintf("%s and %s share the number %d", name, seen[v], v))
		case !inTab || v%2 == 0:
			c.Bad("C21.R1", cons, w.Pos(k.Pos()), fmt.Sprintf("%d is not one of the odd protocol numbers 42069..42085", v))
		default:
			c.OK("C21.R1", cons, w.Pos(k.Pos()), fmt.Sprintf("%d is odd, distinct and in the protocol table", v))
		}
		seen[v] = name
	}
	c.AtLeast("C21.R1", "constants of type messages.MessageType", n, 9)
}

// ---- R2 ------------------------------------------------------------------------------

// c21R2Types checks the MessageType() methods and returns struct -> number.
func c21R2Types(c *an.Check, pm *types.Named, byNum map[int64]int) map[*types.Named]int64 {
	w := c.W
	out := map[*types.Named]int64{}
	iface, _ := pm.Underlying().(*types.Interface)
	if iface == nil {
		c.Anchor("swap.PeerMessage is not an interface")
		return out
	}
	want := map[string]int64{}
	for _, e := range c21Proto {
		if e.typ != "" {
			want[e.typ] = e.num
		}
	}
	owner := map[int64]string{}
	found := map[string]bool{}
	var rels []string
	for r := range w.ByRel {
		if !an.IsTestSupport(r) {
			rels = append(rels, r)
		}
	}
	sort.Strings(rels)
	for _, rel := range rels {
		scope := w.ByRel[rel].Types.Scope()
		for _, name := range scope.Names() {
			tn, ok := scope.Lookup(name).(*types.TypeName)
			if !ok {
				continue
			}
			nt, ok := tn.Type().(*types.Named)
			if !ok || types.IsInterface(nt) {
				continue
			}
			if !types.Implements(nt, iface) && !types.Implements(types.NewPointer(nt), iface) {
				continue
			}
			cons := rel + "." + name + ".MessageType()"
			m := c21DeclaredMethod(w, nt, "MessageType")
			if m == nil || m.Blocks == nil {
				c.Unknown("C21.R2", cons, w.Pos(tn.Pos()), "method body not found")
				continue
			}
			vals := map[int64]bool{}
			okConst := true
			for _, r := range an.Returns(m) {
				if v, isK := an.ConstInt(r.Results[0]); isK {
					vals[v] = true
					continue
				}
				// through in-module helpers / locals
				ss := w.Sources(r.Results[0], an.FlowOpts{IntoCallees: true})
				for _, l := range ss.Leaves {
					if v, isK := an.ConstInt(l.Val); isK && l.Kind == "const" {
						vals[v] = true
					} else {
						okConst = false
					}
				}
				if len(ss.Leaves) == 0 {
					okConst = false
				}
			}
			if len(vals) > 1 {
				c.Bad("C21.R2", cons, w.Pos(m.Pos()), fmt.Sprintf("MessageType() can return different constants %v: the type number of an encoded message depends on run-time state", c21SortedInts(vals)))
				continue
			}
			if !okConst || len(vals) != 1 {
				c.Unknown("C21.R2", cons, w.Pos(m.Pos()), "MessageType() does not return a value this rule can reduce to one constant")
				continue
			}
			var v int64
			for k := range vals {
				v = k
			}
			out[nt] = v
			exp, inTab := want[name]
			_, known := byNum[v]
			switch {
			case rel == "swap" && inTab && v == exp:
				found[name] = true
				c.OK("C21.R2", cons, w.Pos(m.Pos()), fmt.Sprintf("returns %d (%s)", v, c21Proto[byNum[v]].wire))
			case rel == "swap" && inTab:
				found[name] = true
				c.Bad("C21.R2", cons, w.Pos(m.Pos()), fmt.Sprintf("returns %d, but the protocol number of this message is %d: the peer decodes the payload as another message", v, exp))
			case !known:
				c.Bad("C21.R2", cons, w.Pos(m.Pos()), fmt.Sprintf("returns %d, which is not a protocol number", v))
			default:
				c.Unknown("C21.R2", cons, w.Pos(m.Pos()), fmt.Sprintf("a PeerMessage type that the frozen protocol table does not list (returns %d)", v))
			}
			if o := owner[v]; o != "" {
				c.Bad("C21.R2", cons, w.Pos(m.Pos()), fmt.Sprintf("%s and %s are both sent as type %d", name, o, v))
			}
			owner[v] = name
		}
	}
	for t := range want {
		if !found[t] {
			c.Anchor("message struct swap.%s does not resolve as a swap.PeerMessage", t)
		}
	}
	c.AtLeast("C21.R2", "types implementing swap.PeerMessage", len(out), 7)
	return out
}

// c21UnmarshalTarget: the struct type a json.Unmarshal call decodes into and
// the local slot that receives it.
func c21UnmarshalTarget(call ssa.CallInstruction) (*types.Named, *ssa.Alloc, bool) {
	args := call.Common().Args
	if len(args) != 2 {
		return nil, nil, false
	}
	v := args[1]
	for {
		switch x := v.(type) {
		case *ssa.MakeInterface:
			v = x.X
			continue
		case *ssa.ChangeInterface:
			v = x.X
			continue
		}
		break
	}
	al, _ := v.(*ssa.Alloc)
	nt := an.NamedOf(v.Type())
	if nt == nil {
		return nil, al, false
	}
	if _, isStruct := nt.Underlying().(*types.Struct); !isStruct {
		return nil, al, false
	}
	return nt, al, true
}

// c21Dispatch is what OnMessageReceived does with the parsed message type.
type c21Dispatch struct {
	w       *an.World
	fn      *ssa.Function
	parse   *ssa.Call // PeerswapCustomMessageType, or a helper handing its results back unchanged
	typeVal ssa.Value // result #0 of parse
	term    string    // its name in the engine's facts
	okParse []an.Edge
	decodes []c21Decode
}

// c21Decode is one json.Unmarshal executed for a message: directly in
// OnMessageReceived or inside an in-module helper it calls (ctx is then that call).
type c21Decode struct {
	call ssa.CallInstruction
	typ  *types.Named
	slot *ssa.Alloc
	ctx  ssa.CallInstruction
}

func c21NewDispatch(w *an.World, fn *ssa.Function) *c21Dispatch {
	d := &c21Dispatch{w: w, fn: fn}
	passThrough := func(f *ssa.Function) bool {
		inner := callsNamed(w, f, c21FnCustom)
		if len(inner) != 1 {
			return false
		}
		for _, r := range an.Returns(f) {
			if len(r.Results) != 2 {
				return false
			}
			for i, res := range r.Results {
				ex, ok := res.(*ssa.Extract)
				if !ok || ex.Index != i || ex.Tuple != inner[0].Value() {
					return false
				}
			}
		}
		return true
	}
	n := 0
	for _, call := range an.Calls(fn) {
		ci := w.Info(call)
		if ci.Name == c21FnCustom || (ci.Static != nil && w.InModule(ci.Static) && ci.Static.Blocks != nil && passThrough(ci.Static)) {
			n++
			d.parse, _ = call.(*ssa.Call)
		}
	}
	if n != 1 {
		d.parse = nil
	}
	if d.parse != nil {
		if vs := an.ResultValues(d.parse, 0); len(vs) == 1 {
			d.typeVal = vs[0]
			d.term = w.Term(vs[0])
		}
		d.okParse, _ = an.OkEdges(d.parse)
	}
	// decodes
	seen := map[*ssa.Function]bool{fn: true}
	var scan func(f *ssa.Function, ctx ssa.CallInstruction, depth int)
	scan = func(f *ssa.Function, ctx ssa.CallInstruction, depth int) {
		for _, call := range an.Calls(f) {
			ci := w.Info(call)
			cx := ctx
			if cx == nil {
				cx = call
			}
			if ci.Name == c21FnUnmarshal || ci.Name == c21FnDecode {
				nt, al, ok := c21UnmarshalTarget(call)
				if ok {
					d.decodes = append(d.decodes, c21Decode{call: call, typ: nt, slot: al, ctx: cx})
				} else {
					d.decodes = append(d.decodes, c21Decode{call: call, ctx: cx})
				}
				continue
			}
			if ci.Static != nil && w.InModule(ci.Static) && ci.Static.Blocks != nil && depth < 2 && !seen[ci.Static] && w.FnRel(ci.Static) == "swap" {
				seen[ci.Static] = true
				scan(ci.Static, cx, depth+1)
			}
		}
	}
	scan(fn, nil, 0)
	return d
}

// guards: the constants c of dominating `msgType == c` facts at instruction
// at; onlyNeq reports that msgType is constrained by `!=` facts only;
// uninterpreted reports a dominating branch on the message type that the
// engine could not turn into a fact.
func (d *c21Dispatch) guards(at ssa.Instruction) (eq []int64, onlyNeq bool, uninterpreted bool) {
	if d.typeVal == nil {
		return nil, false, true
	}
	nNeq := 0
	for _, f := range d.w.FactsDominating(at) {
		if f.NonNum || len(f.Terms) != 1 {
			continue
		}
		coef, has := f.Terms[d.term]
		if !has {
			continue
		}
		switch {
		case f.Rel == "==" && coef == 1:
			eq = append(eq, -f.Const)
		case f.Rel == "==" && coef == -1:
			eq = append(eq, f.Const)
		case f.Rel == "!=":
			nNeq++
		}
	}
	// branches on the type that yield no such fact
	dep := map[ssa.Value]bool{d.typeVal: true}
	for _, b := range d.fn.Blocks {
		i, ok := b.Instrs[len(b.Instrs)-1].(*ssa.If)
		if !ok || b == at.Block() || !c21DependsOn(i.Cond, dep) {
			continue
		}
		for idx := 0; idx < 2; idx++ {
			if !an.EdgeDominates(an.Edge{From: b, Idx: idx}, at.Block()) {
				continue
			}
			t, f := d.w.FactsOfIf(i)
			fact := t
			if idx == 1 {
				fact = f
			}
			if _, has := fact.Terms[d.term]; fact.NonNum || len(fact.Terms) != 1 || !has || (fact.Rel != "==" && fact.Rel != "!=") {
				uninterpreted = true
			}
		}
	}
	return eq, len(eq) == 0 && nNeq > 0, uninterpreted
}

// c21Opaque: values c21DependsOn does not look behind (set temporarily by a caller).
var c21Opaque = map[ssa.Value]bool{}

// c21DependsOn: the backward slice of v through phis, operators, conversions
// and call arguments contains one of the given values.
func c21DependsOn(v ssa.Value, on map[ssa.Value]bool) bool {
	seen := map[ssa.Value]bool{}
	var rec func(v ssa.Value) bool
	rec = func(v ssa.Value) bool {
		if v == nil || seen[v] {
			return false
		}
		seen[v] = true
		if on[v] {
			return true
		}
		if c21Opaque[v] {
			return false
		}
		switch x := v.(type) {
		case *ssa.Phi:
			for _, e := range x.Edges {
				if rec(e) {
					return true
				}
			}
			for _, pr := range x.Block().Preds {
				if i, ok := pr.Instrs[len(pr.Instrs)-1].(*ssa.If); ok && rec(i.Cond) {
					return true
				}
			}
		case *ssa.BinOp:
			return rec(x.X) || rec(x.Y)
		case *ssa.UnOp:
			return rec(x.X)
		case *ssa.Convert:
			return rec(x.X)
		case *ssa.ChangeType:
			return rec(x.X)
		case *ssa.MakeInterface:
			return rec(x.X)
		case *ssa.ChangeInterface:
			return rec(x.X)
		case *ssa.TypeAssert:
			return rec(x.X)
		case *ssa.Slice:
			return rec(x.X)
		case *ssa.IndexAddr:
			return rec(x.X) || rec(x.Index)
		case *ssa.FieldAddr:
			return rec(x.X)
		case *ssa.Field:
			return rec(x.X)
		case *ssa.Extract:
			return rec(x.Tuple)
		case *ssa.Lookup:
			return rec(x.X) || rec(x.Index)
		case *ssa.Call:
			for _, a := range x.Call.Args {
				if rec(a) {
					return true
				}
			}
		}
		return false
	}
	return rec(v)
}

func c21SortedInts(m map[int64]bool) []int64 {
	var out []int64
	for k := range m {
		out = append(out, k)
	}
	sort.Slice(out, func(i, j int) bool { return out[i] < out[j] })
	return out
}

func c21R2Switch(c *an.Check, d *c21Dispatch, numOf map[*types.Named]int64) {
	w := c.W
	onMsg := d.fn
	decoded := map[string]bool{}
	unattributed := 0
	n := 0
	for _, dec := range d.decodes {
		u := dec.call
		if dec.typ == nil {
			unattributed++
			c.Unknown("C21.R2", "OnMessageReceived decode", w.Pos(u.Pos()), "json.Unmarshal target is not a (pointer to a) named struct")
			continue
		}
		nt := dec.typ
		cons := "OnMessageReceived arm decoding " + nt.Obj().Name()
		num, isMsg := numOf[nt]
		if !isMsg {
			c.Note("C21.R2", cons, w.Pos(u.Pos()), "json.Unmarshal into a struct that is not a swap.PeerMessage: not a message decode, not judged here (R4 still requires it behind the guards)")
			continue
		}
		n++
		arms, _, _ := d.guards(dec.ctx)
		match, other := false, false
		for _, a := range arms {
			if a == num {
				match = true
			} else {
				other = true
			}
		}
		switch {
		case match && !other:
			decoded[nt.Obj().Name()] = true
			c.OK("C21.R2", cons, w.Pos(u.Pos()), fmt.Sprintf("decoded under msgType == %d", num))
		case other:
			c.Bad("C21.R2", cons, w.Pos(u.Pos()), fmt.Sprintf("a payload received with type %v is decoded as %s, which the sender marks with type %d: reader and writer disagree", arms, nt.Obj().Name(), num))
		default:
			unattributed++
			c.Unknown("C21.R2", cons, w.Pos(u.Pos()), "the payload is decoded here without a dominating `msgType == <constant>` test that this rule can read. Facts that do hold: "+an.DescribeFacts(w.FactsDominating(dec.ctx)))
		}
	}
	c.AtLeast("C21.R2", "message decodes (json.Unmarshal into a swap.PeerMessage) reached from OnMessageReceived", n, 7)
	// is some code selected by msgType == num at all?
	hasArm := map[int64]bool{}
	anyUninterpreted := d.typeVal == nil
	for _, b := range onMsg.Blocks {
		if len(b.Instrs) == 0 {
			continue
		}
		eq, _, un := d.guards(b.Instrs[0])
		for _, k := range eq {
			hasArm[k] = true
		}
		if un {
			anyUninterpreted = true
		}
	}
	for _, e := range c21Proto {
		if e.typ == "" || decoded[e.typ] {
			continue
		}
		cons := "OnMessageReceived arm decoding " + e.typ
		switch {
		case !hasArm[e.num] && !anyUninterpreted && unattributed == 0:
			c.Bad("C21.R2", cons, w.Pos(onMsg.Pos()), fmt.Sprintf("no arm decodes %s (%d) into %s under the right type test: the message is dropped or mis-decoded", e.wire, e.num, e.typ))
		default:
			c.Unknown("C21.R2", cons, w.Pos(onMsg.Pos()), fmt.Sprintf("no decode of %s (%d) into %s was recognised under `msgType == %d` (the dispatch on the message type is not fully interpreted)", e.wire, e.num, e.typ, e.num))
		}
	}
}

func c21StripConv(v ssa.Value) ssa.Value {
	for {
		switch x := v.(type) {
		case *ssa.ChangeType:
			v = x.X
		case *ssa.Convert:
			v = x.X
		case *ssa.MakeInterface:
			v = x.X
		case *ssa.ChangeInterface:
			v = x.X
		default:
			return v
		}
	}
}

// c21MarshalOf classifies a payload value: "msg" = result #0 of json.Marshal
// applied to want (directly or through in-module helpers that hand the result
// back), "other" = json.Marshal of something else, "" = not recognised. errOK
// reports that the value is only used where the marshal error is nil.
func c21MarshalOf(w *an.World, v ssa.Value, want ssa.Value, at *ssa.BasicBlock, depth int) (kind string, errOK bool) {
	ex, _ := v.(*ssa.Extract)
	if ex == nil || ex.Index != 0 || depth > 3 {
		return "", false
	}
	call, _ := ex.Tuple.(*ssa.Call)
	if call == nil {
		return "", false
	}
	okE, _ := an.OkEdges(call)
	guarded := len(okE) > 0 && at != nil && an.EdgesDominate(okE, at)
	ci := w.Info(call)
	if ci.Name == "func:encoding/json.Marshal" {
		if c21StripConv(call.Call.Args[0]) == want {
			return "msg", guarded
		}
		return "other", guarded
	}
	f := ci.Static
	if f == nil || !w.InModule(f) || f.Blocks == nil {
		return "", false
	}
	// which parameter receives want?
	pi := -1
	for i, a := range call.Call.Args {
		if c21StripConv(a) == want && i < len(f.Params) {
			pi = i
		}
	}
	if pi < 0 {
		return "", false
	}
	res := "msg"
	for _, r := range an.Returns(f) {
		if len(r.Results) < 2 {
			return "", false
		}
		if an.IsNilConst(r.Results[0]) {
			continue // the error return of the helper
		}
		k, _ := c21MarshalOf(w, r.Results[0], f.Params[pi], nil, depth+1)
		// the helper must hand the marshal error back with the payload, or
		// return the payload only when the error is nil
		inner, _ := r.Results[0].(*ssa.Extract)
		errPassed := false
		if inner != nil {
			if e1, ok := r.Results[len(r.Results)-1].(*ssa.Extract); ok && e1.Tuple == inner.Tuple && e1.Index == 1 {
				errPassed = true
			}
			if ic, ok := inner.Tuple.(*ssa.Call); ok {
				if ok2, _ := an.OkEdges(ic); len(ok2) > 0 && an.EdgesDominate(ok2, r.Block()) {
					errPassed = true
				}
			}
		}
		switch {
		case k == "msg" && errPassed:
		case k == "other":
			return "other", guarded
		default:
			res = ""
		}
	}
	return res, guarded
}

func c21R2Marshal(c *an.Check, fn *ssa.Function) {
	w := c.W
	if len(fn.Params) != 1 || fn.Signature.Results().Len() != 3 {
		c.Unknown("C21.R2", "MarshalPeerswapMessage", w.Pos(fn.Pos()), "unexpected signature")
		return
	}
	msg := ssa.Value(fn.Params[0])
	n := 0
	for _, r := range an.Returns(fn) {
		if !an.IsNilConst(r.Results[2]) {
			continue // error return
		}
		n++
		var bad, unk []string
		// payload
		switch kind, errOK := c21MarshalOf(w, r.Results[0], msg, r.Block(), 0); {
		case kind == "msg" && errOK:
		case kind == "msg":
			bad = append(bad, "the payload is returned without the json.Marshal error being nil")
		case kind == "other":
			bad = append(bad, "the payload is json.Marshal of another value than the message: "+w.Term(r.Results[0]))
		case an.IsNilConst(r.Results[0]):
			bad = append(bad, "a nil payload is returned without an error")
		default:
			unk = append(unk, "cannot establish that the payload is json.Marshal(msg): "+w.Term(r.Results[0]))
		}
		// type
		tv := c21StripConv(r.Results[1])
		tc, _ := tv.(*ssa.Call)
		switch {
		case tc != nil && tc.Call.IsInvoke() && tc.Call.Method.Name() == "MessageType" && tc.Call.Value == msg:
		case tc != nil && tc.Call.IsInvoke() && tc.Call.Method.Name() == "MessageType":
			bad = append(bad, "the type is MessageType() of another value than the marshalled message")
		default:
			if _, isK := tv.(*ssa.Const); isK {
				bad = append(bad, "the type is not msg.MessageType() of the marshalled message: "+w.Term(r.Results[1]))
			} else {
				unk = append(unk, "cannot establish that the type is msg.MessageType(): "+w.Term(r.Results[1]))
			}
		}
		switch {
		case len(bad) > 0:
			c.Bad("C21.R2", "MarshalPeerswapMessage", w.Pos(r.Pos()), "payload and type number are not derived from the same message: "+strings.Join(bad, "; "))
		case len(unk) > 0:
			c.Unknown("C21.R2", "MarshalPeerswapMessage", w.Pos(r.Pos()), strings.Join(unk, "; "))
		default:
			c.OK("C21.R2", "MarshalPeerswapMessage", w.Pos(r.Pos()), "returns json.Marshal(msg) with int(msg.MessageType())")
		}
	}
	c.AtLeast("C21.R2", "success returns of MarshalPeerswapMessage", n, 1)
}

// Path enumeration with partial evaluation (the same machinery as in c30.go,
// duplicated to keep the rule files independent).

type c21Path struct {
	blocks    []*ssa.BasicBlock
	uncertain bool // a branch could not be evaluated: the path may be infeasible for the input
}

// c21V is a partially known value: k == 0 unknown, 1 boolean, 2 integer.
type c21V struct {
	k int
	b bool
	i int64
}

// resolve follows conversions and phis along the path.
func (p *c21Path) resolve(v ssa.Value) ssa.Value {
	for depth := 0; depth < 32; depth++ {
		switch x := v.(type) {
		case *ssa.ChangeType:
			v = x.X
			continue
		case *ssa.Convert:
			v = x.X
			continue
		case *ssa.Phi:
			b := x.Block()
			at := -1
			for i := len(p.blocks) - 1; i > 0; i-- {
				if p.blocks[i] == b {
					at = i
					break
				}
			}
			if at < 1 {
				return nil
			}
			pred := p.blocks[at-1]
			var got ssa.Value
			for i, pr := range b.Preds {
				if pr == pred {
					if got != nil && got != x.Edges[i] {
						return nil
					}
					got = x.Edges[i]
				}
			}
			if got == nil {
				return nil
			}
			v = got
			continue
		}
		return v
	}
	return nil
}

func (p *c21Path) eval(v ssa.Value, leaf func(ssa.Value) (c21V, bool), depth int) c21V {
	if depth > 24 || v == nil {
		return c21V{}
	}
	// integer conversions are applied with Go's wrap-around semantics, so they
	// are not skipped here (resolve would strip them)
	for {
		if ph, isPhi := v.(*ssa.Phi); isPhi {
			v = p.resolve(ph)
			if v == nil {
				return c21V{}
			}
			continue
		}
		if ct, isCT := v.(*ssa.ChangeType); isCT {
			v = ct.X
			continue
		}
		break
	}
	if cv, isConv := v.(*ssa.Convert); isConv {
		in := p.eval(cv.X, leaf, depth+1)
		if in.k == 2 {
			if out, ok := c21Wrap(in.i, cv.Type()); ok {
				return c21V{k: 2, i: out}
			}
			return c21V{}
		}
		return in
	}
	if r, ok := leaf(v); ok {
		return r
	}
	switch x := v.(type) {
	case *ssa.Const:
		if x.Value == nil {
			return c21V{}
		}
		switch x.Value.Kind() {
		case constant.Bool:
			return c21V{k: 1, b: constant.BoolVal(x.Value)}
		case constant.Int:
			if i, ok := constant.Int64Val(x.Value); ok {
				return c21V{k: 2, i: i}
			}
		}
	case *ssa.UnOp:
		a := p.eval(x.X, leaf, depth+1)
		switch {
		case x.Op == token.NOT && a.k == 1:
			return c21V{k: 1, b: !a.b}
		case x.Op == token.SUB && a.k == 2:
			return c21V{k: 2, i: -a.i}
		}
	case *ssa.BinOp:
		a, b := p.eval(x.X, leaf, depth+1), p.eval(x.Y, leaf, depth+1)
		switch {
		case a.k == 2 && b.k == 2:
			switch x.Op {
			case token.ADD:
				return c21V{k: 2, i: a.i + b.i}
			case token.SUB:
				return c21V{k: 2, i: a.i - b.i}
			case token.MUL:
				return c21V{k: 2, i: a.i * b.i}
			case token.QUO:
				if b.i != 0 {
					return c21V{k: 2, i: a.i / b.i}
				}
			case token.REM:
				if b.i != 0 {
					return c21V{k: 2, i: a.i % b.i}
				}
			case token.AND:
				return c21V{k: 2, i: a.i & b.i}
			case token.EQL:
				return c21V{k: 1, b: a.i == b.i}
			case token.NEQ:
				return c21V{k: 1, b: a.i != b.i}
			case token.LSS:
				return c21V{k: 1, b: a.i < b.i}
			case token.LEQ:
				return c21V{k: 1, b: a.i <= b.i}
			case token.GTR:
				return c21V{k: 1, b: a.i > b.i}
			case token.GEQ:
				return c21V{k: 1, b: a.i >= b.i}
			}
		case a.k == 1 && b.k == 1:
			switch x.Op {
			case token.EQL:
				return c21V{k: 1, b: a.b == b.b}
			case token.NEQ:
				return c21V{k: 1, b: a.b != b.b}
			case token.AND:
				return c21V{k: 1, b: a.b && b.b}
			case token.OR:
				return c21V{k: 1, b: a.b || b.b}
			}
		}
	}
	return c21V{}
}

// c21Wrap converts i to the integer type t the way Go does (truncation to the
// width, reinterpretation by signedness). 64-bit int/uint are assumed.
func c21Wrap(i int64, t types.Type) (int64, bool) {
	b, ok := t.Underlying().(*types.Basic)
	if !ok || b.Info()&types.IsInteger == 0 {
		return 0, false
	}
	switch b.Kind() {
	case types.Int8:
		return int64(int8(i)), true
	case types.Int16:
		return int64(int16(i)), true
	case types.Int32:
		return int64(int32(i)), true
	case types.Uint8:
		return int64(uint8(i)), true
	case types.Uint16:
		return int64(uint16(i)), true
	case types.Uint32:
		return int64(uint32(i)), true
	case types.Int, types.Int64:
		return i, true
	case types.Uint, types.Uint64, types.Uintptr:
		if i < 0 {
			return 0, false // not representable in this evaluator
		}
		return i, true
	}
	return 0, false
}

// c21Walk enumerates the acyclic paths of fn under a partial valuation: a
// branch whose condition evaluates is followed one way, any other both ways
// (marking the path uncertain).
func c21Walk(fn *ssa.Function, leaf func(ssa.Value) (c21V, bool), ret func(r *ssa.Return, p *c21Path)) (ok bool, why string) {
	ok = true
	n := 0
	var rec func(b *ssa.BasicBlock, p *c21Path)
	rec = func(b *ssa.BasicBlock, p *c21Path) {
		if !ok {
			return
		}
		for _, x := range p.blocks {
			if x == b {
				ok, why = false, "a loop lies on an explored path"
				return
			}
		}
		p = &c21Path{blocks: append(append([]*ssa.BasicBlock{}, p.blocks...), b), uncertain: p.uncertain}
		switch x := b.Instrs[len(b.Instrs)-1].(type) {
		case *ssa.Return:
			n++
			if n > 256 {
				ok, why = false, "too many paths"
				return
			}
			ret(x, p)
		case *ssa.Jump:
			rec(b.Succs[0], p)
		case *ssa.If:
			if r := p.eval(x.Cond, leaf, 0); r.k == 1 {
				if r.b {
					rec(b.Succs[0], p)
				} else {
					rec(b.Succs[1], p)
				}
				return
			}
			q := &c21Path{blocks: p.blocks, uncertain: true}
			rec(b.Succs[0], q)
			rec(b.Succs[1], q)
		case *ssa.Panic:
		default:
			ok, why = false, fmt.Sprintf("unsupported terminator %T", x)
		}
	}
	rec(fn.Blocks[0], &c21Path{})
	return
}

func c21R2Custom(c *an.Check, fn, toHex *ssa.Function, byNum map[int64]int) {
	w := c.W
	pos := w.Pos(fn.Pos())
	// the parse call
	var parse *ssa.Call
	for _, call := range an.Calls(fn) {
		if cc, ok := call.(*ssa.Call); ok && (w.Info(call).Name == "func:strconv.ParseInt" || w.Info(call).Name == "func:strconv.ParseUint") {
			if parse != nil {
				c.Unknown("C21.R2", "PeerswapCustomMessageType", pos, "more than one ParseInt call")
				return
			}
			parse = cc
		}
	}
	if parse == nil || len(fn.Params) != 1 {
		c.Unknown("C21.R2", "PeerswapCustomMessageType", pos, "the type string is not parsed with strconv.ParseInt")
		return
	}
	base, baseConst := an.ConstInt(parse.Call.Args[1])
	switch {
	case baseConst && base != 16:
		c.Bad("C21.R2", "PeerswapCustomMessageType parse base", w.Pos(parse.Pos()), fmt.Sprintf("the type string is parsed with base %d (argument %s): the hexadecimal type prefix of a custom message is misread", base, w.Term(parse.Call.Args[0])))
	case !baseConst || parse.Call.Args[0] != ssa.Value(fn.Params[0]):
		c.Unknown("C21.R2", "PeerswapCustomMessageType parse base", w.Pos(parse.Pos()), "ParseInt is not applied to the type string itself with a constant base ("+w.Term(parse.Call.Args[0])+")")
	default:
		c.OK("C21.R2", "PeerswapCustomMessageType parse base", w.Pos(parse.Pos()), "the type string is parsed as base 16")
	}
	var parsed, perr ssa.Value
	if vs := an.ResultValues(parse, 0); len(vs) == 1 {
		parsed = vs[0]
	}
	if vs := an.ResultValues(parse, 1); len(vs) == 1 {
		perr = vs[0]
	}
	if parsed == nil || perr == nil {
		c.Unknown("C21.R2", "PeerswapCustomMessageType", pos, "ParseInt results are not both used")
		return
	}
	// evaluate on sample numbers
	// besides the table and its neighbours: numbers outside 16 / 32 bits and
	// negative numbers whose low 16 bits are a table number (a narrowing
	// conversion of the parsed value would let them through)
	samples := map[int64]bool{0: true, 1: true, 42067: true, 42068: true, 42086: true, 42087: true, 65535: true,
		0x10000 + 42069: true, 0xffff0000 | 42079: true, 42069 - 0x10000: true, 1<<32 + 42077: true, 1<<32 + 0x10000 + 42081: true, -42069: true, -1: true}
	for _, e := range c21Proto {
		samples[e.num], samples[e.num+1], samples[e.num-1] = true, true, true
	}
	var keys []int64
	for k := range samples {
		keys = append(keys, k)
	}
	sort.Slice(keys, func(i, j int) bool { return keys[i] < keys[j] })
	var wrong, undecided []string
	unknown := ""
	for _, v := range keys {
		v := v
		type res struct {
			val       int64
			isK       bool
			nilErr    bool
			errSrc    []string
			uncertain bool
		}
		var rs []res
		// does the parse of this number succeed? (bit size / signedness of the parser)
		parseOK, parseKnown := true, true
		if bits, isK := an.ConstInt(parse.Call.Args[2]); isK {
			if bits == 0 {
				bits = 64
			}
			if w.Info(parse).Name == "func:strconv.ParseUint" {
				parseOK = v >= 0 && (bits >= 63 || v < int64(1)<<uint(bits))
			} else {
				parseOK = bits >= 64 || (v >= -(int64(1)<<uint(bits-1)) && v < int64(1)<<uint(bits-1))
			}
		} else {
			parseKnown = false
		}
		leaf := func(x ssa.Value) (c21V, bool) {
			if x == parsed {
				if !parseOK {
					return c21V{}, true // no value when the parse failed
				}
				return c21V{k: 2, i: v}, true
			}
			if bo, isB := x.(*ssa.BinOp); isB && parseKnown && (bo.Op == token.EQL || bo.Op == token.NEQ) {
				if (bo.X == perr && an.IsNilConst(bo.Y)) || (bo.Y == perr && an.IsNilConst(bo.X)) {
					return c21V{k: 1, b: (bo.Op == token.EQL) == parseOK}, true
				}
			}
			return c21V{}, false
		}
		okW, why := c21Walk(fn, leaf, func(r *ssa.Return, p *c21Path) {
			rv := p.eval(r.Results[0], leaf, 0)
			rr := res{val: rv.i, isK: rv.k == 2, nilErr: an.IsNilConst(r.Results[1]), uncertain: p.uncertain}
			if !rr.nilErr {
				rr.errSrc = w.Sources(r.Results[1], an.FlowOpts{IntoCallees: true}).Names()
			}
			rs = append(rs, rr)
		})
		if !okW {
			unknown = why
			break
		}
		_, isProto := byNum[v]
		if len(rs) == 0 {
			undecided = append(undecided, fmt.Sprintf("%d: no return reached", v))
			continue
		}
		for _, r := range rs {
			// a verdict needs a path that is certainly taken for this number
			flag := func(msg string) {
				if r.uncertain {
					undecided = append(undecided, msg)
				} else {
					wrong = append(wrong, msg)
				}
			}
			switch {
			case isProto && r.nilErr && r.isK && r.val == v:
			case isProto && r.nilErr && !r.isK:
				undecided = append(undecided, fmt.Sprintf("%d: the returned number is not determined", v))
			case isProto:
				flag(fmt.Sprintf("%d (%s) is answered with (%d, nil-error=%v)", v, c21Proto[byNum[v]].wire, r.val, r.nilErr))
			case r.nilErr:
				flag(fmt.Sprintf("%d is not a protocol number but is accepted as %d", v, r.val))
			case !parseOK:
				// the type string does not even parse: any error rejects it
			case c21HasSrc(r.errSrc, "ErrNotPeerswapCustomMessage"):
			case c21HasSrc(r.errSrc, "call:func:fmt.Errorf") || c21HasSrc(r.errSrc, "call:func:errors.New"):
				flag(fmt.Sprintf("%d is rejected with %v instead of ErrNotPeerswapCustomMessage (OnMessageReceived then reports an error instead of ignoring the message)", v, r.errSrc))
			default:
				undecided = append(undecided, fmt.Sprintf("%d is rejected with an error whose origin %v is not followed", v, r.errSrc))
			}
		}
	}
	switch {
	case unknown != "":
		c.Unknown("C21.R2", "PeerswapCustomMessageType table", pos, "cannot evaluate: "+unknown)
	case len(wrong) > 0:
		if len(wrong) > 6 {
			wrong = append(wrong[:6], fmt.Sprintf("… %d more", len(wrong)-6))
		}
		c.Bad("C21.R2", "PeerswapCustomMessageType table", pos, "the reader's type table deviates from the protocol table: "+strings.Join(wrong, "; "))
	case len(undecided) > 0:
		c.Unknown("C21.R2", "PeerswapCustomMessageType table", pos, "the answer for some numbers depends on something this rule does not evaluate: "+undecided[0])
	default:
		c.OK("C21.R2", "PeerswapCustomMessageType table", pos, fmt.Sprintf("%d numbers evaluated: the nine protocol numbers map to themselves, all others to ErrNotPeerswapCustomMessage", len(keys)))
	}
	c.AtLeast("C21.R2", "evaluated type numbers", len(keys), 20)

	// printing side
	verdict := "unknown"
	for _, r := range an.Returns(toHex) {
		cc, ok := r.Results[0].(*ssa.Call)
		if !ok || len(toHex.Params) != 1 {
			continue
		}
		switch w.Info(cc).Name {
		case "func:strconv.FormatInt", "func:strconv.FormatUint":
			if b, isK := an.ConstInt(cc.Call.Args[1]); isK && c21StripConv(cc.Call.Args[0]) == ssa.Value(toHex.Params[0]) {
				if b == 16 {
					verdict = "ok"
				} else {
					verdict = "bad"
				}
			}
		case "func:fmt.Sprintf":
			if f, isS := an.ConstString(cc.Call.Args[0]); isS && (f == "%x" || f == "%04x") {
				verdict = "ok"
			}
		}
	}
	switch verdict {
	case "ok":
		c.OK("C21.R2", "MessageTypeToHexString base", w.Pos(toHex.Pos()), "the type is printed as base 16 of the number")
	case "bad":
		c.Bad("C21.R2", "MessageTypeToHexString base", w.Pos(toHex.Pos()), "MessageTypeToHexString prints the type in another base than 16: sender and parser use different encodings of the type")
	default:
		c.Unknown("C21.R2", "MessageTypeToHexString base", w.Pos(toHex.Pos()), "MessageTypeToHexString is not strconv.FormatInt(int64(type), <constant>) nor fmt.Sprintf(\"%x\", type)")
	}
}

// c21IntWidth: bit width and signedness of an integer type (64-bit int assumed).
func c21IntWidth(t types.Type) (bits int, signed bool, ok bool) {
	b, isB := t.Underlying().(*types.Basic)
	if !isB || b.Info()&types.IsInteger == 0 {
		return 0, false, false
	}
	switch b.Kind() {
	case types.Int8:
		return 8, true, true
	case types.Int16:
		return 16, true, true
	case types.Int32:
		return 32, true, true
	case types.Int, types.Int64:
		return 64, true, true
	case types.Uint8:
		return 8, false, true
	case types.Uint16:
		return 16, false, true
	case types.Uint32:
		return 32, false, true
	case types.Uint, types.Uint64, types.Uintptr:
		return 64, false, true
	}
	return 0, false, false
}

// c21R2Conversions: a received type number must not be truncated into
// MessageType. Every production conversion of a non-constant integer into
// messages.MessageType must be value-preserving for every source value, or its
// operand must be the result of a strconv parse whose bit size fits the target.
// (The conversion inside PeerswapCustomMessageType is additionally covered by
// the table evaluation, which applies Go's wrap-around.)
func c21R2Conversions(c *an.Check, mt *types.Named) {
	w := c.W
	tb, tsigned, ok := c21IntWidth(mt)
	if !ok {
		c.Unknown("C21.R2", "conversions into MessageType", w.Pos(mt.Obj().Pos()), "MessageType is not an integer type")
		return
	}
	n := 0
	seen := map[string]int{}
	for _, fn := range prodFuncs(w) {
		for _, b := range fn.Blocks {
			for _, in := range b.Instrs {
				var src ssa.Value
				switch x := in.(type) {
				case *ssa.Convert:
					if types.Identical(x.Type(), mt) {
						src = x.X
					}
				case *ssa.ChangeType:
					if types.Identical(x.Type(), mt) {
						src = x.X
					}
				}
				if src == nil {
					continue
				}
				if _, isConst := src.(*ssa.Const); isConst {
					continue
				}
				sb, ssigned, isInt := c21IntWidth(src.Type())
				if !isInt {
					continue
				}
				n++
				cons := w.FuncName(fn) + " convert " + src.Type().String() + " to MessageType"
				seen[cons]++
				if seen[cons] > 1 {
					cons += fmt.Sprintf(" #%d", seen[cons])
				}
				pos := w.Pos(in.Pos())
				// value-preserving for all source values?
				preserving := (ssigned == tsigned && sb <= tb) || (!ssigned && tsigned && sb < tb)
				if preserving {
					c.OK("C21.R2", cons, pos, "the conversion preserves every source value")
					continue
				}
				// a parse limited to the target's range
				if ex, isEx := src.(*ssa.Extract); isEx && ex.Index == 0 {
					if pc, isCall := ex.Tuple.(*ssa.Call); isCall {
						name := w.Info(pc).Name
						if (name == "func:strconv.ParseInt" || name == "func:strconv.ParseUint") && len(pc.Call.Args) == 3 {
							if bits, isK := an.ConstInt(pc.Call.Args[2]); isK && bits != 0 {
								fits := (name == "func:strconv.ParseUint" && !tsigned && int(bits) <= tb) || (name == "func:strconv.ParseUint" && tsigned && int(bits) < tb) || (name == "func:strconv.ParseInt" && tsigned && int(bits) <= tb)
								if fits {
									c.OK("C21.R2", cons, pos, "the operand is parsed with a bit size that fits MessageType")
									continue
								}
							}
						}
					}
				}
				// sign-only change at equal width loses negative / huge values but no low bits;
				// a narrower target silently maps foreign numbers onto protocol numbers
				if sb > tb {
					// guarded by a range test on the operand?
					guarded := false
					term := w.Term(src)
					for _, f := range w.FactsDominating(in) {
						if _, has := f.Terms[term]; has && !f.NonNum && (f.Rel == ">" || f.Rel == ">=") {
							guarded = true
						}
					}
					// our own numbers on the way out (the operand only ever holds
					// MessageType() results or protocol constants) survive the round trip
					own, ownKnown := true, false
					if _, isParam := src.(*ssa.Parameter); isParam {
						ownKnown = true
						ss := w.Sources(src, an.FlowOpts{IntoCallers: true, IntoCallees: true, MaxDepth: 8, FieldsThroughWriters: map[string]bool{"SwapData.NextMessageType": true}})
						if len(ss.Leaves) == 0 {
							own = false
						}
						for _, l := range ss.Leaves {
							switch {
							case l.Kind == "call" && strings.HasSuffix(l.Name, ".MessageType#0"):
							case l.Kind == "const":
							default:
								own = false
							}
						}
					}
					switch {
					case guarded:
						c.Unknown("C21.R2", cons, pos, "a narrowing conversion behind a comparison of the operand; the rule does not decide whether the comparison confines it to the target range")
					case ownKnown && own:
						c.OK("C21.R2", cons, pos, "narrowing, but the operand only carries MessageType() results and constants (sending side)")
					case ownKnown:
						c.Unknown("C21.R2", cons, pos, "a narrowing conversion of a parameter whose origins this rule cannot enumerate")
					default:
						c.Bad("C21.R2", cons, pos, fmt.Sprintf("a %d-bit value is truncated to the %d-bit MessageType without a range check: a foreign type number whose low %d bits equal a peerswap number (e.g. 0x1a455) is taken for a peerswap message", sb, tb, tb))
					}
					continue
				}
				c.Unknown("C21.R2", cons, pos, "the conversion changes signedness at equal width; not judged")
			}
		}
	}
	c.AtLeast("C21.R2", "integer conversions into MessageType in production code", n, 2)
}

func c21HasSrc(names []string, sub string) bool {
	for _, n := range names {
		if strings.Contains(n, sub) {
			return true
		}
	}
	return false
}

// ---- R3 ------------------------------------------------------------------------------

func c21JSONName(f *types.Var, tag string) (name string, skipped bool, tagged bool) {
	v, ok := reflect.StructTag(tag).Lookup("json")
	if !ok {
		return f.Name(), false, false
	}
	if v == "-" {
		return "", true, true
	}
	n := strings.Split(v, ",")[0]
	if n == "" {
		return f.Name(), false, false
	}
	return n, false, true
}

func c21R3(c *an.Check) {
	w := c.W
	nStructs := 0
	for _, e := range c21Proto {
		if e.typ == "" {
			continue
		}
		nt := w.Named("swap", e.typ)
		if nt == nil {
			c.Anchor("struct swap.%s does not resolve", e.typ)
			continue
		}
		st, ok := nt.Underlying().(*types.Struct)
		if !ok {
			c.Unknown("C21.R3", "swap."+e.typ, w.Pos(nt.Obj().Pos()), "not a struct")
			continue
		}
		nStructs++
		lower := map[string]string{}
		for i := 0; i < st.NumFields(); i++ {
			f := st.Field(i)
			cons := "swap." + e.typ + "." + f.Name()
			pos := w.Pos(f.Pos())
			name, skipped, tagged := c21JSONName(f, st.Tag(i))
			switch {
			case f.Embedded():
				c.Unknown("C21.R3", cons, pos, "embedded field: JSON promotion rules are not modelled")
				continue
			case !f.Exported():
				c.Bad("C21.R3", cons, pos, "unexported field: encoding/json drops it, the decoded message differs from the sent one")
				continue
			case skipped:
				c.Bad("C21.R3", cons, pos, "field tagged json:\"-\": it is dropped on the wire, the decoded message differs from the sent one")
				continue
			}
			if prev, dup := lower[strings.ToLower(name)]; dup {
				c.Bad("C21.R3", cons, pos, fmt.Sprintf("JSON name %q collides (case-insensitively, as Go's decoder matches) with field %s: one of the two values is lost when decoding", name, prev))
				continue
			}
			lower[strings.ToLower(name)] = f.Name()
			if why := c21FieldCodec(w, f.Type()); why != "" {
				c.Unknown("C21.R3", cons, pos, why)
				continue
			}
			c.OK("C21.R3", cons, pos, "encoded as "+name)
			if !tagged {
				c.Note("C21.R3", cons+" untagged", pos, fmt.Sprintf("no json tag: encoded as %q; Go peers decode it (case-insensitive match), a case-sensitive implementation of the protocol would not", name))
			}
		}
		// protocol document coverage
		var missing []string
		for _, d := range e.doc {
			if lower[strings.ToLower(d)] == "" {
				missing = append(missing, d)
			}
		}
		c.Decide(len(missing) == 0, "C21.R3", "swap."+e.typ+" protocol fields", w.Pos(nt.Obj().Pos()),
			fmt.Sprintf("all %d fields of %s in docs/peer-protocol.md have a JSON name", len(e.doc), e.wire),
			fmt.Sprintf("the protocol fields %v of %s have no field with that JSON name: a peer's value is silently dropped and our message lacks it", missing, e.wire))
	}
	c.AtLeast("C21.R3", "message structs", nStructs, 7)
}

// c21FieldCodec returns "" when values of the type round-trip through
// encoding/json by construction: basic scalars, or a named type (or pointer to
// one) that declares both MarshalJSON and UnmarshalJSON.
func c21FieldCodec(w *an.World, t types.Type) string {
	if b, ok := t.Underlying().(*types.Basic); ok {
		if b.Info()&(types.IsInteger|types.IsString|types.IsBoolean) != 0 {
			return ""
		}
		return "field of basic type " + b.Name() + ": float / complex values are not claimed to round-trip"
	}
	nt := an.NamedOf(t)
	if nt == nil {
		return "field type " + t.String() + " is not modelled"
	}
	has := func(m string) bool {
		for _, tt := range []types.Type{nt, types.NewPointer(nt)} {
			ms := types.NewMethodSet(tt)
			for i := 0; i < ms.Len(); i++ {
				if ms.At(i).Obj().Name() == m {
					return true
				}
			}
		}
		return false
	}
	mj, uj := has("MarshalJSON"), has("UnmarshalJSON")
	switch {
	case mj && uj:
		return ""
	case mj != uj:
		return "type " + nt.Obj().Name() + " declares only one of MarshalJSON / UnmarshalJSON"
	}
	return "field type " + t.String() + " is not modelled"
}

// ---- R4 ------------------------------------------------------------------------------

// c21EffectFree: a callee that neither decodes, nor calls a service, handler or
// state machine: everything it (transitively, through in-module static calls)
// invokes is a library function, a builtin, the module's logging package or an
// error's Error method. Logging a message is not "handling" it.
func c21EffectFree(w *an.World, f *ssa.Function) bool {
	if f == nil || !w.InModule(f) || f.Blocks == nil {
		return false
	}
	if w.FnRel(f) == "log" {
		return true
	}
	for _, ef := range w.Summary(f).Effects {
		n := ef.Name
		switch {
		case n == c21FnUnmarshal || n == c21FnDecode:
			return false
		case strings.HasPrefix(n, "builtin:"):
		case n == "iface:error.Error":
		case strings.HasPrefix(n, "iface:log."):
		case strings.HasPrefix(n, "func:") && ef.Info.Static != nil && !w.InModule(ef.Info.Static):
		case strings.HasPrefix(n, "func:") && ef.Info.Static != nil && (w.FnRel(ef.Info.Static) == "log" || w.FnRel(ef.Info.Static) == w.FnRel(f)):
			// own package: followed by the summary itself
		default:
			return false
		}
	}
	// no stores into module state
	clean := true
	var visit func(g *ssa.Function, depth int)
	seen := map[*ssa.Function]bool{}
	visit = func(g *ssa.Function, depth int) {
		if g == nil || seen[g] || g.Blocks == nil || depth > 4 {
			return
		}
		seen[g] = true
		for _, b := range g.Blocks {
			for _, in := range b.Instrs {
				switch x := in.(type) {
				case *ssa.Store:
					switch x.Addr.(type) {
					case *ssa.Alloc:
					case *ssa.IndexAddr, *ssa.FieldAddr:
						// stores into locals built in place are fine; anything rooted elsewhere is not
						root := x.Addr
						for {
							switch y := root.(type) {
							case *ssa.IndexAddr:
								root = y.X
								continue
							case *ssa.FieldAddr:
								root = y.X
								continue
							}
							break
						}
						if _, isLocal := root.(*ssa.Alloc); !isLocal {
							clean = false
						}
					default:
						clean = false
					}
				case *ssa.MapUpdate, *ssa.Send, *ssa.Go:
					clean = false
				case ssa.CallInstruction:
					if callee := x.Common().StaticCallee(); callee != nil && w.InModule(callee) && w.FnRel(callee) != "log" {
						visit(callee, depth+1)
					}
				}
			}
		}
	}
	visit(f, 0)
	return clean
}

// c21Effectful: calls of OnMessageReceived that decode, consult or change
// state: json.Unmarshal, in-module static calls (other than the type parser and
// effect-free helpers such as logging and error constructors) and interface /
// dynamic calls.
func c21Effectful(w *an.World, d *c21Dispatch) []ssa.CallInstruction {
	var out []ssa.CallInstruction
	for _, call := range an.Calls(d.fn) {
		ci := w.Info(call)
		switch {
		case ci.Name == c21FnUnmarshal || ci.Name == c21FnDecode:
			out = append(out, call)
		case d.parse != nil && call == ssa.CallInstruction(d.parse):
		case strings.HasPrefix(ci.Name, "builtin:"):
		case ci.Static != nil && !w.InModule(ci.Static):
			// library helpers (errors.New, errors.Is, fmt.*)
		case ci.Static != nil && c21EffectFree(w, ci.Static):
		default:
			out = append(out, call)
		}
	}
	return out
}

func c21R4(c *an.Check, d *c21Dispatch, numOf map[*types.Named]int64) {
	w := c.W
	fn := d.fn
	pos := w.Pos(fn.Pos())
	// payload parameter: the []byte one
	pi := -1
	for i, p := range fn.Params {
		if s, ok := p.Type().Underlying().(*types.Slice); ok {
			if b, ok := s.Elem().Underlying().(*types.Basic); ok && b.Kind() == types.Byte {
				if pi >= 0 {
					c.Unknown("C21.R4", "OnMessageReceived size guard", pos, "more than one []byte parameter")
					return
				}
				pi = i
			}
		}
	}
	if pi < 0 {
		c.Unknown("C21.R4", "OnMessageReceived size guard", pos, "no []byte payload parameter")
		return
	}
	term := fmt.Sprintf("len(param#%d)", pi)
	// size guards: edges with fact len(payload) - K > 0 (K <= 102400) or >= (K <= 102401)
	var passes []an.Edge
	var limit int64
	nLenTests := 0
	for _, f := range w.Facts(fn) {
		if f.NonNum || len(f.Terms) != 1 || f.Terms[term] != 1 {
			continue
		}
		nLenTests++
		k := -f.Const
		rejects := (f.Rel == ">" && k <= c21MaxPayload) || (f.Rel == ">=" && k <= c21MaxPayload+1)
		if !rejects || k < 1 {
			continue
		}
		e := an.Edge{From: f.Edge.From, Idx: 1 - f.Edge.Idx}
		// the rejecting edge must not fall through into the handling code
		if an.ReachBlocks([]*ssa.BasicBlock{f.Edge.To()}, nil, nil)[e.To()] {
			continue
		}
		passes = append(passes, e)
		limit = k
		if f.Rel == ">=" {
			limit = k - 1
		}
	}
	switch {
	case len(passes) > 0:
		c.OK("C21.R4", "OnMessageReceived size guard", w.Pos(passes[0].From.Instrs[len(passes[0].From.Instrs)-1].(*ssa.If).Cond.Pos()), fmt.Sprintf("payloads longer than %d bytes take the rejecting edge", limit))
	case nLenTests > 0:
		c.Bad("C21.R4", "OnMessageReceived size guard", pos, fmt.Sprintf("no test of len(payload) rejects every payload above %d bytes (100 KiB). Tests in the function: %s", c21MaxPayload, an.DescribeFacts(w.Facts(fn))))
	default:
		// is the payload looked at by any branch at all (e.g. through a helper)?
		// ... other than through the result of decoding it
		dep := map[ssa.Value]bool{fn.Params[pi]: true}
		for _, dec := range d.decodes {
			if v := dec.ctx.Value(); v != nil {
				dep[v] = false
				c21Opaque[v] = true
			}
		}
		looked := false
		for _, b := range fn.Blocks {
			if i, ok := b.Instrs[len(b.Instrs)-1].(*ssa.If); ok && c21DependsOn(i.Cond, dep) {
				looked = true
			}
		}
		c21Opaque = map[ssa.Value]bool{}
		if looked {
			c.Unknown("C21.R4", "OnMessageReceived size guard", pos, "the payload is tested, but not by a comparison of len(payload) with a constant that this rule can read")
		} else {
			c.Bad("C21.R4", "OnMessageReceived size guard", pos, fmt.Sprintf("no branch of OnMessageReceived depends on the payload size: payloads above %d bytes (100 KiB) are handled like any other", c21MaxPayload))
		}
	}
	behindSize := func(b *ssa.BasicBlock) bool {
		for _, e := range passes {
			if an.EdgeDominates(e, b) {
				return true
			}
		}
		return false
	}
	// type parse
	switch {
	case d.parse == nil:
		c.Unknown("C21.R4", "OnMessageReceived type guard", pos, "PeerswapCustomMessageType (or a helper handing its results back) is not called exactly once")
	case len(d.okParse) == 0:
		var errV ssa.Value
		if vs := an.ResultValues(d.parse, 1); len(vs) > 0 {
			errV = vs[0]
		}
		if errV == nil || errV.Referrers() == nil || len(*errV.Referrers()) == 0 {
			c.Bad("C21.R4", "OnMessageReceived type guard", w.Pos(d.parse.Pos()), "the error of PeerswapCustomMessageType is discarded: non-peerswap types are not filtered")
		} else {
			c.Unknown("C21.R4", "OnMessageReceived type guard", w.Pos(d.parse.Pos()), "the error of PeerswapCustomMessageType is not compared with nil here but handed on")
		}
	default:
		c.OK("C21.R4", "OnMessageReceived type guard", w.Pos(d.parse.Pos()), "the message type is parsed once and its error tested")
	}
	// decodes of each arm, with their ok edges (only those made directly in fn)
	type arm struct {
		ok  []an.Edge
		num int64
	}
	var arms []arm
	helperDecodes := map[ssa.CallInstruction]bool{}
	for _, dec := range d.decodes {
		if dec.ctx != dec.call {
			helperDecodes[dec.ctx] = true
			// a decoding helper that reports failure through its error result
			// guards the rest of its arm like a direct json.Unmarshal
			if hc, isCall := dec.ctx.(*ssa.Call); isCall && dec.typ != nil && an.ErrResultIndex(hc) >= 0 {
				if num, has := numOf[dec.typ]; has {
					okE, _ := an.OkEdges(hc)
					arms = append(arms, arm{ok: okE, num: num})
				}
			}
			continue
		}
		uc, isCall := dec.call.(*ssa.Call)
		if !isCall || dec.typ == nil {
			continue
		}
		if num, has := numOf[dec.typ]; has {
			okE, _ := an.OkEdges(uc)
			arms = append(arms, arm{ok: okE, num: num})
		}
	}
	eff := c21Effectful(w, d)
	// semantic floor: one decode and one handler per swap message
	c.AtLeast("C21.R4", "decoding / handler / service calls in OnMessageReceived", len(eff), 8)
	seen := map[string]int{}
	for _, call := range eff {
		ci := w.Info(call)
		name := strings.TrimPrefix(strings.TrimPrefix(ci.Name, "func:"), "iface:")
		isUnm := ci.Name == c21FnUnmarshal || ci.Name == c21FnDecode
		armNums, onlyNeq, uninterpreted := d.guards(call)
		cons := "OnMessageReceived call " + name
		if len(armNums) == 1 {
			cons += fmt.Sprintf(" [arm %d]", armNums[0])
		}
		seen[cons]++
		if seen[cons] > 1 {
			cons += fmt.Sprintf(" #%d", seen[cons])
		}
		var missing, unknown []string
		if len(passes) > 0 && !behindSize(call.Block()) {
			missing = append(missing, "not behind the size guard: an oversized payload reaches it")
		}
		if len(d.okParse) > 0 && !an.EdgesDominate(d.okParse, call.Block()) {
			missing = append(missing, "not behind the err==nil edge of PeerswapCustomMessageType: a non-peerswap type reaches it")
		}
		if !isUnm {
			switch {
			case len(armNums) == 1:
				okArm, anyArm := false, false
				for _, a := range arms {
					if a.num != armNums[0] {
						continue
					}
					anyArm = true
					if len(a.ok) > 0 && an.EdgesDominate(a.ok, call.Block()) {
						okArm = true
					}
				}
				switch {
				case helperDecodes[call]:
					// the callee decodes the payload itself
				case okArm:
				case anyArm:
					missing = append(missing, "not behind the err==nil edge of the json.Unmarshal of its arm: an undecodable payload reaches it")
				default:
					unknown = append(unknown, "no json.Unmarshal of this arm was found in OnMessageReceived or in this callee: cannot tell whether an undecodable payload reaches the call")
				}
			case len(armNums) > 1:
				unknown = append(unknown, fmt.Sprintf("dominated by several type tests %v", armNums))
			case uninterpreted:
				unknown = append(unknown, "the branch on the message type that leads here is not one this rule can read")
			case onlyNeq || d.typeVal != nil:
				missing = append(missing, "not inside exactly one `msgType == c` arm: it runs for unknown message types too")
			default:
				unknown = append(unknown, "the message type is not available")
			}
		}
		switch {
		case len(missing) > 0:
			c.Bad("C21.R4", cons, w.Pos(call.Pos()), strings.Join(missing, "; "))
		case len(unknown) > 0:
			c.Unknown("C21.R4", cons, w.Pos(call.Pos()), strings.Join(unknown, "; "))
		default:
			c.OK("C21.R4", cons, w.Pos(call.Pos()), "reached only by a well-sized peerswap message that decoded")
		}
	}
}

// ---- R5 ------------------------------------------------------------------------------

// c21Pair classifies a (payload, type) argument pair.
// c21Pair classifies a (payload, type) pair used in fn: "ok" both come from
// one MarshalPeerswapMessage call (directly, through the NextMessage /
// NextMessageType fields of one swap, through a helper that hands the two
// results back, or through fn's own parameters at every production call site),
// "bad" they positively do not, "unknown" otherwise.
func c21Pair(w *an.World, fn *ssa.Function, payload, typ ssa.Value, depth int) (verdict string, why string) {
	p, t := c21StripConv(payload), c21StripConv(typ)
	pe, pIsE := p.(*ssa.Extract)
	te, tIsE := t.(*ssa.Extract)
	pf, pb := c21FieldLoad(p)
	tf, tb := c21FieldLoad(t)
	isMarshal := func(e *ssa.Extract) bool {
		cc, _ := e.Tuple.(*ssa.Call)
		return cc != nil && w.Info(cc).Name == c21FnMarshal
	}
	switch {
	case pIsE && tIsE && pe.Tuple == te.Tuple && isMarshal(pe):
		if pe.Index != 0 || te.Index != 1 {
			return "bad", fmt.Sprintf("results #%d/#%d of MarshalPeerswapMessage are passed as payload/type", pe.Index, te.Index)
		}
		return "ok", ""
	case pIsE && tIsE && pe.Tuple == te.Tuple:
		// a helper that hands a marshalled pair back
		cc, _ := pe.Tuple.(*ssa.Call)
		var f *ssa.Function
		if cc != nil {
			f = cc.Call.StaticCallee()
		}
		if f == nil || !w.InModule(f) || f.Blocks == nil || depth > 2 {
			return "unknown", "payload and type are results of " + w.Term(p) + ", which is not followed"
		}
		res := "ok"
		for _, r := range an.Returns(f) {
			if pe.Index >= len(r.Results) || te.Index >= len(r.Results) || an.IsNilConst(r.Results[pe.Index]) {
				continue
			}
			switch v, wy := c21Pair(w, f, r.Results[pe.Index], r.Results[te.Index], depth+1); v {
			case "bad":
				return "bad", "in " + w.FuncName(f) + ": " + wy
			case "unknown":
				res, why = "unknown", wy
			}
		}
		return res, why
	case pIsE && isMarshal(pe) && tIsE && isMarshal(te):
		return "bad", "payload and type are results of two different MarshalPeerswapMessage calls"
	case pIsE && isMarshal(pe) && (tf == "SwapData.NextMessageType" || c21IsConst(t)):
		return "bad", "the payload comes from a call but the type does not (" + w.Term(t) + ")"
	case tIsE && isMarshal(te) && (pf == "SwapData.NextMessage" || c21IsConst(p)):
		return "bad", "the type comes from a call but the payload does not (" + w.Term(p) + ")"
	case pf == "SwapData.NextMessage" && tf == "SwapData.NextMessageType":
		if pb != tb && w.Term(pb) != w.Term(tb) {
			return "unknown", "NextMessage and NextMessageType are read through different pointers"
		}
		return "ok", ""
	case pf == "SwapData.NextMessage" && c21IsConst(t), tf == "SwapData.NextMessageType" && c21IsConst(p):
		return "bad", "one of payload / type is the stored next message, the other a constant"
	}
	// both are parameters of fn: judge every production call site
	pp, pIsP := p.(*ssa.Parameter)
	tp, tIsP := t.(*ssa.Parameter)
	if pIsP && tIsP && pp.Parent() == fn && tp.Parent() == fn && fn.Parent() == nil && depth <= 2 {
		pi, ti := c21ParamIndex(pp), c21ParamIndex(tp)
		n := 0
		res := "ok"
		for _, g := range prodFuncs(w) {
			for _, call := range an.Calls(g) {
				if call.Common().StaticCallee() != fn {
					continue
				}
				args := call.Common().Args
				if pi >= len(args) || ti >= len(args) {
					continue
				}
				n++
				switch v, wy := c21Pair(w, g, args[pi], args[ti], depth+1); v {
				case "bad":
					return "bad", "at the call in " + w.FuncName(g) + " (" + w.Pos(call.Pos()) + "): " + wy
				case "unknown":
					res, why = "unknown", wy
				}
			}
		}
		if n == 0 {
			return "unknown", "payload and type are parameters of a function without static production callers"
		}
		return res, why
	}
	return "unknown", "payload is " + w.Term(p) + ", type is " + w.Term(t)
}

func c21IsConst(v ssa.Value) bool {
	_, ok := v.(*ssa.Const)
	return ok
}

func c21ParamIndex(p *ssa.Parameter) int {
	for i, q := range p.Parent().Params {
		if q == p {
			return i
		}
	}
	return -1
}

// c21Instances counts uses: a site inside a function that has static production
// callers counts once per caller, so that folding repeated code into one helper
// does not reduce the count.
func c21Instances(w *an.World, fns []*ssa.Function) int {
	n := 0
	for _, fn := range fns {
		fn = an.EnclosingTop(fn)
		k := 0
		for _, g := range prodFuncs(w) {
			for _, call := range an.Calls(g) {
				if call.Common().StaticCallee() == fn {
					k++
				}
			}
		}
		if k < 1 {
			k = 1
		}
		n += k
	}
	return n
}

func c21FieldLoad(v ssa.Value) (field string, base ssa.Value) {
	u, ok := v.(*ssa.UnOp)
	if !ok || u.Op != token.MUL {
		return "", nil
	}
	fa, ok := u.X.(*ssa.FieldAddr)
	if !ok {
		return "", nil
	}
	return an.FieldName(fa.X.Type(), fa.Field), fa.X
}

func c21R5(c *an.Check, marshal *ssa.Function) {
	w := c.W
	// (a) send sites in package swap
	var sendFns []*ssa.Function
	seen := map[string]int{}
	for _, fn := range prodFuncs(w) {
		if w.FnRel(fn) != "swap" {
			continue
		}
		for _, call := range an.Calls(fn) {
			ci := w.Info(call)
			isSend := ci.Name == c21IfSend || (ci.Method == "SendMessage" && (ci.Static != nil || ci.Iface != nil))
			if !isSend {
				continue
			}
			args := call.Common().Args
			if ci.Static != nil && len(args) == 4 {
				args = args[1:] // receiver
			}
			if len(args) != 3 {
				continue
			}
			sendFns = append(sendFns, fn)
			cons := w.FuncName(fn) + " SendMessage"
			seen[cons]++
			if seen[cons] > 1 {
				cons += fmt.Sprintf(" #%d", seen[cons])
			}
			switch v, why := c21Pair(w, fn, args[1], args[2], 0); v {
			case "ok":
				c.OK("C21.R5", cons, w.Pos(call.Pos()), "payload and type come from one MarshalPeerswapMessage call")
			case "bad":
				c.Bad("C21.R5", cons, w.Pos(call.Pos()), "a payload is sent with a type number that is not the one of the marshalled message: "+why)
			default:
				c.Unknown("C21.R5", cons, w.Pos(call.Pos()), "cannot relate the sent payload and type to one MarshalPeerswapMessage call: "+why)
			}
		}
	}
	c.AtLeast("C21.R5", "SendMessage uses in package swap (a shared helper counted once per caller)", c21Instances(w, sendFns), 14)

	// (b) the stored pair
	var storeFns []*ssa.Function
	partner := func(fn *ssa.Function, field string, base ssa.Value) []*ssa.Store {
		var out []*ssa.Store
		for _, ps := range w.FieldWriters(field) {
			if ps.Parent() == fn && ps.Addr.(*ssa.FieldAddr).X == base {
				out = append(out, ps)
			}
		}
		return out
	}
	for _, st := range w.FieldWriters("SwapData.NextMessageType") {
		fn := st.Parent()
		if an.IsTestSupport(w.FnRel(fn)) {
			continue
		}
		storeFns = append(storeFns, fn)
		cons := w.FuncName(fn) + " store NextMessageType"
		fa := st.Addr.(*ssa.FieldAddr)
		ps := partner(fn, "SwapData.NextMessage", fa.X)
		verdict, why := "unknown", "no store to NextMessage of the same swap in this function"
		tv := c21StripConv(st.Val)
		te, _ := tv.(*ssa.Extract)
		fromMarshal := false
		if te != nil {
			cc, _ := te.Tuple.(*ssa.Call)
			fromMarshal = cc != nil && w.Info(cc).Name == c21FnMarshal
		}
		switch {
		case len(ps) == 0 && fromMarshal:
			verdict, why = "bad", "NextMessageType is stored without NextMessage from the same MarshalPeerswapMessage call on the same swap: a later SendMessage pairs the payload with another message's number"
		case len(ps) == 0 && c21IsConst(tv):
			verdict, why = "bad", "NextMessageType is set to a constant, not to result #1 of MarshalPeerswapMessage: "+w.Term(st.Val)
		default:
			for _, p := range ps {
				v, wy := c21Pair(w, fn, p.Val, st.Val, 0)
				if v == "ok" || verdict == "unknown" {
					verdict, why = v, wy
				}
				if v == "ok" {
					break
				}
			}
			if verdict == "bad" {
				why = "NextMessageType is not stored together with NextMessage from one MarshalPeerswapMessage call: " + why
			}
		}
		switch verdict {
		case "ok":
			c.OK("C21.R5", cons, w.Pos(st.Pos()), "stored together with NextMessage from the same MarshalPeerswapMessage call")
		case "bad":
			c.Bad("C21.R5", cons, w.Pos(st.Pos()), why)
		default:
			c.Unknown("C21.R5", cons, w.Pos(st.Pos()), "cannot relate the stored type to the stored payload: "+why)
		}
	}
	c.AtLeast("C21.R5", "settings of SwapData.NextMessageType (a shared helper counted once per caller)", c21Instances(w, storeFns), 5)
	// every production store to NextMessage has its type stored too
	for _, ps := range w.FieldWriters("SwapData.NextMessage") {
		fn := ps.Parent()
		if an.IsTestSupport(w.FnRel(fn)) {
			continue
		}
		cons := w.FuncName(fn) + " store NextMessage"
		if an.IsNilConst(ps.Val) {
			c.OK("C21.R5", cons, w.Pos(ps.Pos()), "clears the slot")
			continue
		}
		ts := partner(fn, "SwapData.NextMessageType", ps.Addr.(*ssa.FieldAddr).X)
		pe, _ := c21StripConv(ps.Val).(*ssa.Extract)
		fromMarshal := false
		if pe != nil {
			cc, _ := pe.Tuple.(*ssa.Call)
			fromMarshal = cc != nil && w.Info(cc).Name == c21FnMarshal
		}
		verdict, why := "unknown", "no store to NextMessageType of the same swap in this function"
		if len(ts) == 0 && fromMarshal {
			verdict, why = "bad", "NextMessage is replaced without the matching NextMessageType: the new payload would be sent with the previous message's number"
		}
		for _, t := range ts {
			v, wy := c21Pair(w, fn, ps.Val, t.Val, 0)
			if v == "ok" || verdict == "unknown" {
				verdict, why = v, wy
			}
			if v == "ok" {
				break
			}
		}
		switch verdict {
		case "ok":
			c.OK("C21.R5", cons, w.Pos(ps.Pos()), "stored together with NextMessageType from the same MarshalPeerswapMessage call")
		case "bad":
			c.Bad("C21.R5", cons, w.Pos(ps.Pos()), why)
		default:
			c.Unknown("C21.R5", cons, w.Pos(ps.Pos()), "cannot relate the stored payload to the stored type: "+why)
		}
	}

	// (c) forwarding messengers in package messages pass their parameters through
	nFw := 0
	for _, fn := range prodFuncs(w) {
		if w.FnRel(fn) != "messages" {
			continue
		}
		top := an.EnclosingTop(fn)
		if top.Name() != "SendMessage" || len(top.Params) != 4 {
			continue
		}
		for _, call := range an.Calls(fn) {
			ci := w.Info(call)
			if ci.Method != "SendMessage" || !call.Common().IsInvoke() || len(call.Common().Args) != 3 {
				continue
			}
			nFw++
			verdict := "ok"
			for i, a := range call.Common().Args {
				o := c21ParamOrigin(a)
				switch {
				case o == ssa.Value(top.Params[i+1]):
				case o != nil:
					verdict = "bad" // another parameter
				default:
					switch c21StripConv(a).(type) {
					case *ssa.BinOp, *ssa.Const:
						verdict = "bad" // computed from / replaced by something else
					default:
						if verdict == "ok" {
							verdict = "unknown"
						}
					}
				}
			}
			cons := w.FuncName(fn) + " forward SendMessage"
			switch verdict {
			case "ok":
				c.OK("C21.R5", cons, w.Pos(call.Pos()), "the redundant messenger forwards (peer, payload, type) unchanged")
			case "bad":
				c.Bad("C21.R5", cons, w.Pos(call.Pos()), "the redundant messenger does not forward its (peer, payload, type) parameters unchanged")
			default:
				c.Unknown("C21.R5", cons, w.Pos(call.Pos()), "cannot relate the forwarded arguments to the parameters of SendMessage")
			}
		}
	}
	c.AtLeast("C21.R5", "forwarding SendMessage calls in package messages", nFw, 1)
}

// c21ParamOrigin resolves a value to the parameter it is (directly or as a
// captured free variable of a closure).
func c21ParamOrigin(v ssa.Value) ssa.Value {
	for depth := 0; depth < 4; depth++ {
		switch x := v.(type) {
		case *ssa.Parameter:
			return x
		case *ssa.FreeVar:
			fn := x.Parent()
			idx := -1
			for i, fv := range fn.FreeVars {
				if fv == x {
					idx = i
				}
			}
			par := fn.Parent()
			if par == nil || idx < 0 {
				return nil
			}
			var bound ssa.Value
			for _, b := range par.Blocks {
				for _, in := range b.Instrs {
					if mc, ok := in.(*ssa.MakeClosure); ok && mc.Fn == fn && idx < len(mc.Bindings) {
						bound = mc.Bindings[idx]
					}
				}
			}
			if bound == nil {
				return nil
			}
			v = bound
		case *ssa.UnOp:
			// captured by reference: *alloc whose only store is the parameter
			if x.Op != token.MUL {
				return nil
			}
			switch a := x.X.(type) {
			case *ssa.FreeVar:
				v = a
				// the free variable is the address: resolve to the alloc, then its store
				r := c21ParamOrigin(a)
				if al, ok := r.(*ssa.Alloc); ok {
					return c21AllocParam(al)
				}
				return nil
			case *ssa.Alloc:
				return c21AllocParam(a)
			default:
				return nil
			}
		case *ssa.Alloc:
			return x
		default:
			return nil
		}
	}
	return nil
}

func c21AllocParam(al *ssa.Alloc) ssa.Value {
	if al.Referrers() == nil {
		return nil
	}
	var vals []ssa.Value
	for _, r := range *al.Referrers() {
		if s, ok := r.(*ssa.Store); ok && s.Addr == al {
			vals = append(vals, s.Val)
		}
	}
	if len(vals) == 1 {
		if p, ok := vals[0].(*ssa.Parameter); ok {
			return p
		}
	}
	return nil
}

// ---- R6 ------------------------------------------------------------------------------

func c21R6(c *an.Check, d *c21Dispatch) {
	w := c.W
	n := 0
	for _, dec := range d.decodes {
		u, nt, al := dec.call, dec.typ, dec.slot
		if nt == nil || al == nil {
			continue
		}
		cons := "OnMessageReceived decoded *" + nt.Obj().Name()
		// decoded into a value: `null` leaves the zero value, nothing to dereference
		ptr, isPtr := al.Type().Underlying().(*types.Pointer)
		if !isPtr {
			continue
		}
		if _, toPtr := ptr.Elem().Underlying().(*types.Pointer); !toPtr {
			n++
			c.OK("C21.R6", cons, w.Pos(u.Pos()), "decoded into a struct value: a `null` payload leaves the zero value")
			continue
		}
		n++
		if al.Referrers() == nil {
			continue
		}
		// non-nil edges of tests on loads of the slot
		var nonNil []an.Edge
		var derefs, escapes []ssa.Instruction
		helperTested := false
		for _, r := range *al.Referrers() {
			ld, isLoad := r.(*ssa.UnOp)
			if !isLoad || ld.Op != token.MUL || ld.Referrers() == nil {
				continue
			}
			for _, rr := range *ld.Referrers() {
				switch x := rr.(type) {
				case *ssa.BinOp:
					if (x.Op == token.EQL || x.Op == token.NEQ) && (an.IsNilConst(x.X) || an.IsNilConst(x.Y)) {
						t, f := an.BoolEdges(x)
						if x.Op == token.NEQ {
							nonNil = append(nonNil, t...)
						} else {
							nonNil = append(nonNil, f...)
						}
					}
				case *ssa.FieldAddr:
					if x.X == ssa.Value(ld) {
						derefs = append(derefs, x)
					}
				case *ssa.UnOp:
					if x.Op == token.MUL && x.X == ssa.Value(ld) {
						derefs = append(derefs, x)
					}
				case *ssa.Return:
					escapes = append(escapes, x)
				case ssa.CallInstruction:
					// value-receiver method call on the pointer dereferences it
					f := x.Common().StaticCallee()
					if f != nil && f.Signature.Recv() != nil && len(x.Common().Args) > 0 && x.Common().Args[0] == ssa.Value(ld) {
						if _, recvPtr := f.Signature.Recv().Type().(*types.Pointer); !recvPtr {
							derefs = append(derefs, x)
							continue
						}
					}
					// handed to a predicate whose boolean result is branched on: a nil test this rule cannot read
					if v := x.Value(); v != nil {
						if b, isB := v.Type().Underlying().(*types.Basic); isB && b.Kind() == types.Bool {
							if t, f := an.BoolEdges(v); len(t)+len(f) > 0 {
								helperTested = true
							}
						}
					}
				}
			}
		}
		var first ssa.Instruction
		for _, dr := range derefs {
			if len(nonNil) > 0 && an.EdgesDominate(nonNil, dr.Block()) {
				continue
			}
			if first == nil || dr.Pos() < first.Pos() {
				first = dr
			}
		}
		escaped := false
		for _, e := range escapes {
			if len(nonNil) == 0 || !an.EdgesDominate(nonNil, e.Block()) {
				escaped = true
			}
		}
		switch {
		case first != nil && !helperTested:
			c.Bad("C21.R6", cons, w.Pos(first.Pos()), "the payload `null` decodes without error into a nil *"+nt.Obj().Name()+
				", which is dereferenced here without a nil test: the message is not ignored, the handler goroutine panics (no recover in the module) and the daemon/plugin terminates")
		case first != nil:
			c.Unknown("C21.R6", cons, w.Pos(first.Pos()), "the decoded pointer is dereferenced without a `!= nil` test in this function; it is handed to a predicate whose meaning this rule does not read")
		case escaped:
			c.Unknown("C21.R6", cons, w.Pos(u.Pos()), "the decoded pointer is returned to the caller without a nil test; the caller's use is not followed")
		default:
			c.OK("C21.R6", cons, w.Pos(u.Pos()), fmt.Sprintf("%d dereferences, all behind a nil test", len(derefs)))
		}
	}
	c.AtLeast("C21.R6", "decoded message slots reached from OnMessageReceived", n, 7)
}

// c21DeclaredMethod returns the declared (non-synthetic) method body.
func c21DeclaredMethod(w *an.World, nt *types.Named, name string) *ssa.Function {
	for _, t := range []types.Type{nt, types.NewPointer(nt)} {
		ms := w.Prog.MethodSets.MethodSet(t)
		for i := 0; i < ms.Len(); i++ {
			if ms.At(i).Obj().Name() != name {
				continue
			}
			if f := w.Prog.MethodValue(ms.At(i)); f != nil && f.Synthetic == "" && f.Blocks != nil {
				return f
			}
		}
	}
	return nil
}

// ---- bounded concrete interpreter ------------------------------------------------
//
// c21XRun interprets the SSA form of a small pure function on concrete inputs
// (integers, strings, booleans, slices of them, errors). Library calls are
// modelled for the handful of functions these rules meet (strconv, fmt.Sprintf
// with integer verbs, regexp with a constant pattern, errors); in-module static
// callees are interpreted recursively. Anything else ends the run as
// "not interpretable" (never as a verdict). Nothing of the repository is
// executed: the checker walks the instructions itself.

type c21XSlice struct{ elems []interface{} }
type c21XArr struct{ elems []interface{} }
type c21XCell struct{ v interface{} }
type c21XRef struct {
	elems *[]interface{}
	i     int
}
type c21XStruct struct{ fields []interface{} }
type c21XErr struct{ msg string } // a non-nil error
type c21XNil struct{}             // nil pointer / interface / error
type c21XIface struct {
	v interface{}
	t types.Type
}
type c21XUnknown struct{ why string }
type c21XTuple []interface{}

type c21XInterp struct {
	w     *an.World
	steps int
	// leaf may supply the value of an instruction the interpreter cannot compute
	// (a field of external data, ...)
	leaf func(v ssa.Value) (interface{}, bool)
}

type c21XAbort struct{ why string }

func (it *c21XInterp) abort(format string, a ...interface{}) {
	panic(c21XAbort{fmt.Sprintf(format, a...)})
}

// c21XRun interprets fn(args...). outcome is "return" or "panic"; ok is false
// when the function left the interpreted subset (why says where).
func c21XRun(w *an.World, fn *ssa.Function, args []interface{}, leaf func(ssa.Value) (interface{}, bool)) (results []interface{}, outcome string, ok bool, why string) {
	it := &c21XInterp{w: w, leaf: leaf}
	defer func() {
		if r := recover(); r != nil {
			if a, isA := r.(c21XAbort); isA {
				results, outcome, ok, why = nil, "", false, a.why
				return
			}
			panic(r)
		}
	}()
	res, out := it.call(fn, args, 0)
	return res, out, true, ""
}

func c21XZero(t types.Type) interface{} {
	switch u := t.Underlying().(type) {
	case *types.Basic:
		switch {
		case u.Info()&types.IsInteger != 0:
			return int64(0)
		case u.Info()&types.IsString != 0:
			return ""
		case u.Info()&types.IsBoolean != 0:
			return false
		}
	case *types.Slice:
		return &c21XSlice{}
	case *types.Pointer, *types.Interface, *types.Map, *types.Chan, *types.Signature:
		return c21XNil{}
	case *types.Struct:
		st := &c21XStruct{fields: make([]interface{}, u.NumFields())}
		for i := range st.fields {
			st.fields[i] = c21XZero(u.Field(i).Type())
		}
		return st
	}
	return c21XUnknown{"zero value of " + t.String()}
}

func (it *c21XInterp) call(fn *ssa.Function, args []interface{}, depth int) ([]interface{}, string) {
	if fn.Blocks == nil || depth > 4 {
		it.abort("call of %s (no body or too deep)", fn.Name())
	}
	if len(args) != len(fn.Params) {
		it.abort("arity of %s", fn.Name())
	}
	env := map[ssa.Value]interface{}{}
	for i, p := range fn.Params {
		env[p] = args[i]
	}
	var get func(v ssa.Value) interface{}
	get = func(v ssa.Value) interface{} {
		if x, ok := env[v]; ok {
			return x
		}
		switch k := v.(type) {
		case *ssa.Const:
			if k.Value == nil {
				if _, isSl := k.Type().Underlying().(*types.Slice); isSl {
					return &c21XSlice{}
				}
				return c21XNil{}
			}
			switch k.Value.Kind() {
			case constant.Bool:
				return constant.BoolVal(k.Value)
			case constant.String:
				return constant.StringVal(k.Value)
			case constant.Int:
				if i, ok := constant.Int64Val(k.Value); ok {
					return i
				}
				if u, ok := constant.Uint64Val(k.Value); ok {
					return int64(u)
				}
			}
		case *ssa.Global:
			// a package-level variable: its initialiser, when it is one call with constant arguments
			if k.Pkg != nil {
				if ini := k.Pkg.Func("init"); ini != nil {
					for _, b := range ini.Blocks {
						for _, in := range b.Instrs {
							if st, ok := in.(*ssa.Store); ok && st.Addr == ssa.Value(k) {
								if cc, ok := st.Val.(*ssa.Call); ok {
									var as []interface{}
									for _, a := range cc.Call.Args {
										if c, isC := a.(*ssa.Const); isC && c.Value != nil && c.Value.Kind() == constant.String {
											as = append(as, constant.StringVal(c.Value))
										} else {
											it.abort("initialiser of %s has non-constant arguments", k.Name())
										}
									}
									if r, ok := it.lib(cc, as); ok {
										return &c21XCell{v: r}
									}
								}
							}
						}
					}
				}
			}
		}
		if it.leaf != nil {
			if x, ok := it.leaf(v); ok {
				return x
			}
		}
		it.abort("value %s (%T) is not available", v.Name(), v)
		return nil
	}
	blk := fn.Blocks[0]
	var prev *ssa.BasicBlock
	for {
		// phis, in parallel
		phis := map[ssa.Value]interface{}{}
		for _, in := range blk.Instrs {
			p, ok := in.(*ssa.Phi)
			if !ok {
				break
			}
			for i, pr := range blk.Preds {
				if pr == prev {
					phis[p] = get(p.Edges[i])
					break
				}
			}
		}
		for k, v := range phis {
			env[k] = v
		}
		for _, in := range blk.Instrs {
			it.steps++
			if it.steps > 200000 {
				it.abort("step bound exceeded")
			}
			switch x := in.(type) {
			case *ssa.Phi, *ssa.DebugRef, *ssa.Defer, *ssa.RunDefers:
			case *ssa.Alloc:
				el := x.Type().Underlying().(*types.Pointer).Elem()
				if arr, isArr := el.Underlying().(*types.Array); isArr {
					a := &c21XArr{elems: make([]interface{}, arr.Len())}
					for i := range a.elems {
						a.elems[i] = c21XZero(arr.Elem())
					}
					env[x] = a
				} else {
					env[x] = &c21XCell{v: c21XZero(el)}
				}
			case *ssa.Store:
				switch a := get(x.Addr).(type) {
				case *c21XCell:
					a.v = get(x.Val)
				case *c21XRef:
					(*a.elems)[a.i] = get(x.Val)
				default:
					it.abort("store through %T", a)
				}
			case *ssa.UnOp:
				v := get(x.X)
				switch x.Op {
				case token.MUL:
					switch a := v.(type) {
					case *c21XCell:
						env[x] = a.v
					case *c21XRef:
						env[x] = (*a.elems)[a.i]
					default:
						if it.leaf != nil {
							if r, ok := it.leaf(x); ok {
								env[x] = r
								continue
							}
						}
						it.abort("load through %T", a)
					}
				case token.NOT:
					b, ok := v.(bool)
					if !ok {
						it.abort("! of %T", v)
					}
					env[x] = !b
				case token.SUB:
					i, ok := v.(int64)
					if !ok {
						it.abort("- of %T", v)
					}
					env[x] = c21XWrapInt(-i, x.Type())
				default:
					it.abort("unary %s", x.Op)
				}
			case *ssa.BinOp:
				env[x] = it.binop(x, get(x.X), get(x.Y))
			case *ssa.Convert:
				v := get(x.X)
				switch a := v.(type) {
				case int64:
					if b, isB := x.Type().Underlying().(*types.Basic); isB && b.Info()&types.IsInteger != 0 {
						env[x] = c21XWrapInt(a, x.Type())
					} else {
						it.abort("conversion of an integer to %s", x.Type())
					}
				case string:
					env[x] = a // string <-> named string, []byte(string) kept as string
				case *c21XSlice:
					env[x] = a
				default:
					it.abort("conversion of %T", v)
				}
			case *ssa.ChangeType:
				env[x] = get(x.X)
			case *ssa.ChangeInterface:
				env[x] = get(x.X)
			case *ssa.MakeInterface:
				env[x] = c21XIface{v: get(x.X), t: x.X.Type()}
			case *ssa.FieldAddr:
				var st *c21XStruct
				switch a := get(x.X).(type) {
				case *c21XCell:
					st, _ = a.v.(*c21XStruct)
				case *c21XRef:
					st, _ = (*a.elems)[a.i].(*c21XStruct)
				}
				if st == nil || x.Field >= len(st.fields) {
					if it.leaf != nil {
						if r, ok := it.leaf(x); ok {
							env[x] = r
							continue
						}
					}
					it.abort("field address in something that is not a local struct")
				}
				env[x] = &c21XRef{elems: &st.fields, i: x.Field}
			case *ssa.Field:
				st, ok := get(x.X).(*c21XStruct)
				if !ok || x.Field >= len(st.fields) {
					it.abort("field of something that is not a local struct")
				}
				env[x] = st.fields[x.Field]
			case *ssa.IndexAddr:
				i, ok := get(x.Index).(int64)
				if !ok {
					it.abort("non-integer index")
				}
				var elems *[]interface{}
				switch a := get(x.X).(type) {
				case *c21XArr:
					elems = &a.elems
				case *c21XSlice:
					elems = &a.elems
				default:
					it.abort("index into %T", a)
				}
				if i < 0 || int(i) >= len(*elems) {
					return nil, "panic: index out of range"
				}
				env[x] = &c21XRef{elems: elems, i: int(i)}
			case *ssa.Slice:
				lo, hi := int64(0), int64(-1)
				if x.Low != nil {
					lo, _ = get(x.Low).(int64)
				}
				if x.High != nil {
					hi, _ = get(x.High).(int64)
				}
				switch a := get(x.X).(type) {
				case *c21XArr:
					if hi < 0 {
						hi = int64(len(a.elems))
					}
					if lo < 0 || hi > int64(len(a.elems)) || lo > hi {
						return nil, "panic: slice bounds out of range"
					}
					env[x] = &c21XSlice{elems: a.elems[lo:hi:hi]}
				case *c21XSlice:
					if hi < 0 {
						hi = int64(len(a.elems))
					}
					if lo < 0 || hi > int64(len(a.elems)) || lo > hi {
						return nil, "panic: slice bounds out of range"
					}
					env[x] = &c21XSlice{elems: a.elems[lo:hi:hi]}
				case string:
					if hi < 0 {
						hi = int64(len(a))
					}
					if lo < 0 || hi > int64(len(a)) || lo > hi {
						return nil, "panic: slice bounds out of range"
					}
					env[x] = a[lo:hi]
				default:
					it.abort("slice of %T", a)
				}
			case *ssa.Extract:
				t, ok := get(x.Tuple).(c21XTuple)
				if !ok || x.Index >= len(t) {
					it.abort("extract from a non-tuple")
				}
				env[x] = t[x.Index]
			case *ssa.Call:
				var as []interface{}
				for _, a := range x.Call.Args {
					as = append(as, get(a))
				}
				if b, isB := x.Call.Value.(*ssa.Builtin); isB {
					env[x] = it.builtin(b.Name(), as, x)
					continue
				}
				if x.Call.IsInvoke() {
					it.abort("interface call %s", x.Call.Method.Name())
				}
				f := x.Call.StaticCallee()
				if f == nil {
					it.abort("dynamic call")
				}
				if r, ok := it.lib(x, as); ok {
					env[x] = r
					continue
				}
				if it.w.InModule(f) && f.Blocks != nil {
					if it.w.FnRel(f) == "log" {
						env[x] = c21XTuple{}
						continue
					}
					res, out := it.call(f, as, depth+1)
					if out != "return" {
						return nil, out
					}
					if len(res) == 1 {
						env[x] = res[0]
					} else {
						env[x] = c21XTuple(res)
					}
					continue
				}
				it.abort("call of %s is not modelled", it.w.FuncName(f))
			case *ssa.Jump:
				prev, blk = blk, blk.Succs[0]
			case *ssa.If:
				b, ok := get(x.Cond).(bool)
				if !ok {
					it.abort("branch on a value that is not a known boolean")
				}
				prev = blk
				if b {
					blk = blk.Succs[0]
				} else {
					blk = blk.Succs[1]
				}
			case *ssa.Return:
				var res []interface{}
				for _, r := range x.Results {
					res = append(res, get(r))
				}
				return res, "return"
			case *ssa.Panic:
				return nil, "panic"
			default:
				it.abort("instruction %T is not interpreted", in)
			}
		}
		if blk == nil {
			it.abort("fell off a block")
		}
	}
}

// c21XWrapInt applies Go's conversion semantics for the integer type t.
func c21XWrapInt(i int64, t types.Type) int64 {
	b, ok := t.Underlying().(*types.Basic)
	if !ok {
		return i
	}
	switch b.Kind() {
	case types.Int8:
		return int64(int8(i))
	case types.Int16:
		return int64(int16(i))
	case types.Int32:
		return int64(int32(i))
	case types.Uint8:
		return int64(uint8(i))
	case types.Uint16:
		return int64(uint16(i))
	case types.Uint32:
		return int64(uint32(i))
	}
	return i
}

func (it *c21XInterp) binop(x *ssa.BinOp, l, r interface{}) interface{} {
	switch a := l.(type) {
	case int64:
		b, ok := r.(int64)
		if !ok {
			it.abort("integer %s %T", x.Op, r)
		}
		switch x.Op {
		case token.ADD:
			return c21XWrapInt(a+b, x.Type())
		case token.SUB:
			return c21XWrapInt(a-b, x.Type())
		case token.MUL:
			return c21XWrapInt(a*b, x.Type())
		case token.QUO:
			if b == 0 {
				it.abort("division by zero")
			}
			return c21XWrapInt(a/b, x.Type())
		case token.REM:
			if b == 0 {
				it.abort("division by zero")
			}
			return c21XWrapInt(a%b, x.Type())
		case token.AND:
			return a & b
		case token.OR:
			return a | b
		case token.XOR:
			return a ^ b
		case token.SHL:
			return c21XWrapInt(a<<uint(b), x.Type())
		case token.SHR:
			return a >> uint(b)
		case token.EQL:
			return a == b
		case token.NEQ:
			return a != b
		case token.LSS:
			return a < b
		case token.LEQ:
			return a <= b
		case token.GTR:
			return a > b
		case token.GEQ:
			return a >= b
		}
	case string:
		b, ok := r.(string)
		if !ok {
			it.abort("string %s %T", x.Op, r)
		}
		switch x.Op {
		case token.ADD:
			return a + b
		case token.EQL:
			return a == b
		case token.NEQ:
			return a != b
		case token.LSS:
			return a < b
		case token.LEQ:
			return a <= b
		case token.GTR:
			return a > b
		case token.GEQ:
			return a >= b
		}
	case bool:
		b, ok := r.(bool)
		if !ok {
			it.abort("bool %s %T", x.Op, r)
		}
		switch x.Op {
		case token.EQL:
			return a == b
		case token.NEQ:
			return a != b
		case token.AND:
			return a && b
		case token.OR:
			return a || b
		}
	}
	// comparisons with nil
	if x.Op == token.EQL || x.Op == token.NEQ {
		isNil := func(v interface{}) (bool, bool) {
			switch s := v.(type) {
			case c21XNil:
				return true, true
			case *c21XErr:
				return s == nil, true
			case c21XIface:
				return false, true
			case *c21XSlice:
				return s == nil || s.elems == nil, true
			}
			return false, false
		}
		_, lConst := x.X.(*ssa.Const)
		_, rConst := x.Y.(*ssa.Const)
		ln, lok := isNil(l)
		rn, rok := isNil(r)
		if lok && rok && (lConst || rConst) {
			return (ln == rn) == (x.Op == token.EQL)
		}
	}
	it.abort("binary %s on %T, %T", x.Op, l, r)
	return nil
}

func (it *c21XInterp) builtin(name string, as []interface{}, at *ssa.Call) interface{} {
	switch name {
	case "len", "cap":
		switch a := as[0].(type) {
		case *c21XSlice:
			if a == nil {
				return int64(0)
			}
			return int64(len(a.elems))
		case string:
			return int64(len(a))
		case *c21XArr:
			return int64(len(a.elems))
		}
	case "append":
		s, ok := as[0].(*c21XSlice)
		if !ok {
			break
		}
		var add []interface{}
		switch t := as[1].(type) {
		case *c21XSlice:
			if t != nil {
				add = t.elems
			}
		default:
			it.abort("append of %T", t)
		}
		out := make([]interface{}, 0, len(s.elems)+len(add))
		out = append(append(out, s.elems...), add...)
		return &c21XSlice{elems: out}
	case "min", "max":
		best, ok := as[0].(int64)
		if !ok {
			break
		}
		for _, a := range as[1:] {
			v, ok := a.(int64)
			if !ok {
				it.abort("%s of %T", name, a)
			}
			if (name == "min" && v < best) || (name == "max" && v > best) {
				best = v
			}
		}
		return best
	}
	it.abort("builtin %s is not modelled for these operands", name)
	return nil
}

// c21XGoValue turns an interpreter value into a Go value for fmt.
func c21XGoValue(v interface{}) interface{} {
	if i, ok := v.(c21XIface); ok {
		if n, isInt := i.v.(int64); isInt {
			if b, isB := i.t.Underlying().(*types.Basic); isB {
				switch b.Kind() {
				case types.Uint8:
					return uint8(n)
				case types.Uint16:
					return uint16(n)
				case types.Uint32:
					return uint32(n)
				case types.Uint, types.Uint64, types.Uintptr:
					return uint64(n)
				case types.Int8:
					return int8(n)
				case types.Int16:
					return int16(n)
				case types.Int32:
					return int32(n)
				}
			}
			return n
		}
		return c21XGoValue(i.v)
	}
	switch x := v.(type) {
	case *c21XErr:
		if x == nil {
			return nil
		}
		return errors.New(x.msg)
	case c21XNil:
		return nil
	}
	return v
}

// lib models the library functions these rules meet.
func (it *c21XInterp) lib(call *ssa.Call, as []interface{}) (interface{}, bool) {
	f := call.Call.StaticCallee()
	if f == nil || it.w.InModule(f) {
		return nil, false
	}
	name := it.w.Info(call).Name
	str := func(i int) string {
		s, ok := as[i].(string)
		if !ok {
			it.abort("%s: argument %d is not a string", name, i)
		}
		return s
	}
	num := func(i int) int64 {
		n, ok := as[i].(int64)
		if !ok {
			it.abort("%s: argument %d is not an integer", name, i)
		}
		return n
	}
	errOf := func(err error) interface{} {
		if err == nil {
			return c21XNil{}
		}
		return &c21XErr{msg: err.Error()}
	}
	switch name {
	case "func:strconv.Atoi":
		n, err := strconv.Atoi(str(0))
		return c21XTuple{int64(n), errOf(err)}, true
	case "func:strconv.ParseInt":
		n, err := strconv.ParseInt(str(0), int(num(1)), int(num(2)))
		return c21XTuple{n, errOf(err)}, true
	case "func:strconv.ParseUint":
		n, err := strconv.ParseUint(str(0), int(num(1)), int(num(2)))
		return c21XTuple{int64(n), errOf(err)}, true
	case "func:strconv.FormatInt":
		return strconv.FormatInt(num(0), int(num(1))), true
	case "func:strconv.FormatUint":
		return strconv.FormatUint(uint64(num(0)), int(num(1))), true
	case "func:strconv.Itoa":
		return strconv.Itoa(int(num(0))), true
	case "func:fmt.Sprintf", "func:fmt.Errorf":
		var vs []interface{}
		if len(as) > 1 {
			sl, ok := as[1].(*c21XSlice)
			if !ok {
				it.abort("%s: variadic arguments", name)
			}
			if sl != nil {
				for _, e := range sl.elems {
					vs = append(vs, c21XGoValue(e))
				}
			}
		}
		if name == "func:fmt.Errorf" {
			return &c21XErr{msg: fmt.Sprintf(strings.ReplaceAll(str(0), "%w", "%v"), vs...)}, true
		}
		return fmt.Sprintf(str(0), vs...), true
	case "func:errors.New":
		return &c21XErr{msg: str(0)}, true
	case "func:regexp.MustCompile":
		re, err := regexp.Compile(str(0))
		if err != nil {
			it.abort("pattern does not compile")
		}
		return re, true
	case "func:(*regexp.Regexp).FindAllString":
		re, ok := as[0].(*regexp.Regexp)
		if !ok {
			it.abort("regexp receiver is not a compiled constant pattern")
		}
		ms := re.FindAllString(str(1), int(num(2)))
		if ms == nil {
			return &c21XSlice{}, true
		}
		out := &c21XSlice{elems: make([]interface{}, len(ms))}
		for i, m := range ms {
			out.elems[i] = m
		}
		return out, true
	case "func:(*regexp.Regexp).FindStringSubmatch":
		re, ok := as[0].(*regexp.Regexp)
		if !ok {
			it.abort("regexp receiver is not a compiled constant pattern")
		}
		ms := re.FindStringSubmatch(str(1))
		if ms == nil {
			return &c21XSlice{}, true
		}
		out := &c21XSlice{elems: make([]interface{}, len(ms))}
		for i, m := range ms {
			out.elems[i] = m
		}
		return out, true
	case "func:strings.TrimPrefix":
		return strings.TrimPrefix(str(0), str(1)), true
	case "func:strings.TrimLeft":
		return strings.TrimLeft(str(0), str(1)), true
	case "func:strings.ToLower":
		return strings.ToLower(str(0)), true
	case "func:strings.HasPrefix":
		return strings.HasPrefix(str(0), str(1)), true
	case "func:strings.Split":
		parts := strings.Split(str(0), str(1))
		out := &c21XSlice{elems: make([]interface{}, len(parts))}
		for i, m := range parts {
			out.elems[i] = m
		}
		return out, true
	}
	return nil, false
}

// c21XEvalExpr computes the value of an expression of a function that is not run
// as a whole: constants, conversions, operators and calls over leaves supplied
// by leaf.
func c21XEvalExpr(w *an.World, v ssa.Value, leaf func(ssa.Value) (interface{}, bool)) (res interface{}, ok bool, why string) {
	it := &c21XInterp{w: w, leaf: leaf}
	defer func() {
		if r := recover(); r != nil {
			if a, isA := r.(c21XAbort); isA {
				res, ok, why = nil, false, a.why
				return
			}
			panic(r)
		}
	}()
	var ev func(v ssa.Value, depth int) interface{}
	ev = func(v ssa.Value, depth int) interface{} {
		if depth > 16 {
			it.abort("expression too deep")
		}
		if r, ok := leaf(v); ok {
			return r
		}
		switch x := v.(type) {
		case *ssa.Const:
			if x.Value != nil {
				switch x.Value.Kind() {
				case constant.Bool:
					return constant.BoolVal(x.Value)
				case constant.String:
					return constant.StringVal(x.Value)
				case constant.Int:
					if i, ok := constant.Int64Val(x.Value); ok {
						return i
					}
				}
			}
			return c21XNil{}
		case *ssa.Convert:
			a := ev(x.X, depth+1)
			if i, isInt := a.(int64); isInt {
				return c21XWrapInt(i, x.Type())
			}
			return a
		case *ssa.ChangeType:
			return ev(x.X, depth+1)
		case *ssa.BinOp:
			return it.binop(x, ev(x.X, depth+1), ev(x.Y, depth+1))
		case *ssa.Call:
			var as []interface{}
			for _, a := range x.Call.Args {
				as = append(as, ev(a, depth+1))
			}
			if b, isB := x.Call.Value.(*ssa.Builtin); isB {
				return it.builtin(b.Name(), as, x)
			}
			f := x.Call.StaticCallee()
			if f == nil {
				it.abort("dynamic call in the expression")
			}
			if r, ok := it.lib(x, as); ok {
				return r
			}
			if w.InModule(f) && f.Blocks != nil {
				out, how := it.call(f, as, 1)
				if how != "return" {
					it.abort("callee %s", how)
				}
				if len(out) == 1 {
					return out[0]
				}
				return c21XTuple(out)
			}
			it.abort("call of %s is not modelled", w.FuncName(f))
		case *ssa.Extract:
			t, ok := ev(x.Tuple, depth+1).(c21XTuple)
			if !ok || x.Index >= len(t) {
				it.abort("extract from a non-tuple")
			}
			return t[x.Index]
		}
		it.abort("expression node %T is not evaluated", v)
		return nil
	}
	return ev(v, 0), true, ""
}

// ---- R2: the received type number on its way to the parser ---------------------------

// c21IsWireType: a load of the Type field of lnrpc's CustomMessage (the 32-bit
// type number of a received custom message).
func c21IsWireType(v ssa.Value) bool {
	var st types.Type
	var idx int
	switch x := v.(type) {
	case *ssa.UnOp:
		fa, ok := x.X.(*ssa.FieldAddr)
		if x.Op != token.MUL || !ok {
			return false
		}
		st, idx = fa.X.Type(), fa.Field
	case *ssa.Field:
		st, idx = x.X.Type(), x.Field
	default:
		return false
	}
	n := an.NamedOf(st)
	if n == nil || n.Obj().Pkg() == nil || n.Obj().Name() != "CustomMessage" || !strings.HasSuffix(n.Obj().Pkg().Path(), "/lnrpc") {
		return false
	}
	return strings.HasSuffix(an.FieldName(st, idx), ".Type")
}

func c21R2Received(c *an.Check, custom *ssa.Function, byNum map[int64]int) {
	w := c.W
	// sources
	type src struct {
		v  ssa.Value
		fn *ssa.Function
	}
	var srcs []src
	for _, fn := range prodFuncs(w) {
		for _, b := range fn.Blocks {
			for _, in := range b.Instrs {
				if v, ok := in.(ssa.Value); ok && c21IsWireType(v) {
					srcs = append(srcs, src{v, fn})
				}
			}
		}
	}
	c.AtLeast("C21.R2", "reads of a received message's numeric type (lnrpc CustomMessage.Type)", len(srcs), 1)

	// (A) end to end: number -> type string (as the back-end builds it) -> PeerswapCustomMessageType
	samples := []int64{0, 1, 42067, 42068, 42086, 42087, 65535, 0x10000 + 42069, 0x7a465, 0xffff0000 | 42079, 0xffffa45d, 0x10000 + 42085, 0x20000 + 42077}
	for _, e := range c21Proto {
		samples = append(samples, e.num)
	}
	seen := map[string]int{}
	for _, s := range srcs {
		for _, call := range an.Calls(s.fn) {
			for _, a := range call.Common().Args {
				if b, isB := a.Type().Underlying().(*types.Basic); !isB || b.Info()&types.IsString == 0 {
					continue
				}
				if !c21DependsOn(a, map[ssa.Value]bool{s.v: true}) {
					continue
				}
				cons := w.FuncName(s.fn) + " received type number -> type string -> parser"
				seen[cons]++
				if seen[cons] > 1 {
					cons += fmt.Sprintf(" #%d", seen[cons])
				}
				var wrong []string
				unknown := ""
				for _, x := range samples {
					x := x
					str, ok, why := c21XEvalExpr(w, a, func(v ssa.Value) (interface{}, bool) {
						if v == s.v {
							return x, true
						}
						return nil, false
					})
					ts, isStr := str.(string)
					if !ok || !isStr {
						unknown = "the type string cannot be computed: " + why
						break
					}
					res, outcome, ok, why := c21XRun(w, custom, []interface{}{ts}, nil)
					if !ok || outcome != "return" || len(res) != 2 {
						unknown = "PeerswapCustomMessageType cannot be interpreted: " + why + outcome
						break
					}
					_, errNil := res[1].(c21XNil)
					got, _ := res[0].(int64)
					_, isProto := byNum[x]
					switch {
					case isProto && (!errNil || got != x):
						wrong = append(wrong, fmt.Sprintf("type %d arrives as %q and is not recognised as %d", x, ts, x))
					case !isProto && errNil:
						wrong = append(wrong, fmt.Sprintf("the foreign type %d (0x%x) arrives as %q and is accepted as peerswap type %d", x, x, ts, got))
					}
				}
				switch {
				case len(wrong) > 0:
					if len(wrong) > 5 {
						wrong = append(wrong[:5], fmt.Sprintf("… %d more", len(wrong)-5))
					}
					c.Bad("C21.R2", cons, w.Pos(call.Pos()), "a received type number is not handed to the parser faithfully: "+strings.Join(wrong, "; "))
				case unknown != "":
					c.Note("C21.R2", cons, w.Pos(call.Pos()), "not interpreted end to end ("+unknown+"); the conversions on the way are judged structurally")
				default:
					c.OK("C21.R2", cons, w.Pos(call.Pos()), fmt.Sprintf("%d sample numbers (incl. numbers above 16 bits whose low 16 bits are a peerswap type): the protocol numbers are recognised, all others rejected", len(samples)))
				}
			}
		}
	}

	// (B) no narrowing conversion or masking of a received type number anywhere on its way
	tainted := map[ssa.Value]bool{}
	var work []ssa.Value
	add := func(v ssa.Value) {
		if v != nil && !tainted[v] {
			tainted[v] = true
			work = append(work, v)
		}
	}
	for _, s := range srcs {
		add(s.v)
	}
	for _, call := range an.Calls(custom) {
		if cc, ok := call.(*ssa.Call); ok {
			if n := w.Info(call).Name; n == "func:strconv.ParseInt" || n == "func:strconv.ParseUint" {
				for _, rv := range an.ResultValues(cc, 0) {
					add(rv)
				}
			}
		}
	}
	callersOf := map[*ssa.Function][]ssa.CallInstruction{}
	for _, g := range prodFuncs(w) {
		for _, call := range an.Calls(g) {
			if f := call.Common().StaticCallee(); f != nil && w.InModule(f) {
				callersOf[f] = append(callersOf[f], call)
			}
		}
	}
	nConv := 0
	seenCons := map[string]int{}
	report := func(fn *ssa.Function, in ssa.Instruction, operand ssa.Value, what string, dstBits int, dstSigned bool) {
		cons := w.FuncName(fn) + " " + what + " of a received type number"
		seenCons[cons]++
		if seenCons[cons] > 1 {
			cons += fmt.Sprintf(" #%d", seenCons[cons])
		}
		// a range test that confines the operand to the narrower type?
		term := w.Term(operand)
		maxDst := int64(1)<<uint(dstBits) - 1
		if dstSigned {
			maxDst = int64(1)<<uint(dstBits-1) - 1
		}
		upper, lower, mentioned := false, false, false
		if _, sgn, ok := c21IntWidth(operand.Type()); ok && !sgn {
			lower = true
		}
		for _, f := range w.FactsDominating(in) {
			coef, has := f.Terms[term]
			if !has || f.NonNum || len(f.Terms) != 1 {
				continue
			}
			mentioned = true
			switch {
			case coef == -1 && f.Rel == ">=" && f.Const <= maxDst: // x <= K
				upper = true
			case coef == -1 && f.Rel == ">" && f.Const <= maxDst+1: // x < K
				upper = true
			case coef == 1 && (f.Rel == ">=" || f.Rel == ">") && f.Const <= 0 && -f.Const >= 0: // x >= L >= 0
				lower = true
			}
		}
		switch {
		case upper && lower:
			c.OK("C21.R2", cons, w.Pos(in.Pos()), "behind a range test that confines the value to the narrower type")
		case mentioned:
			c.Unknown("C21.R2", cons, w.Pos(in.Pos()), "behind a comparison of the operand that this rule cannot turn into a range of the narrower type")
		default:
			c.Bad("C21.R2", cons, w.Pos(in.Pos()), fmt.Sprintf("the type number of a received message is cut to %d bits without a range test on its way to PeerswapCustomMessageType: a foreign type whose low %d bits equal a peerswap number (0x1a455, 0x7a465, 0xffffa45d …) is delivered and accepted as that peerswap message", dstBits, dstBits))
		}
	}
	for len(work) > 0 {
		v := work[len(work)-1]
		work = work[:len(work)-1]
		if v.Referrers() == nil {
			continue
		}
		for _, r := range *v.Referrers() {
			switch x := r.(type) {
			case *ssa.Convert:
				sb, _, ok1 := c21IntWidth(x.X.Type())
				db, dsgn, ok2 := c21IntWidth(x.Type())
				if ok1 && ok2 {
					nConv++
					if db < sb {
						report(x.Parent(), x, x.X, fmt.Sprintf("narrowing %s to %s", x.X.Type(), x.Type()), db, dsgn)
					}
					add(x)
				}
			case *ssa.ChangeType:
				add(x)
			case *ssa.Phi:
				add(x)
			case *ssa.MakeInterface:
				add(x)
			case *ssa.BinOp:
				switch x.Op {
				case token.AND, token.REM:
					k, isK := an.ConstInt(x.Y)
					if !isK {
						k, isK = an.ConstInt(x.X)
					}
					parityOnly := x.Referrers() != nil && len(*x.Referrers()) > 0
					if x.Referrers() != nil {
						for _, u := range *x.Referrers() {
							cmp, isCmp := u.(*ssa.BinOp)
							small := false
							if isCmp && (cmp.Op == token.EQL || cmp.Op == token.NEQ) {
								if kk, ok := an.ConstInt(cmp.Y); ok && kk >= 0 && kk <= 1 {
									small = true
								}
								if kk, ok := an.ConstInt(cmp.X); ok && kk >= 0 && kk <= 1 {
									small = true
								}
							}
							if !small {
								parityOnly = false
							}
						}
					}
					if isK && !parityOnly {
						bits := 0
						m := k
						if x.Op == token.AND {
							m = k + 1
						}
						for b := 1; b < 63; b++ {
							if m == int64(1)<<uint(b) {
								bits = b
							}
						}
						if sb, _, ok := c21IntWidth(x.Type()); ok && bits > 0 && bits < sb {
							nConv++
							report(x.Parent(), x, x.X, fmt.Sprintf("masking (%s %d)", x.Op, k), bits, false)
						}
					}
					add(x)
				case token.ADD, token.SUB, token.MUL, token.OR, token.XOR, token.SHL, token.SHR, token.QUO:
					add(x)
				}
			case *ssa.Store:
				if al, ok := x.Addr.(*ssa.Alloc); ok && x.Val == v && al.Referrers() != nil {
					for _, lr := range *al.Referrers() {
						if ld, ok := lr.(*ssa.UnOp); ok && ld.Op == token.MUL {
							add(ld)
						}
					}
				}
			case *ssa.Return:
				g := x.Parent()
				for i, res := range x.Results {
					if res != v {
						continue
					}
					for _, call := range callersOf[an.EnclosingTop(g)] {
						cv, ok := call.(*ssa.Call)
						if !ok || g.Parent() != nil {
							continue
						}
						if len(x.Results) == 1 {
							add(cv)
						} else {
							for _, rv := range an.ResultValues(cv, i) {
								add(rv)
							}
						}
					}
				}
			case ssa.CallInstruction:
				f := x.Common().StaticCallee()
				if f == nil || !w.InModule(f) || f.Blocks == nil {
					continue
				}
				for i, a := range x.Common().Args {
					if a == v && i < len(f.Params) {
						add(f.Params[i])
					}
				}
			}
		}
	}
	c.AtLeast("C21.R2", "integer conversions applied to a received type number", nConv, 2)
}

// ---- R7: fallible decodes on the receive path ------------------------------------------

// c21FallibleLib: library decoders whose value result is meaningless (or, for
// hex.DecodeString, a silently truncated prefix) when the error is non-nil.
var c21FallibleLib = map[string]bool{
	"func:encoding/hex.DecodeString": true, "func:encoding/hex.Decode": true,
	"func:strconv.ParseInt": true, "func:strconv.ParseUint": true, "func:strconv.Atoi": true, "func:strconv.ParseFloat": true, "func:strconv.ParseBool": true,
	"func:encoding/json.Unmarshal": true, "func:encoding/base64.(*Encoding).DecodeString": true, "func:(*encoding/json.Decoder).Decode": true,
}

func c21SameSig(a *types.Signature, params, results *types.Tuple) bool {
	if a.Params().Len() != params.Len() || a.Results().Len() != results.Len() {
		return false
	}
	for i := 0; i < params.Len(); i++ {
		if !types.Identical(a.Params().At(i).Type(), params.At(i).Type()) {
			return false
		}
	}
	for i := 0; i < results.Len(); i++ {
		if !types.Identical(a.Results().At(i).Type(), results.At(i).Type()) {
			return false
		}
	}
	return true
}

// c21ContainsDecode: f calls one of the fallible library decoders directly.
func c21ContainsDecode(w *an.World, f *ssa.Function) bool {
	if f == nil || f.Blocks == nil {
		return false
	}
	for _, call := range an.Calls(f) {
		if c21FallibleLib[w.Info(call).Name] {
			return true
		}
	}
	return false
}

func c21R7(c *an.Check, onMsg, custom *ssa.Function) {
	w := c.W
	hp, hr := onMsg.Signature.Params(), onMsg.Signature.Results()
	// receive-path functions
	path := map[*ssa.Function]string{}
	for _, fn := range prodFuncs(w) {
		if c21SameSig(fn.Signature, hp, hr) {
			path[fn] = "message handler"
		}
		for _, call := range an.Calls(fn) {
			if _, isGo := call.(*ssa.Go); isGo {
				continue
			}
			if call.Common().StaticCallee() == custom {
				if path[fn] == "" {
					path[fn] = "type parser caller"
				}
			}
			if sig := call.Common().Signature(); sig != nil && c21SameSig(sig, hp, hr) && call.Common().StaticCallee() == nil && !call.Common().IsInvoke() {
				if path[fn] == "" {
					path[fn] = "receive hook"
				}
			}
		}
	}
	path[custom] = "type parser"
	// data-producing helpers they call (one level)
	helpers := map[*ssa.Function]bool{}
	for fn := range path {
		for _, call := range an.Calls(fn) {
			g := call.Common().StaticCallee()
			if g == nil || !w.InModule(g) || g.Blocks == nil || path[g] != "" || !c21ContainsDecode(w, g) {
				continue
			}
			res := g.Signature.Results()
			data := false
			for i := 0; i < res.Len(); i++ {
				if !an.IsErrorType(res.At(i).Type()) {
					data = true
				}
			}
			if data {
				helpers[g] = true
			}
		}
	}
	var fns []*ssa.Function
	for fn := range path {
		fns = append(fns, fn)
	}
	for g := range helpers {
		fns = append(fns, g)
	}
	sort.Slice(fns, func(i, j int) bool { return w.FuncName(fns[i]) < w.FuncName(fns[j]) })

	isSink := func(call ssa.CallInstruction) bool {
		ci := w.Info(call)
		switch {
		case strings.HasPrefix(ci.Name, "builtin:"):
			return false
		case ci.Static != nil && !w.InModule(ci.Static):
			return false
		case ci.Static != nil && c21EffectFree(w, ci.Static):
			return false
		}
		return true
	}
	nSites := 0
	seen := map[string]int{}
	for _, fn := range fns {
		errIdxFn := -1
		for i := fn.Signature.Results().Len() - 1; i >= 0; i-- {
			if an.IsErrorType(fn.Signature.Results().At(i).Type()) {
				errIdxFn = i
				break
			}
		}
		for _, call := range an.Calls(fn) {
			cc, ok := call.(*ssa.Call)
			if !ok {
				continue
			}
			ci := w.Info(call)
			isLib := c21FallibleLib[ci.Name]
			isHelper := ci.Static != nil && (helpers[ci.Static] || ci.Static == custom) && an.ErrResultIndex(cc) >= 0 && cc.Call.Signature().Results().Len() >= 2
			if !isLib && !isHelper {
				continue
			}
			ei := an.ErrResultIndex(cc)
			if ei < 0 {
				continue
			}
			// decoded values
			vals := map[ssa.Value]bool{}
			if ci.Name == "func:encoding/json.Unmarshal" || ci.Name == "func:encoding/hex.Decode" || ci.Name == c21FnDecode {
				idx := 1
				if ci.Name == "func:encoding/hex.Decode" {
					idx = 0
				}
				t := c21StripConv(cc.Call.Args[idx])
				vals[t] = true
				if al, ok := t.(*ssa.Alloc); ok && al.Referrers() != nil {
					for _, r := range *al.Referrers() {
						if ld, ok := r.(*ssa.UnOp); ok && ld.Op == token.MUL {
							vals[ld] = true
						}
					}
				}
			} else {
				n := cc.Call.Signature().Results().Len()
				for i := 0; i < n; i++ {
					if i == ei {
						continue
					}
					for _, rv := range an.ResultValues(cc, i) {
						vals[rv] = true
					}
				}
			}
			nSites++
			name := strings.TrimPrefix(ci.Name, "func:")
			cons := w.FuncName(fn) + " decode " + name
			seen[cons]++
			if seen[cons] > 1 {
				cons += fmt.Sprintf(" #%d", seen[cons])
			}
			pos := w.Pos(call.Pos())
			// does the value flow anywhere at all?
			used := false
			for v := range vals {
				if v.Referrers() != nil && len(*v.Referrers()) > 0 {
					if _, isAl := v.(*ssa.Alloc); !isAl {
						used = true
					}
				}
			}
			if !used {
				c.OK("C21.R7", cons, pos, "the decoded value is not used")
				continue
			}
			var errV ssa.Value
			if cc.Call.Signature().Results().Len() == 1 {
				errV = cc
			} else if vs := an.ResultValues(cc, ei); len(vs) > 0 {
				errV = vs[0]
			}
			_, failE := an.OkEdges(cc)
			// the first place where the value is consumed / handed on, for the report
			firstSink := func(blocks map[*ssa.BasicBlock]bool) (string, string) {
				for _, b := range fn.Blocks {
					if blocks != nil && !blocks[b] {
						continue
					}
					for _, in := range b.Instrs {
						switch x := in.(type) {
						case ssa.CallInstruction:
							if x == ssa.CallInstruction(cc) || !isSink(x) {
								continue
							}
							for _, a := range x.Common().Args {
								if c21DependsOn(a, vals) {
									return "call " + strings.TrimPrefix(strings.TrimPrefix(w.Info(x).Name, "func:"), "dyn:"), w.Pos(x.Pos())
								}
							}
							if x.Common().IsInvoke() && c21DependsOn(x.Common().Value, vals) {
								return "call " + w.Info(x).Name, w.Pos(x.Pos())
							}
						case *ssa.Return:
							for i, res := range x.Results {
								if i == errIdxFn || !c21DependsOn(res, vals) {
									continue
								}
								// returned together with a certainly non-nil error?
								if errIdxFn >= 0 && errV != nil && (x.Results[errIdxFn] == errV || c21FreshErr(x.Results[errIdxFn])) {
									continue
								}
								return "return of the decoded value", w.Pos(x.Pos())
							}
						}
					}
				}
				return "", ""
			}
			switch {
			case errV == nil || errV.Referrers() == nil || len(*errV.Referrers()) == 0:
				sink, spos := firstSink(nil)
				if sink == "" {
					c.OK("C21.R7", cons, pos, "the error is not used, but the decoded value reaches no handler, dispatch or return")
				} else {
					c.Bad("C21.R7", cons, pos, "the error of "+name+" is discarded while the decoded value flows on to "+sink+" ("+spos+"): a frame that does not decode is handled as if it had")
				}
			case len(failE) == 0:
				// handed back to the caller together with the value?
				propagated := errIdxFn >= 0
				if propagated {
					for _, r := range an.Returns(fn) {
						dep := false
						for i, res := range r.Results {
							if i != errIdxFn && c21DependsOn(res, vals) {
								dep = true
							}
						}
						if dep && r.Results[errIdxFn] != errV {
							propagated = false
						}
					}
				}
				sink, spos := firstSink(nil)
				switch {
				case propagated:
					c.OK("C21.R7", cons, pos, "value and error are handed back to the caller together (the caller's test is judged at its call site)")
				case c21OnlyLogged(w, errV) && sink != "":
					c.Bad("C21.R7", cons, pos, "the error of "+name+" is only logged while the decoded value flows on to "+sink+" ("+spos+"): a frame that does not decode is handled as if it had")
				default:
					c.Unknown("C21.R7", cons, pos, "the error is neither compared with nil nor returned with the value in this function; the rule does not follow it further")
				}
			default:
				var start []*ssa.BasicBlock
				for _, e := range failE {
					start = append(start, e.To())
				}
				// re-executing the decode (next loop iteration) produces a new value
				reach := an.ReachBlocks(start, nil, map[*ssa.BasicBlock]bool{cc.Block(): true})
				delete(reach, cc.Block())
				sink, spos := firstSink(reach)
				if sink == "" {
					c.OK("C21.R7", cons, pos, "on the error edge the decoded value reaches no handler, dispatch or return")
				} else {
					c.Bad("C21.R7", cons, pos, "after "+name+" failed (error edge) the decoded value still flows on to "+sink+" ("+spos+"): the error is at most logged and a frame that does not decode (for hex: its valid prefix) is handled as a well-formed message")
				}
			}
		}
	}
	c.AtLeast("C21.R7", "fallible decode sites on the receive path", nSites, 3)
}

// c21OnlyLogged: every use of the error value is an argument of an effect-free
// (logging / formatting) call.
func c21OnlyLogged(w *an.World, errV ssa.Value) bool {
	if errV.Referrers() == nil || len(*errV.Referrers()) == 0 {
		return false
	}
	var uses func(v ssa.Value, depth int) bool
	uses = func(v ssa.Value, depth int) bool {
		if depth > 4 || v.Referrers() == nil {
			return true
		}
		for _, r := range *v.Referrers() {
			switch x := r.(type) {
			case *ssa.ChangeInterface:
				if !uses(x, depth+1) {
					return false
				}
			case *ssa.MakeInterface:
				if !uses(x, depth+1) {
					return false
				}
			case *ssa.Store:
				// into the variadic argument array of a call
				if ia, ok := x.Addr.(*ssa.IndexAddr); ok {
					if al, ok := ia.X.(*ssa.Alloc); ok && al.Referrers() != nil {
						for _, ar := range *al.Referrers() {
							if sl, ok := ar.(*ssa.Slice); ok && !uses(sl, depth+1) {
								return false
							}
						}
						continue
					}
				}
				return false
			case ssa.CallInstruction:
				f := x.Common().StaticCallee()
				if f == nil || !(c21EffectFree(w, f) || !w.InModule(f)) {
					return false
				}
			case *ssa.DebugRef:
			default:
				return false
			}
		}
		return true
	}
	return uses(errV, 0)
}

// c21FreshErr: certainly a non-nil error (constructor call or boxed concrete value).
func c21FreshErr(v ssa.Value) bool {
	switch x := v.(type) {
	case *ssa.MakeInterface:
		_, isPtr := x.X.Type().Underlying().(*types.Pointer)
		return !isPtr
	case *ssa.Call:
		if f := x.Call.StaticCallee(); f != nil && f.Pkg != nil {
			switch f.Pkg.Pkg.Path() + "." + f.Name() {
			case "fmt.Errorf", "errors.New":
				return true
			}
		}
	}
	return false
}

// c21R4Streaming: a received payload must be decoded as ONE JSON value.
// json.Unmarshal rejects trailing data; (*json.Decoder).Decode stops after the
// first value and accepts whatever follows, so a streaming decode of a payload
// needs a check that nothing follows (dec.More(), or a second Decode / Token
// whose result is branched on).
func c21R4Streaming(c *an.Check, d *c21Dispatch) {
	w := c.W
	seen := map[string]int{}
	for _, dec := range d.decodes {
		if w.Info(dec.call).Name != c21FnDecode {
			continue
		}
		fn := dec.call.Parent()
		cons := "OnMessageReceived streaming decode in " + w.FuncName(fn)
		if dec.typ != nil {
			cons = "OnMessageReceived streaming decode of " + dec.typ.Obj().Name()
		}
		seen[cons]++
		if seen[cons] > 1 {
			cons += fmt.Sprintf(" #%d", seen[cons])
		}
		decoder := dec.call.Common().Args[0]
		followed, branched := false, false
		after := an.ReachBlocks([]*ssa.BasicBlock{dec.call.Block()}, nil, nil)
		for _, call := range an.Calls(fn) {
			if call == dec.call || !after[call.Block()] || len(call.Common().Args) == 0 || call.Common().Args[0] != decoder {
				continue
			}
			switch w.Info(call).Name {
			case "func:(*encoding/json.Decoder).More", "func:(*encoding/json.Decoder).Decode", "func:(*encoding/json.Decoder).Token", "func:(*encoding/json.Decoder).Buffered", "func:(*encoding/json.Decoder).InputOffset":
				if call.Block() == dec.call.Block() && an.InstrIndex(call) < an.InstrIndex(dec.call) {
					continue
				}
				followed = true
				if v := call.Value(); v != nil && v.Referrers() != nil && len(*v.Referrers()) > 0 {
					branched = true
				}
			}
		}
		switch {
		case followed && branched:
			c.OK("C21.R4", cons, w.Pos(dec.call.Pos()), "the streaming decode is followed by a test for further input")
		case followed:
			c.Unknown("C21.R4", cons, w.Pos(dec.call.Pos()), "the decoder is consulted again after the decode, but the result is not used")
		default:
			c.Bad("C21.R4", cons, w.Pos(dec.call.Pos()), "the payload is decoded with (*json.Decoder).Decode, which stops after the first JSON value and accepts trailing data (json.Unmarshal rejects it), and nothing checks that no further input follows: a message followed by garbage, or the first value of an oversized payload, is applied instead of ignored")
		}
	}
}
