package rules

import (
	"fmt"
	"go/constant"
	"go/token"
	"go/types"
	"sort"
	"strings"
	"sync"

	"golang.org/x/tools/go/ssa"

	"psv/internal/an"
)

func init() {
	Register(&Prop{
		ID: "C11",
		Expl: "Decides, for the two responder state tables (found by effect: the states whose action chain allocates a Swap{In,Out}AgreementMessage) and the two request handlers (found by the constant event they inject), structural necessary conditions of 'an agreement is sent only if every policy condition holds'. " +
			"R1: for every responder state and each of the nine admission conditions (swaps enabled; lbtc chain => liquidEnabled; btc chain => bitcoinEnabled; protocol version == PEERSWAP_PROTOCOL_VERSION == 7; amount*1000 >= Policy.GetMinSwapAmountMsat; asset empty or == Wallet.GetAsset; network empty or == Wallet.GetNetwork; Policy.IsPeerAllowed(peer); !Policy.IsPeerSuspicious(peer)) some action of the chain in front of the agreement construction is such that removing the CFG edges on which the condition is known to hold (a disjunctive edge cut, operands named by their source) disconnects every delegation `next.Execute` (resp. every agreement allocation) from the entry, and every return reachable from the other edge of those tests without such an edge returns only Event_ActionFailed. " +
			"R2: in the table, the success target of the responder state is a message-sending state that becomes unreachable from the default state when that success edge is removed; the failure target and the target of Event_Invalid_Message from the default state run an action that marshals a CancelMessage and sends it. " +
			"R3: in each request handler the calls of lockSwap and SendEvent are cut off by premium<=PremiumLimit (premium = premium.Setting.Compute for the handler's peer parameter and the request amount, with the same operation constant as the responder action uses), by channel capacity (SpendableMsat for the paying responder, ReceivableMsat for the receiving responder, scid and amount of the same request, 64-bit *1000) and, for the paying responder, by the success result of ProbePayment; on the failing edge of each of these guards every path to a return sends a marshalled CancelMessage to the peer. " +
			"R4: the nil return of Validate of both request types is cut off by the success edges of the pubkey hex-length-33 test, the asset-xor-network test and the scid test (helpers are inspected: decode ok and len == expected; both xor halves; three scid parts); SendEvent calls ApplyToSwapData only on the Validate==nil edge and the other edge re-enters with the invalid-message event. " +
			"R5: in the funding (maker) responder the agreement allocation is cut off by balance >= amount + opening fee. " +
			"Quantification is over all CFG paths of the named functions and all edges of the tables, i.e. over all request field values and policy answers. R7: the admission answers of R6 come from the in-memory policy object; every function with an error result that reaches the whole-object replacement `*policy = *parsed` and writes no file is a reload routine, and each of its nil returns must lie behind that replacement (the store, a helper that always performs it, the nil edge or direct return of another reload routine) - a success return that skips it leaves the old allowlist in force and is reported with the condition under which it is taken; that every file-rewriting mutator reaches the reload is C25.R2. Guards, effects and replies are followed through in-module helpers (bool predicates, error-returning checks incl. `return check(x)`, reply/delivery helpers; parameters bound to arguments, depth <= 3) and through values selected into locals (phis are judged per incoming edge); a shape that cannot be interpreted yields an undecided obligation (exit 2), a violation is reported only when the whole relevant code was interpreted.",
		NotD: "Overflow of amount*1000 and amount+fee for amounts >= 2^64/1000; truncating integer conversions inside guard operands (the engine strips them); that repeated getter calls return the same value; which wallet instance asset/network are compared with; changes of policy or premium rate between the handler's check and the action; the discarded Atoi errors inside validateScid (noted, not part of the admission conditions); error returns of premium.Setting.Compute in the handlers, which return without a cancel message (noted: an I/O fault, not a policy decision).",
		Run:  runC11,
	})
}

// ---- small matchers (facts are identified by the source of their operands) ----

type c11Term struct {
	alts []string // substrings, any of which identifies the term
	coef int64
}

// c11LinGE reports whether f is a linear fact over exactly the given terms
// (coefficients as given) that implies  Σ coef·term >= 0.
func c11LinGE(f an.Fact, spec []c11Term) bool {
	if f.NonNum || f.Terms == nil || len(f.Terms) != len(spec) {
		return false
	}
	used := map[string]bool{}
	for _, st := range spec {
		hit := ""
		for k, co := range f.Terms {
			if used[k] || co != st.coef {
				continue
			}
			for _, a := range st.alts {
				if strings.Contains(k, a) {
					hit = k
				}
			}
			if hit != "" {
				break
			}
		}
		if hit == "" {
			return false
		}
		used[hit] = true
	}
	switch f.Rel {
	case ">=":
		return f.Const <= 0
	case ">":
		return f.Const <= 1
	case "==":
		return f.Const <= 0
	}
	return false
}

func c11Widths64(f an.Fact) bool {
	for _, x := range f.Widths {
		if x < 64 {
			return false
		}
	}
	return true
}

// c11AtomOf normalises a boolean fact (also the unidiomatic `x == true` forms)
// to (value tested, truth on this edge).
func c11AtomOf(f an.Fact) (ssa.Value, bool, bool) {
	if f.Rel == "true" || f.Rel == "false" {
		return f.Cond, f.Rel == "true", f.Cond != nil
	}
	if f.NonNum && (f.Rel == "==" || f.Rel == "!=") && f.LV != nil && f.RV != nil {
		for _, p := range [][2]ssa.Value{{f.LV, f.RV}, {f.RV, f.LV}} {
			k, ok := p[1].(*ssa.Const)
			if !ok || k.Value == nil || k.Value.Kind() != constant.Bool {
				continue
			}
			return p[0], constant.BoolVal(k.Value) == (f.Rel == "=="), true
		}
	}
	return nil, false, false
}

func c11Atom(w *an.World, f an.Fact, atom string, truth bool) bool {
	v, tr, ok := c11AtomOf(f)
	return ok && tr == truth && w.Term(v) == atom
}

func c11StrRel(f an.Fact, rel, a, b string) bool {
	if !f.NonNum || f.Rel != rel {
		return false
	}
	return (f.L == a && f.R == b) || (f.L == b && f.R == a)
}

// c11Cut lists the edges of fn on which pass holds (engine facts and the facts
// derived from helper verdicts).
func c11Cut(w *an.World, fn *ssa.Function, pass func(an.Fact) bool) []an.Edge {
	return c11XOf(w).cut(fn, pass)
}

// c11Dom: the facts (incl. derived) that dominate an instruction.
func c11Dom(w *an.World, in ssa.Instruction) []an.Fact { return c11XOf(w).dominating(in) }

func c11EdgeSet(es []an.Edge) map[an.Edge]bool {
	m := map[an.Edge]bool{}
	for _, e := range es {
		m[e] = true
	}
	return m
}

func c11ConstOf(w *an.World, rel, name string) (constant.Value, bool) {
	p := w.ByRel[rel]
	if p == nil || p.Types == nil {
		return nil, false
	}
	c, ok := p.Types.Scope().Lookup(name).(*types.Const)
	if !ok {
		return nil, false
	}
	return c.Val(), true
}

func c11StripIface(v ssa.Value) ssa.Value {
	for {
		switch x := v.(type) {
		case *ssa.MakeInterface:
			v = x.X
		case *ssa.ChangeInterface:
			v = x.X
		case *ssa.ChangeType:
			v = x.X
		default:
			return v
		}
	}
}

// c11MulK decomposes v = base * k (k constant); conversions between integers are skipped.
func c11MulK(v ssa.Value) (ssa.Value, int64, bool) {
	for {
		if cv, ok := v.(*ssa.Convert); ok {
			v = cv.X
			continue
		}
		break
	}
	b, ok := v.(*ssa.BinOp)
	if !ok || b.Op != token.MUL {
		return nil, 0, false
	}
	if k, ok := an.ConstInt(b.Y); ok {
		return b.X, k, true
	}
	if k, ok := an.ConstInt(b.X); ok {
		return b.Y, k, true
	}
	return nil, 0, false
}

// c11CallOf returns the call whose result (possibly an extracted component) v is.
func c11CallOf(v ssa.Value) *ssa.Call {
	for {
		switch x := v.(type) {
		case *ssa.Extract:
			v = x.Tuple
		case *ssa.Convert:
			v = x.X
		case *ssa.ChangeType:
			v = x.X
		case *ssa.Call:
			return x
		default:
			return nil
		}
	}
}

// c11CallsBehind lists the calls whose results may be v (through phis).
func c11CallsBehind(v ssa.Value) []*ssa.Call {
	var out []*ssa.Call
	seen := map[ssa.Value]bool{}
	var rec func(v ssa.Value)
	rec = func(v ssa.Value) {
		if seen[v] {
			return
		}
		seen[v] = true
		if p, ok := v.(*ssa.Phi); ok {
			for _, e := range p.Edges {
				rec(e)
			}
			return
		}
		out = append(out, c11CallOf(v)) // nil for a value that is not a call result
	}
	rec(v)
	return out
}

// c11Body skips the synthetic pointer-receiver wrapper of a value-receiver
// method: the returned function is the one with the source body.
func c11Body(w *an.World, fn *ssa.Function) *ssa.Function {
	for i := 0; i < 3 && fn != nil && fn.Synthetic != ""; i++ {
		var next *ssa.Function
		n := 0
		for _, ci := range an.Calls(fn) {
			if g := w.Info(ci).Static; g != nil && g.Name() == fn.Name() {
				next = g
				n++
			}
		}
		if n != 1 {
			break
		}
		fn = next
	}
	return fn
}

// c11AllocsOf lists the heap/local allocations of *T (T named `name` in package swap) in fn.
func c11AllocsOf(w *an.World, fn *ssa.Function, names ...string) []*ssa.Alloc {
	var out []*ssa.Alloc
	for _, b := range fn.Blocks {
		for _, in := range b.Instrs {
			al, ok := in.(*ssa.Alloc)
			if !ok {
				continue
			}
			n := an.NamedOf(al.Type())
			if n == nil || n.Obj().Pkg() == nil {
				continue
			}
			if r, ok := w.Rel(n.Obj().Pkg().Path()); !ok || r != "swap" {
				continue
			}
			for _, want := range names {
				if n.Obj().Name() == want {
					out = append(out, al)
				}
			}
		}
	}
	return out
}

// c11Marshals: fn passes a *swap.<name> to MarshalPeerswapMessage.
func c11Marshals(w *an.World, fn *ssa.Function, name string) []*ssa.Call {
	var out []*ssa.Call
	for _, ci := range callsNamed(w, fn, "func:swap.MarshalPeerswapMessage") {
		c, ok := ci.(*ssa.Call)
		if !ok || len(c.Call.Args) != 1 {
			continue
		}
		n := an.NamedOf(c11StripIface(c.Call.Args[0]).Type())
		if n != nil && n.Obj().Name() == name {
			out = append(out, c)
		}
	}
	return out
}

// c11Cancel is a point of fn at which a marshalled CancelMessage is sent: a
// Messenger.SendMessage call, or a call of an in-module helper that sends one to
// one of its parameters on every path to its returns.
type c11Cancel struct {
	call ssa.CallInstruction
	peer ssa.Value // recipient, in terms of fn's values
}

// c11CancelSends lists the cancel-sending points of fn.
func c11CancelSends(w *an.World, fn *ssa.Function) []c11Cancel { return c11CancelSendsD(w, fn, 0) }

func c11CancelSendsD(w *an.World, fn *ssa.Function, depth int) []c11Cancel {
	ms := map[*ssa.Call]bool{}
	for _, m := range c11Marshals(w, fn, "CancelMessage") {
		ms[m] = true
	}
	var out []c11Cancel
	for _, ci := range an.Calls(fn) {
		if _, isGo := ci.(*ssa.Go); isGo {
			continue
		}
		if _, isDefer := ci.(*ssa.Defer); isDefer {
			continue
		}
		args := ci.Common().Args
		if w.Info(ci).Name == fxSendMessage {
			if len(args) == 3 {
				if m := c11CallOf(args[1]); m != nil && ms[m] {
					out = append(out, c11Cancel{ci, args[0]})
				}
			}
			continue
		}
		h := ci.Common().StaticCallee()
		if h == nil || h.Blocks == nil || !w.InModule(h) || depth >= 2 {
			continue
		}
		if pi, ok := c11CancelHelper(w, h, depth+1); ok && pi < len(args) {
			out = append(out, c11Cancel{ci, args[pi]})
		}
	}
	return out
}

// c11CancelHelper: h sends a CancelMessage to its parameter #pi on every path
// from its entry to a return.
func c11CancelHelper(w *an.World, h *ssa.Function, depth int) (int, bool) {
	sends := c11CancelSendsD(w, h, depth)
	if len(sends) == 0 {
		return 0, false
	}
	pi := -1
	stop := map[*ssa.BasicBlock]bool{}
	for _, cs := range sends {
		i := c11ParamIdx(cs.peer)
		if i < 0 || (pi >= 0 && i != pi) {
			return 0, false
		}
		pi = i
		stop[cs.call.Block()] = true
	}
	reach := an.ReachBlocks([]*ssa.BasicBlock{h.Blocks[0]}, nil, stop)
	for _, r := range an.Returns(h) {
		if r.Block() != h.Recover && reach[r.Block()] && !stop[r.Block()] {
			return 0, false
		}
	}
	return pi, true
}

type c11Resp struct {
	t      *TI
	state  string
	chain  []*ssa.Function // Execute functions, outermost first, up to the constructing one
	allocs []*ssa.Alloc    // agreement allocations in the last function of chain
	msg    string
	maker  bool
}

type c11Guard struct {
	rule, id, what string
	makerOnly      bool
	pass           func(f an.Fact) bool
}

func runC11(c *an.Check) {
	c.Rule("C11.R1", "every admission condition cuts every delegation / agreement construction of the responder action chain off from the entry; the unguarded side returns only Event_ActionFailed")
	c.Rule("C11.R2", "agreement-sending state is reachable only through the success edge of the checked state; failure and invalid-message edges lead to the cancel-sending action")
	c.Rule("C11.R3", "request handlers: lockSwap/SendEvent are cut off by premium<=limit, channel capacity and (paying side) probe success; the failing edges send a CancelMessage")
	c.Rule("C11.R4", "request Validate: nil return cut off by pubkey-length, asset-xor-network and scid tests; SendEvent applies a context only after Validate succeeded, else injects the invalid-message event")
	c.Rule("C11.R5", "funding responder: agreement construction is cut off by balance >= amount + opening fee")
	c.Rule("C11.R7", "every success return of a policy reload routine lies behind the replacement of the whole in-memory policy by the freshly parsed one (mutators reach the reload after their file write: C25.R2)")
	c.Rule("C11.R6", "the production implementation of swap.Policy answers from the configured fields: AllowNewSwaps, MinSwapAmountMsat, AcceptAllPeers or membership in PeerAllowlist, membership in SuspiciousPeerList")
	if !needEffects(c, fxPay, fxOpenTx, fxSendMessage, fxActionExecute,
		"iface:swap.Policy.NewSwapsAllowed", "iface:swap.Policy.GetMinSwapAmountMsat", "iface:swap.Policy.IsPeerAllowed", "iface:swap.Policy.IsPeerSuspicious",
		"iface:swap.Wallet.GetAsset", "iface:swap.Wallet.GetNetwork", "iface:swap.Wallet.GetOnchainBalance", "iface:swap.Wallet.GetFlatOpeningTXFee",
		"iface:swap.LightningClient.SpendableMsat", "iface:swap.LightningClient.ReceivableMsat", "iface:swap.LightningClient.ProbePayment",
		"iface:swap.EventContext.Validate", "iface:swap.EventContext.ApplyToSwapData") {
		return
	}
	w := c.W
	ts := tables(c)
	if ts == nil {
		return
	}
	// anchors
	inAgr, outAgr := w.Named("swap", "SwapInAgreementMessage"), w.Named("swap", "SwapOutAgreementMessage")
	inReq, outReq := w.Named("swap", "SwapInRequestMessage"), w.Named("swap", "SwapOutRequestMessage")
	cancelT := w.Named("swap", "CancelMessage")
	if inAgr == nil || outAgr == nil || inReq == nil || outReq == nil || cancelT == nil {
		c.Anchor("message types SwapIn/OutAgreementMessage, SwapIn/OutRequestMessage, CancelMessage do not all resolve")
		return
	}
	for _, fn := range []string{"(*SwapData).GetChain", "(*SwapData).GetAmount", "(*SwapData).GetAsset", "(*SwapData).GetNetwork", "(*SwapData).GetProtocolVersion", "MarshalPeerswapMessage", "(*SwapStateMachine).SendEvent"} {
		if w.Func("swap", fn) == nil {
			c.Anchor("swap.%s does not resolve", fn)
			return
		}
	}
	if w.Func("premium", "(*Setting).Compute") == nil {
		c.Anchor("premium.(*Setting).Compute does not resolve")
		return
	}
	lbtcV, ok1 := c11ConstOf(w, "swap", "l_btc_chain")
	btcV, ok2 := c11ConstOf(w, "swap", "btc_chain")
	verV, ok3 := c11ConstOf(w, "swap", "PEERSWAP_PROTOCOL_VERSION")
	if !ok1 || !ok2 || !ok3 || lbtcV.Kind() != constant.String || btcV.Kind() != constant.String {
		c.Anchor("constants swap.l_btc_chain / btc_chain / PEERSWAP_PROTOCOL_VERSION do not resolve")
		return
	}
	lbtc, btc := lbtcV.ExactString(), btcV.ExactString() // quoted, as in fact terms
	ver, _ := constant.Int64Val(constant.ToInt(verV))
	c.Decide(ver == 7, "C11.R1", "PEERSWAP_PROTOCOL_VERSION", "-", "the version every request is compared with is 7", fmt.Sprintf("the protocol version constant is %d, not 7", ver))
	for _, fld := range []string{"SwapServices.liquidEnabled", "SwapServices.bitcoinEnabled"} {
		if len(w.FieldReaders(fld)) == 0 {
			c.Anchor("field %s is never read", fld)
			return
		}
	}

	const (
		tChain   = "call:func:(*swap.SwapData).GetChain"
		tAsset   = "call:func:(*swap.SwapData).GetAsset"
		tNetwork = "call:func:(*swap.SwapData).GetNetwork"
	)
	peerArg := func(f an.Fact) bool {
		v, _, ok := c11AtomOf(f)
		cl, isCall := v.(*ssa.Call)
		if !ok || !isCall || len(cl.Call.Args) != 1 {
			return false
		}
		t := w.Term(cl.Call.Args[0])
		// a responder's swap data is created with PeerNodeId == InitiatorNodeId == the requester
		return t == "field:SwapData.PeerNodeId" || t == "field:SwapData.InitiatorNodeId"
	}
	amountAlts := []string{"(*swap.SwapData).GetAmount", "RequestMessage.Amount"}
	guards := []c11Guard{
		{rule: "C11.R1", id: "swaps-enabled", what: "Policy.NewSwapsAllowed() is true",
			pass: func(f an.Fact) bool { return c11Atom(w, f, "call:iface:swap.Policy.NewSwapsAllowed", true) }},
		{rule: "C11.R1", id: "liquid-enabled", what: "chain != lbtc or SwapServices.liquidEnabled",
			pass: func(f an.Fact) bool {
				return c11StrRel(f, "!=", lbtc, tChain) || c11Atom(w, f, "field:SwapServices.liquidEnabled", true)
			}},
		{rule: "C11.R1", id: "bitcoin-enabled", what: "chain != btc or SwapServices.bitcoinEnabled",
			pass: func(f an.Fact) bool {
				return c11StrRel(f, "!=", btc, tChain) || c11Atom(w, f, "field:SwapServices.bitcoinEnabled", true)
			}},
		{rule: "C11.R1", id: "protocol-version", what: "GetProtocolVersion() == PEERSWAP_PROTOCOL_VERSION",
			pass: func(f an.Fact) bool {
				return an.MatchLin(f, an.LinSpec{Rel: "==", Terms: map[string]int64{"call:func:(*swap.SwapData).GetProtocolVersion": 1}, Const: -ver})
			}},
		{rule: "C11.R1", id: "min-amount", what: "amount*1000 >= Policy.GetMinSwapAmountMsat() (64 bit)",
			pass: func(f an.Fact) bool {
				return c11Widths64(f) && c11LinGE(f, []c11Term{{amountAlts, 1000}, {[]string{"call:iface:swap.Policy.GetMinSwapAmountMsat"}, -1}})
			}},
		{rule: "C11.R1", id: "asset", what: "asset empty or == Wallet.GetAsset()",
			pass: func(f an.Fact) bool {
				return c11StrRel(f, "==", `""`, tAsset) || c11StrRel(f, "==", tAsset, "call:iface:swap.Wallet.GetAsset")
			}},
		{rule: "C11.R1", id: "network", what: "network empty or == Wallet.GetNetwork()",
			pass: func(f an.Fact) bool {
				return c11StrRel(f, "==", `""`, tNetwork) || c11StrRel(f, "==", tNetwork, "call:iface:swap.Wallet.GetNetwork")
			}},
		{rule: "C11.R1", id: "peer-allowed", what: "Policy.IsPeerAllowed(requester) is true",
			pass: func(f an.Fact) bool { return c11Atom(w, f, "call:iface:swap.Policy.IsPeerAllowed", true) && peerArg(f) }},
		{rule: "C11.R1", id: "peer-not-suspicious", what: "Policy.IsPeerSuspicious(requester) is false",
			pass: func(f an.Fact) bool {
				return c11Atom(w, f, "call:iface:swap.Policy.IsPeerSuspicious", false) && peerArg(f)
			}},
		{rule: "C11.R5", id: "onchain-balance", what: "Wallet.GetOnchainBalance() >= amount + Wallet.GetFlatOpeningTXFee() (64 bit)", makerOnly: true,
			pass: func(f an.Fact) bool {
				return c11Widths64(f) && c11LinGE(f, []c11Term{
					{[]string{"call:iface:swap.Wallet.GetOnchainBalance#0"}, 1},
					{amountAlts, -1},
					{[]string{"call:iface:swap.Wallet.GetFlatOpeningTXFee#0"}, -1}})
			}},
	}

	// ---- responder states, found by effect -------------------------------------------------
	var resp []*c11Resp
	for _, t := range ts {
		for _, s := range t.T.Order {
			var bodies []*ssa.Function
			for _, fn := range t.Sum[s].Execs {
				bodies = append(bodies, c11Body(w, fn))
			}
			for i, fn := range bodies {
				al := c11AllocsOf(w, fn, inAgr.Obj().Name(), outAgr.Obj().Name())
				if len(al) == 0 {
					continue
				}
				r := &c11Resp{t: t, state: s, chain: bodies[:i+1], allocs: al, msg: an.NamedOf(al[0].Type()).Obj().Name(), maker: len(t.statesWith(fxOpenTx)) > 0}
				resp = append(resp, r)
				break
			}
		}
	}
	if !c.AtLeast("C11", "responder states (action chain allocates an agreement message)", len(resp), 2) {
		return
	}
	respTables := map[*TI]bool{}
	for _, r := range resp {
		respTables[r.t] = true
	}
	c.AtLeast("C11", "responder tables", len(respTables), 2)

	// ---- R1 / R5 ----------------------------------------------------------------------------
	nR1, nR5 := 0, 0
	for _, r := range resp {
		for _, g := range guards {
			if g.makerOnly && !r.maker {
				continue
			}
			if g.rule == "C11.R1" {
				nR1++
			} else {
				nR5++
			}
			cons := r.t.key(r.state) + " guard " + g.id
			pos := r.t.pos(c, r.state)
			established := false
			var why, undecided []string
			for i, fn := range r.chain {
				var targets []ssa.Instruction
				if i == len(r.chain)-1 {
					for _, a := range r.allocs {
						targets = append(targets, a)
					}
				} else {
					for _, d := range callsNamed(w, fn, fxActionExecute) {
						targets = append(targets, d)
					}
				}
				if len(targets) == 0 {
					continue
				}
				cut := c11Cut(w, fn, g.pass)
				if len(cut) == 0 {
					continue
				}
				all := true
				for _, tg := range targets {
					if !an.EdgesDominate(cut, tg.Block()) {
						all = false
						why = append(why, fmt.Sprintf("%s: %s is reachable without the condition (facts that do dominate it: %s)", w.FuncName(fn), w.Pos(tg.Pos()), an.DescribeFacts(c11Dom(w, tg))))
					}
				}
				if !all {
					continue
				}
				evs := returnEventsFrom(w, fn, an.ReachBlocks(c11FailStarts(cut), c11EdgeSet(cut), nil))
				bad := ""
				for ev, rets := range evs {
					if ev == "?" {
						undecided = append(undecided, fmt.Sprintf("%s: the event returned at %s on the failing side is not a constant", w.FuncName(fn), w.Pos(rets[0].Pos())))
						bad += " ?"
					} else if ev != evFailed {
						bad += fmt.Sprintf(" %s@%s", ev, w.Pos(rets[0].Pos()))
					}
				}
				if bad != "" {
					why = append(why, fmt.Sprintf("%s: the condition dominates, but a path on which it does not hold returns%s instead of %s", w.FuncName(fn), bad, evFailed))
					continue
				}
				established = true
				pos = w.Pos(targets[0].Pos())
				break
			}
			if established {
				c.OK(g.rule, cons, pos, "established in front of the agreement construction: "+g.what)
				continue
			}
			if len(why) == 0 {
				var names []string
				for _, fn := range r.chain {
					names = append(names, w.FuncName(fn))
				}
				d := "no test of this condition in " + strings.Join(names, ", ")
				if ds := callsNamed(w, r.chain[0], fxActionExecute); len(ds) > 0 {
					d += "; facts that dominate the first delegation: " + an.DescribeFacts(c11Dom(w, ds[0]))
				}
				why = append(why, d)
			}
			for i, fn := range r.chain {
				var tb []*ssa.BasicBlock
				if i == len(r.chain)-1 {
					for _, a := range r.allocs {
						tb = append(tb, a.Block())
					}
				} else {
					for _, d := range callsNamed(w, fn, fxActionExecute) {
						tb = append(tb, d.Block())
					}
				}
				if len(tb) == 0 {
					continue
				}
				for _, o := range c11XOf(w).opaque(fn, tb...) {
					undecided = append(undecided, w.FuncName(fn)+" tests the verdict of "+o+", which this rule cannot interpret")
				}
			}
			if len(undecided) > 0 {
				c.Unknown(g.rule, cons, pos, fmt.Sprintf("cannot decide whether `%s` is established: %s | %s", g.what, strings.Join(undecided, "; "), strings.Join(why, " | ")))
				continue
			}
			c.Bad(g.rule, cons, pos, fmt.Sprintf("an agreement (%s) can be constructed although the condition `%s` does not hold: %s", r.msg, g.what, strings.Join(why, " | ")))
		}
	}
	c.AtLeast("C11.R1", "state x condition instances", nR1, 18)
	c.AtLeast("C11.R5", "funding responder states", nR5, 1)

	// ---- R2 -----------------------------------------------------------------------------------
	isCancelState := func(t *TI, s string) bool {
		for _, fn := range t.Sum[s].Execs {
			if len(c11CancelSends(w, c11Body(w, fn))) > 0 {
				return true
			}
		}
		return false
	}
	for _, r := range resp {
		t, e := r.t, r.t.T.States[r.state]
		succ, okS := e.Events[evSucceeded]
		fail, okF := e.Events[evFailed]
		if !okS || !okF {
			c.Bad("C11.R2", t.key(r.state)+" edges", t.pos(c, r.state), "the responder state lacks a success or a failure edge")
			continue
		}
		// success edge: without it the sending state must be unreachable from the default state
		seen := map[string]bool{"": true}
		work := []string{""}
		var via []string
		for len(work) > 0 {
			x := work[len(work)-1]
			work = work[:len(work)-1]
			xe := t.T.States[x]
			if xe == nil {
				continue
			}
			for _, ev := range xe.SortedEvents() {
				if x == r.state && ev == evSucceeded {
					continue
				}
				nx := xe.Events[ev]
				if nx == succ {
					via = append(via, t.edgeKey(x, ev))
				}
				if !seen[nx] {
					seen[nx] = true
					work = append(work, nx)
				}
			}
		}
		switch {
		case !t.Sum[succ].HasEffect(fxSendMessage):
			c.Bad("C11.R2", t.edgeKey(r.state, evSucceeded), w.Pos(e.EventPos[evSucceeded]), "the success target of the checked state does not send the prepared message")
		case seen[succ]:
			c.Bad("C11.R2", t.edgeKey(r.state, evSucceeded), w.Pos(e.EventPos[evSucceeded]), "the agreement-sending state can be entered without the request checks having succeeded: "+strings.Join(via, " ; "))
		default:
			c.OK("C11.R2", t.edgeKey(r.state, evSucceeded), w.Pos(e.EventPos[evSucceeded]), "agreement-sending state is reachable from the default state only through the success edge of the checked state")
		}
		if !isCancelState(t, fail) && t.Sum[fail].HasEffect(fxSendMessage) && t.Sum[fail].HasEffect("func:swap.MarshalPeerswapMessage") {
			c.Unknown("C11.R2", t.edgeKey(r.state, evFailed), w.Pos(e.EventPos[evFailed]), "the failure target sends a message, but this rule cannot see that it is a marshalled CancelMessage (actions "+strings.Join(t.T.States[fail].ActionNames(), ",")+")")
		} else {
			c.Decide(isCancelState(t, fail), "C11.R2", t.edgeKey(r.state, evFailed), w.Pos(e.EventPos[evFailed]),
				"failure target marshals and sends a CancelMessage", "the failure target of the checked state does not send a CancelMessage (actions "+strings.Join(t.T.States[fail].ActionNames(), ",")+")")
		}
		// invalid message from the default state
		d := t.T.States[""]
		if d == nil {
			c.Bad("C11.R2", t.key("")+" --"+evInvalidMessage, t.pos(c, ""), "table has no default state")
			continue
		}
		inv, okI := d.Events[evInvalidMessage]
		if !okI {
			c.Bad("C11.R2", t.key("")+" --"+evInvalidMessage, t.pos(c, ""), "the default state does not accept the invalid-message event: an invalid request is rejected without a cancel message")
			continue
		}
		if !isCancelState(t, inv) && t.Sum[inv].HasEffect(fxSendMessage) && t.Sum[inv].HasEffect("func:swap.MarshalPeerswapMessage") {
			c.Unknown("C11.R2", t.edgeKey("", evInvalidMessage), w.Pos(d.EventPos[evInvalidMessage]), "the target of the invalid-message edge sends a message, but this rule cannot see that it is a marshalled CancelMessage")
			continue
		}
		c.Decide(isCancelState(t, inv), "C11.R2", t.edgeKey("", evInvalidMessage), w.Pos(d.EventPos[evInvalidMessage]),
			"an invalid request leads to the cancel-sending action", "the invalid-message edge of the default state does not lead to the cancel-sending action")
	}

	// ---- R3 -----------------------------------------------------------------------------------
	c11Handlers(c, resp, inReq, outReq)

	// ---- R4 -----------------------------------------------------------------------------------
	c11Validate(c, []*types.Named{inReq, outReq})
	c11SendEvent(c)

	// ---- R6 -----------------------------------------------------------------------------------
	c11PolicyImpl(c)
}

// ---- R6: the policy implementation ---------------------------------------------------------

func c11PolicyImpl(c *an.Check) {
	w := c.W
	pi := w.Named("swap", "Policy")
	if pi == nil {
		c.Anchor("swap.Policy does not resolve")
		return
	}
	iface, ok := pi.Underlying().(*types.Interface)
	if !ok {
		c.Anchor("swap.Policy is not an interface")
		return
	}
	var impls []*types.Named
	var rels []string
	for rel := range w.ByRel {
		rels = append(rels, rel)
	}
	sort.Strings(rels)
	for _, rel := range rels {
		p := w.ByRel[rel]
		if an.IsTestSupport(rel) || p.Types == nil {
			continue
		}
		for _, n := range p.Types.Scope().Names() {
			tn, ok := p.Types.Scope().Lookup(n).(*types.TypeName)
			if !ok || tn.IsAlias() {
				continue
			}
			nt, ok := tn.Type().(*types.Named)
			if !ok || nt.TypeParams().Len() > 0 {
				continue
			}
			if _, isI := nt.Underlying().(*types.Interface); isI {
				continue
			}
			if types.Implements(types.NewPointer(nt), iface) {
				impls = append(impls, nt)
			}
		}
	}
	if !c.AtLeast("C11.R6", "production implementations of swap.Policy", len(impls), 1) {
		return
	}
	c11Reload(c, impls)
	for _, nt := range impls {
		tn := nt.Obj().Name()
		member := func(v ssa.Value, list string) (isContains bool, right bool) {
			cl, ok := v.(*ssa.Call)
			if !ok || !strings.HasPrefix(w.Info(cl).Name, "func:slices.Contains[") || len(cl.Call.Args) != 2 {
				return false, false
			}
			return true, w.Term(cl.Call.Args[0]) == "field:"+tn+"."+list && w.Term(cl.Call.Args[1]) == "param#1"
		}
		type spec struct {
			meth  string
			check func(fn *ssa.Function, v ssa.Value, cs c11Case) (verdict int, why string) // 0 ok, 1 bad, 2 unknown
		}
		fieldOnly := func(field string) func(fn *ssa.Function, v ssa.Value, cs c11Case) (int, string) {
			return func(fn *ssa.Function, v ssa.Value, cs c11Case) (int, string) {
				if t := w.Term(v); t != "field:"+tn+"."+field {
					return 1, "returns " + t + " instead of the configured field " + field
				}
				return 0, ""
			}
		}
		specs := []spec{
			{"NewSwapsAllowed", fieldOnly("AllowNewSwaps")},
			{"GetMinSwapAmountMsat", fieldOnly("MinSwapAmountMsat")},
			{"IsPeerSuspicious", func(fn *ssa.Function, v ssa.Value, cs c11Case) (int, string) {
				if isC, right := member(v, "SuspiciousPeerList"); isC {
					if right {
						return 0, ""
					}
					return 1, "membership is tested on " + w.Term(v.(*ssa.Call).Call.Args[0]) + " / " + w.Term(v.(*ssa.Call).Call.Args[1]) + ", not on (SuspiciousPeerList, peer)"
				}
				if _, isK := v.(*ssa.Const); isK {
					return 1, "returns the constant " + w.Term(v)
				}
				if u, isU := v.(*ssa.UnOp); isU && u.Op == token.NOT {
					if isC, _ := member(u.X, "SuspiciousPeerList"); isC {
						return 1, "returns the negation of a membership test: " + w.Term(v)
					}
				}
				return 2, "unsupported shape of the returned value: " + w.Term(v)
			}},
			{"IsPeerAllowed", func(fn *ssa.Function, v ssa.Value, cs c11Case) (int, string) {
				if isC, right := member(v, "PeerAllowlist"); isC {
					if right {
						return 0, ""
					}
					return 1, "membership is tested on " + w.Term(v.(*ssa.Call).Call.Args[0]) + " / " + w.Term(v.(*ssa.Call).Call.Args[1]) + ", not on (PeerAllowlist, peer)"
				}
				if u, isU := v.(*ssa.UnOp); isU && u.Op == token.NOT {
					if isC, _ := member(u.X, "PeerAllowlist"); isC {
						return 1, "returns the negation of a membership test: " + w.Term(v)
					}
				}
				if k, isK := v.(*ssa.Const); isK {
					if k.Value != nil && k.Value.Kind() == constant.Bool && !constant.BoolVal(k.Value) {
						return 0, "" // refusing is always allowed
					}
					for _, f := range c11XOf(w).at(fn, cs.b, cs.via, 0) {
						if c11Atom(w, f, "field:"+tn+".AcceptAllPeers", true) {
							return 0, ""
						}
					}
					return 1, "returns true on a path on which AcceptAllPeers is not known to be set"
				}
				return 2, "unsupported shape of the returned value: " + w.Term(v)
			}},
		}
		for _, sp := range specs {
			fn := c11Body(w, w.Method(nt, sp.meth))
			cons := "(" + tn + ")." + sp.meth
			if fn == nil || fn.Blocks == nil {
				c.Anchor("method %s does not resolve", cons)
				continue
			}
			cases := c11Cases(fn, 0, true)
			verdict, why := 0, ""
			if len(cases) == 0 {
				verdict, why = 2, "cannot determine the returned values"
			}
			for _, cs := range cases {
				if cs.lost {
					if verdict == 0 {
						verdict, why = 2, "cannot determine a returned value ("+w.Pos(cs.ret.Pos())+")"
					}
					continue
				}
				vd, wy := sp.check(fn, cs.v, cs)
				if vd == 1 && verdict != 1 || vd == 2 && verdict == 0 {
					verdict, why = vd, wy+" ("+w.Pos(cs.ret.Pos())+")"
				}
			}
			switch verdict {
			case 0:
				c.OK("C11.R6", cons, w.Pos(fn.Pos()), "answers from the configured policy fields")
			case 1:
				c.Bad("C11.R6", cons, w.Pos(fn.Pos()), why)
			default:
				c.Unknown("C11.R6", cons, w.Pos(fn.Pos()), why)
			}
		}
	}
}

// ---- R7: the reload routine really reloads -----------------------------------------------------

var c11FileWrites = map[string]bool{
	"func:(*os.File).WriteString": true, "func:(*os.File).Write": true, "func:(*os.File).WriteAt": true,
	"func:os.WriteFile": true, "func:os.Rename": true, "func:(*os.File).Truncate": true,
}

// c11Reload: the admission answers (R6) are computed from the in-memory policy
// object; a runtime change of the policy file takes effect only through the
// whole-object replacement `*p = *parsed`. A reload routine is a function with an
// error result that reaches that replacement and writes no file; each of its
// nil returns must lie behind the replacement (the store itself, a helper that
// always performs it, the nil edge of / a direct `return` of another reload
// routine). That every file-rewriting mutator reaches the reload on its success
// path is C25.R2 and is not repeated here.
func c11Reload(c *an.Check, impls []*types.Named) {
	w := c.W
	x := c11XOf(w)
	nStores := 0
	for _, nt := range impls {
		isT := func(t types.Type) bool { return types.Identical(t, nt) }
		isPtrT := func(t types.Type) bool {
			p, ok := t.(*types.Pointer)
			return ok && isT(p.Elem())
		}
		// whole-object replacement stores of a live object
		repl := map[*ssa.Function][]*ssa.Store{}
		var odd []string
		for _, fn := range prodFuncs(w) {
			for _, b := range fn.Blocks {
				for _, in := range b.Instrs {
					st, ok := in.(*ssa.Store)
					if !ok || !isT(st.Val.Type()) || !isPtrT(st.Addr.Type()) {
						continue
					}
					if _, fresh := st.Addr.(*ssa.Alloc); fresh {
						continue // initialisation of a new object
					}
					src := st.Val
					if u, isLoad := src.(*ssa.UnOp); isLoad && u.Op == token.MUL {
						src = u.X
					}
					if c11CallOf(src) == nil {
						odd = append(odd, w.FuncName(fn)+" overwrites the policy object with "+w.Term(st.Val)+" ("+w.Pos(st.Pos())+")")
						continue
					}
					repl[fn] = append(repl[fn], st)
					nStores++
				}
			}
		}
		if len(repl) == 0 {
			continue
		}
		// always: helpers without error result that perform the replacement on every path
		reaches := func(fn *ssa.Function) bool {
			if len(repl[fn]) > 0 {
				return true
			}
			for _, e := range w.Summary(fn).Effects {
				if e.Info.Static != nil && len(repl[e.Info.Static]) > 0 {
					return true
				}
			}
			return false
		}
		writesFile := func(fn *ssa.Function) bool {
			for _, e := range w.Summary(fn).Effects {
				if c11FileWrites[e.Name] {
					return true
				}
			}
			return false
		}
		errIdx := func(fn *ssa.Function) int {
			r := fn.Signature.Results()
			for i := 0; i < r.Len(); i++ {
				if an.IsErrorType(r.At(i).Type()) {
					return i
				}
			}
			return -1
		}
		var routines []*ssa.Function
		isRoutine := map[*ssa.Function]bool{}
		for _, fn := range prodFuncs(w) {
			if fn.Blocks == nil || fn.Parent() != nil || !reaches(fn) || writesFile(fn) || errIdx(fn) < 0 {
				continue
			}
			routines = append(routines, fn)
			isRoutine[fn] = true
		}
		// replacement points of a function: blocks after which the object has been replaced
		var always func(fn *ssa.Function, depth int) bool
		points := func(fn *ssa.Function, depth int) (stop map[*ssa.BasicBlock]bool, cut []an.Edge, okCalls map[*ssa.Call]bool, unsure []string) {
			stop, okCalls = map[*ssa.BasicBlock]bool{}, map[*ssa.Call]bool{}
			for _, st := range repl[fn] {
				stop[st.Block()] = true
			}
			for _, ci := range an.Calls(fn) {
				if _, isGo := ci.(*ssa.Go); isGo {
					continue
				}
				if _, isDefer := ci.(*ssa.Defer); isDefer {
					continue
				}
				g := ci.Common().StaticCallee()
				if g == nil || g.Blocks == nil || !w.InModule(g) || !reaches(g) {
					continue
				}
				call, isCall := ci.(*ssa.Call)
				switch {
				case isRoutine[g] && isCall:
					okE, _ := an.OkEdges(call)
					cut = append(cut, okE...)
					okCalls[call] = true
				case errIdx(g) < 0 && depth < 3 && always(g, depth+1):
					stop[ci.Block()] = true
				default:
					unsure = append(unsure, "calls "+w.FuncName(g)+", which may replace the policy object, in a way this rule does not interpret")
				}
			}
			return
		}
		always = func(fn *ssa.Function, depth int) bool {
			stop, _, _, _ := points(fn, depth)
			if len(stop) == 0 {
				return false
			}
			reach := an.ReachBlocks([]*ssa.BasicBlock{fn.Blocks[0]}, nil, stop)
			for _, r := range an.Returns(fn) {
				if r.Block() != fn.Recover && reach[r.Block()] && !stop[r.Block()] {
					return false
				}
			}
			return true
		}
		sort.Slice(routines, func(i, j int) bool { return w.FuncName(routines[i]) < w.FuncName(routines[j]) })
		for _, fn := range routines {
			cons := w.FuncName(fn) + " success behind replacement"
			pos := w.Pos(fn.Pos())
			stop, cut, okCalls, unsure := points(fn, 0)
			cm := c11EdgeSet(cut)
			reach := an.ReachBlocks([]*ssa.BasicBlock{fn.Blocks[0]}, cm, stop)
			var wrong []string
			nilable := 0
			for _, cs := range c11Cases(fn, errIdx(fn), false) {
				if cs.lost {
					unsure = append(unsure, "a returned error value cannot be determined ("+w.Pos(cs.ret.Pos())+")")
					continue
				}
				if !an.IsNilConst(cs.v) && x.nonNil(cs) {
					continue
				}
				nilable++
				if call := c11CallOf(cs.v); call != nil && okCalls[call] {
					continue
				}
				if stop[cs.b] || !reach[cs.b] || (cs.via.From != nil && cm[cs.via]) {
					continue
				}
				if an.IsNilConst(cs.v) {
					under := an.DescribeFacts(x.at(fn, cs.b, cs.via, 0))
					if under == "" {
						under = "no condition"
					}
					wrong = append(wrong, fmt.Sprintf("the nil return at %s is reached without replacing the in-memory policy by the parsed file; it is taken under [%s]: the previous policy (allowlist, suspicious list, allow_new_swaps, minimum) stays in force although the file changed", w.Pos(cs.ret.Pos()), under))
				} else {
					unsure = append(unsure, "the value returned at "+w.Pos(cs.ret.Pos())+" ("+w.Term(cs.v)+") may be nil and is not the result of a reload routine")
				}
			}
			switch {
			case len(wrong) > 0:
				c.Bad("C11.R7", cons, pos, strings.Join(wrong, " | "))
			case len(unsure) > 0:
				c.Unknown("C11.R7", cons, pos, strings.Join(unsure, "; "))
			case nilable == 0:
				c.Unknown("C11.R7", cons, pos, "no success return found")
			default:
				c.OK("C11.R7", cons, pos, "every nil return lies behind `*policy = *parsed` (directly, or through the success of another reload routine)")
			}
		}
		for _, o := range odd {
			c.Unknown("C11.R7", nt.Obj().Name()+" overwrite source", "-", o+": not recognised as the result of parsing the file")
		}
		c.AtLeast("C11.R7", "reload routines of "+nt.Obj().Name(), len(routines), 1)
	}
	c.AtLeast("C11.R7", "whole-object replacements of a policy implementation", nStores, 1)
}

// ---- R3: request handlers ------------------------------------------------------------------

// c11ConstCases: the integer constants a call argument may hold (phis of
// constants are enumerated with the place that selects each); ok=false when some
// incoming value is not a constant.
func c11ConstCases(v ssa.Value, b *ssa.BasicBlock) (ks []int64, cs []c11Case, ok bool) {
	for _, k := range c11ValCases(v, b) {
		n, isK := an.ConstInt(k.v)
		if k.lost || !isK {
			return nil, nil, false
		}
		ks = append(ks, n)
		cs = append(cs, k)
	}
	return ks, cs, len(ks) > 0
}

// c11Ops lists the (asset<<8 | operation) constant pairs of the premium.Setting.Compute calls of fn
// (-1: some argument is not a constant).
func c11Ops(w *an.World, fn *ssa.Function) (ops map[int64]bool) {
	ops = map[int64]bool{}
	for _, ci := range callsNamed(w, fn, "func:(*premium.Setting).Compute") {
		cl, ok := ci.(*ssa.Call)
		if !ok || len(cl.Call.Args) != 5 {
			continue
		}
		as, _, okA := c11ConstCases(cl.Call.Args[2], cl.Block())
		os, _, okO := c11ConstCases(cl.Call.Args[3], cl.Block())
		if !okA || !okO {
			ops[-1] = true
			continue
		}
		for _, a := range as {
			for _, o := range os {
				ops[a<<8|o] = true
			}
		}
	}
	return
}

func c11OpNames(m map[int64]bool) string {
	var out []string
	for _, k := range c11SortedInts(m) {
		if k < 0 {
			out = append(out, "non-constant")
		} else {
			out = append(out, fmt.Sprintf("(asset %d, operation %d)", k>>8, k&255))
		}
	}
	return strings.Join(out, " ")
}

func c11Handlers(c *an.Check, resp []*c11Resp, inReq, outReq *types.Named) {
	w := c.W
	nH := 0
	for _, r := range resp {
		// events that start the responder state from the default state
		d := r.t.T.States[""]
		if d == nil {
			continue
		}
		start := map[string]bool{}
		for ev, tgt := range d.Events {
			if tgt == r.state {
				start[ev] = true
			}
		}
		actOps := c11Ops(w, r.chain[len(r.chain)-1])
		for _, fn := range prodFuncs(w) {
			if w.FnRel(fn) != "swap" {
				continue
			}
			for _, ci := range an.Calls(fn) {
				args := ci.Common().Args
				if w.Info(ci).Name == "func:(*swap.SwapStateMachine).SendEvent" {
					if len(args) != 3 {
						continue
					}
					if ev, ok := an.ConstString(args[1]); ok && start[ev] {
						nH++
						c11Handler(c, r, fn, ci, args[2], actOps)
					}
					continue
				}
				// a delivery helper h(…, event, ctx, …) that hands its parameters to SendEvent
				h := ci.Common().StaticCallee()
				if h == nil || h.Blocks == nil || !w.InModule(h) {
					continue
				}
				for _, in := range callsNamed(w, h, "func:(*swap.SwapStateMachine).SendEvent") {
					ia := in.Common().Args
					if len(ia) != 3 {
						continue
					}
					ei, ci2 := c11ParamIdx(ia[1]), c11ParamIdx(ia[2])
					if ei < 0 || ci2 < 0 || ei >= len(args) || ci2 >= len(args) {
						continue
					}
					if ev, ok := an.ConstString(args[ei]); ok && start[ev] {
						nH++
						c11Handler(c, r, fn, ci, args[ci2], actOps)
						break
					}
				}
			}
		}
	}
	c.AtLeast("C11.R3", "request handlers (SendEvent of a responder start event)", nH, 2)
}

// c11Handler: se is the call in the handler that injects the start event (SendEvent
// itself or a delivery helper), ctx the event context handed over.
func c11Handler(c *an.Check, r *c11Resp, fn *ssa.Function, se ssa.CallInstruction, ctx ssa.Value, actOps map[int64]bool) {
	w := c.W
	name := w.FuncName(fn)
	msg, _ := c11StripIface(ctx).(*ssa.Parameter)
	if msg == nil {
		c.Unknown("C11.R3", name+" request", w.Pos(se.Pos()), "the event context passed to SendEvent is not a parameter of the handler; cannot tie the guards to the request")
		return
	}
	mt := an.NamedOf(msg.Type())
	if mt == nil {
		c.Unknown("C11.R3", name+" request", w.Pos(se.Pos()), "request parameter has no named type")
		return
	}
	mname := mt.Obj().Name()
	fieldOfMsg := func(v ssa.Value, field string) bool {
		for {
			if cv, ok := v.(*ssa.Convert); ok {
				v = cv.X
				continue
			}
			break
		}
		chain, root := w.FieldChain(v)
		return c11XOf(w).resolve(root) == msg && chain == mname+"."+field
	}
	// otherField: v is a field of the request, but not the expected one
	otherField := func(v ssa.Value, field string) bool {
		for {
			if cv, ok := v.(*ssa.Convert); ok {
				v = cv.X
				continue
			}
			break
		}
		chain, root := w.FieldChain(v)
		return c11XOf(w).resolve(root) == msg && strings.HasPrefix(chain, mname+".") && chain != mname+"."+field
	}
	targets := []ssa.Instruction{se}
	for _, l := range callsNamed(w, fn, "func:(*swap.SwapService).lockSwap") {
		targets = append(targets, l)
	}
	cancels := map[*ssa.BasicBlock]bool{}
	var peer ssa.Value
	// the peer the handler answers: first argument of the cancel sends / Compute must agree
	for _, cs := range c11CancelSends(w, fn) {
		cancels[cs.call.Block()] = true
	}

	type hGuard struct {
		id, what string
		pass     func(f an.Fact) bool
		extra    func(f an.Fact) string // "" = fine
	}
	callArgs := func(v ssa.Value) (*ssa.Call, []ssa.Value) {
		cl := c11CallOf(v)
		if cl == nil {
			return nil, nil
		}
		return cl, cl.Call.Args
	}
	// operand of a numeric fact that is a result of the call named sub
	operand := func(f an.Fact, sub string) ssa.Value {
		for _, v := range []ssa.Value{f.LV, f.RV} {
			if v != nil && strings.Contains(w.Term(v), sub) {
				return v
			}
		}
		return nil
	}
	lbtcA, btcA := int64(-1), int64(-1)
	if v, ok := c11ConstOf(w, "premium", "LBTC"); ok {
		lbtcA, _ = constant.Int64Val(constant.ToInt(v))
	}
	if v, ok := c11ConstOf(w, "premium", "BTC"); ok {
		btcA, _ = constant.Int64Val(constant.ToInt(v))
	}
	capTerm := "call:iface:swap.LightningClient.ReceivableMsat#0"
	capWhat := "ReceivableMsat(request scid) >= amount*1000"
	if !r.maker {
		capTerm = "call:iface:swap.LightningClient.SpendableMsat#0"
		capWhat = "SpendableMsat(request scid) >= amount*1000"
	}
	gs := []hGuard{
		{id: "premium-limit", what: "premium.Setting.Compute(peer, asset, op, amount) <= request.PremiumLimit",
			pass: func(f an.Fact) bool {
				return c11LinGE(f, []c11Term{{[]string{mname + ".PremiumLimit"}, 1}, {[]string{"call:func:(*premium.Setting).Compute#0"}, -1}})
			},
			extra: func(f an.Fact) string {
				// a message starting with "?" means: this rule cannot interpret the shape (undecided)
				lim := operand(f, mname+".PremiumLimit")
				if lim == nil || !fieldOfMsg(lim, "PremiumLimit") {
					return "?cannot tie the limit compared to the PremiumLimit of the request passed to SendEvent"
				}
				pv := operand(f, "(*premium.Setting).Compute#0")
				if pv == nil {
					return "?cannot find the premium operand"
				}
				calls := c11CallsBehind(pv)
				if len(calls) == 0 {
					return "?premium operand is not a call result"
				}
				ops := map[int64]bool{}
				x := c11XOf(w)
				for _, cl := range calls {
					if cl == nil {
						return "?on some path the premium compared is not a result of premium.Setting.Compute"
					}
					if w.Info(cl).Name != "func:(*premium.Setting).Compute" || len(cl.Call.Args) != 5 {
						return "?premium operand comes from " + w.Info(cl).Name
					}
					p, isP := x.resolve(cl.Call.Args[1]).(*ssa.Parameter)
					if !isP || p.Parent() != fn {
						return "?cannot tie the peer the premium is computed for to a parameter of the handler"
					}
					if peer != nil && peer != p {
						return "premium is computed for " + w.Term(p) + " but an earlier test used " + w.Term(peer)
					}
					peer = p
					if !fieldOfMsg(cl.Call.Args[4], "Amount") {
						if otherField(cl.Call.Args[4], "Amount") {
							return "premium is computed on " + w.Term(cl.Call.Args[4]) + ", not on the request amount"
						}
						return "?cannot tie the amount the premium is computed on to the request"
					}
					as, acs, okA := c11ConstCases(cl.Call.Args[2], cl.Block())
					ks, _, okK := c11ConstCases(cl.Call.Args[3], cl.Block())
					if !okA || !okK {
						return "?premium asset/operation is not a constant"
					}
					// the liquid rate is used iff the request names no network (resp. an asset)
					netEmpty, netSet := `"" == field:`+mname+".Network", `"" != field:`+mname+".Network"
					assetEmpty, assetSet := `"" == field:`+mname+".Asset", `"" != field:`+mname+".Asset"
					for i, a := range as {
						for _, k := range ks {
							ops[a<<8|k] = true
						}
						has := func(want string) bool {
							for _, df := range x.at(fn, acs[i].b, acs[i].via, 0) {
								if df.NonNum && df.L+" "+df.Rel+" "+df.R == want {
									return true
								}
							}
							return false
						}
						switch {
						case lbtcA >= 0 && a == lbtcA:
							if has(netSet) || has(assetEmpty) {
								return "the liquid premium rate is looked up for a request that names a network / no asset"
							}
							if !has(netEmpty) && !has(assetSet) {
								return "?cannot see under which request kind the liquid premium rate is looked up"
							}
						case btcA >= 0 && a == btcA:
							if has(netEmpty) || has(assetSet) {
								return "the bitcoin premium rate is looked up for a request that names an asset / no network"
							}
							if !has(netSet) && !has(assetEmpty) {
								return "?cannot see under which request kind the bitcoin premium rate is looked up"
							}
						default:
							return fmt.Sprintf("premium asset constant %d is neither premium.BTC nor premium.LBTC", a)
						}
					}
				}
				if actOps[-1] {
					return "?the responder action computes its premium with a non-constant asset/operation"
				}
				if c11OpNames(ops) != c11OpNames(actOps) {
					return "the handler checks the premium of " + c11OpNames(ops) + " but the responder action charges " + c11OpNames(actOps)
				}
				return ""
			}},
		{id: "channel-capacity", what: capWhat,
			pass: func(f an.Fact) bool {
				return c11Widths64(f) && c11LinGE(f, []c11Term{{[]string{capTerm}, 1}, {[]string{mname + ".Amount"}, -1000}})
			},
			extra: func(f an.Fact) string {
				cv := operand(f, capTerm)
				cl, args := callArgs(cv)
				if cl == nil || len(args) != 1 {
					return "?cannot find the capacity query"
				}
				if !fieldOfMsg(args[0], "Scid") {
					if otherField(args[0], "Scid") {
						return "capacity is queried for " + w.Term(args[0]) + ", not for the scid of the request"
					}
					return "?cannot tie the channel whose capacity is queried to the request"
				}
				for _, v := range []ssa.Value{f.LV, f.RV} {
					if base, k, ok := c11MulK(v); ok && k == 1000 && fieldOfMsg(base, "Amount") {
						return ""
					}
				}
				return "?cannot tie the amount compared to request.Amount*1000"
			}},
	}
	if !r.maker {
		gs = append(gs, hGuard{id: "probe", what: "ProbePayment(request scid, amount*1000) succeeded",
			pass: func(f an.Fact) bool { return c11Atom(w, f, "call:iface:swap.LightningClient.ProbePayment#0", true) },
			extra: func(f an.Fact) string {
				pv, _, _ := c11AtomOf(f)
				cl, args := callArgs(pv)
				if cl == nil || len(args) != 2 {
					return "?cannot find the probe call"
				}
				if !fieldOfMsg(args[0], "Scid") {
					if otherField(args[0], "Scid") {
						return "the probe is made on " + w.Term(args[0]) + ", not on the scid of the request"
					}
					return "?cannot tie the probed channel to the request"
				}
				base, k, ok := c11MulK(args[1])
				if ok && k != 1000 && fieldOfMsg(base, "Amount") {
					return fmt.Sprintf("the probe amount is request.Amount*%d, not *1000", k)
				}
				if !ok || !fieldOfMsg(base, "Amount") {
					return "?cannot tie the probe amount to request.Amount*1000"
				}
				return ""
			}})
	}
	for _, g := range gs {
		cons := name + " guard " + g.id
		var cut []an.Edge
		var notes []string
		for _, f := range c11XOf(w).facts(fn) {
			if !g.pass(f) {
				continue
			}
			if m := g.extra(f); m != "" {
				notes = append(notes, m)
				continue
			}
			cut = append(cut, f.Edge)
		}
		var tblocks []*ssa.BasicBlock
		for _, tg := range targets {
			tblocks = append(tblocks, tg.Block())
		}
		undec := c11XOf(w).opaque(fn, tblocks...)
		var wrong []string
		for _, m := range notes {
			if strings.HasPrefix(m, "?") {
				undec = append(undec, m[1:])
			} else {
				wrong = append(wrong, m)
			}
		}
		if len(cut) == 0 {
			switch {
			case len(wrong) > 0:
				c.Bad("C11.R3", cons, w.Pos(se.Pos()), "the request is handed to the state machine without this pre-check: a test exists but: "+strings.Join(wrong, "; "))
			case len(undec) > 0:
				c.Unknown("C11.R3", cons, w.Pos(se.Pos()), "cannot decide whether `"+g.what+"` is tested: "+strings.Join(undec, "; "))
			default:
				c.Bad("C11.R3", cons, w.Pos(se.Pos()), "the request is handed to the state machine without this pre-check: no test of `"+g.what+"` in the handler")
			}
			continue
		}
		bad := ""
		for _, tg := range targets {
			if !an.EdgesDominate(cut, tg.Block()) {
				bad += fmt.Sprintf(" %s@%s", w.Info(tg.(ssa.CallInstruction)).Name, w.Pos(tg.Pos()))
			}
		}
		if bad != "" {
			if len(undec) > 0 {
				c.Unknown("C11.R3", cons, w.Pos(se.Pos()), "a test of `"+g.what+"` exists but does not dominate"+bad+", and: "+strings.Join(undec, "; "))
				continue
			}
			c.Bad("C11.R3", cons, w.Pos(se.Pos()), "reachable without `"+g.what+"`:"+bad+"; facts dominating SendEvent: "+an.DescribeFacts(c11Dom(w, se)))
			continue
		}
		// failing side: every path to a return sends the cancel message
		region := an.ReachBlocks(c11FailStarts(cut), c11EdgeSet(cut), cancels)
		silent := ""
		for _, ret := range an.Returns(fn) {
			if region[ret.Block()] && !cancels[ret.Block()] {
				silent += " " + w.Pos(ret.Pos())
			}
		}
		if silent != "" {
			// a helper in the failing region that sends some message, but is not recognised as a cancel reply
			var maybe []string
			for b := range region {
				if cancels[b] {
					continue
				}
				for _, in := range b.Instrs {
					ci, ok := in.(ssa.CallInstruction)
					if !ok {
						continue
					}
					if h := ci.Common().StaticCallee(); h != nil && h.Blocks != nil && w.InModule(h) && w.Summary(h).HasEffect(fxSendMessage) {
						maybe = append(maybe, w.FuncName(h))
					}
					if _, isDyn := ci.Common().Value.(*ssa.MakeClosure); isDyn {
						maybe = append(maybe, "a closure")
					}
				}
			}
			if len(maybe) > 0 {
				sort.Strings(maybe)
				c.Unknown("C11.R3", cons, w.Pos(se.Pos()), "the guard holds; its failing edge returns at"+silent+" after calling "+strings.Join(maybe, ", ")+", which may send the cancel message but is not recognised as doing so on every path")
				continue
			}
		}
		c.Decide(silent == "", "C11.R3", cons, w.Pos(se.Pos()),
			"dominates lockSwap/SendEvent; the failing edge sends a CancelMessage: "+g.what,
			"the guard holds, but its failing edge can return without sending a CancelMessage (returns at"+silent+")")
	}
	// cancel messages go to the peer the premium was computed for
	for _, cs := range c11CancelSends(w, fn) {
		if peer != nil && cs.peer != peer {
			if q, isP := cs.peer.(*ssa.Parameter); isP && q.Parent() == fn {
				c.Bad("C11.R3", name+" cancel recipient", w.Pos(cs.call.Pos()), "a cancel message is sent to "+w.Term(cs.peer)+", not to the handler's peer parameter")
			} else {
				c.Unknown("C11.R3", name+" cancel recipient", w.Pos(cs.call.Pos()), "cannot tie the recipient "+w.Term(cs.peer)+" of a cancel message to the handler's peer parameter")
			}
		}
	}
	// information: error returns that leave without a cancel
	for _, cl := range an.Calls(fn) {
		call, ok := cl.(*ssa.Call)
		if !ok || w.Info(cl).Name != "func:(*premium.Setting).Compute" {
			continue
		}
		_, fail := an.OkEdges(call)
		for _, e := range fail {
			reg := an.ReachBlocks([]*ssa.BasicBlock{e.To()}, nil, cancels)
			for _, ret := range an.Returns(fn) {
				if reg[ret.Block()] && !cancels[ret.Block()] {
					c.Note("C11.R3", name+" premium lookup error", w.Pos(ret.Pos()), "an error of premium.Setting.Compute returns without a cancel message (no agreement is sent; the requester runs into its timeout)")
				}
			}
		}
	}
}

func c11FailStarts(cut []an.Edge) []*ssa.BasicBlock {
	cm := c11EdgeSet(cut)
	var starts []*ssa.BasicBlock
	for _, e := range cut {
		o := an.Edge{From: e.From, Idx: 1 - e.Idx}
		if !cm[o] {
			starts = append(starts, o.To())
		}
	}
	return starts
}

func c11SortedInts(m map[int64]bool) []int64 {
	var out []int64
	for k := range m {
		out = append(out, k)
	}
	sort.Slice(out, func(i, j int) bool { return out[i] < out[j] })
	return out
}

// ---- R4: Validate ---------------------------------------------------------------------------

// c11NilCut decides whether every possibly-nil error return of fn is cut off by
// the edges, or is the directly returned result of one of okCalls
// (`return check(x)` is nil only if check succeeded). 0 = yes; 1 = a literal nil
// return is reachable without the edges; 2 = some returned value cannot be
// interpreted.
func c11NilCut(w *an.World, fn *ssa.Function, cut []an.Edge, okCalls map[*ssa.Call]bool) (int, string) {
	x := c11XOf(w)
	cm := c11EdgeSet(cut)
	nilable := 0
	verdict, why := 0, ""
	worse := func(v int, m string) {
		if v == 1 && verdict != 1 || v == 2 && verdict == 0 {
			verdict, why = v, m
		}
	}
	for _, cs := range c11Cases(fn, 0, false) {
		if cs.lost {
			worse(2, "a returned value cannot be determined ("+w.Pos(cs.ret.Pos())+")")
			continue
		}
		if !an.IsNilConst(cs.v) && x.nonNil(cs) {
			continue
		}
		nilable++
		if call := c11CallOf(cs.v); call != nil && okCalls[call] {
			continue
		}
		covered := (cs.via.From != nil && cm[cs.via]) || (len(cut) > 0 && an.EdgesDominate(cut, cs.b))
		if covered {
			continue
		}
		if an.IsNilConst(cs.v) {
			worse(1, "the nil return at "+w.Pos(cs.ret.Pos())+" is reachable without the test")
		} else {
			worse(2, "the value returned at "+w.Pos(cs.ret.Pos())+" ("+w.Term(cs.v)+") may be nil and is not recognised as the result of the test")
		}
	}
	if nilable == 0 && verdict == 0 {
		return 2, "no return of a possibly nil error found"
	}
	return verdict, why
}

// c11AllNilCut: every nil return of a helper is cut off by the edges.
func c11AllNilCut(w *an.World, fn *ssa.Function, cut []an.Edge) bool {
	if len(cut) == 0 {
		return false
	}
	v, _ := c11NilCut(w, fn, cut, nil)
	return v == 0
}

func c11ParamIdx(v ssa.Value) int {
	p, ok := v.(*ssa.Parameter)
	if !ok {
		return -1
	}
	for i, q := range p.Parent().Params {
		if q == p {
			return i
		}
	}
	return -1
}

// c11HexLen: g(…, s, …, n, …) returns nil only if hex.DecodeString(s) succeeded and
// len(decoded) == n; returns the parameter indices of s and n.
func c11HexLen(w *an.World, g *ssa.Function) (si, ni int, ok bool) {
	si, ni = -1, -1
	for _, ci := range callsNamed(w, g, "func:encoding/hex.DecodeString") {
		if len(ci.Common().Args) == 1 {
			si = c11ParamIdx(ci.Common().Args[0])
		}
	}
	if si < 0 {
		return
	}
	decOK := c11Cut(w, g, func(f an.Fact) bool { return c11StrRel(f, "==", "call:func:encoding/hex.DecodeString#1", "nil") })
	for i := range g.Params {
		p := fmt.Sprintf("param#%d", i)
		lenOK := c11Cut(w, g, func(f an.Fact) bool {
			return an.MatchLin(f, an.LinSpec{Rel: "==", Terms: map[string]int64{"len(call:func:encoding/hex.DecodeString#0)": 1, p: -1}})
		})
		if len(lenOK) > 0 && c11AllNilCut(w, g, lenOK) && c11AllNilCut(w, g, decOK) {
			return si, i, true
		}
	}
	return
}

// c11Xor: g(a, b) returns nil only if exactly one of its two string parameters is
// empty. partial: g compares both parameters with "" but one half of the test is missing.
func c11Xor(w *an.World, g *ssa.Function) (ai, bi int, ok, partial bool) {
	var sp []int
	for i, p := range g.Params {
		if b, isB := p.Type().Underlying().(*types.Basic); isB && b.Kind() == types.String {
			sp = append(sp, i)
		}
	}
	if len(sp) != 2 {
		return
	}
	a, b := fmt.Sprintf("param#%d", sp[0]), fmt.Sprintf("param#%d", sp[1])
	someSet := c11Cut(w, g, func(f an.Fact) bool { return c11StrRel(f, "!=", `""`, a) || c11StrRel(f, "!=", `""`, b) })
	someEmpty := c11Cut(w, g, func(f an.Fact) bool { return c11StrRel(f, "==", `""`, a) || c11StrRel(f, "==", `""`, b) })
	if c11AllNilCut(w, g, someSet) && c11AllNilCut(w, g, someEmpty) {
		return sp[0], sp[1], true, false
	}
	testsA := len(c11Cut(w, g, func(f an.Fact) bool { return c11StrRel(f, "==", `""`, a) })) > 0
	testsB := len(c11Cut(w, g, func(f an.Fact) bool { return c11StrRel(f, "==", `""`, b) })) > 0
	v1, _ := c11NilCut(w, g, someSet, nil)
	v2, _ := c11NilCut(w, g, someEmpty, nil)
	return sp[0], sp[1], false, testsA && testsB && v1 != 2 && v2 != 2
}

// c11ScidFmt: g(s) returns nil only if s splits into three parts. partial: g
// looks at the number of parts of strings.Split but not with `== 3` in front of
// every nil return.
func c11ScidFmt(w *an.World, g *ssa.Function) (ok, partial bool) {
	three := c11Cut(w, g, func(f an.Fact) bool {
		return an.MatchLin(f, an.LinSpec{Rel: "==", Terms: map[string]int64{"len(call:func:strings.Split": 1}, Const: -3})
	})
	if c11AllNilCut(w, g, three) {
		return true, false
	}
	mentions := false
	for _, f := range w.Facts(g) {
		for k := range f.Terms {
			if strings.HasPrefix(k, "len(call:func:strings.Split") && len(f.Terms) == 1 {
				mentions = true
			}
		}
	}
	v, _ := c11NilCut(w, g, three, nil)
	return false, mentions && v != 2
}

func c11Validate(c *an.Check, reqs []*types.Named) {
	w := c.W
	n := 0
	for _, rt := range reqs {
		fn := c11Body(w, w.Method(rt, "Validate"))
		if fn == nil {
			c.Anchor("%s.Validate does not resolve", rt.Obj().Name())
			continue
		}
		n++
		name := w.FuncName(fn)
		pos := w.Pos(fn.Pos())
		rname := rt.Obj().Name()
		recvField := func(v ssa.Value, field string) bool {
			t := w.Term(v)
			return strings.HasPrefix(t, "param#0") && strings.HasSuffix(t, rname+"."+field)
		}
		type vg struct {
			id, okText, badText string
			cut                 []an.Edge
			okCalls             map[*ssa.Call]bool
			wrong, unsure       []string
		}
		pub := &vg{id: "pubkey-length", okText: "nil return only after the 33-byte hex test of Pubkey succeeded", badText: "Validate can return nil without a successful 33-byte hex-length test of the request's Pubkey", okCalls: map[*ssa.Call]bool{}}
		xor := &vg{id: "asset-xor-network", okText: "nil return only after the asset-xor-network test succeeded", badText: "Validate can return nil without a successful test that exactly one of Asset and Network is set", okCalls: map[*ssa.Call]bool{}}
		scid := &vg{id: "scid-format", okText: "nil return only after the scid format test succeeded", badText: "Validate can return nil without a successful three-part format test of the request's Scid", okCalls: map[*ssa.Call]bool{}}
		takes := func(args []ssa.Value, field string) bool {
			for _, a := range args {
				if recvField(a, field) {
					return true
				}
			}
			return false
		}
		for _, ci := range an.Calls(fn) {
			call, ok := ci.(*ssa.Call)
			if !ok {
				continue
			}
			g := w.Info(ci).Static
			if g == nil || !w.InModule(g) || g.Blocks == nil {
				continue
			}
			okE, _ := an.OkEdges(call)
			args := call.Call.Args
			gname := w.FuncName(g)
			accept := func(v *vg) {
				v.cut = append(v.cut, okE...)
				v.okCalls[call] = true
			}
			// pubkey
			if si, ni, ok := c11HexLen(w, g); ok && si < len(args) && ni < len(args) {
				if recvField(args[si], "Pubkey") {
					if k, isK := an.ConstInt(args[ni]); isK && k == 33 {
						accept(pub)
					} else if isK {
						pub.wrong = append(pub.wrong, fmt.Sprintf("%s tests Pubkey for %d bytes", gname, k))
					} else {
						pub.unsure = append(pub.unsure, gname+" tests Pubkey for a non-constant length")
					}
				}
			} else if takes(args, "Pubkey") {
				pub.unsure = append(pub.unsure, gname+" receives Pubkey but is not recognised as a hex-length test")
			}
			// xor
			if ai, bi, ok, partial := c11Xor(w, g); (ok || partial) && ai < len(args) && bi < len(args) {
				right := (recvField(args[ai], "Asset") && recvField(args[bi], "Network")) || (recvField(args[ai], "Network") && recvField(args[bi], "Asset"))
				switch {
				case ok && right:
					accept(xor)
				case ok && (takes(args, "Asset") || takes(args, "Network")):
					xor.wrong = append(xor.wrong, gname+" is applied to "+w.Term(args[ai])+" and "+w.Term(args[bi])+", not to Asset and Network")
				case partial && right:
					xor.wrong = append(xor.wrong, gname+" compares Asset and Network with \"\" but does not reject both-empty and both-set")
				}
			} else if takes(args, "Asset") && takes(args, "Network") {
				xor.unsure = append(xor.unsure, gname+" receives Asset and Network but is not recognised as an exactly-one-set test")
			}
			// scid
			if len(args) == 1 && recvField(args[0], "Scid") {
				ok, partial := c11ScidFmt(w, g)
				switch {
				case ok:
					accept(scid)
					// information: numeric conversions whose error is dropped
					nAtoi, nChecked := len(callsNamed(w, g, "func:strconv.Atoi")), 0
					for _, f := range w.Facts(g) {
						if c11StrRel(f, "==", "call:func:strconv.Atoi#1", "nil") {
							nChecked++
						}
					}
					if nChecked < nAtoi {
						c.Note("C11.R4", gname+" numeric parts", w.Pos(g.Pos()), fmt.Sprintf("%d strconv.Atoi calls, %d error results tested: non-numeric scid parts pass the format test (not an admission condition; the capacity lookup fails for such a scid)", nAtoi, nChecked))
					}
				case partial:
					scid.wrong = append(scid.wrong, gname+" looks at the number of parts of the scid but does not require exactly three")
				default:
					scid.unsure = append(scid.unsure, gname+" receives Scid but is not recognised as a three-part format test")
				}
			} else if takes(args, "Scid") {
				scid.unsure = append(scid.unsure, gname+" receives Scid but is not recognised as a format test")
			}
		}
		for _, v := range []*vg{pub, xor, scid} {
			verdict, why := c11NilCut(w, fn, v.cut, v.okCalls)
			cons := name + " " + v.id
			switch {
			case verdict == 0:
				c.OK("C11.R4", cons, pos, v.okText)
			case len(v.wrong) > 0:
				c.Bad("C11.R4", cons, pos, v.badText+": "+strings.Join(v.wrong, "; "))
			case len(v.unsure) > 0 || verdict == 2:
				c.Unknown("C11.R4", cons, pos, "cannot decide: "+strings.Join(append(v.unsure, why), "; "))
			default:
				c.Bad("C11.R4", cons, pos, v.badText+" ("+why+")")
			}
		}
	}
	c.AtLeast("C11.R4", "request Validate methods", n, 2)
}

func c11SendEvent(c *an.Check) {
	w := c.W
	fn := w.Func("swap", "(*SwapStateMachine).SendEvent")
	name := w.FuncName(fn)
	// the calls of SendEvent through which a context is applied (directly or in a helper)
	var applies []ssa.CallInstruction
	seenAp := map[ssa.CallInstruction]bool{}
	for _, st := range c11Lifted(w, fn, "iface:swap.EventContext.ApplyToSwapData") {
		if !seenAp[st.at] {
			seenAp[st.at] = true
			applies = append(applies, st.at)
		}
	}
	if !c.AtLeast("C11.R4", "places in SendEvent where a context is applied", len(applies), 1) {
		return
	}
	invV, ok := c11ConstOf(w, "swap", "Event_OnInvalid_Message")
	if !ok || invV.Kind() != constant.String {
		c.Anchor("constant swap.Event_OnInvalid_Message does not resolve")
		return
	}
	inv := constant.StringVal(invV)
	okCut := c11Cut(w, fn, func(f an.Fact) bool { return c11StrRel(f, "==", "call:iface:swap.EventContext.Validate", "nil") })
	for _, ap := range applies {
		cons := name + " validate-before-apply"
		if len(okCut) == 0 || !an.EdgesDominate(okCut, ap.Block()) {
			if o := c11XOf(w).opaque(fn, ap.Block()); len(o) > 0 {
				c.Unknown("C11.R4", cons, w.Pos(ap.Pos()), "no `Validate == nil` edge dominates ApplyToSwapData, but the verdict of "+strings.Join(o, ", ")+" is tested and cannot be interpreted")
				continue
			}
			c.Bad("C11.R4", cons, w.Pos(ap.Pos()), "an event context is applied to the swap data without a successful Validate; facts dominating the call: "+an.DescribeFacts(c11Dom(w, ap)))
			continue
		}
		// the failing edge re-enters with the invalid-message event on every path to a return
		reenter := map[*ssa.BasicBlock]bool{}
		for _, se := range callsNamed(w, fn, "func:(*swap.SwapStateMachine).SendEvent") {
			if a := se.Common().Args; len(a) == 3 {
				if ev, ok := an.ConstString(a[1]); ok && ev == inv && an.IsNilConst(a[2]) {
					reenter[se.Block()] = true
				}
			}
		}
		region := an.ReachBlocks(c11FailStarts(okCut), c11EdgeSet(okCut), reenter)
		silent := ""
		for _, ret := range an.Returns(fn) {
			if region[ret.Block()] && !reenter[ret.Block()] {
				silent += " " + w.Pos(ret.Pos())
			}
		}
		c.Decide(silent == "", "C11.R4", cons, w.Pos(ap.Pos()), "context applied only after Validate succeeded; a failed Validate injects "+inv,
			"Validate guards ApplyToSwapData, but a failed Validate can return without injecting "+inv+" (returns at"+silent+")")
	}
}

// ---- BEGIN shared expansion (identical in c11.go and c12.go up to the prefix) ----
//
// c11X extends the engine's edge facts with what is known on an edge because an
// in-module helper returned a particular verdict there:
//   * `if pred(args)` / `if !pred(args)` with pred returning one bool: the facts
//     that hold whenever pred returns that value;
//   * the nil edge of `err := check(args)`: the facts that hold whenever check
//     returns a nil error (`return other(args)` is followed).
// Callee facts are re-issued on the caller's edge with `param#i` replaced by the
// name of the i-th argument; callee parameters are bound to the argument values
// for the rules that look at values. An expansion is *complete* when every
// return of the helper could be interpreted; a tested helper call whose
// expansion is incomplete is "opaque": a guard that is not found behind an
// opaque call is undecided, not violated.

type c11X struct {
	w      *an.World
	memo   map[*ssa.Function][]an.Fact
	opq    map[*ssa.Function][]c11Opq
	alts   map[*ssa.Function][]c11Alt
	bind   map[ssa.Value]ssa.Value
	ambig  map[ssa.Value]bool
	active map[*ssa.Function]bool
}

func c11NewX(w *an.World) *c11X {
	return &c11X{w: w, memo: map[*ssa.Function][]an.Fact{}, opq: map[*ssa.Function][]c11Opq{}, alts: map[*ssa.Function][]c11Alt{}, bind: map[ssa.Value]ssa.Value{}, ambig: map[ssa.Value]bool{}, active: map[*ssa.Function]bool{}}
}

const c11Depth = 3

// resolve maps a helper parameter to the argument it was called with.
func (x *c11X) resolve(v ssa.Value) ssa.Value {
	for i := 0; i < 4; i++ {
		a, ok := x.bind[v]
		if !ok || x.ambig[v] {
			return v
		}
		v = a
	}
	return v
}

func c11Key(f an.Fact) string { return f.String() }

// facts: engine facts of fn plus the derived ones.
func (x *c11X) facts(fn *ssa.Function) []an.Fact { return x.factsD(fn, 0) }

func (x *c11X) factsD(fn *ssa.Function, depth int) []an.Fact {
	if fs, ok := x.memo[fn]; ok {
		return fs
	}
	base := x.w.Facts(fn)
	if x.active[fn] {
		return base
	}
	x.active[fn] = true
	defer delete(x.active, fn)
	out := append([]an.Fact{}, base...)
	seen := map[string]bool{}
	add := func(e an.Edge, fs []an.Fact) {
		for _, d := range fs {
			d.Edge = e
			k := fmt.Sprintf("%p/%d/%s", e.From, e.Idx, c11Key(d))
			if !seen[k] {
				seen[k] = true
				out = append(out, d)
			}
		}
	}
	for _, f := range base {
		call, idx, kind := x.verdictCall(f)
		if call == nil {
			continue
		}
		g := call.Call.StaticCallee()
		if depth >= c11Depth {
			x.opq[fn] = append(x.opq[fn], c11Opq{x.w.FuncName(g) + " (nesting too deep)", f.Edge})
			continue
		}
		var ds []an.Fact
		var sets [][]an.Fact
		complete := true
		switch kind {
		case "bool":
			ds, sets, complete = x.retFactsS(g, f.Rel == "true", depth+1)
		case "nil":
			ds, sets, complete = x.nilFactsS(g, idx, depth+1)
		}
		if len(sets) > 1 {
			a := c11Alt{edge: f.Edge, helper: x.w.FuncName(g), complete: complete}
			for _, s := range sets {
				a.sets = append(a.sets, x.subst(s, g, call))
			}
			x.alts[fn] = append(x.alts[fn], a)
		}
		if !complete {
			x.opq[fn] = append(x.opq[fn], c11Opq{x.w.FuncName(g), f.Edge})
		}
		add(f.Edge, x.subst(ds, g, call))
	}
	x.memo[fn] = out
	return out
}

// verdictCall: the fact tests the bool result / the nil-ness of the error result
// of a call to an in-module function with a body.
func (x *c11X) verdictCall(f an.Fact) (*ssa.Call, int, string) {
	inMod := func(c *ssa.Call) bool {
		g := c.Call.StaticCallee()
		return g != nil && g.Blocks != nil && x.w.InModule(g)
	}
	if f.Rel == "true" || f.Rel == "false" {
		if c, ok := f.Cond.(*ssa.Call); ok && inMod(c) {
			if r := c.Call.Signature().Results(); r.Len() == 1 && c11IsBool(r.At(0).Type()) {
				return c, 0, "bool"
			}
		}
		return nil, 0, ""
	}
	if f.NonNum && f.Rel == "==" && (f.L == "nil" || f.R == "nil") {
		for _, v := range []ssa.Value{f.LV, f.RV} {
			if v == nil {
				continue
			}
			idx := 0
			if ex, ok := v.(*ssa.Extract); ok {
				idx = ex.Index
				v = ex.Tuple
			}
			if c, ok := v.(*ssa.Call); ok && inMod(c) {
				r := c.Call.Signature().Results()
				if idx < r.Len() && an.IsErrorType(r.At(idx).Type()) {
					return c, idx, "nil"
				}
			}
		}
	}
	return nil, 0, ""
}

func c11IsBool(t types.Type) bool {
	b, ok := t.Underlying().(*types.Basic)
	return ok && b.Info()&types.IsBoolean != 0
}

func c11IsInt(t types.Type) bool {
	b, ok := t.Underlying().(*types.Basic)
	return ok && b.Info()&types.IsInteger != 0
}

// subst re-issues callee facts in the caller's vocabulary and records the
// parameter bindings.
func (x *c11X) subst(fs []an.Fact, g *ssa.Function, call *ssa.Call) []an.Fact {
	args := call.Call.Args
	names := make([]string, len(g.Params))
	for i, p := range g.Params {
		if i >= len(args) {
			continue
		}
		names[i] = x.w.Term(args[i])
		if old, ok := x.bind[p]; ok && old != args[i] {
			x.ambig[p] = true
		}
		x.bind[p] = args[i]
	}
	rep := func(s string) string {
		if !strings.Contains(s, "param#") {
			return s
		}
		var sb strings.Builder
		for i := 0; i < len(s); {
			if strings.HasPrefix(s[i:], "param#") {
				j := i + len("param#")
				n := 0
				k := j
				for k < len(s) && s[k] >= '0' && s[k] <= '9' {
					n = n*10 + int(s[k]-'0')
					k++
				}
				if k > j && n < len(names) && names[n] != "" {
					sb.WriteString(names[n])
					i = k
					continue
				}
			}
			sb.WriteByte(s[i])
			i++
		}
		return sb.String()
	}
	var out []an.Fact
	for _, f := range fs {
		d := f
		if f.Terms != nil {
			d.Terms = map[string]int64{}
			for k, c := range f.Terms {
				d.Terms[rep(k)] += c
			}
		}
		d.Atom, d.L, d.R = rep(f.Atom), rep(f.L), rep(f.R)
		if d.NonNum && (d.Rel == "==" || d.Rel == "!=") && d.L > d.R {
			d.L, d.R = d.R, d.L
		}
		out = append(out, d)
	}
	return out
}

// at: the facts of g that hold when control is in block b (having arrived over
// edge `via` when via.From != nil).
func (x *c11X) at(g *ssa.Function, b *ssa.BasicBlock, via an.Edge, depth int) []an.Fact {
	var out []an.Fact
	for _, f := range x.factsD(g, depth) {
		if via.From != nil && f.Edge == via {
			out = append(out, f)
			continue
		}
		if f.Edge.From == b {
			continue
		}
		if an.EdgeDominates(f.Edge, b) {
			out = append(out, f)
		}
	}
	return out
}

// dominating: facts (incl. derived) on every path to the instruction.
func (x *c11X) dominating(in ssa.Instruction) []an.Fact {
	return x.at(in.Parent(), in.Block(), an.Edge{}, 0)
}

// c11Alt: on `edge` one of the alternatives holds (one per way the helper can
// return the tested verdict); each alternative is a conjunction of facts.
type c11Alt struct {
	edge     an.Edge
	helper   string
	sets     [][]an.Fact
	complete bool
}

// alternatives of fn (disjunctive knowledge on verdict edges).
func (x *c11X) alternatives(fn *ssa.Function) []c11Alt {
	x.facts(fn)
	return x.alts[fn]
}

type c11Opq struct {
	name string
	edge an.Edge
}

// opaque lists the tested helper calls of fn whose verdict could not be fully
// interpreted and whose verdict edge lies on every path to one of the given
// blocks (all such calls when no block is given): only those could hide a guard
// of these blocks.
func (x *c11X) opaque(fn *ssa.Function, targets ...*ssa.BasicBlock) []string {
	x.facts(fn)
	m := map[string]bool{}
	for _, o := range x.opq[fn] {
		if len(targets) == 0 {
			m[o.name] = true
			continue
		}
		for _, b := range targets {
			if b != nil && o.edge.From != b && an.EdgeDominates(o.edge, b) {
				m[o.name] = true
			}
		}
	}
	return sortedKeys(m)
}

type c11Case struct {
	v    ssa.Value
	b    *ssa.BasicBlock // block in which the case is decided
	via  an.Edge         // incoming phi edge (From == nil: none)
	ret  *ssa.Return
	lost bool // value not determined
}

// c11Expand expands a value observed in block b into (value, place) pairs,
// looking through phis (the place is then the predecessor and the incoming edge)
// and through go/ssa's spilled locals (reaching stores).
func c11Expand(v ssa.Value, b *ssa.BasicBlock, via an.Edge, r *ssa.Return, depth int, expandSC bool, out *[]c11Case) {
	if phi, ok := v.(*ssa.Phi); ok && depth < 4 {
		if _, _, isSC := an.PhiConjuncts(phi); expandSC || !isSC || !c11IsBool(phi.Type()) {
			for i, e := range phi.Edges {
				pred := phi.Block().Preds[i]
				ve := an.Edge{}
				if len(pred.Succs) == 2 && pred.Succs[0] != pred.Succs[1] {
					if pred.Succs[0] == phi.Block() {
						ve = an.Edge{From: pred, Idx: 0}
					} else {
						ve = an.Edge{From: pred, Idx: 1}
					}
				}
				c11Expand(e, pred, ve, r, depth+1, expandSC, out)
			}
			return
		}
	}
	if u, ok := v.(*ssa.UnOp); ok && u.Op == token.MUL && depth < 4 {
		if al, ok := u.X.(*ssa.Alloc); ok {
			sts, fromEntry := an.StoresReaching(u, al)
			if fromEntry || len(sts) == 0 {
				*out = append(*out, c11Case{v: v, b: b, via: via, ret: r, lost: true})
				return
			}
			for _, st := range sts {
				c11Expand(st.Val, st.Block(), an.Edge{}, r, depth+1, expandSC, out)
			}
			return
		}
	}
	*out = append(*out, c11Case{v: v, b: b, via: via, ret: r})
}

// c11Cases expands the idx-th result of every return of g.
func c11Cases(g *ssa.Function, idx int, expandSC bool) []c11Case {
	var out []c11Case
	for _, r := range an.Returns(g) {
		if r.Block() == g.Recover || idx >= len(r.Results) {
			continue
		}
		c11Expand(r.Results[idx], r.Block(), an.Edge{}, r, 0, expandSC, &out)
	}
	return out
}

// c11ValCases expands a value used in block b.
func c11ValCases(v ssa.Value, b *ssa.BasicBlock) []c11Case {
	var out []c11Case
	c11Expand(v, b, an.Edge{}, nil, 0, true, &out)
	return out
}

func c11Intersect(sets [][]an.Fact) []an.Fact {
	if len(sets) == 0 {
		return nil
	}
	var out []an.Fact
	done := map[string]bool{}
	for _, f := range sets[0] {
		k := c11Key(f)
		if done[k] {
			continue
		}
		done[k] = true
		all := true
		for _, s := range sets[1:] {
			has := false
			for _, h := range s {
				if c11Key(h) == k {
					has = true
					break
				}
			}
			if !has {
				all = false
				break
			}
		}
		if all {
			out = append(out, f)
		}
	}
	return out
}

// retFacts: facts that hold whenever g (one bool result) returns `holds`.
func (x *c11X) retFacts(g *ssa.Function, holds bool, depth int) ([]an.Fact, bool) {
	fs, _, c := x.retFactsS(g, holds, depth)
	return fs, c
}

func (x *c11X) retFactsS(g *ssa.Function, holds bool, depth int) ([]an.Fact, [][]an.Fact, bool) {
	complete := true
	var sets [][]an.Fact
	for _, cs := range c11Cases(g, 0, false) {
		if cs.lost {
			complete = false
			sets = append(sets, nil)
			continue
		}
		if k, ok := cs.v.(*ssa.Const); ok && k.Value != nil && k.Value.Kind() == constant.Bool {
			if constant.BoolVal(k.Value) != holds {
				continue
			}
			sets = append(sets, x.at(g, cs.b, cs.via, depth))
			continue
		}
		fs, ok := x.condFacts(cs.v, holds, depth)
		if !ok {
			complete = false
		}
		sets = append(sets, append(x.at(g, cs.b, cs.via, depth), fs...))
	}
	return c11Intersect(sets), sets, complete
}

// nonNil: the error value of this case cannot be nil.
func (x *c11X) nonNil(cs c11Case) bool { return x.nonNilD(cs, 0) }

func (x *c11X) nonNilD(cs c11Case, depth int) bool {
	v := cs.v
	switch y := v.(type) {
	case *ssa.MakeInterface:
		return true
	case *ssa.UnOp:
		if _, isG := y.X.(*ssa.Global); isG && y.Op == token.MUL {
			return true // package-level error variable
		}
	case *ssa.Call:
		switch x.w.Info(y).Name {
		case "func:errors.New", "func:fmt.Errorf":
			return true
		}
	}
	// the value was tested non-nil on the way here
	var call *ssa.Call
	if ex, ok := v.(*ssa.Extract); ok {
		call, _ = ex.Tuple.(*ssa.Call)
	} else {
		call, _ = v.(*ssa.Call)
	}
	if call != nil {
		// a constructor of errors: every return of the in-module callee is non-nil
		if h := call.Call.StaticCallee(); h != nil && h.Blocks != nil && x.w.InModule(h) && depth < 2 {
			idx := 0
			if ex, ok := v.(*ssa.Extract); ok {
				idx = ex.Index
			}
			hc := c11Cases(h, idx, false)
			all := len(hc) > 0
			for _, k := range hc {
				if k.lost || an.IsNilConst(k.v) || !x.nonNilD(k, depth+1) {
					all = false
				}
			}
			if all {
				return true
			}
		}
		if _, fail := an.OkEdges(call); len(fail) > 0 {
			for _, e := range fail {
				if e == cs.via {
					return true
				}
			}
			if an.EdgesDominate(fail, cs.b) {
				return true
			}
		}
	}
	return false
}

// nilFacts: facts that hold whenever the idx-th (error) result of g is nil.
func (x *c11X) nilFacts(g *ssa.Function, idx int, depth int) ([]an.Fact, bool) {
	fs, _, c := x.nilFactsS(g, idx, depth)
	return fs, c
}

func (x *c11X) nilFactsS(g *ssa.Function, idx int, depth int) ([]an.Fact, [][]an.Fact, bool) {
	complete := true
	var sets [][]an.Fact
	for _, cs := range c11Cases(g, idx, false) {
		if cs.lost {
			complete = false
			sets = append(sets, nil)
			continue
		}
		if an.IsNilConst(cs.v) {
			sets = append(sets, x.at(g, cs.b, cs.via, depth))
			continue
		}
		if x.nonNil(cs) {
			continue
		}
		// `return other(args)`
		v := cs.v
		hidx := 0
		if ex, ok := v.(*ssa.Extract); ok {
			hidx = ex.Index
			v = ex.Tuple
		}
		if c, ok := v.(*ssa.Call); ok {
			h := c.Call.StaticCallee()
			if h != nil && h.Blocks != nil && x.w.InModule(h) && depth < c11Depth {
				hf, hc := x.nilFacts(h, hidx, depth+1)
				if !hc {
					complete = false
				}
				sets = append(sets, append(x.at(g, cs.b, cs.via, depth), x.subst(hf, h, c)...))
				continue
			}
		}
		complete = false
		sets = append(sets, x.at(g, cs.b, cs.via, depth))
	}
	return c11Intersect(sets), sets, complete
}

// condFacts: facts that hold when the boolean value v equals `holds`.
func (x *c11X) condFacts(v ssa.Value, holds bool, depth int) ([]an.Fact, bool) {
	w := x.w
	for {
		if u, ok := v.(*ssa.UnOp); ok && u.Op == token.NOT {
			holds = !holds
			v = u.X
			continue
		}
		if bo, ok := v.(*ssa.BinOp); ok && (bo.Op == token.EQL || bo.Op == token.NEQ) && c11IsBool(bo.X.Type()) {
			var other ssa.Value
			var cv *ssa.Const
			if c, ok := bo.Y.(*ssa.Const); ok {
				other, cv = bo.X, c
			} else if c, ok := bo.X.(*ssa.Const); ok {
				other, cv = bo.Y, c
			}
			if cv != nil && cv.Value != nil && cv.Value.Kind() == constant.Bool {
				if (bo.Op == token.EQL) != constant.BoolVal(cv.Value) {
					holds = !holds
				}
				v = other
				continue
			}
		}
		break
	}
	if ops, isAnd, ok := an.PhiConjuncts(v); ok {
		if isAnd != holds {
			return nil, true // a disjunction: nothing definite, but nothing lost that a single fact could say
		}
		var out []an.Fact
		complete := true
		for _, op := range ops {
			fs, c := x.condFacts(op, holds, depth)
			out = append(out, fs...)
			complete = complete && c
		}
		// the operand that decided the constant edges
		phi := v.(*ssa.Phi)
		for i, e := range phi.Edges {
			if _, isC := e.(*ssa.Const); !isC {
				continue
			}
			pred := phi.Block().Preds[i]
			if len(pred.Instrs) == 0 {
				continue
			}
			if pi, ok := pred.Instrs[len(pred.Instrs)-1].(*ssa.If); ok && len(pred.Succs) == 2 {
				if (isAnd && pred.Succs[1] == phi.Block() && pred.Succs[0] != phi.Block()) || (!isAnd && pred.Succs[0] == phi.Block() && pred.Succs[1] != phi.Block()) {
					fs, c := x.condFacts(pi.Cond, holds, depth)
					out = append(out, fs...)
					complete = complete && c
				}
			}
		}
		return out, complete
	}
	if _, isPhi := v.(*ssa.Phi); isPhi {
		return nil, false
	}
	f := an.Fact{Cond: v}
	bo, isCmp := v.(*ssa.BinOp)
	if isCmp {
		switch bo.Op {
		case token.EQL, token.NEQ, token.LSS, token.LEQ, token.GTR, token.GEQ:
		default:
			isCmp = false
		}
	}
	if !isCmp {
		f.Atom = w.Term(v)
		if holds {
			f.Rel = "true"
		} else {
			f.Rel = "false"
		}
		out := []an.Fact{f}
		complete := true
		if c, ok := v.(*ssa.Call); ok {
			f.Args = c.Call.Args
			out[0] = f
			if g := c.Call.StaticCallee(); g != nil && g.Blocks != nil && w.InModule(g) && c.Call.Signature().Results().Len() == 1 {
				if depth >= c11Depth {
					return out, false
				}
				ds, cpl := x.retFacts(g, holds, depth+1)
				out = append(out, x.subst(ds, g, c)...)
				complete = cpl
			}
		}
		return out, complete
	}
	op := bo.Op
	if !holds {
		switch op {
		case token.EQL:
			op = token.NEQ
		case token.NEQ:
			op = token.EQL
		case token.LSS:
			op = token.GEQ
		case token.LEQ:
			op = token.GTR
		case token.GTR:
			op = token.LEQ
		case token.GEQ:
			op = token.LSS
		}
	}
	f.LV, f.RV = bo.X, bo.Y
	lf := w.LinearDiff(bo.X, bo.Y)
	if lf == nil {
		f.NonNum = true
		l, r := w.Term(bo.X), w.Term(bo.Y)
		switch op {
		case token.EQL, token.NEQ:
			if l > r {
				l, r = r, l
			}
		case token.LSS:
			l, r, op = r, l, token.GTR
		case token.LEQ:
			l, r, op = r, l, token.GEQ
		}
		f.L, f.R, f.Rel = l, r, op.String()
		return []an.Fact{f}, true
	}
	f.Terms = map[string]int64{}
	for k, c := range lf.Terms {
		f.Terms[k] = c
	}
	f.Const = lf.Const
	f.Widths = append(c11ArithWidths(bo.X, 0), c11ArithWidths(bo.Y, 0)...)
	flip := false
	switch op {
	case token.LSS:
		flip, op = true, token.GTR
	case token.LEQ:
		flip, op = true, token.GEQ
	case token.EQL, token.NEQ:
		var ks []string
		for k := range f.Terms {
			ks = append(ks, k)
		}
		sort.Strings(ks)
		if len(ks) > 0 && f.Terms[ks[0]] < 0 {
			flip = true
		} else if len(ks) == 0 && f.Const < 0 {
			flip = true
		}
	}
	if flip {
		for k := range f.Terms {
			f.Terms[k] = -f.Terms[k]
		}
		f.Const = -f.Const
	}
	f.Rel = op.String()
	return []an.Fact{f}, true
}

// c11ArithWidths: bit widths of the integer additions/subtractions/multiplications under v.
func c11ArithWidths(v ssa.Value, depth int) []int {
	if depth > 8 {
		return nil
	}
	switch y := v.(type) {
	case *ssa.Convert:
		if c11IsInt(y.Type()) && c11IsInt(y.X.Type()) {
			return c11ArithWidths(y.X, depth+1)
		}
	case *ssa.ChangeType:
		return c11ArithWidths(y.X, depth+1)
	case *ssa.BinOp:
		if !c11IsInt(y.Type()) {
			return nil
		}
		switch y.Op {
		case token.ADD, token.SUB, token.MUL:
			wd := 64
			if b, ok := y.Type().Underlying().(*types.Basic); ok {
				switch b.Kind() {
				case types.Int8, types.Uint8:
					wd = 8
				case types.Int16, types.Uint16:
					wd = 16
				case types.Int32, types.Uint32:
					wd = 32
				}
			}
			return append(append(c11ArithWidths(y.X, depth+1), c11ArithWidths(y.Y, depth+1)...), wd)
		}
	}
	return nil
}

// cut: the edges of fn on which pass holds (engine and derived facts).
func (x *c11X) cut(fn *ssa.Function, pass func(an.Fact) bool) []an.Edge {
	var out []an.Edge
	seen := map[an.Edge]bool{}
	for _, f := range x.facts(fn) {
		if !seen[f.Edge] && pass(f) {
			seen[f.Edge] = true
			out = append(out, f.Edge)
		}
	}
	return out
}

// c11Site is an effect call as seen from an anchor function: `at` is the call
// instruction in the anchor (the effect itself, or the call of the in-module
// helper through which it is reached), `inner` the effect call itself.
type c11Site struct {
	at    ssa.CallInstruction
	inner ssa.CallInstruction
}

// c11Lifted lists the calls of fn through which the effect `name` is reached
// synchronously (directly or inside in-module helpers, depth <= 3).
func c11Lifted(w *an.World, fn *ssa.Function, name string) []c11Site {
	var out []c11Site
	var inner func(h *ssa.Function, depth int, seen map[*ssa.Function]bool) []ssa.CallInstruction
	inner = func(h *ssa.Function, depth int, seen map[*ssa.Function]bool) []ssa.CallInstruction {
		if seen[h] || depth > 3 {
			return nil
		}
		seen[h] = true
		var r []ssa.CallInstruction
		for _, ci := range an.Calls(h) {
			if _, isGo := ci.(*ssa.Go); isGo {
				continue
			}
			if w.Info(ci).Name == name {
				r = append(r, ci)
				continue
			}
			if g := ci.Common().StaticCallee(); g != nil && g.Blocks != nil && w.InModule(g) && w.Info(ci).Name != fxActionExecute {
				r = append(r, inner(g, depth+1, seen)...)
			}
		}
		return r
	}
	for _, ci := range an.Calls(fn) {
		if _, isGo := ci.(*ssa.Go); isGo {
			continue
		}
		if w.Info(ci).Name == name {
			out = append(out, c11Site{ci, ci})
			continue
		}
		if g := ci.Common().StaticCallee(); g != nil && g.Blocks != nil && w.InModule(g) {
			for _, in := range inner(g, 1, map[*ssa.Function]bool{fn: true}) {
				out = append(out, c11Site{ci, in})
			}
		}
	}
	return out
}

// ---- END shared expansion ----

var c11Xs = map[*an.World]*c11X{}
var c11Xmu sync.Mutex

func c11XOf(w *an.World) *c11X {
	c11Xmu.Lock()
	defer c11Xmu.Unlock()
	x := c11Xs[w]
	if x == nil {
		x = c11NewX(w)
		c11Xs[w] = x
	}
	return x
}
