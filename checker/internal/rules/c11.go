package rules

import (
	"fmt"
	"go/constant"
	"go/token"
	"go/types"
	"sort"
	"strings"

	"golang.org/x/tools/go/ssa"

	"psv/internal/an"
)

func init() {
	Register(&Prop{
		ID: "C11",
		Expl: "Decides, for the two responder state tables (found by effect: the states whose action chain allocates a Swap{In,Out}AgreementMessage) and the two request handlers (found by the constant event they inject), structural necessary conditions of 'an agreement is sent only if every policy condition holds'. " +
			"R1: for every responder state and each of the nine admission conditions (swaps enabled; lbtc chain => liquidEnabled; btc chain => bitcoinEnabled; protocol version == PEERSWAP_PROTOCOL_VERSION == 7; amount*1000 >= Policy.GetMinSwapAmountMsat; asset empty or == Wallet.GetAsset; network empty or == Wallet.GetNetwork; Policy.IsPeerAllowed(peer); !Policy.IsPeerSuspicious(peer)) some action of the chain in front of the agreement construction is such that removing the CFG edges on which the condition is known to hold (a disjunctive edge cut, operands named by their source) disconnects every delegation `next.Execute` (resp. every agreement allocation) from the entry, and every return reachable from the other edge of those tests without such an edge returns only Event_ActionFailed. " +
			"R2: in the table, the success target of the responder state is a message-sending state that becomes unreachable from the default state when that success edge is removed; the failure target and the target of Event_Invalid_Message from the default state run an action that marshals a CancelMessage and sends it. " +
			"R3: in each request handler the calls of lockSwap and SendEvent are cut off by premium<=PremiumLimit (premium = premium.Setting.Compute for the handler's peer parameter and the request amount, with the same operation constant as the responder action uses), by channel capacity (SpendableMsat for the paying responder, ReceivableMsat for the receiving responder, scid and amount of the same request, 64-bit *1000) and, for the paying responder, by the success result of ProbePayment; on the failing edge of each of these guards every path to a return sends a marshalled CancelMessage to the peer. " +
			"R4: the nil return of Validate of both request types is cut off by the success edges of the pubkey hex-length-33 test, the asset-xor-network test and the scid test (helpers are inspected: decode ok and len == expected; both xor halves; three scid parts); SendEvent calls ApplyToSwapData only on the Validate==nil edge and the other edge re-enters with the invalid-message event. " +
			"R5: in the funding (maker) responder the agreement allocation is cut off by balance >= amount + opening fee. " +
			"Quantification is over all CFG paths of the named functions and all edges of the tables, i.e. over all request field values and policy answers.",
		NotD: "Overflow of amount*1000 and amount+fee for amounts >= 2^64/1000; truncating integer conversions inside guard operands (the engine strips them); that repeated getter calls return the same value; which wallet instance asset/network are compared with; changes of policy or premium rate between the handler's check and the action; the discarded Atoi errors inside validateScid (noted, not part of the admission conditions); error returns of premium.Setting.Compute in the handlers, which return without a cancel message (noted: an I/O fault, not a policy decision).",
		Run:  runC11,
	})
}

// ---- small matchers (facts are identified by the source of their operands) ----

type c11Term struct {
	alts []string // substrings, any of which identifies the term
	coef int64
}

// c11LinGE reports whether f is a linear fact over exactly the given terms
// (coefficients as given) that implies  Σ coef·term >= 0.
func c11LinGE(f an.Fact, spec []c11Term) bool {
	if f.NonNum || f.Terms == nil || len(f.Terms) != len(spec) {
		return false
	}
	used := map[string]bool{}
	for _, st := range spec {
		hit := ""
		for k, co := range f.Terms {
			if used[k] || co != st.coef {
				continue
			}
			for _, a := range st.alts {
				if strings.Contains(k, a) {
					hit = k
				}
			}
			if hit != "" {
				break
			}
		}
		if hit == "" {
			return false
		}
		used[hit] = true
	}
	switch f.Rel {
	case ">=":
		return f.Const <= 0
	case ">":
		return f.Const <= 1
	case "==":
		return f.Const <= 0
	}
	return false
}

func c11Widths64(f an.Fact) bool {
	for _, x := range f.Widths {
		if x < 64 {
			return false
		}
	}
	return true
}

// c11AtomOf normalises a boolean fact (also the unidiomatic `x == true` forms)
// to (value tested, truth on this edge).
func c11AtomOf(f an.Fact) (ssa.Value, bool, bool) {
	if f.Rel == "true" || f.Rel == "false" {
		return f.Cond, f.Rel == "true", f.Cond != nil
	}
	if f.NonNum && (f.Rel == "==" || f.Rel == "!=") && f.LV != nil && f.RV != nil {
		for _, p := range [][2]ssa.Value{{f.LV, f.RV}, {f.RV, f.LV}} {
			k, ok := p[1].(*ssa.Const)
			if !ok || k.Value == nil || k.Value.Kind() != constant.Bool {
				continue
			}
			return p[0], constant.BoolVal(k.Value) == (f.Rel == "=="), true
		}
	}
	return nil, false, false
}

func c11Atom(w *an.World, f an.Fact, atom string, truth bool) bool {
	v, tr, ok := c11AtomOf(f)
	return ok && tr == truth && w.Term(v) == atom
}

func c11StrRel(f an.Fact, rel, a, b string) bool {
	if !f.NonNum || f.Rel != rel {
		return false
	}
	return (f.L == a && f.R == b) || (f.L == b && f.R == a)
}

// c11Cut lists the edges of fn on which pass holds.
func c11Cut(w *an.World, fn *ssa.Function, pass func(an.Fact) bool) []an.Edge {
	var out []an.Edge
	for _, f := range w.Facts(fn) {
		if pass(f) {
			out = append(out, f.Edge)
		}
	}
	return out
}

func c11EdgeSet(es []an.Edge) map[an.Edge]bool {
	m := map[an.Edge]bool{}
	for _, e := range es {
		m[e] = true
	}
	return m
}

func c11ConstOf(w *an.World, rel, name string) (constant.Value, bool) {
	p := w.ByRel[rel]
	if p == nil || p.Types == nil {
		return nil, false
	}
	c, ok := p.Types.Scope().Lookup(name).(*types.Const)
	if !ok {
		return nil, false
	}
	return c.Val(), true
}

func c11StripIface(v ssa.Value) ssa.Value {
	for {
		switch x := v.(type) {
		case *ssa.MakeInterface:
			v = x.X
		case *ssa.ChangeInterface:
			v = x.X
		case *ssa.ChangeType:
			v = x.X
		default:
			return v
		}
	}
}

// c11MulK decomposes v = base * k (k constant); conversions between integers are skipped.
func c11MulK(v ssa.Value) (ssa.Value, int64, bool) {
	for {
		if cv, ok := v.(*ssa.Convert); ok {
			v = cv.X
			continue
		}
		break
	}
	b, ok := v.(*ssa.BinOp)
	if !ok || b.Op != token.MUL {
		return nil, 0, false
	}
	if k, ok := an.ConstInt(b.Y); ok {
		return b.X, k, true
	}
	if k, ok := an.ConstInt(b.X); ok {
		return b.Y, k, true
	}
	return nil, 0, false
}

// c11CallOf returns the call whose result (possibly an extracted component) v is.
func c11CallOf(v ssa.Value) *ssa.Call {
	for {
		switch x := v.(type) {
		case *ssa.Extract:
			v = x.Tuple
		case *ssa.Convert:
			v = x.X
		case *ssa.ChangeType:
			v = x.X
		case *ssa.Call:
			return x
		default:
			return nil
		}
	}
}

// c11CallsBehind lists the calls whose results may be v (through phis).
func c11CallsBehind(v ssa.Value) []*ssa.Call {
	var out []*ssa.Call
	seen := map[ssa.Value]bool{}
	var rec func(v ssa.Value)
	rec = func(v ssa.Value) {
		if seen[v] {
			return
		}
		seen[v] = true
		if p, ok := v.(*ssa.Phi); ok {
			for _, e := range p.Edges {
				rec(e)
			}
			return
		}
		out = append(out, c11CallOf(v)) // nil for a value that is not a call result
	}
	rec(v)
	return out
}

// c11Body skips the synthetic pointer-receiver wrapper of a value-receiver
// method: the returned function is the one with the source body.
func c11Body(w *an.World, fn *ssa.Function) *ssa.Function {
	for i := 0; i < 3 && fn != nil && fn.Synthetic != ""; i++ {
		var next *ssa.Function
		n := 0
		for _, ci := range an.Calls(fn) {
			if g := w.Info(ci).Static; g != nil && g.Name() == fn.Name() {
				next = g
				n++
			}
		}
		if n != 1 {
			break
		}
		fn = next
	}
	return fn
}

// c11AllocsOf lists the heap/local allocations of *T (T named `name` in package swap) in fn.
func c11AllocsOf(w *an.World, fn *ssa.Function, names ...string) []*ssa.Alloc {
	var out []*ssa.Alloc
	for _, b := range fn.Blocks {
		for _, in := range b.Instrs {
			al, ok := in.(*ssa.Alloc)
			if !ok {
				continue
			}
			n := an.NamedOf(al.Type())
			if n == nil || n.Obj().Pkg() == nil {
				continue
			}
			if r, ok := w.Rel(n.Obj().Pkg().Path()); !ok || r != "swap" {
				continue
			}
			for _, want := range names {
				if n.Obj().Name() == want {
					out = append(out, al)
				}
			}
		}
	}
	return out
}

// c11Marshals: fn passes a *swap.<name> to MarshalPeerswapMessage.
func c11Marshals(w *an.World, fn *ssa.Function, name string) []*ssa.Call {
	var out []*ssa.Call
	for _, ci := range callsNamed(w, fn, "func:swap.MarshalPeerswapMessage") {
		c, ok := ci.(*ssa.Call)
		if !ok || len(c.Call.Args) != 1 {
			continue
		}
		n := an.NamedOf(c11StripIface(c.Call.Args[0]).Type())
		if n != nil && n.Obj().Name() == name {
			out = append(out, c)
		}
	}
	return out
}

// c11CancelSends lists the SendMessage calls of fn whose payload is a marshalled CancelMessage.
func c11CancelSends(w *an.World, fn *ssa.Function) []ssa.CallInstruction {
	ms := map[*ssa.Call]bool{}
	for _, m := range c11Marshals(w, fn, "CancelMessage") {
		ms[m] = true
	}
	var out []ssa.CallInstruction
	for _, ci := range callsNamed(w, fn, fxSendMessage) {
		args := ci.Common().Args
		if len(args) != 3 {
			continue
		}
		if m := c11CallOf(args[1]); m != nil && ms[m] {
			out = append(out, ci)
		}
	}
	return out
}

type c11Resp struct {
	t      *TI
	state  string
	chain  []*ssa.Function // Execute functions, outermost first, up to the constructing one
	allocs []*ssa.Alloc    // agreement allocations in the last function of chain
	msg    string
	maker  bool
}

type c11Guard struct {
	rule, id, what string
	makerOnly      bool
	pass           func(f an.Fact) bool
}

func runC11(c *an.Check) {
	c.Rule("C11.R1", "every admission condition cuts every delegation / agreement construction of the responder action chain off from the entry; the unguarded side returns only Event_ActionFailed")
	c.Rule("C11.R2", "agreement-sending state is reachable only through the success edge of the checked state; failure and invalid-message edges lead to the cancel-sending action")
	c.Rule("C11.R3", "request handlers: lockSwap/SendEvent are cut off by premium<=limit, channel capacity and (paying side) probe success; the failing edges send a CancelMessage")
	c.Rule("C11.R4", "request Validate: nil return cut off by pubkey-length, asset-xor-network and scid tests; SendEvent applies a context only after Validate succeeded, else injects the invalid-message event")
	c.Rule("C11.R5", "funding responder: agreement construction is cut off by balance >= amount + opening fee")
	c.Rule("C11.R6", "the production implementation of swap.Policy answers from the configured fields: AllowNewSwaps, MinSwapAmountMsat, AcceptAllPeers or membership in PeerAllowlist, membership in SuspiciousPeerList")
	if !needEffects(c, fxPay, fxOpenTx, fxSendMessage, fxActionExecute,
		"iface:swap.Policy.NewSwapsAllowed", "iface:swap.Policy.GetMinSwapAmountMsat", "iface:swap.Policy.IsPeerAllowed", "iface:swap.Policy.IsPeerSuspicious",
		"iface:swap.Wallet.GetAsset", "iface:swap.Wallet.GetNetwork", "iface:swap.Wallet.GetOnchainBalance", "iface:swap.Wallet.GetFlatOpeningTXFee",
		"iface:swap.LightningClient.SpendableMsat", "iface:swap.LightningClient.ReceivableMsat", "iface:swap.LightningClient.ProbePayment",
		"iface:swap.EventContext.Validate", "iface:swap.EventContext.ApplyToSwapData") {
		return
	}
	w := c.W
	ts := tables(c)
	if ts == nil {
		return
	}
	// anchors
	inAgr, outAgr := w.Named("swap", "SwapInAgreementMessage"), w.Named("swap", "SwapOutAgreementMessage")
	inReq, outReq := w.Named("swap", "SwapInRequestMessage"), w.Named("swap", "SwapOutRequestMessage")
	cancelT := w.Named("swap", "CancelMessage")
	if inAgr == nil || outAgr == nil || inReq == nil || outReq == nil || cancelT == nil {
		c.Anchor("message types SwapIn/OutAgreementMessage, SwapIn/OutRequestMessage, CancelMessage do not all resolve")
		return
	}
	for _, fn := range []string{"(*SwapData).GetChain", "(*SwapData).GetAmount", "(*SwapData).GetAsset", "(*SwapData).GetNetwork", "(*SwapData).GetProtocolVersion", "MarshalPeerswapMessage", "(*SwapStateMachine).SendEvent", "(*SwapService).lockSwap"} {
		if w.Func("swap", fn) == nil {
			c.Anchor("swap.%s does not resolve", fn)
			return
		}
	}
	if w.Func("premium", "(*Setting).Compute") == nil {
		c.Anchor("premium.(*Setting).Compute does not resolve")
		return
	}
	lbtcV, ok1 := c11ConstOf(w, "swap", "l_btc_chain")
	btcV, ok2 := c11ConstOf(w, "swap", "btc_chain")
	verV, ok3 := c11ConstOf(w, "swap", "PEERSWAP_PROTOCOL_VERSION")
	if !ok1 || !ok2 || !ok3 || lbtcV.Kind() != constant.String || btcV.Kind() != constant.String {
		c.Anchor("constants swap.l_btc_chain / btc_chain / PEERSWAP_PROTOCOL_VERSION do not resolve")
		return
	}
	lbtc, btc := lbtcV.ExactString(), btcV.ExactString() // quoted, as in fact terms
	ver, _ := constant.Int64Val(constant.ToInt(verV))
	c.Decide(ver == 7, "C11.R1", "PEERSWAP_PROTOCOL_VERSION", "-", "the version every request is compared with is 7", fmt.Sprintf("the protocol version constant is %d, not 7", ver))
	for _, fld := range []string{"SwapServices.liquidEnabled", "SwapServices.bitcoinEnabled"} {
		if len(w.FieldReaders(fld)) == 0 {
			c.Anchor("field %s is never read", fld)
			return
		}
	}

	const (
		tChain   = "call:func:(*swap.SwapData).GetChain"
		tAsset   = "call:func:(*swap.SwapData).GetAsset"
		tNetwork = "call:func:(*swap.SwapData).GetNetwork"
	)
	peerArg := func(f an.Fact) bool {
		v, _, ok := c11AtomOf(f)
		cl, isCall := v.(*ssa.Call)
		if !ok || !isCall || len(cl.Call.Args) != 1 {
			return false
		}
		t := w.Term(cl.Call.Args[0])
		// a responder's swap data is created with PeerNodeId == InitiatorNodeId == the requester
		return t == "field:SwapData.PeerNodeId" || t == "field:SwapData.InitiatorNodeId"
	}
	amountAlts := []string{"(*swap.SwapData).GetAmount", "RequestMessage.Amount"}
	guards := []c11Guard{
		{rule: "C11.R1", id: "swaps-enabled", what: "Policy.NewSwapsAllowed() is true",
			pass: func(f an.Fact) bool { return c11Atom(w, f, "call:iface:swap.Policy.NewSwapsAllowed", true) }},
		{rule: "C11.R1", id: "liquid-enabled", what: "chain != lbtc or SwapServices.liquidEnabled",
			pass: func(f an.Fact) bool {
				return c11StrRel(f, "!=", lbtc, tChain) || c11Atom(w, f, "field:SwapServices.liquidEnabled", true)
			}},
		{rule: "C11.R1", id: "bitcoin-enabled", what: "chain != btc or SwapServices.bitcoinEnabled",
			pass: func(f an.Fact) bool {
				return c11StrRel(f, "!=", btc, tChain) || c11Atom(w, f, "field:SwapServices.bitcoinEnabled", true)
			}},
		{rule: "C11.R1", id: "protocol-version", what: "GetProtocolVersion() == PEERSWAP_PROTOCOL_VERSION",
			pass: func(f an.Fact) bool {
				return an.MatchLin(f, an.LinSpec{Rel: "==", Terms: map[string]int64{"call:func:(*swap.SwapData).GetProtocolVersion": 1}, Const: -ver})
			}},
		{rule: "C11.R1", id: "min-amount", what: "amount*1000 >= Policy.GetMinSwapAmountMsat() (64 bit)",
			pass: func(f an.Fact) bool {
				return c11Widths64(f) && c11LinGE(f, []c11Term{{amountAlts, 1000}, {[]string{"call:iface:swap.Policy.GetMinSwapAmountMsat"}, -1}})
			}},
		{rule: "C11.R1", id: "asset", what: "asset empty or == Wallet.GetAsset()",
			pass: func(f an.Fact) bool {
				return c11StrRel(f, "==", `""`, tAsset) || c11StrRel(f, "==", tAsset, "call:iface:swap.Wallet.GetAsset")
			}},
		{rule: "C11.R1", id: "network", what: "network empty or == Wallet.GetNetwork()",
			pass: func(f an.Fact) bool {
				return c11StrRel(f, "==", `""`, tNetwork) || c11StrRel(f, "==", tNetwork, "call:iface:swap.Wallet.GetNetwork")
			}},
		{rule: "C11.R1", id: "peer-allowed", what: "Policy.IsPeerAllowed(requester) is true",
			pass: func(f an.Fact) bool { return c11Atom(w, f, "call:iface:swap.Policy.IsPeerAllowed", true) && peerArg(f) }},
		{rule: "C11.R1", id: "peer-not-suspicious", what: "Policy.IsPeerSuspicious(requester) is false",
			pass: func(f an.Fact) bool {
				return c11Atom(w, f, "call:iface:swap.Policy.IsPeerSuspicious", false) && peerArg(f)
			}},
		{rule: "C11.R5", id: "onchain-balance", what: "Wallet.GetOnchainBalance() >= amount + Wallet.GetFlatOpeningTXFee() (64 bit)", makerOnly: true,
			pass: func(f an.Fact) bool {
				return c11Widths64(f) && c11LinGE(f, []c11Term{
					{[]string{"call:iface:swap.Wallet.GetOnchainBalance#0"}, 1},
					{amountAlts, -1},
					{[]string{"call:iface:swap.Wallet.GetFlatOpeningTXFee#0"}, -1}})
			}},
	}

	// ---- responder states, found by effect -------------------------------------------------
	var resp []*c11Resp
	for _, t := range ts {
		for _, s := range t.T.Order {
			var bodies []*ssa.Function
			for _, fn := range t.Sum[s].Execs {
				bodies = append(bodies, c11Body(w, fn))
			}
			for i, fn := range bodies {
				al := c11AllocsOf(w, fn, inAgr.Obj().Name(), outAgr.Obj().Name())
				if len(al) == 0 {
					continue
				}
				r := &c11Resp{t: t, state: s, chain: bodies[:i+1], allocs: al, msg: an.NamedOf(al[0].Type()).Obj().Name(), maker: len(t.statesWith(fxOpenTx)) > 0}
				resp = append(resp, r)
				break
			}
		}
	}
	if !c.AtLeast("C11", "responder states (action chain allocates an agreement message)", len(resp), 2) {
		return
	}
	respTables := map[*TI]bool{}
	for _, r := range resp {
		respTables[r.t] = true
	}
	c.AtLeast("C11", "responder tables", len(respTables), 2)

	// ---- R1 / R5 ----------------------------------------------------------------------------
	nR1, nR5 := 0, 0
	for _, r := range resp {
		for _, g := range guards {
			if g.makerOnly && !r.maker {
				continue
			}
			if g.rule == "C11.R1" {
				nR1++
			} else {
				nR5++
			}
			cons := r.t.key(r.state) + " guard " + g.id
			pos := r.t.pos(c, r.state)
			established := false
			var why []string
			for i, fn := range r.chain {
				var targets []ssa.Instruction
				if i == len(r.chain)-1 {
					for _, a := range r.allocs {
						targets = append(targets, a)
					}
				} else {
					for _, d := range callsNamed(w, fn, fxActionExecute) {
						targets = append(targets, d)
					}
				}
				if len(targets) == 0 {
					continue
				}
				cut := c11Cut(w, fn, g.pass)
				if len(cut) == 0 {
					continue
				}
				all := true
				for _, tg := range targets {
					if !an.EdgesDominate(cut, tg.Block()) {
						all = false
						why = append(why, fmt.Sprintf("%s: %s is reachable without the condition (facts that do dominate it: %s)", w.FuncName(fn), w.Pos(tg.Pos()), an.DescribeFacts(w.FactsDominating(tg))))
					}
				}
				if !all {
					continue
				}
				evs := returnEventsFrom(w, fn, an.ReachBlocks(c11FailStarts(cut), c11EdgeSet(cut), nil))
				bad := ""
				for ev, rets := range evs {
					if ev != evFailed {
						bad += fmt.Sprintf(" %s@%s", ev, w.Pos(rets[0].Pos()))
					}
				}
				if bad != "" {
					why = append(why, fmt.Sprintf("%s: the condition dominates, but a path on which it does not hold returns%s instead of %s", w.FuncName(fn), bad, evFailed))
					continue
				}
				established = true
				pos = w.Pos(targets[0].Pos())
				break
			}
			if established {
				c.OK(g.rule, cons, pos, "established in front of the agreement construction: "+g.what)
				continue
			}
			if len(why) == 0 {
				var names []string
				for _, fn := range r.chain {
					names = append(names, w.FuncName(fn))
				}
				d := "no test of this condition in " + strings.Join(names, ", ")
				if ds := callsNamed(w, r.chain[0], fxActionExecute); len(ds) > 0 {
					d += "; facts that dominate the first delegation: " + an.DescribeFacts(w.FactsDominating(ds[0]))
				}
				why = append(why, d)
			}
			c.Bad(g.rule, cons, pos, fmt.Sprintf("an agreement (%s) can be constructed although the condition `%s` does not hold: %s", r.msg, g.what, strings.Join(why, " | ")))
		}
	}
	c.AtLeast("C11.R1", "state x condition instances", nR1, 18)
	c.AtLeast("C11.R5", "funding responder states", nR5, 1)

	// ---- R2 -----------------------------------------------------------------------------------
	isCancelState := func(t *TI, s string) bool {
		for _, fn := range t.Sum[s].Execs {
			if len(c11CancelSends(w, c11Body(w, fn))) > 0 {
				return true
			}
		}
		return false
	}
	for _, r := range resp {
		t, e := r.t, r.t.T.States[r.state]
		succ, okS := e.Events[evSucceeded]
		fail, okF := e.Events[evFailed]
		if !okS || !okF {
			c.Bad("C11.R2", t.key(r.state)+" edges", t.pos(c, r.state), "the responder state lacks a success or a failure edge")
			continue
		}
		// success edge: without it the sending state must be unreachable from the default state
		seen := map[string]bool{"": true}
		work := []string{""}
		var via []string
		for len(work) > 0 {
			x := work[len(work)-1]
			work = work[:len(work)-1]
			xe := t.T.States[x]
			if xe == nil {
				continue
			}
			for _, ev := range xe.SortedEvents() {
				if x == r.state && ev == evSucceeded {
					continue
				}
				nx := xe.Events[ev]
				if nx == succ {
					via = append(via, t.edgeKey(x, ev))
				}
				if !seen[nx] {
					seen[nx] = true
					work = append(work, nx)
				}
			}
		}
		switch {
		case !t.Sum[succ].HasEffect(fxSendMessage):
			c.Bad("C11.R2", t.edgeKey(r.state, evSucceeded), w.Pos(e.EventPos[evSucceeded]), "the success target of the checked state does not send the prepared message")
		case seen[succ]:
			c.Bad("C11.R2", t.edgeKey(r.state, evSucceeded), w.Pos(e.EventPos[evSucceeded]), "the agreement-sending state can be entered without the request checks having succeeded: "+strings.Join(via, " ; "))
		default:
			c.OK("C11.R2", t.edgeKey(r.state, evSucceeded), w.Pos(e.EventPos[evSucceeded]), "agreement-sending state is reachable from the default state only through the success edge of the checked state")
		}
		c.Decide(isCancelState(t, fail), "C11.R2", t.edgeKey(r.state, evFailed), w.Pos(e.EventPos[evFailed]),
			"failure target marshals and sends a CancelMessage", "the failure target of the checked state does not send a CancelMessage (actions "+strings.Join(t.T.States[fail].ActionNames(), ",")+")")
		// invalid message from the default state
		d := t.T.States[""]
		if d == nil {
			c.Bad("C11.R2", t.key("")+" --"+evInvalidMessage, t.pos(c, ""), "table has no default state")
			continue
		}
		inv, okI := d.Events[evInvalidMessage]
		if !okI {
			c.Bad("C11.R2", t.key("")+" --"+evInvalidMessage, t.pos(c, ""), "the default state does not accept the invalid-message event: an invalid request is rejected without a cancel message")
			continue
		}
		c.Decide(isCancelState(t, inv), "C11.R2", t.edgeKey("", evInvalidMessage), w.Pos(d.EventPos[evInvalidMessage]),
			"an invalid request leads to the cancel-sending action", "the invalid-message edge of the default state does not lead to the cancel-sending action")
	}

	// ---- R3 -----------------------------------------------------------------------------------
	c11Handlers(c, resp, inReq, outReq)

	// ---- R4 -----------------------------------------------------------------------------------
	c11Validate(c, []*types.Named{inReq, outReq})
	c11SendEvent(c)

	// ---- R6 -----------------------------------------------------------------------------------
	c11PolicyImpl(c)
}

// ---- R6: the policy implementation ---------------------------------------------------------

// c11Returned lists, per return of fn, the value returned as result 0 (looking
// through the result variable that a deferred call forces into memory).
func c11Returned(fn *ssa.Function) (vals []ssa.Value, at []*ssa.Return, unknown bool) {
	for _, r := range an.Returns(fn) {
		if r.Block() == fn.Recover || len(r.Results) == 0 {
			continue
		}
		v := r.Results[0]
		if u, ok := v.(*ssa.UnOp); ok && u.Op == token.MUL {
			if al, ok := u.X.(*ssa.Alloc); ok {
				var last ssa.Value
				for _, in := range r.Block().Instrs {
					if st, ok := in.(*ssa.Store); ok && st.Addr == al {
						last = st.Val
					}
				}
				if last == nil {
					unknown = true
					continue
				}
				v = last
			}
		}
		vals = append(vals, v)
		at = append(at, r)
	}
	return
}

func c11PolicyImpl(c *an.Check) {
	w := c.W
	pi := w.Named("swap", "Policy")
	if pi == nil {
		c.Anchor("swap.Policy does not resolve")
		return
	}
	iface, ok := pi.Underlying().(*types.Interface)
	if !ok {
		c.Anchor("swap.Policy is not an interface")
		return
	}
	var impls []*types.Named
	var rels []string
	for rel := range w.ByRel {
		rels = append(rels, rel)
	}
	sort.Strings(rels)
	for _, rel := range rels {
		p := w.ByRel[rel]
		if an.IsTestSupport(rel) || p.Types == nil {
			continue
		}
		for _, n := range p.Types.Scope().Names() {
			tn, ok := p.Types.Scope().Lookup(n).(*types.TypeName)
			if !ok || tn.IsAlias() {
				continue
			}
			nt, ok := tn.Type().(*types.Named)
			if !ok || nt.TypeParams().Len() > 0 {
				continue
			}
			if _, isI := nt.Underlying().(*types.Interface); isI {
				continue
			}
			if types.Implements(types.NewPointer(nt), iface) {
				impls = append(impls, nt)
			}
		}
	}
	if !c.AtLeast("C11.R6", "production implementations of swap.Policy", len(impls), 1) {
		return
	}
	for _, nt := range impls {
		tn := nt.Obj().Name()
		member := func(v ssa.Value, list string) (isContains bool, right bool) {
			cl, ok := v.(*ssa.Call)
			if !ok || !strings.HasPrefix(w.Info(cl).Name, "func:slices.Contains[") || len(cl.Call.Args) != 2 {
				return false, false
			}
			return true, w.Term(cl.Call.Args[0]) == "field:"+tn+"."+list && w.Term(cl.Call.Args[1]) == "param#1"
		}
		type spec struct {
			meth  string
			check func(fn *ssa.Function, v ssa.Value, r *ssa.Return) (verdict int, why string) // 0 ok, 1 bad, 2 unknown
		}
		fieldOnly := func(field string) func(fn *ssa.Function, v ssa.Value, r *ssa.Return) (int, string) {
			return func(fn *ssa.Function, v ssa.Value, r *ssa.Return) (int, string) {
				if t := w.Term(v); t != "field:"+tn+"."+field {
					return 1, "returns " + t + " instead of the configured field " + field
				}
				return 0, ""
			}
		}
		specs := []spec{
			{"NewSwapsAllowed", fieldOnly("AllowNewSwaps")},
			{"GetMinSwapAmountMsat", fieldOnly("MinSwapAmountMsat")},
			{"IsPeerSuspicious", func(fn *ssa.Function, v ssa.Value, r *ssa.Return) (int, string) {
				if isC, right := member(v, "SuspiciousPeerList"); isC {
					if right {
						return 0, ""
					}
					return 1, "membership is tested on " + w.Term(v.(*ssa.Call).Call.Args[0]) + " / " + w.Term(v.(*ssa.Call).Call.Args[1]) + ", not on (SuspiciousPeerList, peer)"
				}
				if _, isK := v.(*ssa.Const); isK {
					return 1, "returns the constant " + w.Term(v)
				}
				if u, isU := v.(*ssa.UnOp); isU && u.Op == token.NOT {
					if isC, _ := member(u.X, "SuspiciousPeerList"); isC {
						return 1, "returns the negation of a membership test: " + w.Term(v)
					}
				}
				return 2, "unsupported shape of the returned value: " + w.Term(v)
			}},
			{"IsPeerAllowed", func(fn *ssa.Function, v ssa.Value, r *ssa.Return) (int, string) {
				if isC, right := member(v, "PeerAllowlist"); isC {
					if right {
						return 0, ""
					}
					return 1, "membership is tested on " + w.Term(v.(*ssa.Call).Call.Args[0]) + " / " + w.Term(v.(*ssa.Call).Call.Args[1]) + ", not on (PeerAllowlist, peer)"
				}
				if u, isU := v.(*ssa.UnOp); isU && u.Op == token.NOT {
					if isC, _ := member(u.X, "PeerAllowlist"); isC {
						return 1, "returns the negation of a membership test: " + w.Term(v)
					}
				}
				if k, isK := v.(*ssa.Const); isK {
					if k.Value != nil && k.Value.Kind() == constant.Bool && !constant.BoolVal(k.Value) {
						return 0, "" // refusing is always allowed
					}
					all := c11Cut(w, fn, func(f an.Fact) bool { return c11Atom(w, f, "field:"+tn+".AcceptAllPeers", true) })
					if len(all) > 0 && an.EdgesDominate(all, r.Block()) {
						return 0, ""
					}
					return 1, "returns true on a path on which AcceptAllPeers is not known to be set"
				}
				return 2, "unsupported shape of the returned value: " + w.Term(v)
			}},
		}
		for _, sp := range specs {
			fn := c11Body(w, w.Method(nt, sp.meth))
			cons := "(" + tn + ")." + sp.meth
			if fn == nil || fn.Blocks == nil {
				c.Anchor("method %s does not resolve", cons)
				continue
			}
			vals, rets, unk := c11Returned(fn)
			verdict, why := 0, ""
			if unk || len(vals) == 0 {
				verdict, why = 2, "cannot determine the returned values"
			}
			for i, v := range vals {
				vd, wy := sp.check(fn, v, rets[i])
				if vd == 1 && verdict != 1 || vd == 2 && verdict == 0 {
					verdict, why = vd, wy+" ("+w.Pos(rets[i].Pos())+")"
				}
			}
			switch verdict {
			case 0:
				c.OK("C11.R6", cons, w.Pos(fn.Pos()), "answers from the configured policy fields")
			case 1:
				c.Bad("C11.R6", cons, w.Pos(fn.Pos()), why)
			default:
				c.Unknown("C11.R6", cons, w.Pos(fn.Pos()), why)
			}
		}
	}
}

// ---- R3: request handlers ------------------------------------------------------------------

// c11Ops lists the (asset<<8 | operation) constant pairs of the premium.Setting.Compute calls of fn.
func c11Ops(w *an.World, fn *ssa.Function) (ops map[int64]bool) {
	ops = map[int64]bool{}
	for _, ci := range callsNamed(w, fn, "func:(*premium.Setting).Compute") {
		cl, ok := ci.(*ssa.Call)
		if !ok || len(cl.Call.Args) != 5 {
			continue
		}
		a, okA := an.ConstInt(cl.Call.Args[2])
		o, okO := an.ConstInt(cl.Call.Args[3])
		if okA && okO {
			ops[a<<8|o] = true
		} else {
			ops[-1] = true
		}
	}
	return
}

func c11OpNames(m map[int64]bool) string {
	var out []string
	for _, k := range c11SortedInts(m) {
		if k < 0 {
			out = append(out, "non-constant")
		} else {
			out = append(out, fmt.Sprintf("(asset %d, operation %d)", k>>8, k&255))
		}
	}
	return strings.Join(out, " ")
}

func c11Handlers(c *an.Check, resp []*c11Resp, inReq, outReq *types.Named) {
	w := c.W
	nH := 0
	for _, r := range resp {
		// events that start the responder state from the default state
		d := r.t.T.States[""]
		if d == nil {
			continue
		}
		start := map[string]bool{}
		for ev, tgt := range d.Events {
			if tgt == r.state {
				start[ev] = true
			}
		}
		actOps := c11Ops(w, r.chain[len(r.chain)-1])
		for _, fn := range prodFuncs(w) {
			if w.FnRel(fn) != "swap" {
				continue
			}
			for _, se := range callsNamed(w, fn, "func:(*swap.SwapStateMachine).SendEvent") {
				args := se.Common().Args
				if len(args) != 3 {
					continue
				}
				ev, ok := an.ConstString(args[1])
				if !ok || !start[ev] {
					continue
				}
				nH++
				c11Handler(c, r, fn, se, actOps)
			}
		}
	}
	c.AtLeast("C11.R3", "request handlers (SendEvent of a responder start event)", nH, 2)
}

func c11Handler(c *an.Check, r *c11Resp, fn *ssa.Function, se ssa.CallInstruction, actOps map[int64]bool) {
	w := c.W
	name := w.FuncName(fn)
	msg, _ := c11StripIface(se.Common().Args[2]).(*ssa.Parameter)
	if msg == nil {
		c.Unknown("C11.R3", name+" request", w.Pos(se.Pos()), "the event context passed to SendEvent is not a parameter of the handler; cannot tie the guards to the request")
		return
	}
	mt := an.NamedOf(msg.Type())
	if mt == nil {
		c.Unknown("C11.R3", name+" request", w.Pos(se.Pos()), "request parameter has no named type")
		return
	}
	mname := mt.Obj().Name()
	fieldOfMsg := func(v ssa.Value, field string) bool {
		for {
			if cv, ok := v.(*ssa.Convert); ok {
				v = cv.X
				continue
			}
			break
		}
		chain, root := w.FieldChain(v)
		return root == msg && chain == mname+"."+field
	}
	targets := []ssa.Instruction{se}
	for _, l := range callsNamed(w, fn, "func:(*swap.SwapService).lockSwap") {
		targets = append(targets, l)
	}
	cancels := map[*ssa.BasicBlock]bool{}
	var peer ssa.Value
	// the peer the handler answers: first argument of the cancel sends / Compute must agree
	for _, cs := range c11CancelSends(w, fn) {
		cancels[cs.Block()] = true
	}

	type hGuard struct {
		id, what string
		pass     func(f an.Fact) bool
		extra    func(f an.Fact) string // "" = fine
	}
	callArgs := func(v ssa.Value) (*ssa.Call, []ssa.Value) {
		cl := c11CallOf(v)
		if cl == nil {
			return nil, nil
		}
		return cl, cl.Call.Args
	}
	// operand of a numeric fact that is a result of the call named sub
	operand := func(f an.Fact, sub string) ssa.Value {
		for _, v := range []ssa.Value{f.LV, f.RV} {
			if v != nil && strings.Contains(w.Term(v), sub) {
				return v
			}
		}
		return nil
	}
	lbtcA, btcA := int64(-1), int64(-1)
	if v, ok := c11ConstOf(w, "premium", "LBTC"); ok {
		lbtcA, _ = constant.Int64Val(constant.ToInt(v))
	}
	if v, ok := c11ConstOf(w, "premium", "BTC"); ok {
		btcA, _ = constant.Int64Val(constant.ToInt(v))
	}
	capTerm := "call:iface:swap.LightningClient.ReceivableMsat#0"
	capWhat := "ReceivableMsat(request scid) >= amount*1000"
	if !r.maker {
		capTerm = "call:iface:swap.LightningClient.SpendableMsat#0"
		capWhat = "SpendableMsat(request scid) >= amount*1000"
	}
	gs := []hGuard{
		{id: "premium-limit", what: "premium.Setting.Compute(peer, asset, op, amount) <= request.PremiumLimit",
			pass: func(f an.Fact) bool {
				return c11LinGE(f, []c11Term{{[]string{mname + ".PremiumLimit"}, 1}, {[]string{"call:func:(*premium.Setting).Compute#0"}, -1}})
			},
			extra: func(f an.Fact) string {
				lim := operand(f, mname+".PremiumLimit")
				if lim == nil || !fieldOfMsg(lim, "PremiumLimit") {
					return "the limit compared is not the PremiumLimit of the request passed to SendEvent"
				}
				pv := operand(f, "(*premium.Setting).Compute#0")
				if pv == nil {
					return "cannot find the premium operand"
				}
				calls := c11CallsBehind(pv)
				if len(calls) == 0 {
					return "premium operand is not a call result"
				}
				ops := map[int64]bool{}
				for _, cl := range calls {
					if cl == nil {
						return "on some path the premium compared is not a result of premium.Setting.Compute"
					}
					if w.Info(cl).Name != "func:(*premium.Setting).Compute" || len(cl.Call.Args) != 5 {
						return "premium operand comes from " + w.Info(cl).Name
					}
					p, isP := cl.Call.Args[1].(*ssa.Parameter)
					if !isP || (peer != nil && peer != p) {
						return "premium is not computed for the handler's peer parameter"
					}
					peer = p
					if !fieldOfMsg(cl.Call.Args[4], "Amount") {
						return "premium is not computed for the request amount"
					}
					a, okA := an.ConstInt(cl.Call.Args[2])
					k, okK := an.ConstInt(cl.Call.Args[3])
					if !okA || !okK {
						return "premium asset/operation is not a constant"
					}
					ops[a<<8|k] = true
					// the liquid rate is used iff the request names no network (resp. an asset)
					netEmpty, netSet := `"" == field:`+mname+".Network", `"" != field:`+mname+".Network"
					assetEmpty, assetSet := `"" == field:`+mname+".Asset", `"" != field:`+mname+".Asset"
					var have []string
					for _, df := range w.FactsDominating(cl) {
						if df.NonNum {
							have = append(have, df.L+" "+df.Rel+" "+df.R)
						}
					}
					has := func(x string) bool {
						for _, h := range have {
							if h == x {
								return true
							}
						}
						return false
					}
					switch {
					case lbtcA >= 0 && a == lbtcA:
						if !has(netEmpty) && !has(assetSet) {
							return "the liquid premium rate is looked up on a path that does not test the request for a liquid request (empty network / set asset)"
						}
					case btcA >= 0 && a == btcA:
						if !has(netSet) && !has(assetEmpty) {
							return "the bitcoin premium rate is looked up on a path that does not test the request for a bitcoin request (set network / empty asset)"
						}
					default:
						return fmt.Sprintf("premium asset constant %d is neither premium.BTC nor premium.LBTC", a)
					}
				}
				if c11OpNames(ops) != c11OpNames(actOps) {
					return "the handler checks the premium of " + c11OpNames(ops) + " but the responder action charges " + c11OpNames(actOps)
				}
				return ""
			}},
		{id: "channel-capacity", what: capWhat,
			pass: func(f an.Fact) bool {
				return c11Widths64(f) && c11LinGE(f, []c11Term{{[]string{capTerm}, 1}, {[]string{mname + ".Amount"}, -1000}})
			},
			extra: func(f an.Fact) string {
				cv := operand(f, capTerm)
				cl, args := callArgs(cv)
				if cl == nil || len(args) != 1 || !fieldOfMsg(args[0], "Scid") {
					return "capacity is not queried for the scid of the request"
				}
				for _, v := range []ssa.Value{f.LV, f.RV} {
					if base, k, ok := c11MulK(v); ok && k == 1000 && fieldOfMsg(base, "Amount") {
						return ""
					}
				}
				return "the amount compared is not request.Amount*1000"
			}},
	}
	if !r.maker {
		gs = append(gs, hGuard{id: "probe", what: "ProbePayment(request scid, amount*1000) succeeded",
			pass: func(f an.Fact) bool { return c11Atom(w, f, "call:iface:swap.LightningClient.ProbePayment#0", true) },
			extra: func(f an.Fact) string {
				pv, _, _ := c11AtomOf(f)
				cl, args := callArgs(pv)
				if cl == nil || len(args) != 2 || !fieldOfMsg(args[0], "Scid") {
					return "the probe is not made on the scid of the request"
				}
				if base, k, ok := c11MulK(args[1]); !ok || k != 1000 || !fieldOfMsg(base, "Amount") {
					return "the probe amount is not request.Amount*1000"
				}
				return ""
			}})
	}
	for _, g := range gs {
		cons := name + " guard " + g.id
		var cut []an.Edge
		var notes []string
		for _, f := range w.Facts(fn) {
			if !g.pass(f) {
				continue
			}
			if m := g.extra(f); m != "" {
				notes = append(notes, m)
				continue
			}
			cut = append(cut, f.Edge)
		}
		if len(cut) == 0 {
			d := "no test of `" + g.what + "` in the handler"
			if len(notes) > 0 {
				d = "a test exists but: " + strings.Join(notes, "; ")
			}
			c.Bad("C11.R3", cons, w.Pos(se.Pos()), "the request is handed to the state machine without this pre-check: "+d)
			continue
		}
		bad := ""
		for _, tg := range targets {
			if !an.EdgesDominate(cut, tg.Block()) {
				bad += fmt.Sprintf(" %s@%s", w.Info(tg.(ssa.CallInstruction)).Name, w.Pos(tg.Pos()))
			}
		}
		if bad != "" {
			c.Bad("C11.R3", cons, w.Pos(se.Pos()), "reachable without `"+g.what+"`:"+bad+"; facts dominating SendEvent: "+an.DescribeFacts(w.FactsDominating(se)))
			continue
		}
		// failing side: every path to a return sends the cancel message
		region := an.ReachBlocks(c11FailStarts(cut), c11EdgeSet(cut), cancels)
		silent := ""
		for _, ret := range an.Returns(fn) {
			if region[ret.Block()] && !cancels[ret.Block()] {
				silent += " " + w.Pos(ret.Pos())
			}
		}
		c.Decide(silent == "", "C11.R3", cons, w.Pos(se.Pos()),
			"dominates lockSwap/SendEvent; the failing edge sends a CancelMessage: "+g.what,
			"the guard holds, but its failing edge can return without sending a CancelMessage (returns at"+silent+")")
	}
	// cancel messages go to the peer the premium was computed for
	for _, cs := range c11CancelSends(w, fn) {
		if peer != nil && cs.Common().Args[0] != peer {
			c.Bad("C11.R3", name+" cancel recipient", w.Pos(cs.Pos()), "a cancel message is sent to a value other than the handler's peer parameter")
		}
	}
	// information: error returns that leave without a cancel
	for _, cl := range an.Calls(fn) {
		call, ok := cl.(*ssa.Call)
		if !ok || w.Info(cl).Name != "func:(*premium.Setting).Compute" {
			continue
		}
		_, fail := an.OkEdges(call)
		for _, e := range fail {
			reg := an.ReachBlocks([]*ssa.BasicBlock{e.To()}, nil, cancels)
			for _, ret := range an.Returns(fn) {
				if reg[ret.Block()] && !cancels[ret.Block()] {
					c.Note("C11.R3", name+" premium lookup error", w.Pos(ret.Pos()), "an error of premium.Setting.Compute returns without a cancel message (no agreement is sent; the requester runs into its timeout)")
				}
			}
		}
	}
}

func c11FailStarts(cut []an.Edge) []*ssa.BasicBlock {
	cm := c11EdgeSet(cut)
	var starts []*ssa.BasicBlock
	for _, e := range cut {
		o := an.Edge{From: e.From, Idx: 1 - e.Idx}
		if !cm[o] {
			starts = append(starts, o.To())
		}
	}
	return starts
}

func c11SortedInts(m map[int64]bool) []int64 {
	var out []int64
	for k := range m {
		out = append(out, k)
	}
	sort.Slice(out, func(i, j int) bool { return out[i] < out[j] })
	return out
}

// ---- R4: Validate ---------------------------------------------------------------------------

func c11NilReturns(fn *ssa.Function) []*ssa.Return {
	var out []*ssa.Return
	for _, r := range an.Returns(fn) {
		if len(r.Results) == 1 && an.IsNilConst(r.Results[0]) {
			out = append(out, r)
		}
	}
	return out
}

// c11AllNilCut: every nil return of fn is cut off by the edges.
func c11AllNilCut(fn *ssa.Function, cut []an.Edge) bool {
	rs := c11NilReturns(fn)
	if len(rs) == 0 || len(cut) == 0 {
		return false
	}
	for _, r := range rs {
		if !an.EdgesDominate(cut, r.Block()) {
			return false
		}
	}
	return true
}

func c11ParamIdx(v ssa.Value) int {
	p, ok := v.(*ssa.Parameter)
	if !ok {
		return -1
	}
	for i, q := range p.Parent().Params {
		if q == p {
			return i
		}
	}
	return -1
}

// c11HexLen: g(…, s, …, n, …) returns nil only if hex.DecodeString(s) succeeded and
// len(decoded) == n; returns the parameter indices of s and n.
func c11HexLen(w *an.World, g *ssa.Function) (si, ni int, ok bool) {
	si, ni = -1, -1
	for _, ci := range callsNamed(w, g, "func:encoding/hex.DecodeString") {
		if len(ci.Common().Args) == 1 {
			si = c11ParamIdx(ci.Common().Args[0])
		}
	}
	if si < 0 {
		return
	}
	decOK := c11Cut(w, g, func(f an.Fact) bool { return c11StrRel(f, "==", "call:func:encoding/hex.DecodeString#1", "nil") })
	for i := range g.Params {
		p := fmt.Sprintf("param#%d", i)
		lenOK := c11Cut(w, g, func(f an.Fact) bool {
			return an.MatchLin(f, an.LinSpec{Rel: "==", Terms: map[string]int64{"len(call:func:encoding/hex.DecodeString#0)": 1, p: -1}})
		})
		if len(lenOK) > 0 && c11AllNilCut(g, lenOK) && c11AllNilCut(g, decOK) {
			return si, i, true
		}
	}
	return
}

// c11Xor: g(a, b) returns nil only if exactly one of its two string parameters is empty.
func c11Xor(w *an.World, g *ssa.Function) (ai, bi int, ok bool) {
	var sp []int
	for i, p := range g.Params {
		if b, isB := p.Type().Underlying().(*types.Basic); isB && b.Kind() == types.String {
			sp = append(sp, i)
		}
	}
	if len(sp) != 2 {
		return
	}
	a, b := fmt.Sprintf("param#%d", sp[0]), fmt.Sprintf("param#%d", sp[1])
	someSet := c11Cut(w, g, func(f an.Fact) bool { return c11StrRel(f, "!=", `""`, a) || c11StrRel(f, "!=", `""`, b) })
	someEmpty := c11Cut(w, g, func(f an.Fact) bool { return c11StrRel(f, "==", `""`, a) || c11StrRel(f, "==", `""`, b) })
	if c11AllNilCut(g, someSet) && c11AllNilCut(g, someEmpty) {
		return sp[0], sp[1], true
	}
	return
}

// c11ScidFmt: g(s) returns nil only if s splits into three parts.
func c11ScidFmt(w *an.World, g *ssa.Function) bool {
	three := c11Cut(w, g, func(f an.Fact) bool {
		return an.MatchLin(f, an.LinSpec{Rel: "==", Terms: map[string]int64{"len(call:func:strings.Split": 1}, Const: -3})
	})
	return c11AllNilCut(g, three)
}

func c11Validate(c *an.Check, reqs []*types.Named) {
	w := c.W
	n := 0
	for _, rt := range reqs {
		fn := c11Body(w, w.Method(rt, "Validate"))
		if fn == nil {
			c.Anchor("%s.Validate does not resolve", rt.Obj().Name())
			continue
		}
		n++
		name := w.FuncName(fn)
		pos := w.Pos(fn.Pos())
		rname := rt.Obj().Name()
		recvField := func(v ssa.Value, field string) bool {
			t := w.Term(v)
			return strings.HasPrefix(t, "param#0") && strings.HasSuffix(t, rname+"."+field)
		}
		var pubCut, xorCut, scidCut []an.Edge
		for _, ci := range an.Calls(fn) {
			call, ok := ci.(*ssa.Call)
			if !ok {
				continue
			}
			g := w.Info(ci).Static
			if g == nil || !w.InModule(g) || g.Blocks == nil {
				continue
			}
			okE, _ := an.OkEdges(call)
			args := call.Call.Args
			if si, ni, ok := c11HexLen(w, g); ok && si < len(args) && ni < len(args) {
				if k, isK := an.ConstInt(args[ni]); isK && k == 33 && recvField(args[si], "Pubkey") {
					pubCut = append(pubCut, okE...)
				}
			}
			if ai, bi, ok := c11Xor(w, g); ok && ai < len(args) && bi < len(args) {
				if (recvField(args[ai], "Asset") && recvField(args[bi], "Network")) || (recvField(args[ai], "Network") && recvField(args[bi], "Asset")) {
					xorCut = append(xorCut, okE...)
				}
			}
			if len(args) == 1 && recvField(args[0], "Scid") && c11ScidFmt(w, g) {
				scidCut = append(scidCut, okE...)
				// information: numeric conversions whose error is dropped
				nAtoi, nChecked := len(callsNamed(w, g, "func:strconv.Atoi")), 0
				for _, f := range w.Facts(g) {
					if c11StrRel(f, "==", "call:func:strconv.Atoi#1", "nil") {
						nChecked++
					}
				}
				if nChecked < nAtoi {
					c.Note("C11.R4", w.FuncName(g)+" numeric parts", w.Pos(g.Pos()), fmt.Sprintf("%d strconv.Atoi calls, %d error results tested: non-numeric scid parts pass the format test (not an admission condition; the capacity lookup fails for such a scid)", nAtoi, nChecked))
				}
			}
		}
		c.Decide(c11AllNilCut(fn, pubCut), "C11.R4", name+" pubkey-length", pos, "nil return only after the 33-byte hex test of Pubkey succeeded", "Validate can return nil without a successful 33-byte hex-length test of the request's Pubkey")
		c.Decide(c11AllNilCut(fn, xorCut), "C11.R4", name+" asset-xor-network", pos, "nil return only after the asset-xor-network test succeeded", "Validate can return nil without a successful test that exactly one of Asset and Network is set")
		c.Decide(c11AllNilCut(fn, scidCut), "C11.R4", name+" scid-format", pos, "nil return only after the scid format test succeeded", "Validate can return nil without a successful three-part format test of the request's Scid")
	}
	c.AtLeast("C11.R4", "request Validate methods", n, 2)
}

func c11SendEvent(c *an.Check) {
	w := c.W
	fn := w.Func("swap", "(*SwapStateMachine).SendEvent")
	name := w.FuncName(fn)
	applies := callsNamed(w, fn, "iface:swap.EventContext.ApplyToSwapData")
	if !c.AtLeast("C11.R4", "ApplyToSwapData calls in SendEvent", len(applies), 1) {
		return
	}
	invV, ok := c11ConstOf(w, "swap", "Event_OnInvalid_Message")
	if !ok || invV.Kind() != constant.String {
		c.Anchor("constant swap.Event_OnInvalid_Message does not resolve")
		return
	}
	inv := constant.StringVal(invV)
	okCut := c11Cut(w, fn, func(f an.Fact) bool { return c11StrRel(f, "==", "call:iface:swap.EventContext.Validate", "nil") })
	for _, ap := range applies {
		cons := name + " validate-before-apply"
		if len(okCut) == 0 || !an.EdgesDominate(okCut, ap.Block()) {
			c.Bad("C11.R4", cons, w.Pos(ap.Pos()), "an event context is applied to the swap data without a successful Validate; facts dominating the call: "+an.DescribeFacts(w.FactsDominating(ap)))
			continue
		}
		// the failing edge re-enters with the invalid-message event on every path to a return
		reenter := map[*ssa.BasicBlock]bool{}
		for _, se := range callsNamed(w, fn, "func:(*swap.SwapStateMachine).SendEvent") {
			if a := se.Common().Args; len(a) == 3 {
				if ev, ok := an.ConstString(a[1]); ok && ev == inv && an.IsNilConst(a[2]) {
					reenter[se.Block()] = true
				}
			}
		}
		region := an.ReachBlocks(c11FailStarts(okCut), c11EdgeSet(okCut), reenter)
		silent := ""
		for _, ret := range an.Returns(fn) {
			if region[ret.Block()] && !reenter[ret.Block()] {
				silent += " " + w.Pos(ret.Pos())
			}
		}
		c.Decide(silent == "", "C11.R4", cons, w.Pos(ap.Pos()), "context applied only after Validate succeeded; a failed Validate injects "+inv,
			"Validate guards ApplyToSwapData, but a failed Validate can return without injecting "+inv+" (returns at"+silent+")")
	}
}
