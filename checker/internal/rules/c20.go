package rules

import (
	"fmt"
	"go/constant"
	"go/token"
	"go/types"
	"sort"
	"strings"

	"golang.org/x/tools/go/ssa"

	"psv/internal/an"
)

// C20 — chain watchers report confirmation / CSV maturity only when true.
//
// Everything is anchored in the two callback registrations of the
// swap.TxWatcher interface: a *report site* is a dynamic call through a func
// value that flows (fields, constructors, call sites) from the parameter of an
// implementation of AddConfirmationCallback / AddCsvCallback. The values that
// guards compare are named by *role*: where they come from relative to the
// registration call (parameters of AddWaitForConfirmationTx / AddWaitForCsvTx
// implementations, followed through constructor parameters, struct fields and
// helper arguments), so parameter positions, field names and local names do not
// matter while a swapped argument does.

func init() {
	Register(&Prop{
		ID:   "C20",
		Expl: "Finds every report site of the three chain-watcher back-ends (dynamic calls through func values that flow from the parameter of an implementation of swap.TxWatcher.AddConfirmationCallback / AddCsvCallback; wrappers are lifted to their call sites) and decides on the SSA CFG, with guard operands named by their origin in the registration call (role-normalised linear facts, bool helpers expanded into the conditions of their true returns): (R1) every confirmation report whose error argument may be nil is dominated by the open-window test start+window-current > 0 and by the back-end's depth test with the exact constants (+1, >=, required depth; RPC first-seen lookup on the registered (txid,start,vout); Electrum tip>0, txHeight>0, txHeight<=tip; LND safety limit and NumConfs delegation), by the nil-error edge of the raw-transaction lookup, and the required depths are wired to the onchain constants; (R2) every CSV report is dominated by confirmations >= csv with csv flowing from the registration (RPC/Electrum) or equal to onchain.BitcoinCsv (LND) and the depth lookup made on the registered txid/vout; (R3) at most once: on every feasible CFG path no report site is reachable after a report site (goroutine loops), the reported key of a watch-list scan reaches the removal call on the success edge, a successful immediate report never reaches the watch-list insertion, observers return true after reporting and the subscriber deregisters on (true, nil); a select arm on ctx.Done() is infeasible exactly when the context comes from context.WithCancel(context.Background()/TODO()) and the cancel func is neither called nor readable (stored only in a field that production code never reads); (R4) in the RPC and Electrum back-ends the failing edge of the window test reaches, on every feasible path before any return or re-evaluation, a confirmation report whose error is definitely non-nil. The quantifier is over all report sites and all CFG paths of the watcher functions, i.e. all block sequences the watcher can be driven through.",
		NotD: "Reorganisations, out-of-sync or stale RPC answers, that GetTxOut / Electrum history / lnd notifications tell the truth; the internals of IsTxInMempoolOrRange and getHeight (anchored by callee identity only); that the swap id passed to the callback is the registered one; uint32 wrap-around of start+window; duplicate registrations of one swap (each registration is reported at most once, two registrations may report twice); a failed callback (non-nil result) is retried by design in the scanning back-ends; R4 is not claimed for LND (its window is the constant safety limit and lnd/txwatcher.go has no failure form of the report); de-duplication maps of the LND registrations.",
		Run:  runC20,
	})
}

const (
	c20ConfReg  = "AddWaitForConfirmationTx"
	c20CsvReg   = "AddWaitForCsvTx"
	c20ConfCB   = "AddConfirmationCallback"
	c20CsvCB    = "AddCsvCallback"
	c20ObsCB    = "Callback"
	c20FnLookup = "func:(*txwatcher.CommonBlockchainObserver).IsTxInMempoolOrRange"
	c20FnHeight = "func:electrum.getHeight"
	c20FnRawTx  = "iface:electrum.RPC.GetRawTransaction"
	c20FnTxOut  = "iface:txwatcher.BlockchainRpc.GetTxOut"
	c20HashPkg  = "github.com/btcsuite/btcd/chaincfg/chainhash"
)

// parameter roles of the registration methods (index 0 is the receiver)
var c20RegRoles = map[string][]string{
	c20ConfReg: {"", "REG_SWAPID", "REG_TXID", "REG_VOUT", "REG_START", "REG_WINDOW", "REG_SCRIPT"},
	c20CsvReg:  {"", "REG_SWAPID", "REG_TXID", "REG_VOUT", "REG_START", "REG_CSV", "REG_SCRIPT"},
	c20ConfCB:  {"", "CB_CONF"},
	c20CsvCB:   {"", "CB_CSV"},
}

type c20X struct {
	c       *an.Check
	w       *an.World
	txw     *types.Named // swap.TxWatcher
	obs     *types.Named // electrum.TXObserver
	callers map[*ssa.Function][]ssa.CallInstruction
	memo    map[ssa.Value]string
	busy    map[ssa.Value]bool
	k       map[string]int64 // onchain constants
	infeas  map[*ssa.Function]map[an.Edge]bool
	notes   map[*ssa.Function][]string
	sites   []*c20Site
}

type c20Site struct {
	kind    string // conf | csv
	fn      *ssa.Function
	instr   ssa.CallInstruction
	swapID  ssa.Value
	txHex   ssa.Value
	err     ssa.Value
	errKind string // nil | nonnil | maybe (conf only)
	via     *ssa.Function
	viaOK   bool
	name    string
}

func runC20(c *an.Check) {
	c.Rule("C20.R1", "every confirmation report that may carry a nil error is dominated by the open-window test, the back-end's exact depth test and the nil-error edge of the raw-tx lookup; required depths are the onchain constants")
	c.Rule("C20.R2", "every CSV report is dominated by confirmations >= csv (csv from the registration, or onchain.BitcoinCsv for LND) computed for the registered txid/vout")
	c.Rule("C20.R3", "at most once: after a report no report is reachable on a feasible path; scans remove the reported key / observer on success; ctx.Done() arms are feasible only if someone can call the cancel func")
	c.Rule("C20.R4", "RPC and Electrum: the failing edge of the window test always reaches a confirmation report with a non-nil error before returning")
	w := c.W
	x := &c20X{c: c, w: w, callers: map[*ssa.Function][]ssa.CallInstruction{}, memo: map[ssa.Value]string{}, busy: map[ssa.Value]bool{},
		k: map[string]int64{}, infeas: map[*ssa.Function]map[an.Edge]bool{}, notes: map[*ssa.Function][]string{}}
	x.txw, x.obs = w.Named("swap", "TxWatcher"), w.Named("electrum", "TXObserver")
	if x.txw == nil || x.obs == nil {
		c.Anchor("swap.TxWatcher / electrum.TXObserver do not resolve")
		return
	}
	for _, m := range []string{c20ConfReg, c20CsvReg, c20ConfCB, c20CsvCB} {
		if !c20HasMethod(x.txw, m) {
			c.Anchor("swap.TxWatcher.%s does not resolve", m)
			return
		}
	}
	if !c20HasMethod(x.obs, c20ObsCB) {
		c.Anchor("electrum.TXObserver.Callback does not resolve")
		return
	}
	// frozen anchors (callee / field identities used as term names below): a rename
	// must end in "cannot decide", not in a violation
	okA := true
	for _, f := range [][2]string{{"txwatcher", "(*CommonBlockchainObserver).IsTxInMempoolOrRange"}, {"electrum", "getHeight"}} {
		if w.Func(f[0], f[1]) == nil {
			c.Anchor("function %s.%s does not resolve", f[0], f[1])
			okA = false
		}
	}
	for _, m := range []string{c20FnRawTx, c20FnTxOut} {
		if !ifaceMethodExists(w, m) {
			c.Anchor("interface method %s does not resolve", m)
			okA = false
		}
	}
	for _, f := range [][3]string{{"txwatcher", "BlockchainRpcTxWatcher", "requiredConfs"}, {"txwatcher", "TxOutResp", "Confirmations"},
		{"lnd", "TxWatcher", "targetConfs"}, {"lnd", "confirmationEvent", "blockHeight"}, {"lnd", "confirmationEvent", "rawTx"}} {
		if !c20FieldExists(w, f[0], f[1], f[2]) {
			c.Anchor("field %s.%s.%s does not resolve", f[0], f[1], f[2])
			okA = false
		}
	}
	if !okA {
		return
	}
	for _, n := range []string{"BitcoinCsv", "BitcoinCsvSafetyLimit", "BitcoinMinConfs", "LiquidConfs"} {
		v, ok := c20Const(w, "onchain", n)
		if !ok {
			c.Anchor("constant onchain.%s does not resolve", n)
			return
		}
		x.k[n] = v
	}
	for _, fn := range prodFuncs(w) {
		for _, call := range an.Calls(fn) {
			if f := call.Common().StaticCallee(); f != nil && w.InModule(f) {
				x.callers[f] = append(x.callers[f], call)
			}
		}
	}
	x.findSites()
	var conf, csv, success []*c20Site
	for _, s := range x.sites {
		if s.kind == "conf" {
			conf = append(conf, s)
			if s.errKind != "nonnil" {
				success = append(success, s)
			}
		} else {
			csv = append(csv, s)
		}
	}
	if !c.AtLeast("C20", "confirmation report sites", len(conf), 6) || !c.AtLeast("C20", "CSV report sites", len(csv), 3) {
		return
	}
	c.AtLeast("C20.R1", "confirmation reports that may carry a nil error", len(success), 3)
	for _, s := range success {
		x.r1(s)
	}
	x.r1Wiring()
	for _, s := range csv {
		x.r2(s)
	}
	x.r3()
	x.r4(conf)
	x.r5()
}

// ---- small lookups -----------------------------------------------------------------------

func c20HasMethod(n *types.Named, m string) bool {
	it, ok := n.Underlying().(*types.Interface)
	if !ok {
		return false
	}
	for i := 0; i < it.NumMethods(); i++ {
		if it.Method(i).Name() == m {
			return true
		}
	}
	return false
}

func c20FieldExists(w *an.World, rel, typ, field string) bool {
	n := w.Named(rel, typ)
	if n == nil {
		return false
	}
	st, ok := n.Underlying().(*types.Struct)
	if !ok {
		return false
	}
	for i := 0; i < st.NumFields(); i++ {
		if st.Field(i).Name() == field {
			return true
		}
	}
	return false
}

func c20Const(w *an.World, rel, name string) (int64, bool) {
	p := w.ByRel[rel]
	if p == nil {
		return 0, false
	}
	o, ok := p.Types.Scope().Lookup(name).(*types.Const)
	if !ok || o.Val().Kind() != constant.Int {
		return 0, false
	}
	return constant.Int64Val(o.Val())
}

// implOf: fn is the implementation of method fn.Name() of the interface.
func c20ImplOf(fn *ssa.Function, iface *types.Named) bool {
	if fn == nil || fn.Signature.Recv() == nil || fn.Parent() != nil || !c20HasMethod(iface, fn.Name()) {
		return false
	}
	it := iface.Underlying().(*types.Interface)
	rt := fn.Signature.Recv().Type()
	if types.Implements(rt, it) {
		return true
	}
	if _, isPtr := rt.(*types.Pointer); !isPtr {
		return types.Implements(types.NewPointer(rt), it)
	}
	return false
}

func c20ParamIndex(p *ssa.Parameter) int {
	for i, q := range p.Parent().Params {
		if q == p {
			return i
		}
	}
	return -1
}

// ifaceParam: role of a parameter of a swap.TxWatcher / electrum.TXObserver implementation.
func (x *c20X) ifaceParam(p *ssa.Parameter) string {
	fn, idx := p.Parent(), c20ParamIndex(p)
	if rs, ok := c20RegRoles[fn.Name()]; ok && idx > 0 && idx < len(rs) && c20ImplOf(fn, x.txw) {
		return rs[idx]
	}
	if fn.Name() == c20ObsCB && idx == 2 && c20ImplOf(fn, x.obs) && c20IsInt(p.Type()) {
		return "CUR"
	}
	return ""
}

func c20IsInt(t types.Type) bool {
	b, ok := t.Underlying().(*types.Basic)
	return ok && b.Info()&types.IsInteger != 0
}

func c20IsReg(r string) bool {
	return strings.HasPrefix(r, "REG_") || strings.HasPrefix(r, "CB_") || r == "CUR"
}

func c20Tag(r string) string { return strings.ToLower(strings.TrimPrefix(r, "REG_")) }

func c20Strip(v ssa.Value) ssa.Value {
	for {
		switch t := v.(type) {
		case *ssa.ChangeType:
			v = t.X
		case *ssa.Convert:
			v = t.X
		case *ssa.MakeInterface:
			v = t.X
		case *ssa.ChangeInterface:
			v = t.X
		default:
			return v
		}
	}
}

// singleStore returns the only value stored into a local cell (directly or
// through the closure binding of a free variable).
func c20CellValue(addr ssa.Value) ssa.Value {
	switch a := addr.(type) {
	case *ssa.FreeVar:
		fn := a.Parent()
		for i, fv := range fn.FreeVars {
			if fv != a || fn.Parent() == nil {
				continue
			}
			for _, b := range fn.Parent().Blocks {
				for _, in := range b.Instrs {
					if mc, ok := in.(*ssa.MakeClosure); ok && mc.Fn == fn && i < len(mc.Bindings) {
						return c20CellValue(mc.Bindings[i])
					}
				}
			}
		}
	case *ssa.Alloc:
		if a.Referrers() == nil {
			return nil
		}
		var vals []ssa.Value
		for _, r := range *a.Referrers() {
			if s, ok := r.(*ssa.Store); ok && s.Addr == a {
				vals = append(vals, s.Val)
			}
		}
		if len(vals) == 1 {
			return vals[0]
		}
	}
	return nil
}

// ---- roles ----------------------------------------------------------------------------

type c20Bind map[*ssa.Parameter]ssa.Value

// role names a value by its origin; falls back to the engine's term name.
func (x *c20X) role(v ssa.Value, bind c20Bind, d int) string {
	if v == nil {
		return "?"
	}
	if d > 12 {
		return x.w.Term(v)
	}
	if bind == nil {
		if r, ok := x.memo[v]; ok {
			return r
		}
		if x.busy[v] {
			return x.w.Term(v)
		}
		x.busy[v] = true
		r := x.role1(v, nil, d)
		delete(x.busy, v)
		x.memo[v] = r
		return r
	}
	return x.role1(v, bind, d)
}

func (x *c20X) roles(vs []ssa.Value, bind c20Bind, d int) string {
	var out []string
	for _, v := range vs {
		out = append(out, c20Tag(x.role(v, bind, d)))
	}
	return strings.Join(out, ",")
}

func (x *c20X) role1(v ssa.Value, bind c20Bind, d int) string {
	w := x.w
	switch t := v.(type) {
	case *ssa.ChangeType, *ssa.Convert, *ssa.MakeInterface, *ssa.ChangeInterface:
		return x.role(c20Strip(v), bind, d)
	case *ssa.Const:
		if i, ok := an.ConstInt(t); ok && c20IsInt(t.Type()) {
			return fmt.Sprintf("K:%d", i)
		}
	case *ssa.Parameter:
		if a, ok := bind[t]; ok {
			return x.role(a, nil, d+1)
		}
		if r := x.ifaceParam(t); r != "" {
			return r
		}
		idx := c20ParamIndex(t)
		set := map[string]bool{}
		for _, site := range x.callers[t.Parent()] {
			if args := site.Common().Args; idx >= 0 && idx < len(args) {
				set[x.role(args[idx], nil, d+1)] = true
			}
		}
		if len(set) == 1 {
			for r := range set {
				return r
			}
		}
		return fmt.Sprintf("param#%d", idx)
	case *ssa.FreeVar:
		if b := c20CellValue(t); b != nil {
			return x.role(b, bind, d+1)
		}
	case *ssa.Field:
		return x.fieldRole(an.FieldName(t.X.Type(), t.Field), t.X, v, bind, d)
	case *ssa.UnOp:
		if t.Op != token.MUL {
			break
		}
		switch a := t.X.(type) {
		case *ssa.FieldAddr:
			return x.fieldRole(an.FieldName(a.X.Type(), a.Field), a.X, v, bind, d)
		case *ssa.Alloc, *ssa.FreeVar:
			if s := c20CellValue(a); s != nil {
				return x.role(s, bind, d+1)
			}
		case *ssa.UnOp, *ssa.Extract, *ssa.Call, *ssa.Parameter:
			// *p where p is a pointer value: same object
			return x.role(a, bind, d+1)
		}
	case *ssa.Extract:
		switch tup := t.Tuple.(type) {
		case *ssa.Select:
			if t.Index >= 2 && c20IsInt(t.Type()) {
				return "CUR" // a block height received from the watcher's block channel
			}
		case *ssa.Call:
			name, args := w.Info(tup).Name, tup.Call.Args
			switch {
			case name == c20FnLookup && len(args) == 4 && t.Index == 1:
				return "FIRSTSEEN[" + x.roles(args[1:], bind, d+1) + "]"
			case name == c20FnLookup && len(args) == 4 && t.Index == 0:
				return "RAWTX[" + x.roles(args[1:], bind, d+1) + "]"
			case name == c20FnHeight && len(args) == 2 && t.Index == 0:
				return "TXHEIGHT[" + x.roles(args[1:], bind, d+1) + "]"
			case name == c20FnRawTx && len(args) == 2 && t.Index == 0:
				return "RAWTX[" + x.roles(args[1:], bind, d+1) + "]"
			case name == "func:"+c20HashPkg+".NewHashFromStr" && t.Index == 0 && len(args) == 1:
				return x.role(args[0], bind, d+1)
			}
		}
	case *ssa.Call:
		name, args := w.Info(t).Name, t.Call.Args
		switch name {
		case "func:(" + c20HashPkg + ".Hash).String", "func:(*" + c20HashPkg + ".Hash).String",
			"func:(*" + c20HashPkg + ".Hash).CloneBytes", "func:encoding/hex.EncodeToString":
			if len(args) == 1 {
				return x.role(args[0], bind, d+1)
			}
		}
	}
	return w.Term(v)
}

func (x *c20X) prodWriters(key string) []*ssa.Store {
	var out []*ssa.Store
	for _, st := range x.w.FieldWriters(key) {
		if !an.IsTestSupport(x.w.FnRel(st.Parent())) {
			out = append(out, st)
		}
	}
	return out
}

func (x *c20X) fieldRole(key string, base ssa.Value, at ssa.Value, bind c20Bind, d int) string {
	if key == "TxOutResp.Confirmations" {
		if ex, ok := c20Strip(base).(*ssa.Extract); ok && ex.Index == 0 {
			if call, ok := ex.Tuple.(*ssa.Call); ok && x.w.Info(call).Name == c20FnTxOut && len(call.Call.Args) == 2 {
				return "CONFS[" + x.roles(call.Call.Args, bind, d+1) + "]"
			}
		}
	}
	set := map[string]bool{}
	for _, st := range x.prodWriters(key) {
		set[x.role(st.Val, nil, d+1)] = true
	}
	if len(set) == 1 {
		for r := range set {
			if c20IsReg(r) {
				return r
			}
		}
	}
	return "field:" + key
}

// ---- role-normalised facts --------------------------------------------------------------

type c20L struct {
	t map[string]int64
	c int64
}

func (x *c20X) lin(v ssa.Value, bind c20Bind, d int) c20L {
	out := c20L{t: map[string]int64{}}
	leaf := func() c20L {
		r := x.role(v, bind, 0)
		if strings.HasPrefix(r, "K:") {
			var n int64
			fmt.Sscanf(r, "K:%d", &n)
			out.c = n
			return out
		}
		out.t[r] = 1
		return out
	}
	if d > 8 {
		return leaf()
	}
	switch t := v.(type) {
	case *ssa.Const:
		if i, ok := an.ConstInt(t); ok {
			out.c = i
			return out
		}
	case *ssa.ChangeType:
		return x.lin(t.X, bind, d)
	case *ssa.Convert:
		if c20IsInt(t.Type()) && c20IsInt(t.X.Type()) {
			return x.lin(t.X, bind, d)
		}
	case *ssa.UnOp:
		if t.Op == token.MUL {
			if al, ok := t.X.(*ssa.Alloc); ok {
				if s := c20CellValue(al); s != nil && c20IsInt(s.Type()) {
					return x.lin(s, bind, d+1)
				}
			}
		}
	case *ssa.BinOp:
		if !c20IsInt(t.Type()) {
			break
		}
		switch t.Op {
		case token.ADD, token.SUB:
			l, r := x.lin(t.X, bind, d+1), x.lin(t.Y, bind, d+1)
			sign := int64(1)
			if t.Op == token.SUB {
				sign = -1
			}
			for k, c := range l.t {
				out.t[k] += c
			}
			for k, c := range r.t {
				out.t[k] += sign * c
			}
			out.c = l.c + sign*r.c
			return out
		case token.MUL:
			l, r := x.lin(t.X, bind, d+1), x.lin(t.Y, bind, d+1)
			if len(l.t) == 0 {
				l, r = r, l
			}
			if len(r.t) == 0 {
				for k, c := range l.t {
					out.t[k] = c * r.c
				}
				out.c = l.c * r.c
				return out
			}
		}
	}
	return leaf()
}

// cmp builds the fact "bo holds" / "bo does not hold" with role-named terms,
// in the engine's normal form (Σ coef·term + Const Rel 0, Rel ∈ > >= == !=).
func (x *c20X) cmp(bo *ssa.BinOp, holds bool, bind c20Bind) (an.Fact, bool) {
	op := bo.Op
	switch op {
	case token.EQL, token.NEQ, token.LSS, token.LEQ, token.GTR, token.GEQ:
	default:
		return an.Fact{}, false
	}
	if !holds {
		op = map[token.Token]token.Token{token.EQL: token.NEQ, token.NEQ: token.EQL, token.LSS: token.GEQ, token.LEQ: token.GTR, token.GTR: token.LEQ, token.GEQ: token.LSS}[op]
	}
	f := an.Fact{Cond: bo, LV: bo.X, RV: bo.Y}
	if !c20IsInt(bo.X.Type()) || !c20IsInt(bo.Y.Type()) {
		f.NonNum = true
		l, r := x.role(bo.X, bind, 0), x.role(bo.Y, bind, 0)
		switch op {
		case token.EQL, token.NEQ:
			if l > r {
				l, r = r, l
			}
		case token.LSS:
			l, r, op = r, l, token.GTR
		case token.LEQ:
			l, r, op = r, l, token.GEQ
		}
		f.L, f.R, f.Rel = l, r, op.String()
		return f, true
	}
	l, r := x.lin(bo.X, bind, 0), x.lin(bo.Y, bind, 0)
	f.Terms = map[string]int64{}
	for k, c := range l.t {
		f.Terms[k] += c
	}
	for k, c := range r.t {
		f.Terms[k] -= c
	}
	f.Const = l.c - r.c
	flip := false
	switch op {
	case token.LSS:
		flip, op = true, token.GTR
	case token.LEQ:
		flip, op = true, token.GEQ
	case token.EQL, token.NEQ:
		var ks []string
		for k, c := range f.Terms {
			if c != 0 {
				ks = append(ks, k)
			}
		}
		sort.Strings(ks)
		if (len(ks) > 0 && f.Terms[ks[0]] < 0) || (len(ks) == 0 && f.Const < 0) {
			flip = true
		}
	}
	if flip {
		for k := range f.Terms {
			f.Terms[k] = -f.Terms[k]
		}
		f.Const = -f.Const
	}
	for k, c := range f.Terms {
		if c == 0 {
			delete(f.Terms, k)
		}
	}
	f.Rel = op.String()
	return f, true
}

// norm re-names the terms of an engine fact by role. Which truth value of the
// comparison the fact stands for is recovered from the engine's relation.
func (x *c20X) norm(f an.Fact, bind c20Bind) an.Fact {
	bo, ok := f.Cond.(*ssa.BinOp)
	if !ok || f.Rel == "true" || f.Rel == "false" {
		return f
	}
	for _, holds := range []bool{true, false} {
		g, ok := x.cmp(bo, holds, nil)
		if !ok {
			return f
		}
		if g.Rel == f.Rel { // the relation decides the polarity (> vs >=, == vs !=)
			g2, _ := x.cmp(bo, holds, bind)
			g2.Edge = f.Edge
			return g2
		}
	}
	return f
}

// c20Group: facts that hold at a point. alts is empty for facts that dominate the
// point directly; for a bool helper known to have returned true it holds one fact
// set per return that may yield true.
type c20Group struct {
	direct []an.Fact
	alts   [][]an.Fact
	helper string
}

// factsAt returns the direct facts and the helper expansions at instr.
func (x *c20X) factsAt(at ssa.Instruction) []c20Group {
	raw := x.w.FactsDominating(at)
	g := c20Group{}
	var out []c20Group
	for _, f := range raw {
		g.direct = append(g.direct, x.norm(f, nil))
		if hg, ok := x.expand(f); ok {
			out = append(out, hg)
		}
	}
	return append([]c20Group{g}, out...)
}

// expand: f says that a bool helper of the module returned true / false; the
// result lists one fact set per way the helper can produce that value.
func (x *c20X) expand(f an.Fact) (c20Group, bool) {
	if f.Rel != "true" && f.Rel != "false" {
		return c20Group{}, false
	}
	call, idx := c20BoolCall(f.Cond)
	if call == nil {
		return c20Group{}, false
	}
	callee := call.Common().StaticCallee()
	if callee == nil || !x.w.InModule(callee) || callee.Blocks == nil {
		return c20Group{}, false
	}
	bind := c20Bind{}
	for i, p := range callee.Params {
		if i < len(call.Call.Args) {
			bind[p] = call.Call.Args[i]
		}
	}
	hg := c20Group{helper: fmt.Sprintf("%s=%s", x.w.FuncName(callee), f.Rel)}
	for _, r := range an.Returns(callee) {
		if idx >= len(r.Results) || !c20BlockReachable(r.Block()) {
			continue
		}
		var base []an.Fact
		for _, df := range x.w.FactsDominating(r) {
			base = append(base, x.norm(df, bind))
		}
		alts, ok := x.truthAlts(r.Results[idx], f.Rel == "true", bind, base, 0)
		if !ok {
			return c20Group{}, false
		}
		hg.alts = append(hg.alts, alts...)
	}
	return hg, len(hg.alts) > 0
}

// implies: whenever the edge fact f holds, a fact satisfying pred holds.
func (x *c20X) implies(f an.Fact, pred func(an.Fact) bool) bool {
	if pred(x.norm(f, nil)) {
		return true
	}
	hg, ok := x.expand(f)
	if !ok {
		return false
	}
	for _, alt := range hg.alts {
		if !an.AnyFact(alt, pred) {
			return false
		}
	}
	return true
}

// truthAlts lists, for a bool value of a helper, the fact sets under which it
// evaluates to `want` (one set per way: constants, comparisons, negations and the
// phis that && / || compile to).
func (x *c20X) truthAlts(v ssa.Value, want bool, bind c20Bind, base []an.Fact, d int) ([][]an.Fact, bool) {
	if d > 4 {
		return nil, false
	}
	switch t := v.(type) {
	case *ssa.Const:
		if t.Value == nil || t.Value.Kind() != constant.Bool {
			return nil, false
		}
		if constant.BoolVal(t.Value) == want {
			return [][]an.Fact{base}, true
		}
		return nil, true
	case *ssa.BinOp:
		cf, ok := x.cmp(t, want, bind)
		if !ok {
			return nil, false
		}
		return [][]an.Fact{append(append([]an.Fact{}, base...), cf)}, true
	case *ssa.UnOp:
		if t.Op == token.NOT {
			return x.truthAlts(t.X, !want, bind, base, d+1)
		}
	case *ssa.Phi:
		var out [][]an.Fact
		blk := t.Block()
		for i, e := range t.Edges {
			if i >= len(blk.Preds) {
				return nil, false
			}
			p := blk.Preds[i]
			fs := append([]an.Fact{}, base...)
			for _, df := range x.w.FactsDominatingBlock(p) {
				fs = append(fs, x.norm(df, bind))
			}
			for _, ef := range x.w.Facts(blk.Parent()) {
				if ef.Edge.From == p && ef.Edge.To() == blk && !(len(p.Succs) == 2 && p.Succs[0] == p.Succs[1]) {
					fs = append(fs, x.norm(ef, bind))
				}
			}
			sub, ok := x.truthAlts(e, want, bind, fs, d+1)
			if !ok {
				return nil, false
			}
			out = append(out, sub...)
		}
		return out, true
	}
	return nil, false
}

func c20BlockReachable(b *ssa.BasicBlock) bool {
	fn := b.Parent()
	return an.ReachBlocks([]*ssa.BasicBlock{fn.Blocks[0]}, nil, nil)[b]
}

// c20BoolCall: v is (an extract of) the bool result of a call.
func c20BoolCall(v ssa.Value) (*ssa.Call, int) {
	switch t := v.(type) {
	case *ssa.Call:
		return t, 0
	case *ssa.Extract:
		if c, ok := t.Tuple.(*ssa.Call); ok {
			return c, t.Index
		}
	}
	return nil, 0
}

// holds: some fact that is true whenever `groups`' point executes satisfies pred.
func c20Holds(groups []c20Group, pred func(an.Fact) bool) bool {
	for gi, g := range groups {
		if gi == 0 {
			if an.AnyFact(g.direct, pred) {
				return true
			}
			continue
		}
		all := true
		for _, alt := range g.alts {
			if !an.AnyFact(alt, pred) {
				all = false
			}
		}
		if all {
			return true
		}
	}
	return false
}

func c20Describe(groups []c20Group) string {
	var parts []string
	for gi, g := range groups {
		if gi == 0 {
			parts = append(parts, an.DescribeFacts(g.direct))
			continue
		}
		for i, alt := range g.alts {
			parts = append(parts, fmt.Sprintf("[%s way %d: %s]", g.helper, i+1, an.DescribeFacts(alt)))
		}
	}
	return strings.Join(parts, " ; ")
}

func c20Lin(rel string, konst int64, kv ...interface{}) func(an.Fact) bool {
	spec := an.LinSpec{Rel: rel, Const: konst, Terms: map[string]int64{}}
	for i := 0; i+1 < len(kv); i += 2 {
		spec.Terms[kv[i].(string)] = int64(kv[i+1].(int))
	}
	return func(f an.Fact) bool { return an.MatchLin(f, spec) }
}

// errNilOn: the fact says "the error result of `call` is nil".
func c20ErrNilOf(call *ssa.Call) func(an.Fact) bool {
	idx := an.ErrResultIndex(call)
	return func(f an.Fact) bool {
		if !f.NonNum || f.Rel != "==" {
			return false
		}
		for _, p := range [][2]ssa.Value{{f.LV, f.RV}, {f.RV, f.LV}} {
			if p[0] == nil || p[1] == nil || !an.IsNilConst(p[1]) {
				continue
			}
			if ex, ok := p[0].(*ssa.Extract); ok && ex.Tuple == call && ex.Index == idx {
				return true
			}
			if p[0] == ssa.Value(call) && call.Common().Signature().Results().Len() == 1 {
				return true
			}
		}
		return false
	}
}

// ---- report sites -----------------------------------------------------------------------

func (x *c20X) findSites() {
	w := x.w
	var rawSites []*c20Site
	for _, fn := range prodFuncs(w) {
		for _, call := range an.Calls(fn) {
			cc := call.Common()
			if cc.IsInvoke() || cc.StaticCallee() != nil {
				continue
			}
			if _, ok := cc.Value.(*ssa.Builtin); ok {
				continue
			}
			sig, ok := cc.Value.Type().Underlying().(*types.Signature)
			if !ok || sig.Results().Len() != 1 || !an.IsErrorType(sig.Results().At(0).Type()) {
				continue
			}
			switch r := x.role(cc.Value, nil, 0); {
			case r == "CB_CONF" && len(cc.Args) == 3:
				rawSites = append(rawSites, &c20Site{kind: "conf", fn: fn, instr: call, swapID: cc.Args[0], txHex: cc.Args[1], err: cc.Args[2]})
			case r == "CB_CSV" && len(cc.Args) == 1:
				rawSites = append(rawSites, &c20Site{kind: "csv", fn: fn, instr: call, swapID: cc.Args[0]})
			}
		}
	}
	// lift wrappers: a site whose arguments are all parameters (or constants) of a
	// plain helper is analysed at the helper's call sites
	for _, s := range rawSites {
		lifted := x.lift(s)
		if lifted == nil {
			x.sites = append(x.sites, s)
		} else {
			x.sites = append(x.sites, lifted...)
		}
	}
	sort.SliceStable(x.sites, func(i, j int) bool {
		a, b := x.sites[i], x.sites[j]
		if na, nb := w.FuncName(a.fn), w.FuncName(b.fn); na != nb {
			return na < nb
		}
		if a.instr.Block().Index != b.instr.Block().Index {
			return a.instr.Block().Index < b.instr.Block().Index
		}
		return an.InstrIndex(a.instr) < an.InstrIndex(b.instr)
	})
	ord := map[string]int{}
	for _, s := range x.sites {
		if s.kind == "conf" {
			s.errKind = x.errKind(s)
		}
		k := w.FuncName(s.fn) + " " + s.kind
		ord[k]++
		s.name = fmt.Sprintf("%s %s-report#%d", w.FuncName(s.fn), s.kind, ord[k])
		switch s.errKind {
		case "nil":
			s.name += "(err=nil)"
		case "nonnil":
			s.name += "(err!=nil)"
		case "maybe":
			s.name += "(err may be nil)"
		}
	}
}

func (x *c20X) lift(s *c20Site) []*c20Site {
	fn := s.fn
	if fn.Parent() != nil || c20ImplOf(fn, x.txw) || c20ImplOf(fn, x.obs) || len(x.callers[fn]) == 0 {
		return nil
	}
	anyParam := false
	for _, v := range []ssa.Value{s.swapID, s.txHex, s.err} {
		if v == nil {
			continue
		}
		switch c20Strip(v).(type) {
		case *ssa.Parameter:
			anyParam = true
		case *ssa.Const:
		default:
			return nil
		}
	}
	if !anyParam {
		return nil
	}
	// the helper must issue the call on every path (a nil test of the callback itself is tolerated)
	cut := map[an.Edge]bool{}
	for _, f := range x.w.Facts(fn) {
		if f.NonNum && f.Rel == "==" && ((an.IsNilConst(f.RV) && strings.HasPrefix(x.role(f.LV, nil, 0), "CB_")) || (an.IsNilConst(f.LV) && strings.HasPrefix(x.role(f.RV, nil, 0), "CB_"))) {
			cut[f.Edge] = true
		}
	}
	reach := an.ReachBlocks([]*ssa.BasicBlock{fn.Blocks[0]}, cut, map[*ssa.BasicBlock]bool{s.instr.Block(): true})
	viaOK := true
	for _, r := range an.Returns(fn) {
		if reach[r.Block()] && r.Block() != s.instr.Block() {
			viaOK = false
		}
	}
	mapArg := func(v ssa.Value, args []ssa.Value) ssa.Value {
		if v == nil {
			return nil
		}
		if p, ok := c20Strip(v).(*ssa.Parameter); ok {
			if i := c20ParamIndex(p); i >= 0 && i < len(args) {
				return args[i]
			}
		}
		return v
	}
	var out []*c20Site
	for _, call := range x.callers[fn] {
		args := call.Common().Args
		out = append(out, &c20Site{kind: s.kind, fn: call.Parent(), instr: call, swapID: mapArg(s.swapID, args), txHex: mapArg(s.txHex, args), err: mapArg(s.err, args), via: fn, viaOK: viaOK})
	}
	return out
}

// errKind classifies the error argument of a confirmation report.
func (x *c20X) errKind(s *c20Site) string {
	v := c20Strip(s.err)
	if an.IsNilConst(v) {
		return "nil"
	}
	switch t := v.(type) {
	case *ssa.Call:
		switch x.w.Info(t).Name {
		case "func:fmt.Errorf", "func:errors.New":
			return "nonnil"
		}
	case *ssa.UnOp:
		if g, ok := t.X.(*ssa.Global); ok && t.Op == token.MUL && c20GlobalIsErrorsNew(g) {
			return "nonnil"
		}
	}
	for _, f := range x.w.FactsDominating(s.instr) {
		if f.NonNum && f.Rel == "!=" && ((c20Strip(f.LV) == v && an.IsNilConst(f.RV)) || (c20Strip(f.RV) == v && an.IsNilConst(f.LV))) {
			return "nonnil"
		}
	}
	return "maybe"
}

// c20GlobalIsErrorsNew: a package-level error variable initialised once with
// errors.New / fmt.Errorf and never reassigned.
func c20GlobalIsErrorsNew(g *ssa.Global) bool {
	if g.Pkg == nil {
		return false
	}
	n, okInit := 0, false
	for _, m := range g.Pkg.Members {
		fn, ok := m.(*ssa.Function)
		if !ok {
			continue
		}
		var visit func(f *ssa.Function)
		visit = func(f *ssa.Function) {
			for _, b := range f.Blocks {
				for _, in := range b.Instrs {
					if st, ok := in.(*ssa.Store); ok && st.Addr == ssa.Value(g) {
						n++
						if c, ok := c20Strip(st.Val).(*ssa.Call); ok && f.Name() == "init" {
							if sc := c.Common().StaticCallee(); sc != nil && sc.Pkg != nil && (sc.Pkg.Pkg.Path() == "errors" && sc.Name() == "New" || sc.Pkg.Pkg.Path() == "fmt" && sc.Name() == "Errorf") {
								okInit = true
							}
						}
					}
				}
			}
			for _, a := range f.AnonFuncs {
				visit(a)
			}
		}
		visit(fn)
	}
	return n == 1 && okInit
}

// ---- R1 -----------------------------------------------------------------------------------

func (x *c20X) r1(s *c20Site) {
	c, w := x.c, x.w
	pos := w.Pos(s.instr.Pos())
	g := x.factsAt(s.instr)
	need := func(sub string, ok bool, what string) {
		c.Decide(ok, "C20.R1", s.name+" :: "+sub, pos, what+" dominates the report",
			"a confirmation report with a possibly-nil error is not dominated by "+what+". Facts that do hold: "+c20Describe(g))
	}
	txRole := x.role(s.txHex, nil, 0)
	lookupOK := func(wantRole string) {
		ok := txRole == wantRole
		var call *ssa.Call
		if ex, isEx := c20Strip(s.txHex).(*ssa.Extract); isEx {
			call, _ = ex.Tuple.(*ssa.Call)
		}
		if ok && call != nil {
			ok = c20Holds(g, c20ErrNilOf(call))
		} else if ok && call == nil {
			ok = false
		}
		c.Decide(ok, "C20.R1", s.name+" :: raw transaction", pos, "the reported raw transaction is "+wantRole+" and the lookup's error is nil on every path",
			fmt.Sprintf("the raw transaction handed to the swap is %s (want %s fetched by a call whose nil-error edge dominates the report). Facts: %s", txRole, wantRole, c20Describe(g)))
	}
	window := c20Lin(">", 0, "REG_START", 1, "REG_WINDOW", 1, "CUR", -1)
	switch w.FnRel(s.fn) {
	case "txwatcher":
		need("window", c20Holds(g, window), "the open-window test start+window-current > 0 on the registered start/window")
		need("depth", c20Holds(g, c20Lin(">=", 1, "CUR", 1, "FIRSTSEEN[txid,start,vout]", -1, "field:BlockchainRpcTxWatcher.requiredConfs", -1)),
			"the depth test current-(firstSeen-1) >= requiredConfs with firstSeen looked up for the registered (txid,start,vout)")
		lookupOK("RAWTX[txid,start,vout]")
	case "electrum":
		need("window", c20Holds(g, window), "the open-window test start+window-current > 0 on the registered start/window")
		need("depth", c20Holds(g, c20Lin(">=", 1-x.k["LiquidConfs"], "CUR", 1, "TXHEIGHT[txid]", -1)),
			fmt.Sprintf("the depth test tip-txHeight+1 >= onchain.LiquidConfs (%d) for the registered txid", x.k["LiquidConfs"]))
		need("tip>0", c20Holds(g, c20Lin(">", 0, "CUR", 1)), "tip > 0")
		need("txHeight>0", c20Holds(g, c20Lin(">", 0, "TXHEIGHT[txid]", 1)), "txHeight > 0 (Electrum reports unconfirmed transactions with height <= 0)")
		need("txHeight<=tip", c20Holds(g, c20Lin(">=", 0, "CUR", 1, "TXHEIGHT[txid]", -1)), "txHeight <= tip")
		lookupOK("RAWTX[txid]")
	case "lnd":
		need("safety limit", c20Holds(g, c20Lin(">", x.k["BitcoinCsvSafetyLimit"]-1, "confirmationEvent.blockHeight", 1, "lnd.TxWatcher).GetBlockHeight#0", -1)),
			fmt.Sprintf("the safety test current-confHeight+1 < onchain.BitcoinCsvSafetyLimit (%d)", x.k["BitcoinCsvSafetyLimit"]))
		ok := false
		for _, f := range g[0].direct {
			if an.EqIs(f, "==", "lnd.TxWatcher).GetBlockHeight#1", "nil") {
				ok = true
			}
		}
		need("height lookup", ok, "the nil-error edge of GetBlockHeight")
		c.Decide(strings.Contains(txRole, "confirmationEvent.rawTx"), "C20.R1", s.name+" :: raw transaction", pos,
			"the reported raw transaction is the one of lnd's confirmation event", "the raw transaction handed to the swap is "+txRole+", not the confirmation event's")
		x.r1LndDelegation(s)
	default:
		c.Unknown("C20.R1", s.name, pos, "confirmation report in a package whose back-end is not modelled (txwatcher, electrum, lnd)")
	}
}

// r1LndDelegation: the confirmation count is delegated to lnd: the ConfRequest
// built for this registration carries the registered txid and NumConfs = targetConfs.
func (x *c20X) r1LndDelegation(s *c20Site) {
	c, w := x.c, x.w
	top := an.EnclosingTop(s.fn)
	cons := s.name + " :: NumConfs delegation"
	n := 0
	for _, fn := range prodFuncs(w) {
		if w.FnRel(fn) != "lnd" {
			continue
		}
		for _, b := range fn.Blocks {
			for _, in := range b.Instrs {
				al, ok := in.(*ssa.Alloc)
				if !ok {
					continue
				}
				nt := an.NamedOf(al.Type())
				if nt == nil || nt.Obj().Name() != "ConfRequest" || nt.Obj().Pkg() == nil || !strings.HasSuffix(nt.Obj().Pkg().Path(), "lnrpc/chainrpc") {
					continue
				}
				n++
				pos := w.Pos(al.Pos())
				nc, ok1 := an.CompositeFieldValue(al, "NumConfs")
				tx, ok2 := an.CompositeFieldValue(al, "Txid")
				if !ok1 || !ok2 {
					c.Bad("C20.R1", cons, pos, "the confirmation request leaves NumConfs or Txid unset")
					continue
				}
				c.Decide(x.role(tx, nil, 0) == "REG_TXID", "C20.R1", s.name+" :: registered txid", pos, "lnd is asked about the registered txid", "ConfRequest.Txid is "+x.role(tx, nil, 0)+", not the registered txid")
				p, isParam := c20Strip(nc).(*ssa.Parameter)
				if !isParam {
					c.Decide(strings.Contains(w.Term(nc), "TxWatcher.targetConfs"), "C20.R1", cons, pos, "NumConfs is targetConfs", "ConfRequest.NumConfs is "+w.Term(nc)+", not TxWatcher.targetConfs")
					continue
				}
				found := false
				for _, call := range x.callers[p.Parent()] {
					if an.EnclosingTop(call.Parent()) != top {
						continue
					}
					found = true
					arg := call.Common().Args[c20ParamIndex(p)]
					c.Decide(strings.Contains(w.Term(arg), "TxWatcher.targetConfs"), "C20.R1", cons, w.Pos(call.Pos()),
						"the confirmation registration asks lnd for targetConfs confirmations", "the confirmation registration asks lnd for "+w.Term(arg)+" confirmations, not TxWatcher.targetConfs")
				}
				if !found {
					c.Unknown("C20.R1", cons, pos, "no call of "+w.FuncName(p.Parent())+" in "+w.FuncName(top))
				}
			}
		}
	}
	if n == 0 {
		c.Anchor("C20.R1: no chainrpc.ConfRequest literal in package lnd")
	}
}

// r1Wiring: the required-depth fields are fed with the onchain constants.
func (x *c20X) r1Wiring() {
	c, w := x.c, x.w
	type wf struct {
		key   string
		byArg map[string]string // concrete type of a sibling argument -> constant name
		def   []string
	}
	n := 0
	for _, f := range []wf{
		{"BlockchainRpcTxWatcher.requiredConfs", map[string]string{"ElementsBlockChainRpc": "LiquidConfs", "BitcoinBlockchainRpc": "BitcoinMinConfs"}, []string{"LiquidConfs", "BitcoinMinConfs"}},
		{"TxWatcher.targetConfs", nil, []string{"BitcoinMinConfs"}},
	} {
		ws := x.prodWriters(f.key)
		if len(ws) == 0 {
			c.Anchor("C20.R1: field %s has no production writer", f.key)
			continue
		}
		for _, st := range ws {
			p, ok := c20Strip(st.Val).(*ssa.Parameter)
			if !ok {
				c.Unknown("C20.R1", "required depth "+f.key, w.Pos(st.Pos()), "written from "+w.Term(st.Val)+", not from a constructor parameter")
				continue
			}
			for _, call := range x.callers[p.Parent()] {
				n++
				args := call.Common().Args
				arg := args[c20ParamIndex(p)]
				cons := fmt.Sprintf("required depth %s <- %s", f.key, w.FuncName(call.Parent()))
				v, isK := an.ConstInt(arg)
				if _, isConst := c20Strip(arg).(*ssa.Const); !isConst || !isK {
					c.Unknown("C20.R1", cons, w.Pos(call.Pos()), "the required depth is not a constant: "+w.Term(arg))
					continue
				}
				want := f.def
				for _, a := range args {
					if mi, ok := a.(*ssa.MakeInterface); ok {
						if nt := an.NamedOf(mi.X.Type()); nt != nil && f.byArg[nt.Obj().Name()] != "" {
							want = []string{f.byArg[nt.Obj().Name()]}
							cons += "(" + nt.Obj().Name() + ")"
						}
					}
				}
				ok := false
				for _, k := range want {
					if x.k[k] == v {
						ok = true
					}
				}
				c.Decide(ok, "C20.R1", cons, w.Pos(call.Pos()), fmt.Sprintf("required depth %d = onchain.%s", v, strings.Join(want, "|")),
					fmt.Sprintf("the watcher is constructed with required depth %d, not onchain.%s", v, strings.Join(want, "|")))
			}
		}
	}
	c.AtLeast("C20.R1", "constructor call sites that set the required depth", n, 4)
}

// ---- R2 -----------------------------------------------------------------------------------

func (x *c20X) r2(s *c20Site) {
	c, w := x.c, x.w
	pos := w.Pos(s.instr.Pos())
	g := x.factsAt(s.instr)
	need := func(sub string, ok bool, what string) {
		c.Decide(ok, "C20.R2", s.name+" :: "+sub, pos, what+" dominates the report",
			"a CSV-maturity report is not dominated by "+what+". Facts that do hold: "+c20Describe(g))
	}
	switch w.FnRel(s.fn) {
	case "txwatcher":
		need("depth", c20Holds(g, c20Lin(">=", 0, "CONFS[txid,vout]", 1, "REG_CSV", -1)), "confirmations(registered txid, vout) >= registered csv")
	case "electrum":
		need("depth", c20Holds(g, c20Lin(">=", 1, "CUR", 1, "TXHEIGHT[txid]", -1, "REG_CSV", -1)), "tip-txHeight+1 >= registered csv for the registered txid")
		need("tip>0", c20Holds(g, c20Lin(">", 0, "CUR", 1)), "tip > 0")
		need("txHeight>0", c20Holds(g, c20Lin(">", 0, "TXHEIGHT[txid]", 1)), "txHeight > 0")
		need("txHeight<=tip", c20Holds(g, c20Lin(">=", 0, "CUR", 1, "TXHEIGHT[txid]", -1)), "txHeight <= tip")
	case "lnd":
		k := 1 - x.k["BitcoinCsv"]
		ok := c20Holds(g, c20Lin(">=", k, "BlockEpoch.Height", 1, "confirmationEvent.blockHeight", -1)) ||
			c20Holds(g, c20Lin(">=", k, "lnd.TxWatcher).GetBlockHeight#0", 1, "confirmationEvent.blockHeight", -1))
		need("depth", ok, fmt.Sprintf("height-confHeight+1 >= onchain.BitcoinCsv (%d)", x.k["BitcoinCsv"]))
	default:
		c.Unknown("C20.R2", s.name, pos, "CSV report in a package whose back-end is not modelled (txwatcher, electrum, lnd)")
	}
}

// ---- R3 -----------------------------------------------------------------------------------

// cancelFeasible decides whether anybody can make ctx.Done() ready.
func (x *c20X) cancelFeasible(v ssa.Value, d int) (bool, string) {
	w := x.w
	if d > 6 {
		return true, "context origin too deep to resolve"
	}
	v = c20Strip(v)
	switch t := v.(type) {
	case *ssa.Parameter:
		sites := x.callers[t.Parent()]
		if len(sites) == 0 || x.ifaceParam(t) != "" || c20ImplOf(t.Parent(), x.txw) || c20ImplOf(t.Parent(), x.obs) {
			return true, "the context is a parameter of " + w.FuncName(t.Parent()) + " whose callers are not all known"
		}
		why := []string{}
		for _, s := range sites {
			args := s.Common().Args
			i := c20ParamIndex(t)
			if i < 0 || i >= len(args) {
				return true, "call site does not pass the context positionally"
			}
			f, y := x.cancelFeasible(args[i], d+1)
			if f {
				return true, y
			}
			why = append(why, y)
		}
		return false, strings.Join(why, "; ")
	case *ssa.FreeVar, *ssa.Alloc:
		if s := c20CellValue(t); s != nil {
			return x.cancelFeasible(s, d+1)
		}
	case *ssa.UnOp:
		if t.Op == token.MUL {
			if s := c20CellValue(t.X); s != nil {
				return x.cancelFeasible(s, d+1)
			}
		}
	case *ssa.Extract:
		call, ok := t.Tuple.(*ssa.Call)
		if !ok || t.Index != 0 {
			break
		}
		name := w.Info(call).Name
		if name != "func:context.WithCancel" {
			return true, "the context is created by " + name
		}
		parent, ok := c20Strip(call.Call.Args[0]).(*ssa.Call)
		if !ok || (w.Info(parent).Name != "func:context.Background" && w.Info(parent).Name != "func:context.TODO") {
			return true, "the parent context " + w.Term(call.Call.Args[0]) + " can be cancelled elsewhere"
		}
		at := w.Pos(call.Pos())
		if call.Referrers() == nil {
			return false, "cancel func of context.WithCancel at " + at + " is discarded"
		}
		for _, r := range *call.Referrers() {
			ex, ok := r.(*ssa.Extract)
			if !ok || ex.Index != 1 {
				continue
			}
			if f, y := x.funcValueUsed(ex, 0); f {
				return true, "cancel func of context.WithCancel at " + at + " " + y
			}
		}
		return false, "the cancel func of context.WithCancel(context.Background()) at " + at + " is never called: it is only stored in a field that no production code reads"
	}
	return true, "the context " + w.Term(v) + " is not a local context.WithCancel(context.Background())"
}

// funcValueUsed: can the func value v be invoked by anybody?
func (x *c20X) funcValueUsed(v ssa.Value, d int) (bool, string) {
	w := x.w
	if d > 4 {
		return true, "flows too far to follow"
	}
	if v.Referrers() == nil {
		return false, ""
	}
	for _, r := range *v.Referrers() {
		switch t := r.(type) {
		case *ssa.DebugRef:
		case ssa.CallInstruction:
			if t.Common().Value == v {
				return true, "is called at " + w.Pos(t.Pos())
			}
			return true, "is passed to " + w.Info(t).Name + " at " + w.Pos(t.Pos())
		case *ssa.Store:
			if t.Val != v {
				continue
			}
			switch a := t.Addr.(type) {
			case *ssa.FieldAddr:
				key := an.FieldName(a.X.Type(), a.Field)
				for _, rd := range w.FieldReaders(key) {
					if !an.IsTestSupport(w.FnRel(rd.Parent())) {
						return true, "is stored in " + key + ", which is read at " + w.Pos(rd.Pos())
					}
				}
			case *ssa.Alloc:
				if a.Referrers() != nil {
					for _, ar := range *a.Referrers() {
						switch l := ar.(type) {
						case *ssa.UnOp:
							if f, y := x.funcValueUsed(l, d+1); f {
								return true, y
							}
						case *ssa.Store, *ssa.DebugRef:
						default:
							return true, "escapes through a captured variable at " + w.Pos(ar.Pos())
						}
					}
				}
			default:
				return true, "is stored at " + w.Pos(t.Pos())
			}
		default:
			return true, "escapes at " + w.Pos(r.Pos())
		}
	}
	return false, ""
}

// infeasible returns the select-arm edges of fn that can never be taken.
func (x *c20X) infeasible(fn *ssa.Function) map[an.Edge]bool {
	if m, ok := x.infeas[fn]; ok {
		return m
	}
	m := map[an.Edge]bool{}
	x.infeas[fn] = m
	for _, b := range fn.Blocks {
		for _, in := range b.Instrs {
			sel, ok := in.(*ssa.Select)
			if !ok {
				continue
			}
			for i, st := range sel.States {
				done, ok := st.Chan.(*ssa.Call)
				if !ok || st.Dir != types.RecvOnly || x.w.Info(done).Name != "iface:context.Context.Done" {
					continue
				}
				feas, why := x.cancelFeasible(done.Call.Value, 0)
				x.notes[fn] = append(x.notes[fn], fmt.Sprintf("<-ctx.Done() arm %d at %s: feasible=%v — %s", i, x.w.Pos(sel.Pos()), feas, why))
				if feas {
					continue
				}
				// the arm is entered on `index == i`
				if sel.Referrers() == nil {
					continue
				}
				for _, r := range *sel.Referrers() {
					ex, ok := r.(*ssa.Extract)
					if !ok || ex.Index != 0 || ex.Referrers() == nil {
						continue
					}
					for _, rr := range *ex.Referrers() {
						bo, ok := rr.(*ssa.BinOp)
						if !ok || bo.Op != token.EQL {
							continue
						}
						k, isK := an.ConstInt(bo.Y)
						if !isK || k != int64(i) || bo.X != ssa.Value(ex) {
							continue
						}
						for _, ce := range an.CondUses(bo) {
							m[ce.True] = true
						}
					}
				}
			}
		}
	}
	return m
}

func c20HasReturn(b *ssa.BasicBlock) bool {
	if len(b.Instrs) == 0 {
		return false
	}
	_, ok := b.Instrs[len(b.Instrs)-1].(*ssa.Return)
	return ok
}

// rangeHeader: if v is the key/value of a `range` over a map, the block holding the Next and the map field.
func c20RangeOf(v ssa.Value) (*ssa.Next, string) {
	ex, ok := c20Strip(v).(*ssa.Extract)
	if !ok {
		return nil, ""
	}
	nx, ok := ex.Tuple.(*ssa.Next)
	if !ok {
		return nil, ""
	}
	rg, ok := nx.Iter.(*ssa.Range)
	if !ok {
		return nx, ""
	}
	if ld, ok := rg.X.(*ssa.UnOp); ok && ld.Op == token.MUL {
		if fa, ok := ld.X.(*ssa.FieldAddr); ok {
			return nx, an.FieldName(fa.X.Type(), fa.Field)
		}
	}
	return nx, ""
}

// c20FieldOfLoad: v is a load of field key?
func c20LoadedField(v ssa.Value) string {
	if ld, ok := v.(*ssa.UnOp); ok && ld.Op == token.MUL {
		if fa, ok := ld.X.(*ssa.FieldAddr); ok {
			return an.FieldName(fa.X.Type(), fa.Field)
		}
	}
	return ""
}

// deletesFrom: fn contains delete(m, …) with m a load of field key.
func (x *c20X) deletesFrom(fn *ssa.Function, key string) bool {
	for _, call := range an.Calls(fn) {
		if x.w.Info(call).Name == "builtin:delete" && len(call.Common().Args) == 2 && c20LoadedField(call.Common().Args[0]) == key {
			return true
		}
	}
	return false
}

// carrier walks backwards from `from` through phi / append / slices / array
// cells and returns the instruction that consumes `target` on the way.
func c20Carrier(from, target ssa.Value) ssa.Instruction {
	seen := map[ssa.Value]bool{}
	var rec func(v ssa.Value, user ssa.Instruction) ssa.Instruction
	rec = func(v ssa.Value, user ssa.Instruction) ssa.Instruction {
		if v == nil || seen[v] {
			return nil
		}
		seen[v] = true
		if v == target {
			return user
		}
		switch t := v.(type) {
		case *ssa.Phi:
			for _, e := range t.Edges {
				if r := rec(e, t); r != nil {
					return r
				}
			}
		case *ssa.Call:
			if b, ok := t.Call.Value.(*ssa.Builtin); ok && b.Name() == "append" {
				for _, a := range t.Call.Args {
					if r := rec(a, t); r != nil {
						return r
					}
				}
			}
		case *ssa.Slice:
			return rec(t.X, t)
		case *ssa.ChangeType:
			return rec(t.X, t)
		case *ssa.Alloc:
			if t.Referrers() == nil {
				return nil
			}
			for _, r := range *t.Referrers() {
				ia, ok := r.(*ssa.IndexAddr)
				if !ok || ia.Referrers() == nil {
					continue
				}
				for _, rr := range *ia.Referrers() {
					if st, ok := rr.(*ssa.Store); ok && st.Addr == ssa.Value(ia) {
						if x := rec(st.Val, st); x != nil {
							return x
						}
					}
				}
			}
		}
		return nil
	}
	return rec(from, nil)
}

func (x *c20X) r3() {
	c, w := x.c, x.w
	byFn := map[*ssa.Function][]*c20Site{}
	for _, s := range x.sites {
		byFn[s.fn] = append(byFn[s.fn], s)
	}
	c.AtLeast("C20.R3", "report sites", len(x.sites), 10)
	watchLists := map[string]bool{}
	for _, s := range x.sites {
		if _, key := c20RangeOf(s.swapID); key != "" {
			watchLists[key] = true
		}
	}
	nScan, nObs := 0, 0
	for _, s := range x.sites {
		fn := s.fn
		pos := w.Pos(s.instr.Pos())
		cut := map[an.Edge]bool{}
		for e := range x.infeasible(fn) {
			cut[e] = true
		}
		live := an.ReachBlocks([]*ssa.BasicBlock{fn.Blocks[0]}, cut, nil)
		if !live[s.instr.Block()] {
			c.OK("C20.R3", s.name+" :: no second report", pos, "the site is unreachable: "+strings.Join(x.notes[fn], " | "))
			continue
		}
		// (A) no report after a report. Iterations of a scan over the watch list concern other registrations.
		nx, listKey := c20RangeOf(s.swapID)
		if nx != nil {
			hb := nx.Block()
			if iff, ok := hb.Instrs[len(hb.Instrs)-1].(*ssa.If); ok {
				for _, ce := range an.CondUses(iff.Cond) {
					cut[ce.True] = true
				}
			}
		}
		after := an.ReachBlocks(s.instr.Block().Succs, cut, nil)
		var again []string
		for _, o := range byFn[fn] {
			if o == s {
				if after[s.instr.Block()] {
					again = append(again, "itself (the loop comes back without return)")
				}
				continue
			}
			if after[o.instr.Block()] || (o.instr.Block() == s.instr.Block() && an.InstrIndex(o.instr) > an.InstrIndex(s.instr)) {
				again = append(again, o.name+" at "+w.Pos(o.instr.Pos()))
			}
		}
		c.Decide(len(again) == 0, "C20.R3", s.name+" :: no second report", pos, "every feasible path after the report leaves the function without another report",
			"after this report a feasible path reaches another report for the same registration: "+strings.Join(again, ", ")+". "+strings.Join(x.notes[fn], " | "))

		call, isCall := s.instr.(*ssa.Call)
		var okE []an.Edge
		if isCall && s.via == nil {
			okE, _ = an.OkEdges(call)
		}
		// (B) scan over a watch list: the reported key is removed on success
		if nx != nil {
			nScan++
			cons := s.name + " :: removed from the watch list on success"
			switch {
			case listKey == "":
				c.Unknown("C20.R3", cons, pos, "the scanned collection is not a field of the watcher")
			case len(okE) == 0:
				c.Bad("C20.R3", cons, pos, "the result of the report is not tested, so a reported registration is never told apart from a failed one")
			default:
				x.r3Removal(s, call, okE, nx, listKey, cons)
			}
		}
		// (C) an immediate report at registration time must not be followed by insertion into a watch list
		if len(okE) > 0 && nx == nil {
			var bad []string
			for _, e := range okE {
				for b := range an.ReachBlocks([]*ssa.BasicBlock{e.To()}, cut, nil) {
					for _, in := range b.Instrs {
						if mu, ok := in.(*ssa.MapUpdate); ok && watchLists[c20LoadedField(mu.Map)] {
							bad = append(bad, c20LoadedField(mu.Map)+" at "+w.Pos(mu.Pos()))
						}
					}
				}
			}
			c.Decide(len(bad) == 0, "C20.R3", s.name+" :: not re-armed after success", pos, "after a successful report the registration is not inserted into a scanned watch list",
				"after a successful report the registration is still inserted into "+strings.Join(bad, ", ")+" and will be reported again by the scan")
		}
		// (D) observers tell the subscriber that they reported
		if fn.Name() == c20ObsCB && c20ImplOf(fn, x.obs) {
			nObs++
			okAll := true
			for b := range an.ReachBlocks([]*ssa.BasicBlock{s.instr.Block()}, cut, nil) {
				if !c20HasReturn(b) {
					continue
				}
				r := b.Instrs[len(b.Instrs)-1].(*ssa.Return)
				k, isK := r.Results[0].(*ssa.Const)
				if !isK || k.Value == nil || k.Value.Kind() != constant.Bool || !constant.BoolVal(k.Value) {
					okAll = false
				}
			}
			c.Decide(okAll, "C20.R3", s.name+" :: observer returns true", pos, "every return after the report yields true, so the subscriber can deregister",
				"a return after the report does not yield the constant true: the subscriber keeps the observer and it reports again on the next block")
		}
	}
	c.AtLeast("C20.R3", "watch-list scans with a report", nScan, 1)
	c.AtLeast("C20.R3", "observer report sites", nObs, 2)
	fns := make([]*ssa.Function, 0, len(x.notes))
	for fn := range x.notes {
		fns = append(fns, fn)
	}
	sort.Slice(fns, func(i, j int) bool { return w.FuncName(fns[i]) < w.FuncName(fns[j]) })
	for _, fn := range fns {
		c.Note("C20.R3", w.FuncName(fn)+" ctx.Done() arms", w.Pos(fn.Pos()), strings.Join(x.notes[fn], " | "))
	}
	x.r3Subscribers()
}

// r3Removal: every path from a success edge of the report passes the instruction
// that hands the reported key to the removal call, and the removal call lies on
// every path to the function's returns.
func (x *c20X) r3Removal(s *c20Site, call *ssa.Call, okE []an.Edge, nx *ssa.Next, listKey, cons string) {
	c, w := x.c, x.w
	fn := s.fn
	pos := w.Pos(s.instr.Pos())
	key := c20Strip(s.swapID)
	header := nx.Block()
	var carrier ssa.Instruction
	var removal ssa.CallInstruction
	for _, cand := range an.Calls(fn) {
		cc := cand.Common()
		switch {
		case w.Info(cand).Name == "builtin:delete" && len(cc.Args) == 2 && c20LoadedField(cc.Args[0]) == listKey && c20Strip(cc.Args[1]) == key:
			carrier, removal = cand, cand
		case cc.StaticCallee() != nil && w.InModule(cc.StaticCallee()) && x.deletesFrom(cc.StaticCallee(), listKey):
			for _, a := range cc.Args {
				if k := c20Carrier(a, key); k != nil {
					carrier, removal = k, cand
				} else if c20Strip(a) == key {
					carrier, removal = cand, cand
				}
			}
		}
		if removal != nil {
			break
		}
	}
	if removal == nil {
		c.Bad("C20.R3", cons, pos, "the reported key never reaches a call that deletes from "+listKey+": the registration stays in the watch list and is reported again on every new block")
		return
	}
	// (i) success edge -> carrier within the iteration
	ok1 := true
	for _, e := range okE {
		reach := an.ReachBlocks([]*ssa.BasicBlock{e.To()}, nil, map[*ssa.BasicBlock]bool{carrier.Block(): true})
		for b := range reach {
			if b == carrier.Block() {
				continue
			}
			if b == header || c20HasReturn(b) {
				ok1 = false
			}
		}
	}
	// (ii) removal call on every path to a return (when it is not the carrier itself)
	ok2 := true
	if removal != carrier {
		reach := an.ReachBlocks([]*ssa.BasicBlock{fn.Blocks[0]}, nil, map[*ssa.BasicBlock]bool{removal.Block(): true})
		for b := range reach {
			if b != removal.Block() && c20HasReturn(b) {
				ok2 = false
			}
		}
	}
	c.Decide(ok1 && ok2, "C20.R3", cons, pos, "on the success edge the reported key is handed to "+w.Info(removal).Name+", which deletes it from "+listKey+" before the scan returns",
		fmt.Sprintf("a path from the success edge of the report avoids the removal (key collected on every success path: %v; removal call on every path to return: %v)", ok1, ok2))
}

// r3Subscribers: loops that drive TXObserver.Callback remove the observer when it reported successfully.
func (x *c20X) r3Subscribers() {
	c, w := x.c, x.w
	n := 0
	for _, fn := range prodFuncs(w) {
		for _, ci := range an.Calls(fn) {
			call, ok := ci.(*ssa.Call)
			if !ok || !w.IsIfaceCall(w.Info(call), "electrum", "TXObserver", c20ObsCB) {
				continue
			}
			n++
			cons := w.FuncName(fn) + " :: observer deregistered after (true, nil)"
			pos := w.Pos(call.Pos())
			obsV := call.Call.Value
			listKey := ""
			if ld, ok := obsV.(*ssa.UnOp); ok && ld.Op == token.MUL {
				if ia, ok := ld.X.(*ssa.IndexAddr); ok {
					listKey = c20LoadedField(ia.X)
				}
			}
			if listKey == "" {
				c.Unknown("C20.R3", cons, pos, "the observer does not come from indexing a field of the subscriber")
				continue
			}
			// removal calls: static callees that rewrite the list field and receive this observer
			removal := map[*ssa.BasicBlock]bool{}
			for _, cand := range an.Calls(fn) {
				g := cand.Common().StaticCallee()
				if g == nil || !w.InModule(g) {
					continue
				}
				writes := false
				for _, st := range x.prodWriters(listKey) {
					if st.Parent() == g {
						writes = true
					}
				}
				passes := false
				for _, a := range cand.Common().Args {
					if a == obsV {
						passes = true
					}
				}
				if writes && passes {
					removal[cand.Block()] = true
				}
			}
			if len(removal) == 0 {
				c.Bad("C20.R3", cons, pos, "no call in this loop passes the observer to a function that rewrites "+listKey+": an observer that reported stays registered and reports again on the next block")
				continue
			}
			var flagV, errV ssa.Value
			for _, v := range an.ResultValues(call, 0) {
				flagV = v
			}
			for _, v := range an.ResultValues(call, 1) {
				errV = v
			}
			tE, fE := map[an.Edge]bool{}, map[an.Edge]bool{}
			if flagV != nil {
				t, f := an.BoolEdges(flagV)
				for _, e := range t {
					tE[e] = true
				}
				for _, e := range f {
					fE[e] = true
				}
			}
			okE, failE := map[an.Edge]bool{}, map[an.Edge]bool{}
			if errV != nil {
				o, f := an.OkEdges(call)
				for _, e := range o {
					okE[e] = true
				}
				for _, e := range f {
					failE[e] = true
				}
			}
			// explore (block, reported?, err nil?, known bool phis) — 0 unknown, 1 yes, 2 no.
			// Bool phis fed by constants (the shape && / || compile to) are tracked so
			// that `done := err == nil || …; if done {…}` is followed consistently.
			type st struct {
				b    *ssa.BasicBlock
				r, e int
				phis string
			}
			seen := map[st]bool{}
			var bad []string
			var dfs func(s st, path []int)
			dfs = func(s st, path []int) {
				if seen[s] {
					return
				}
				seen[s] = true
				known := c20ParsePhis(s.phis)
				only := -1 // the only successor consistent with a known phi condition
				if iff, ok := s.b.Instrs[len(s.b.Instrs)-1].(*ssa.If); ok {
					cond, neg := iff.Cond, false
					for {
						u, ok := cond.(*ssa.UnOp)
						if !ok || u.Op != token.NOT {
							break
						}
						cond, neg = u.X, !neg
					}
					if v, ok := known[cond.Name()]; ok {
						if v != neg {
							only = 0
						} else {
							only = 1
						}
					}
				}
				for i, to := range s.b.Succs {
					if only >= 0 && i != only {
						continue
					}
					ed := an.Edge{From: s.b, Idx: i}
					n := st{to, s.r, s.e, ""}
					switch {
					case tE[ed]:
						if s.r == 2 {
							continue
						}
						n.r = 1
					case fE[ed]:
						if s.r == 1 {
							continue
						}
						n.r = 2
					}
					switch {
					case okE[ed]:
						if s.e == 2 {
							continue
						}
						n.e = 1
					case failE[ed]:
						if s.e == 1 {
							continue
						}
						n.e = 2
					}
					nk := map[string]bool{}
					for k, v := range known {
						nk[k] = v
					}
					for j, p := range to.Preds {
						if p != s.b {
							continue
						}
						for _, in := range to.Instrs {
							phi, ok := in.(*ssa.Phi)
							if !ok {
								break
							}
							delete(nk, phi.Name())
							if k, ok := phi.Edges[j].(*ssa.Const); ok && k.Value != nil && k.Value.Kind() == constant.Bool {
								nk[phi.Name()] = constant.BoolVal(k.Value)
							}
						}
						break
					}
					n.phis = c20FormatPhis(nk)
					if removal[to] {
						continue
					}
					if to == call.Block() || c20HasReturn(to) {
						if n.r != 2 && n.e != 2 {
							bad = append(bad, fmt.Sprintf("via b%v to b%d", append(append([]int{}, path...), s.b.Index), to.Index))
						}
						continue
					}
					dfs(n, append(path, s.b.Index))
				}
			}
			dfs(st{call.Block(), 0, 0, ""}, nil)
			c.Decide(len(bad) == 0, "C20.R3", cons, pos, "every path on which the observer reported (true, nil) passes the call that removes it from "+listKey+" before the next observer / return",
				"a path on which the observer may have reported successfully reaches the next iteration or a return without deregistering it: "+strings.Join(bad, "; "))
		}
	}
	c.AtLeast("C20.R3", "loops driving TXObserver.Callback", n, 1)
}

func c20FormatPhis(m map[string]bool) string {
	var ks []string
	for k, v := range m {
		ks = append(ks, fmt.Sprintf("%s=%v", k, v))
	}
	sort.Strings(ks)
	return strings.Join(ks, ",")
}

func c20ParsePhis(s string) map[string]bool {
	m := map[string]bool{}
	if s == "" {
		return m
	}
	for _, kv := range strings.Split(s, ",") {
		if i := strings.LastIndex(kv, "="); i > 0 {
			m[kv[:i]] = kv[i+1:] == "true"
		}
	}
	return m
}

// ---- R4 -----------------------------------------------------------------------------------

func (x *c20X) r4(conf []*c20Site) {
	c, w := x.c, x.w
	open := c20Lin(">", 0, "REG_START", 1, "REG_WINDOW", 1, "CUR", -1)
	fns := map[*ssa.Function]bool{}
	var order []*ssa.Function
	for _, s := range conf {
		rel := w.FnRel(s.fn)
		if s.errKind != "nonnil" && (rel == "txwatcher" || rel == "electrum") && !fns[s.fn] {
			fns[s.fn] = true
			order = append(order, s.fn)
		}
	}
	for _, fn := range order {
		failing := map[*ssa.BasicBlock]bool{}
		for _, s := range conf {
			if s.fn == fn && s.errKind == "nonnil" && (s.via == nil || s.viaOK) {
				failing[s.instr.Block()] = true
			}
		}
		cut := x.infeasible(fn)
		cons := w.FuncName(fn) + " :: window closed (current >= start+window) ⇒ failure report"
		found := false
		for _, b := range fn.Blocks {
			iff, ok := b.Instrs[len(b.Instrs)-1].(*ssa.If)
			if !ok {
				continue
			}
			ft, ff := w.FactsOfIf(iff)
			for _, pr := range [][2]an.Fact{{ft, ff}, {ff, ft}} {
				closedEdge, sibling := pr[0], pr[1]
				// the sibling edge is only taken with the window open, so a closed window takes closedEdge
				if !x.implies(sibling, open) {
					continue
				}
				found = true
				reach := an.ReachBlocks([]*ssa.BasicBlock{closedEdge.Edge.To()}, cut, failing)
				var bad []string
				for rb := range reach {
					if failing[rb] {
						continue
					}
					if c20HasReturn(rb) {
						bad = append(bad, fmt.Sprintf("return in b%d", rb.Index))
					}
					if rb == b {
						bad = append(bad, "back to the window test")
					}
				}
				sort.Strings(bad)
				c.Decide(len(bad) == 0, "C20.R4", cons, w.Pos(iff.Cond.Pos()), "every feasible path from the closed-window edge issues the confirmation callback with a non-nil error before returning",
					"the taker gets silence instead of an error: from the closed-window edge a path leaves without a failure report ("+strings.Join(bad, ", ")+")")
			}
		}
		if !found {
			c.Bad("C20.R4", cons, w.Pos(fn.Pos()),
				"no branch of this function has an edge that is only taken while start+window-current > 0 holds for the registered start/window, so a closed window is never told apart. Branch facts: "+c20DescribeNorm(x, fn))
		}
	}
	c.AtLeast("C20.R4", "RPC/Electrum functions with a confirmation report that may carry a nil error", len(order), 2)
}

func c20DescribeNorm(x *c20X, fn *ssa.Function) string {
	var fs []an.Fact
	for _, f := range x.w.Facts(fn) {
		fs = append(fs, x.norm(f, nil))
	}
	return an.DescribeFacts(fs)
}
