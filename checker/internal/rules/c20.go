package rules

import (
	"fmt"
	"go/constant"
	"go/token"
	"go/types"
	"sort"
	"strings"

	"golang.org/x/tools/go/ssa"

	"psv/internal/an"
)

// C20 — chain watchers report confirmation / CSV maturity only when true.
//
// Everything is anchored in the two callback registrations of the
// swap.TxWatcher interface: a *report site* is a dynamic call through a func
// value that flows (fields, constructors, call sites) from the parameter of an
// implementation of AddConfirmationCallback / AddCsvCallback. The values that
// guards compare are named by *role*: where they come from relative to the
// registration call (parameters of AddWaitForConfirmationTx / AddWaitForCsvTx
// implementations, followed through constructor parameters, struct fields and
// helper arguments), so parameter positions, field names and local names do not
// matter while a swapped argument does.

func init() {
	Register(&Prop{
		ID:   "C20",
		Expl: "Finds every report site of the three chain-watcher back-ends (dynamic calls through func values that flow from the parameter of an implementation of swap.TxWatcher.AddConfirmationCallback / AddCsvCallback; wrappers are lifted to their call sites) and decides on the SSA CFG, with guard operands named by their origin in the registration call (role-normalised linear facts, bool helpers expanded into the conditions of their true returns): (R1) every confirmation report whose error argument may be nil is dominated by the open-window test start+window-current > 0 and by the back-end's depth test with the exact constants (+1, >=, required depth; RPC first-seen lookup on the registered (txid,start,vout); Electrum tip>0, txHeight>0, txHeight<=tip; LND safety limit and NumConfs delegation), by the nil-error edge of the raw-transaction lookup, and the required depths are wired to the onchain constants; (R2) every CSV report is dominated by confirmations >= csv with csv flowing from the registration (RPC/Electrum) or equal to onchain.BitcoinCsv (LND) and the depth lookup made on the registered txid/vout; (R3) at most once: on every feasible CFG path no report site is reachable after a report site (goroutine loops), the reported key of a watch-list scan reaches the removal call on the success edge, a successful immediate report never reaches the watch-list insertion, observers return true after reporting and the subscriber deregisters on (true, nil); a select arm on ctx.Done() is infeasible exactly when the context comes from context.WithCancel(context.Background()/TODO()) and the cancel func is neither called nor readable (stored only in a field that production code never reads); (R4) in the RPC and Electrum back-ends the failing edge of the window test reaches, on every feasible path before any return or re-evaluation, a confirmation report whose error is definitely non-nil. (R6) the CSV reports of one watcher are serialised: the call sites of its CSV callback (grouped by the struct field the func value is loaded from) all run while one common lock is certainly held (locks acquired in the function or held by every synchronous caller, from the C18 lock engine; a go statement starts with none), a site that holds none of the locks all other sites hold is reported with both sites named, and a scan that selects an entry, reports it and removes it later (RPC HandleCsvTx, the Electrum subscriber loop) holds one lock across the three steps whenever it can be started from more than one goroutine / entry point; (R7) monotone tip: for every integer field that a GetBlockHeight implementation reports, every store of a notification-derived height is reached only on ways (back through predecessor edges, bool helpers and the callers of a setter helper) that establish new > old or old <= 0, and the bool result of the accepting function - the flag that makes the caller evaluate the observers - can be true only behind that store. Guards and reports may sit in in-module helpers: facts of bool- and error-returning helpers are instantiated with the arguments of the call, a report inside a helper is judged under the facts that hold at every call of that helper, and the path rules R3/R4 also see the calls of helpers that contain a report. A VIOLATION is reported only when every dominating condition was interpreted and the required fact is positively absent (or a CFG path positively exists); conditions the rules cannot look into (non-expandable helper results, bool variables) make the obligation undecided instead. The quantifier is over all report sites and all CFG paths of the watcher functions, i.e. all block sequences the watcher can be driven through.",
		NotD: "Reorganisations, out-of-sync or stale RPC answers, that GetTxOut / Electrum history / lnd notifications tell the truth; the internals of IsTxInMempoolOrRange and getHeight (anchored by callee identity only); that the swap id passed to the callback is the registered one; uint32 wrap-around of start+window; duplicate registrations of one swap (each registration is reported at most once, two registrations may report twice); a failed callback (non-nil result) is retried by design in the scanning back-ends; R4 is not claimed for LND (its window is the constant safety limit and lnd/txwatcher.go has no failure form of the report); de-duplication maps of the LND registrations; R6 merges all instances of a lock class and does not examine channels or atomics as serialisation; R7 does not decide that the header height itself is truthful, nor tips that are not struct fields of the watcher (the RPC and LND back-ends ask the node on every call).",
		Run:  runC20,
	})
}

const (
	c20ConfReg  = "AddWaitForConfirmationTx"
	c20CsvReg   = "AddWaitForCsvTx"
	c20ConfCB   = "AddConfirmationCallback"
	c20CsvCB    = "AddCsvCallback"
	c20ObsCB    = "Callback"
	c20FnLookup = "func:(*txwatcher.CommonBlockchainObserver).IsTxInMempoolOrRange"
	c20FnRawTx  = "iface:electrum.RPC.GetRawTransaction"
	c20FnTxOut  = "iface:txwatcher.BlockchainRpc.GetTxOut"
	c20HashPkg  = "github.com/btcsuite/btcd/chaincfg/chainhash"
)

// parameter roles of the registration methods (index 0 is the receiver)
var c20RegRoles = map[string][]string{
	c20ConfReg: {"", "REG_SWAPID", "REG_TXID", "REG_VOUT", "REG_START", "REG_WINDOW", "REG_SCRIPT"},
	c20CsvReg:  {"", "REG_SWAPID", "REG_TXID", "REG_VOUT", "REG_START", "REG_CSV", "REG_SCRIPT"},
	c20ConfCB:  {"", "CB_CONF"},
	c20CsvCB:   {"", "CB_CSV"},
}

type c20X struct {
	inHelper    map[*ssa.Function]bool // helpers whose results are being named (recursion guard)
	r1Rule      string                 // rule id the R1 obligations are reported under
	depthOnly   bool                   // only the confirmation-depth obligations of R1
	c           *an.Check
	w           *an.World
	txw         *types.Named // swap.TxWatcher
	obs         *types.Named // electrum.TXObserver
	callers     map[*ssa.Function][]ssa.CallInstruction
	memo        map[ssa.Value]string
	busy        map[ssa.Value]bool
	k           map[string]int64    // onchain constants
	merges      map[string][]string // merged term name -> leaf roles
	opaqueTerms map[string]bool     // operands that are results of in-module helpers the linearizer cannot look into
	infeas      map[*ssa.Function]map[an.Edge]bool
	notes       map[*ssa.Function][]string
	sites       []*c20Site
}

type c20Site struct {
	kind    string // conf | csv
	fn      *ssa.Function
	instr   ssa.CallInstruction
	swapID  ssa.Value
	txHex   ssa.Value
	err     ssa.Value
	errKind string // nil | nonnil | maybe (conf only)
	via     *ssa.Function
	viaOK   bool
	name    string
	// proxy: the site is a call of an in-module helper that contains the report
	// (under); must = the helper issues that report on every path.
	proxy bool
	under *c20Site
	must  bool
	raw   ssa.CallInstruction // for a lifted site: the dynamic call inside the wrapper
}

// dyn returns the dynamic call of the callback itself.
func (s *c20Site) dyn() ssa.CallInstruction {
	if s.raw != nil {
		return s.raw
	}
	return s.instr
}

// real returns the report a proxy stands for.
func (s *c20Site) real() *c20Site {
	for s.under != nil {
		s = s.under
	}
	return s
}

func runC20(c *an.Check) {
	c.Rule("C20.R1", "every confirmation report that may carry a nil error is dominated by the open-window test, the back-end's exact depth test and the nil-error edge of the raw-tx lookup; required depths are the onchain constants")
	c.Rule("C20.R2", "every CSV report is dominated by confirmations >= csv (csv from the registration, or onchain.BitcoinCsv for LND) computed for the registered txid/vout")
	c.Rule("C20.R3", "at most once: after a report no report is reachable on a feasible path; scans remove the reported key / observer on success; ctx.Done() arms are feasible only if someone can call the cancel func")
	c.Rule("C20.R6", "CSV reports of one watcher are serialised: all call sites of its CSV callback run under one common lock, and a scan that selects, reports and only later removes holds a lock across all three when it can run concurrently with itself")
	c.Rule("C20.R7", "monotone tip: every store of a notification-derived height into the field GetBlockHeight reports is reached only on edges where new > old (or old <= 0), and the accept flag that triggers the observers is true only after such a store")
	c.Rule("C20.R4", "RPC and Electrum: the failing edge of the window test always reaches a confirmation report with a non-nil error before returning")
	x, conf, csv, success := c20Setup(c, "C20.R1", false)
	if x == nil {
		return
	}
	for _, s := range success {
		x.r1(s)
	}
	x.r1Wiring()
	for _, s := range csv {
		x.r2(s)
	}
	x.r3()
	x.r4(conf)
	x.r5()
	x.r6(csv)
	x.r7()
}

// c20DepthRule runs exactly the confirmation-depth obligations of C20.R1 (all three
// back-ends: depth test with the exact constants and operands obtained from the
// server in this invocation, Electrum height sanity, LND delegation, required-depth
// wiring) and reports them under the given rule id, so that another property can
// claim its depth clause with them. Every call builds its own state from c.W; the
// vacuity floors apply per call.
func c20DepthRule(c *an.Check, rule string) {
	if _, ok := c.RuleText[rule]; !ok {
		c.Rule(rule, "every confirmation report that may carry a nil error is dominated by the back-end's exact depth test, computed from a height obtained from the server in the same callback invocation; required depths are the onchain constants")
	}
	x, _, _, success := c20Setup(c, rule, true)
	if x == nil {
		return
	}
	for _, s := range success {
		x.r1(s)
	}
	x.r1Wiring()
}

// c20Setup resolves the anchors, finds the report sites and applies the per-back-end
// vacuity floors; x is nil when the check cannot run (anchors are recorded on c).
func c20Setup(c *an.Check, r1Rule string, depthOnly bool) (x *c20X, conf, csv, success []*c20Site) {
	w := c.W
	x = &c20X{c: c, w: w, r1Rule: r1Rule, depthOnly: depthOnly, inHelper: map[*ssa.Function]bool{}, callers: map[*ssa.Function][]ssa.CallInstruction{}, memo: map[ssa.Value]string{}, busy: map[ssa.Value]bool{},
		k: map[string]int64{}, merges: map[string][]string{}, opaqueTerms: map[string]bool{}, infeas: map[*ssa.Function]map[an.Edge]bool{}, notes: map[*ssa.Function][]string{}}
	x.txw, x.obs = w.Named("swap", "TxWatcher"), w.Named("electrum", "TXObserver")
	if x.txw == nil || x.obs == nil {
		c.Anchor("swap.TxWatcher / electrum.TXObserver do not resolve")
		return nil, nil, nil, nil
	}
	for _, m := range []string{c20ConfReg, c20CsvReg, c20ConfCB, c20CsvCB} {
		if !c20HasMethod(x.txw, m) {
			c.Anchor("swap.TxWatcher.%s does not resolve", m)
			return nil, nil, nil, nil
		}
	}
	if !c20HasMethod(x.obs, c20ObsCB) {
		c.Anchor("electrum.TXObserver.Callback does not resolve")
		return nil, nil, nil, nil
	}
	// frozen anchors (callee / field identities used as term names below): a rename
	// must end in "cannot decide", not in a violation
	okA := true
	if w.Func("txwatcher", "(*CommonBlockchainObserver).IsTxInMempoolOrRange") == nil {
		c.Anchor("function txwatcher.(*CommonBlockchainObserver).IsTxInMempoolOrRange does not resolve")
		okA = false
	}
	nHL := 0
	for _, fn := range prodFuncs(w) {
		if x.isHeightLookup(fn) {
			nHL++
		}
	}
	if nHL == 0 {
		c.Anchor("no function of package electrum maps (history, *chainhash.Hash) to (BlockHeight, bool) — the transaction-height lookup (getHeight) does not resolve")
		okA = false
	}
	for _, m := range []string{c20FnRawTx, c20FnTxOut} {
		if !ifaceMethodExists(w, m) {
			c.Anchor("interface method %s does not resolve", m)
			okA = false
		}
	}
	for _, f := range [][3]string{{"txwatcher", "BlockchainRpcTxWatcher", "requiredConfs"}, {"txwatcher", "TxOutResp", "Confirmations"},
		{"lnd", "TxWatcher", "targetConfs"}, {"lnd", "confirmationEvent", "blockHeight"}, {"lnd", "confirmationEvent", "rawTx"}} {
		if !c20FieldExists(w, f[0], f[1], f[2]) {
			c.Anchor("field %s.%s.%s does not resolve", f[0], f[1], f[2])
			okA = false
		}
	}
	if !okA {
		return nil, nil, nil, nil
	}
	for _, n := range []string{"BitcoinCsv", "BitcoinCsvSafetyLimit", "BitcoinMinConfs", "LiquidConfs"} {
		v, ok := c20Const(w, "onchain", n)
		if !ok {
			c.Anchor("constant onchain.%s does not resolve", n)
			return nil, nil, nil, nil
		}
		x.k[n] = v
	}
	for _, fn := range prodFuncs(w) {
		for _, call := range an.Calls(fn) {
			if f := call.Common().StaticCallee(); f != nil && w.InModule(f) {
				x.callers[f] = append(x.callers[f], call)
			}
		}
	}
	x.findSites()
	// R1 / R2 judge the reports where they are issued; R3 / R4 also see the calls of
	// helpers that contain a report (proxies)
	confBE, csvBE := map[string]bool{}, map[string]bool{}
	for _, s := range x.sites {
		if s.kind == "conf" {
			conf = append(conf, s)
			if s.errKind != "nonnil" && !s.proxy {
				success = append(success, s)
				confBE[w.FnRel(s.fn)] = true
			}
		} else if !s.proxy {
			csv = append(csv, s)
			csvBE[w.FnRel(s.fn)] = true
		}
	}
	// vacuity: one instance per back-end (package of the watcher implementation), not per call site
	okV := true
	for _, be := range []string{"txwatcher", "electrum", "lnd"} {
		if !confBE[be] {
			c.Anchor("C20: no confirmation report that may carry a nil error found in back-end %s (rule would pass vacuously)", be)
			okV = false
		}
		if !csvBE[be] {
			c.Anchor("C20: no CSV report found in back-end %s (rule would pass vacuously)", be)
			okV = false
		}
	}
	if !okV {
		return nil, nil, nil, nil
	}
	return x, conf, csv, success
}

// ---- small lookups -----------------------------------------------------------------------

func c20HasMethod(n *types.Named, m string) bool {
	it, ok := n.Underlying().(*types.Interface)
	if !ok {
		return false
	}
	for i := 0; i < it.NumMethods(); i++ {
		if it.Method(i).Name() == m {
			return true
		}
	}
	return false
}

func c20FieldExists(w *an.World, rel, typ, field string) bool {
	n := w.Named(rel, typ)
	if n == nil {
		return false
	}
	st, ok := n.Underlying().(*types.Struct)
	if !ok {
		return false
	}
	for i := 0; i < st.NumFields(); i++ {
		if st.Field(i).Name() == field {
			return true
		}
	}
	return false
}

func c20Const(w *an.World, rel, name string) (int64, bool) {
	p := w.ByRel[rel]
	if p == nil {
		return 0, false
	}
	o, ok := p.Types.Scope().Lookup(name).(*types.Const)
	if !ok || o.Val().Kind() != constant.Int {
		return 0, false
	}
	return constant.Int64Val(o.Val())
}

// implOf: fn is the implementation of method fn.Name() of the interface.
func c20ImplOf(fn *ssa.Function, iface *types.Named) bool {
	if fn == nil || fn.Signature.Recv() == nil || fn.Parent() != nil || !c20HasMethod(iface, fn.Name()) {
		return false
	}
	it := iface.Underlying().(*types.Interface)
	rt := fn.Signature.Recv().Type()
	if types.Implements(rt, it) {
		return true
	}
	if _, isPtr := rt.(*types.Pointer); !isPtr {
		return types.Implements(types.NewPointer(rt), it)
	}
	return false
}

func c20ParamIndex(p *ssa.Parameter) int {
	for i, q := range p.Parent().Params {
		if q == p {
			return i
		}
	}
	return -1
}

// ifaceParam: role of a parameter of a swap.TxWatcher / electrum.TXObserver implementation.
func (x *c20X) ifaceParam(p *ssa.Parameter) string {
	fn, idx := p.Parent(), c20ParamIndex(p)
	if rs, ok := c20RegRoles[fn.Name()]; ok && idx > 0 && idx < len(rs) && c20ImplOf(fn, x.txw) {
		return rs[idx]
	}
	if fn.Name() == c20ObsCB && idx == 2 && c20ImplOf(fn, x.obs) && c20IsInt(p.Type()) {
		return "CUR"
	}
	return ""
}

// isHeightLookup identifies the Electrum transaction-height lookup structurally
// (today electrum.getHeight): an electrum function that takes a *chainhash.Hash
// and returns (electrum.BlockHeight, bool).
func (x *c20X) isHeightLookup(fn *ssa.Function) bool {
	if fn == nil || fn.Blocks == nil || x.w.FnRel(fn) != "electrum" || c20HashArg(fn) < 0 {
		return false
	}
	res := fn.Signature.Results()
	if res.Len() != 2 {
		return false
	}
	n := an.NamedOf(res.At(0).Type())
	b, isB := res.At(1).Type().Underlying().(*types.Basic)
	return n != nil && n.Obj().Name() == "BlockHeight" && n.Obj().Pkg() != nil && strings.HasSuffix(n.Obj().Pkg().Path(), "/electrum") && isB && b.Kind() == types.Bool
}

// c20HashArg: index (in Params / static Args) of the *chainhash.Hash parameter.
func c20HashArg(fn *ssa.Function) int {
	if fn == nil {
		return -1
	}
	for i, p := range fn.Params {
		if pt, ok := p.Type().(*types.Pointer); ok {
			if n := an.NamedOf(pt); n != nil && n.Obj().Name() == "Hash" && n.Obj().Pkg() != nil && n.Obj().Pkg().Path() == c20HashPkg {
				return i
			}
		}
	}
	return -1
}

func c20IsInt(t types.Type) bool {
	b, ok := t.Underlying().(*types.Basic)
	return ok && b.Info()&types.IsInteger != 0
}

func c20IsReg(r string) bool {
	return strings.HasPrefix(r, "REG_") || strings.HasPrefix(r, "CB_") || r == "CUR"
}

func c20Tag(r string) string { return strings.ToLower(strings.TrimPrefix(r, "REG_")) }

func c20Strip(v ssa.Value) ssa.Value {
	for {
		switch t := v.(type) {
		case *ssa.ChangeType:
			v = t.X
		case *ssa.Convert:
			v = t.X
		case *ssa.MakeInterface:
			v = t.X
		case *ssa.ChangeInterface:
			v = t.X
		default:
			return v
		}
	}
}

// singleStore returns the only value stored into a local cell (directly or
// through the closure binding of a free variable).
func c20CellValue(addr ssa.Value) ssa.Value {
	switch a := addr.(type) {
	case *ssa.FreeVar:
		fn := a.Parent()
		for i, fv := range fn.FreeVars {
			if fv != a || fn.Parent() == nil {
				continue
			}
			for _, b := range fn.Parent().Blocks {
				for _, in := range b.Instrs {
					if mc, ok := in.(*ssa.MakeClosure); ok && mc.Fn == fn && i < len(mc.Bindings) {
						return c20CellValue(mc.Bindings[i])
					}
				}
			}
		}
	case *ssa.Alloc:
		if a.Referrers() == nil {
			return nil
		}
		var vals []ssa.Value
		for _, r := range *a.Referrers() {
			if s, ok := r.(*ssa.Store); ok && s.Addr == a {
				vals = append(vals, s.Val)
			}
		}
		if len(vals) == 1 {
			return vals[0]
		}
	}
	return nil
}

// ---- roles ----------------------------------------------------------------------------

type c20Bind map[*ssa.Parameter]ssa.Value

// role names a value by its origin; falls back to the engine's term name.
func (x *c20X) role(v ssa.Value, bind c20Bind, d int) string {
	if v == nil {
		return "?"
	}
	if d > 12 {
		return x.w.Term(v)
	}
	if bind == nil {
		if r, ok := x.memo[v]; ok {
			return r
		}
		if x.busy[v] {
			return x.w.Term(v)
		}
		x.busy[v] = true
		r := x.role1(v, nil, d)
		delete(x.busy, v)
		x.memo[v] = r
		return r
	}
	return x.role1(v, bind, d)
}

func (x *c20X) roles(vs []ssa.Value, bind c20Bind, d int) string {
	var out []string
	for _, v := range vs {
		out = append(out, c20Tag(x.role(v, bind, d)))
	}
	return strings.Join(out, ",")
}

func (x *c20X) role1(v ssa.Value, bind c20Bind, d int) string {
	w := x.w
	switch t := v.(type) {
	case *ssa.ChangeType, *ssa.Convert, *ssa.MakeInterface, *ssa.ChangeInterface:
		return x.role(c20Strip(v), bind, d)
	case *ssa.Const:
		if i, ok := an.ConstInt(t); ok && c20IsInt(t.Type()) {
			return fmt.Sprintf("K:%d", i)
		}
	case *ssa.Parameter:
		if a, ok := bind[t]; ok {
			return x.role(a, nil, d+1)
		}
		if r := x.ifaceParam(t); r != "" {
			return r
		}
		idx := c20ParamIndex(t)
		set := map[string]bool{}
		for _, site := range x.callers[t.Parent()] {
			if args := site.Common().Args; idx >= 0 && idx < len(args) {
				set[x.role(args[idx], nil, d+1)] = true
			}
		}
		if len(set) == 1 {
			for r := range set {
				return r
			}
		}
		return fmt.Sprintf("param#%d", idx)
	case *ssa.FreeVar:
		if b := c20CellValue(t); b != nil {
			return x.role(b, bind, d+1)
		}
	case *ssa.Field:
		return x.fieldRole(an.FieldName(t.X.Type(), t.Field), t.X, v, bind, d)
	case *ssa.UnOp:
		if t.Op != token.MUL {
			break
		}
		switch a := t.X.(type) {
		case *ssa.FieldAddr:
			return x.fieldRole(an.FieldName(a.X.Type(), a.Field), a.X, v, bind, d)
		case *ssa.Alloc, *ssa.FreeVar:
			if s := c20CellValue(a); s != nil {
				return x.role(s, bind, d+1)
			}
		case *ssa.UnOp, *ssa.Extract, *ssa.Call, *ssa.Parameter:
			// *p where p is a pointer value: same object
			return x.role(a, bind, d+1)
		}
	case *ssa.Extract:
		switch tup := t.Tuple.(type) {
		case *ssa.Select:
			if t.Index >= 2 && c20IsInt(t.Type()) {
				return "CUR" // a block height received from the watcher's block channel
			}
		case *ssa.Call:
			name, args := w.Info(tup).Name, tup.Call.Args
			switch {
			case name == c20FnLookup && len(args) == 4 && t.Index == 1:
				return "FIRSTSEEN[" + x.roles(args[1:], bind, d+1) + "]"
			case name == c20FnLookup && len(args) == 4 && t.Index == 0:
				return "RAWTX[" + x.roles(args[1:], bind, d+1) + "]"
			case t.Index == 0 && x.isHeightLookup(tup.Common().StaticCallee()):
				if h := c20HashArg(tup.Common().StaticCallee()); h >= 0 && h < len(args) {
					return "TXHEIGHT[" + x.roles(args[h:h+1], bind, d+1) + "]"
				}
			case name == c20FnRawTx && len(args) == 2 && t.Index == 0:
				return "RAWTX[" + x.roles(args[1:], bind, d+1) + "]"
			case name == "func:"+c20HashPkg+".NewHashFromStr" && t.Index == 0 && len(args) == 1:
				return x.role(args[0], bind, d+1)
			}
			if c20IsInt(t.Type()) {
				if r := x.helperResult(tup, t.Index, bind, d+1); r != "" {
					return r
				}
			}
		}
	case *ssa.Phi:
		// leaf-based: a phi is the operand only if every incoming value is that operand
		var leaves []string
		for _, e := range t.Edges {
			if e == ssa.Value(t) || (bind == nil && x.busy[e]) {
				// the phi feeds itself around a loop: the value of an earlier iteration is kept
				leaves = append(leaves, c20Carried)
				continue
			}
			leaves = append(leaves, x.role(e, bind, d+1))
		}
		return x.merged("phi", "|", leaves)
	case *ssa.Call:
		name, args := w.Info(t).Name, t.Call.Args
		if (name == "builtin:min" || name == "builtin:max") && len(args) > 0 {
			var leaves []string
			for _, a := range args {
				leaves = append(leaves, x.role(a, bind, d+1))
			}
			return x.merged(strings.TrimPrefix(name, "builtin:"), ",", leaves)
		}
		if c20IsInt(t.Type()) && t.Common().Signature().Results().Len() == 1 {
			if r := x.helperResult(t, 0, bind, d+1); r != "" {
				return r
			}
		}
		switch name {
		case "func:(" + c20HashPkg + ".Hash).String", "func:(*" + c20HashPkg + ".Hash).String",
			"func:(*" + c20HashPkg + ".Hash).CloneBytes", "func:encoding/hex.EncodeToString":
			if len(args) == 1 {
				return x.role(args[0], bind, d+1)
			}
		}
	}
	return w.Term(v)
}

// merged names a value that merges several sources (phi, min, max): the common
// role when all sources agree, otherwise a merged term whose leaves are recorded.
func (x *c20X) merged(op, sep string, leaves []string) string {
	set := map[string]bool{}
	for _, l := range leaves {
		if sub, ok := x.merges[l]; ok {
			for _, y := range sub {
				set[y] = true
			}
			continue
		}
		set[l] = true
	}
	ks := sortedKeys(set)
	if len(ks) == 1 {
		return ks[0]
	}
	name := op + "(" + strings.Join(ks, sep) + ")"
	x.merges[name] = ks
	return name
}

// c20Untraceable: the role is an engine fallback name for a value of unknown origin.
func c20Untraceable(r string) bool {
	return strings.HasPrefix(r, "<*ssa.") || strings.HasPrefix(r, "param#") || strings.HasPrefix(r, "freevar:") || strings.HasPrefix(r, "var:") ||
		strings.HasPrefix(r, "var(") || strings.Contains(r, "…") || strings.Contains(r, "↺") || r == "?"
}

func (x *c20X) prodWriters(key string) []*ssa.Store {
	var out []*ssa.Store
	for _, st := range x.w.FieldWriters(key) {
		if !an.IsTestSupport(x.w.FnRel(st.Parent())) {
			out = append(out, st)
		}
	}
	return out
}

func (x *c20X) fieldRole(key string, base ssa.Value, at ssa.Value, bind c20Bind, d int) string {
	if key == "TxOutResp.Confirmations" {
		if ex, ok := c20Strip(base).(*ssa.Extract); ok && ex.Index == 0 {
			if call, ok := ex.Tuple.(*ssa.Call); ok && x.w.Info(call).Name == c20FnTxOut && len(call.Call.Args) == 2 {
				return "CONFS[" + x.roles(call.Call.Args, bind, d+1) + "]"
			}
		}
	}
	set := map[string]bool{}
	for _, st := range x.prodWriters(key) {
		set[x.role(st.Val, nil, d+1)] = true
	}
	if len(set) == 1 {
		for r := range set {
			if c20IsReg(r) {
				return r
			}
		}
	}
	return "field:" + key
}

// ---- role-normalised facts --------------------------------------------------------------

type c20L struct {
	t map[string]int64
	c int64
}

func (x *c20X) lin(v ssa.Value, bind c20Bind, d int) c20L {
	out := c20L{t: map[string]int64{}}
	leaf := func() c20L {
		r := x.role(v, bind, 0)
		if strings.HasPrefix(r, "K:") {
			var n int64
			fmt.Sscanf(r, "K:%d", &n)
			out.c = n
			return out
		}
		out.t[r] = 1
		return out
	}
	if d > 8 {
		return leaf()
	}
	if call, ok := v.(*ssa.Call); ok {
		// a pure arithmetic helper of the module (one block, one integer result computed
		// from its parameters): inline it with the call's arguments
		if g := call.Common().StaticCallee(); g != nil && x.w.InModule(g) && g.Blocks != nil && c20IsInt(call.Type()) {
			if res := c20PureArith(g); res != nil {
				b2 := c20Bind{}
				for i, p := range g.Params {
					if i < len(call.Call.Args) {
						a := call.Call.Args[i]
						if ap, isP := c20Strip(a).(*ssa.Parameter); isP && bind[ap] != nil {
							a = bind[ap]
						}
						b2[p] = a
					}
				}
				return x.linBound(res, b2, bind, d+1)
			}
			if !x.modelled(g) && "call:"+x.w.Info(call).Name != "call:func:(*lnd.TxWatcher).GetBlockHeight" {
				if r := x.role(v, bind, 0); strings.HasPrefix(r, "call:") {
					x.opaqueTerms[r] = true
				}
			}
		}
	}
	switch t := v.(type) {
	case *ssa.Const:
		if i, ok := an.ConstInt(t); ok {
			out.c = i
			return out
		}
	case *ssa.ChangeType:
		return x.lin(t.X, bind, d)
	case *ssa.Convert:
		if c20IsInt(t.Type()) && c20IsInt(t.X.Type()) {
			return x.lin(t.X, bind, d)
		}
	case *ssa.UnOp:
		if t.Op == token.MUL {
			if al, ok := t.X.(*ssa.Alloc); ok {
				if s := c20CellValue(al); s != nil && c20IsInt(s.Type()) {
					return x.lin(s, bind, d+1)
				}
			}
		}
	case *ssa.BinOp:
		if !c20IsInt(t.Type()) {
			break
		}
		switch t.Op {
		case token.ADD, token.SUB:
			l, r := x.lin(t.X, bind, d+1), x.lin(t.Y, bind, d+1)
			sign := int64(1)
			if t.Op == token.SUB {
				sign = -1
			}
			for k, c := range l.t {
				out.t[k] += c
			}
			for k, c := range r.t {
				out.t[k] += sign * c
			}
			out.c = l.c + sign*r.c
			return out
		case token.MUL:
			l, r := x.lin(t.X, bind, d+1), x.lin(t.Y, bind, d+1)
			if len(l.t) == 0 {
				l, r = r, l
			}
			if len(r.t) == 0 {
				for k, c := range l.t {
					out.t[k] = c * r.c
				}
				out.c = l.c * r.c
				return out
			}
		}
	}
	return leaf()
}

// linBound linearises an expression of an inlined helper: its parameters stand for
// the bound argument values, which are named in the caller's context.
func (x *c20X) linBound(v ssa.Value, b2 c20Bind, outer c20Bind, d int) c20L {
	merged := c20Bind{}
	for k, a := range outer {
		merged[k] = a
	}
	for k, a := range b2 {
		merged[k] = a
	}
	return x.lin(v, merged, d)
}

// c20PureArith: fn is one block that only computes (conversions, + - *) and returns
// one integer; returns the returned value.
func c20PureArith(fn *ssa.Function) ssa.Value {
	if len(fn.Blocks) != 1 || fn.Signature.Results().Len() != 1 || !c20IsInt(fn.Signature.Results().At(0).Type()) {
		return nil
	}
	var res ssa.Value
	for _, in := range fn.Blocks[0].Instrs {
		switch t := in.(type) {
		case *ssa.BinOp, *ssa.Convert, *ssa.ChangeType, *ssa.DebugRef:
		case *ssa.Return:
			if len(t.Results) == 1 {
				res = t.Results[0]
			}
		default:
			return nil
		}
	}
	return res
}

// cmp builds the fact "bo holds" / "bo does not hold" with role-named terms,
// in the engine's normal form (Σ coef·term + Const Rel 0, Rel ∈ > >= == !=).
func (x *c20X) cmp(bo *ssa.BinOp, holds bool, bind c20Bind) (an.Fact, bool) {
	op := bo.Op
	switch op {
	case token.EQL, token.NEQ, token.LSS, token.LEQ, token.GTR, token.GEQ:
	default:
		return an.Fact{}, false
	}
	if !holds {
		op = map[token.Token]token.Token{token.EQL: token.NEQ, token.NEQ: token.EQL, token.LSS: token.GEQ, token.LEQ: token.GTR, token.GTR: token.LEQ, token.GEQ: token.LSS}[op]
	}
	f := an.Fact{Cond: bo, LV: bo.X, RV: bo.Y}
	if !c20IsInt(bo.X.Type()) || !c20IsInt(bo.Y.Type()) {
		f.NonNum = true
		l, r := x.role(bo.X, bind, 0), x.role(bo.Y, bind, 0)
		switch op {
		case token.EQL, token.NEQ:
			if l > r {
				l, r = r, l
			}
		case token.LSS:
			l, r, op = r, l, token.GTR
		case token.LEQ:
			l, r, op = r, l, token.GEQ
		}
		f.L, f.R, f.Rel = l, r, op.String()
		return f, true
	}
	l, r := x.lin(bo.X, bind, 0), x.lin(bo.Y, bind, 0)
	f.Terms = map[string]int64{}
	for k, c := range l.t {
		f.Terms[k] += c
	}
	for k, c := range r.t {
		f.Terms[k] -= c
	}
	f.Const = l.c - r.c
	flip := false
	switch op {
	case token.LSS:
		flip, op = true, token.GTR
	case token.LEQ:
		flip, op = true, token.GEQ
	case token.EQL, token.NEQ:
		var ks []string
		for k, c := range f.Terms {
			if c != 0 {
				ks = append(ks, k)
			}
		}
		sort.Strings(ks)
		if (len(ks) > 0 && f.Terms[ks[0]] < 0) || (len(ks) == 0 && f.Const < 0) {
			flip = true
		}
	}
	if flip {
		for k := range f.Terms {
			f.Terms[k] = -f.Terms[k]
		}
		f.Const = -f.Const
	}
	for k, c := range f.Terms {
		if c == 0 {
			delete(f.Terms, k)
		}
	}
	f.Rel = op.String()
	return f, true
}

// norm re-names the terms of an engine fact by role. Which truth value of the
// comparison the fact stands for is recovered from the engine's relation.
func (x *c20X) norm(f an.Fact, bind c20Bind) an.Fact {
	bo, ok := f.Cond.(*ssa.BinOp)
	if !ok || f.Rel == "true" || f.Rel == "false" {
		return f
	}
	for _, holds := range []bool{true, false} {
		g, ok := x.cmp(bo, holds, nil)
		if !ok {
			return f
		}
		if g.Rel == f.Rel { // the relation decides the polarity (> vs >=, == vs !=)
			g2, _ := x.cmp(bo, holds, bind)
			g2.Edge = f.Edge
			return g2
		}
	}
	return f
}

// c20Group: facts that hold at a point. Group 0 holds the facts that dominate the
// point directly (and the conditions that could not be interpreted); every other
// group is a disjunction: one fact set per way a helper can have produced the
// tested value, or one fact set per caller of the enclosing helper.
type c20Group struct {
	direct []an.Fact
	alts   [][]an.Fact
	helper string
	opaque []string // dominating conditions the rule cannot look into
}

// factsAt returns the direct facts and the helper expansions at instr, plus the
// facts that hold at every call site of the enclosing in-module helper.
func (x *c20X) factsAt(at ssa.Instruction) []c20Group { return x.factsAtDepth(at, 0) }

func (x *c20X) factsAtDepth(at ssa.Instruction, depth int) []c20Group {
	raw := x.w.FactsDominating(at)
	g := c20Group{}
	var out []c20Group
	for _, f := range raw {
		g.direct = append(g.direct, x.norm(f, nil))
		if hg, ok := x.expand(f); ok {
			out = append(out, hg)
		} else if why := x.opaqueFact(f); why != "" {
			g.opaque = append(g.opaque, why)
		}
	}
	// caller context: the guard may sit before the call of the helper that reports
	fn := at.Parent()
	if depth < 2 && fn != nil && !c20ImplOf(fn, x.txw) && !c20ImplOf(fn, x.obs) && len(x.callers[fn]) > 0 {
		cg := c20Group{helper: "callers of " + x.w.FuncName(fn)}
		for _, call := range x.callers[fn] {
			sub := x.factsAtDepth(call, depth+1)
			alt := append([]an.Fact{}, sub[0].direct...)
			g.opaque = append(g.opaque, sub[0].opaque...)
			for _, hg := range sub[1:] {
				if len(hg.alts) == 1 {
					alt = append(alt, hg.alts[0]...)
				}
			}
			cg.alts = append(cg.alts, alt)
		}
		out = append(out, cg)
	}
	return append([]c20Group{g}, out...)
}

// c20Want: the value a helper result is known to have.
type c20Want int

const (
	c20True c20Want = iota
	c20False
	c20Nil
	c20NonNil
)

// testedCall: f tests the bool result (atom) or the error result (== nil / != nil)
// of a call; returns the call, the result index and the known value.
func c20TestedCall(f an.Fact) (*ssa.Call, int, c20Want, bool) {
	switch {
	case f.Rel == "true" || f.Rel == "false":
		call, idx := c20BoolCall(f.Cond)
		if call == nil {
			return nil, 0, 0, false
		}
		if f.Rel == "true" {
			return call, idx, c20True, true
		}
		return call, idx, c20False, true
	case f.NonNum && (f.Rel == "==" || f.Rel == "!="):
		var v ssa.Value
		switch {
		case f.RV != nil && an.IsNilConst(f.RV):
			v = f.LV
		case f.LV != nil && an.IsNilConst(f.LV):
			v = f.RV
		}
		if v == nil || !an.IsErrorType(v.Type()) {
			return nil, 0, 0, false
		}
		call, idx := c20BoolCall(v)
		if call == nil {
			return nil, 0, 0, false
		}
		if f.Rel == "==" {
			return call, idx, c20Nil, true
		}
		return call, idx, c20NonNil, true
	}
	return nil, 0, 0, false
}

// modelled: callees whose meaning is captured by a role (FIRSTSEEN, RAWTX, …).
func (x *c20X) modelled(callee *ssa.Function) bool {
	// (*lnd.TxWatcher).GetBlockHeight is the LND back-end's "ask the node for the tip now"; its result is an operand by name
	return "func:"+x.w.FuncName(callee) == c20FnLookup || x.isHeightLookup(callee) || x.w.FuncName(callee) == "(*lnd.TxWatcher).GetBlockHeight"
}

// expand: f says that a helper of the module returned true / false / nil / non-nil;
// the result lists one fact set per way the helper can produce that value.
func (x *c20X) expand(f an.Fact) (c20Group, bool) {
	call, idx, want, ok := c20TestedCall(f)
	if !ok {
		return c20Group{}, false
	}
	callee := call.Common().StaticCallee()
	if callee == nil || !x.w.InModule(callee) || callee.Blocks == nil {
		return c20Group{}, false
	}
	bind := c20Bind{}
	for i, p := range callee.Params {
		if i < len(call.Call.Args) {
			bind[p] = call.Call.Args[i]
		}
	}
	hg := c20Group{helper: fmt.Sprintf("%s %s", x.w.FuncName(callee), []string{"= true", "= false", "= nil", "!= nil"}[want])}
	for _, r := range an.Returns(callee) {
		if idx >= len(r.Results) || !c20BlockReachable(r.Block()) {
			continue
		}
		var base []an.Fact
		for _, df := range x.w.FactsDominating(r) {
			base = append(base, x.norm(df, bind))
		}
		alts, ok := x.valueAlts(r.Results[idx], want, bind, base, x.w.FactsDominating(r), 0)
		if !ok {
			return c20Group{}, false
		}
		hg.alts = append(hg.alts, alts...)
	}
	return hg, len(hg.alts) > 0
}

// opaqueFact: f is a condition that may hide a guard and that the rule cannot look
// into: the result of an in-module helper that does not expand, or a bool variable.
func (x *c20X) opaqueFact(f an.Fact) string {
	if call, _, _, ok := c20TestedCall(f); ok {
		callee := call.Common().StaticCallee()
		if callee != nil && x.w.InModule(callee) && callee.Blocks != nil && !x.modelled(callee) {
			return "result of " + x.w.FuncName(callee) + " (not expandable)"
		}
		return ""
	}
	if f.Rel != "true" && f.Rel != "false" {
		return ""
	}
	switch t := f.Cond.(type) {
	case *ssa.Phi, *ssa.Parameter, *ssa.FreeVar:
		return "bool value " + x.w.Term(f.Cond)
	case *ssa.UnOp:
		if t.Op == token.MUL {
			switch t.X.(type) {
			case *ssa.Alloc, *ssa.FreeVar:
				return "bool variable " + x.w.Term(f.Cond)
			}
		}
	}
	return ""
}

func c20Opaque(groups []c20Group) string {
	if len(groups) == 0 || len(groups[0].opaque) == 0 {
		return ""
	}
	m := map[string]bool{}
	for _, o := range groups[0].opaque {
		m[o] = true
	}
	return strings.Join(sortedKeys(m), ", ")
}

// implies: whenever the edge fact f holds, a fact satisfying pred holds.
func (x *c20X) implies(f an.Fact, pred func(an.Fact) bool) bool {
	if pred(x.norm(f, nil)) {
		return true
	}
	hg, ok := x.expand(f)
	if !ok {
		return false
	}
	for _, alt := range hg.alts {
		if !an.AnyFact(alt, pred) {
			return false
		}
	}
	return true
}

// valueAlts lists, for a bool / error value of a helper, the fact sets under which
// it has the wanted value (one set per way: constants, comparisons, negations,
// error constructors, values whose nil-ness is tested on the way, and the phis
// that && / || / single-return styles compile to).
func (x *c20X) valueAlts(v ssa.Value, want c20Want, bind c20Bind, base []an.Fact, rawBase []an.Fact, d int) ([][]an.Fact, bool) {
	if d > 4 {
		return nil, false
	}
	one := func(match bool) ([][]an.Fact, bool) {
		if match {
			return [][]an.Fact{base}, true
		}
		return nil, true
	}
	isBool := want == c20True || want == c20False
	switch t := v.(type) {
	case *ssa.Const:
		if isBool {
			if t.Value == nil || t.Value.Kind() != constant.Bool {
				return nil, false
			}
			return one(constant.BoolVal(t.Value) == (want == c20True))
		}
		if t.Value == nil {
			return one(want == c20Nil)
		}
		return nil, false
	case *ssa.BinOp:
		if !isBool {
			return nil, false
		}
		cf, ok := x.cmp(t, want == c20True, bind)
		if !ok {
			return nil, false
		}
		return [][]an.Fact{append(append([]an.Fact{}, base...), cf)}, true
	case *ssa.UnOp:
		if t.Op == token.NOT && isBool {
			nw := c20True
			if want == c20True {
				nw = c20False
			}
			return x.valueAlts(t.X, nw, bind, base, rawBase, d+1)
		}
	case *ssa.Phi:
		var out [][]an.Fact
		blk := t.Block()
		for i, e := range t.Edges {
			if i >= len(blk.Preds) {
				return nil, false
			}
			p := blk.Preds[i]
			fs := append([]an.Fact{}, base...)
			raw := append([]an.Fact{}, rawBase...)
			for _, df := range x.w.FactsDominatingBlock(p) {
				fs = append(fs, x.norm(df, bind))
				raw = append(raw, df)
			}
			for _, ef := range x.w.Facts(blk.Parent()) {
				if ef.Edge.From == p && ef.Edge.To() == blk && !(len(p.Succs) == 2 && p.Succs[0] == p.Succs[1]) {
					fs = append(fs, x.norm(ef, bind))
					raw = append(raw, ef)
				}
			}
			sub, ok := x.valueAlts(e, want, bind, fs, raw, d+1)
			if !ok {
				return nil, false
			}
			out = append(out, sub...)
		}
		return out, true
	}
	if ld, ok := v.(*ssa.UnOp); ok && ld.Op == token.MUL {
		if al, ok := ld.X.(*ssa.Alloc); ok {
			// a local / a result cell spilled because of defer: one way per reaching store
			stores, fromEntry := an.StoresReaching(ld, al)
			var out [][]an.Fact
			if fromEntry { // zero value: false / nil
				if want == c20False || want == c20Nil {
					out = append(out, base)
				}
			}
			for _, sv := range stores {
				fs := append([]an.Fact{}, base...)
				raw := append([]an.Fact{}, rawBase...)
				for _, df := range x.w.FactsDominating(sv) {
					fs = append(fs, x.norm(df, bind))
					raw = append(raw, df)
				}
				sub, ok := x.valueAlts(sv.Val, want, bind, fs, raw, d+1)
				if !ok {
					return nil, false
				}
				out = append(out, sub...)
			}
			return out, true
		}
	}
	if isBool {
		return nil, false
	}
	// error values
	sv := c20Strip(v)
	switch t := sv.(type) {
	case *ssa.Call:
		switch x.w.Info(t).Name {
		case "func:fmt.Errorf", "func:errors.New":
			return one(want == c20NonNil)
		}
	case *ssa.UnOp:
		if g, ok := t.X.(*ssa.Global); ok && t.Op == token.MUL && c20GlobalIsErrorsNew(g) {
			return one(want == c20NonNil)
		}
	case *ssa.Alloc:
		if _, isMI := v.(*ssa.MakeInterface); isMI {
			return one(want == c20NonNil) // &T{} wrapped into the error interface
		}
	}
	for _, f := range rawBase {
		if !f.NonNum || (f.Rel != "==" && f.Rel != "!=") {
			continue
		}
		if (c20Strip(f.LV) == sv && an.IsNilConst(f.RV)) || (c20Strip(f.RV) == sv && an.IsNilConst(f.LV)) {
			return one((f.Rel == "==") == (want == c20Nil))
		}
	}
	return nil, false
}

func c20BlockReachable(b *ssa.BasicBlock) bool {
	fn := b.Parent()
	return an.ReachBlocks([]*ssa.BasicBlock{fn.Blocks[0]}, nil, nil)[b]
}

// c20BoolCall: v is (an extract of) the bool result of a call.
func c20BoolCall(v ssa.Value) (*ssa.Call, int) {
	switch t := v.(type) {
	case *ssa.Call:
		return t, 0
	case *ssa.Extract:
		if c, ok := t.Tuple.(*ssa.Call); ok {
			return c, t.Index
		}
	}
	return nil, 0
}

// holds: some fact that is true whenever `groups`' point executes satisfies pred.
func c20Holds(groups []c20Group, pred func(an.Fact) bool) bool {
	for gi, g := range groups {
		if gi == 0 {
			if an.AnyFact(g.direct, pred) {
				return true
			}
			continue
		}
		all := true
		for _, alt := range g.alts {
			if !an.AnyFact(alt, pred) {
				all = false
			}
		}
		if all {
			return true
		}
	}
	return false
}

func c20Describe(groups []c20Group) string {
	var parts []string
	for gi, g := range groups {
		if gi == 0 {
			parts = append(parts, an.DescribeFacts(g.direct))
			continue
		}
		for i, alt := range g.alts {
			parts = append(parts, fmt.Sprintf("[%s way %d: %s]", g.helper, i+1, an.DescribeFacts(alt)))
		}
	}
	return strings.Join(parts, " ; ")
}

// c20Spec builds a linear spec Σ coef·term + Const Rel 0 over exact term names.
func c20Spec(rel string, konst int64, kv ...interface{}) an.LinSpec {
	spec := an.LinSpec{Rel: rel, Const: konst, Terms: map[string]int64{}}
	for i := 0; i+1 < len(kv); i += 2 {
		spec.Terms[kv[i].(string)] = int64(kv[i+1].(int))
	}
	return spec
}

// c20Exact matches a fact against a spec with EXACT term names (an.MatchLin matches
// names by substring: a merged term such as phi(REG_START|field:confirmationEvent.blockHeight)
// would pass for the event's own height). Operands are named by role, so exact
// equality is what "the same operand" means.
func c20Exact(spec an.LinSpec) func(an.Fact) bool {
	return func(f an.Fact) bool {
		if f.NonNum || f.Rel != spec.Rel || f.Terms == nil || len(f.Terms) != len(spec.Terms) {
			return false
		}
		try := func(sign int64) bool {
			if f.Const != sign*spec.Const {
				return false
			}
			for k, c := range spec.Terms {
				if fc, ok := f.Terms[k]; !ok || fc != sign*c {
					return false
				}
			}
			return true
		}
		return try(1) || ((spec.Rel == "==" || spec.Rel == "!=") && try(-1))
	}
}

func c20Lin(rel string, konst int64, kv ...interface{}) func(an.Fact) bool {
	return c20Exact(c20Spec(rel, konst, kv...))
}

// errNilOn: the fact says "the error result of `call` is nil".
func c20ErrNilOf(call *ssa.Call) func(an.Fact) bool {
	idx := an.ErrResultIndex(call)
	return func(f an.Fact) bool {
		if !f.NonNum || f.Rel != "==" {
			return false
		}
		for _, p := range [][2]ssa.Value{{f.LV, f.RV}, {f.RV, f.LV}} {
			if p[0] == nil || p[1] == nil || !an.IsNilConst(p[1]) {
				continue
			}
			if ex, ok := p[0].(*ssa.Extract); ok && ex.Tuple == call && ex.Index == idx {
				return true
			}
			if p[0] == ssa.Value(call) && call.Common().Signature().Results().Len() == 1 {
				return true
			}
		}
		return false
	}
}

// ---- report sites -----------------------------------------------------------------------

func (x *c20X) findSites() {
	w := x.w
	var rawSites []*c20Site
	for _, fn := range prodFuncs(w) {
		for _, call := range an.Calls(fn) {
			cc := call.Common()
			if cc.IsInvoke() || cc.StaticCallee() != nil {
				continue
			}
			if _, ok := cc.Value.(*ssa.Builtin); ok {
				continue
			}
			sig, ok := cc.Value.Type().Underlying().(*types.Signature)
			if !ok || sig.Results().Len() != 1 || !an.IsErrorType(sig.Results().At(0).Type()) {
				continue
			}
			switch r := x.role(cc.Value, nil, 0); {
			case r == "CB_CONF" && len(cc.Args) == 3:
				rawSites = append(rawSites, &c20Site{kind: "conf", fn: fn, instr: call, swapID: cc.Args[0], txHex: cc.Args[1], err: cc.Args[2]})
			case r == "CB_CSV" && len(cc.Args) == 1:
				rawSites = append(rawSites, &c20Site{kind: "csv", fn: fn, instr: call, swapID: cc.Args[0]})
			}
		}
	}
	// lift wrappers: a site whose arguments are all parameters (or constants) of a
	// plain helper is analysed at the helper's call sites
	for _, s := range rawSites {
		lifted := x.lift(s)
		if lifted == nil {
			x.sites = append(x.sites, s)
		} else {
			x.sites = append(x.sites, lifted...)
		}
	}
	// proxies: a report that stays inside a plain helper (its arguments are computed
	// there) is also seen, by the path rules R3 / R4, at the helper's call sites
	work := append([]*c20Site{}, x.sites...)
	for depth := 0; depth < 3 && len(work) > 0; depth++ {
		var next []*c20Site
		for _, s := range work {
			h := s.fn
			if h.Parent() != nil || c20ImplOf(h, x.txw) || c20ImplOf(h, x.obs) {
				continue
			}
			if nx, _ := c20RangeOf(s.swapID); nx != nil {
				continue // a scan picks its registrations itself; at-most-once is its removal (R3 B), not its callers' paths
			}
			must := x.mustPass(h, s.instr.Block()) && (!s.proxy || s.must)
			for _, call := range x.callers[h] {
				if _, isCall := call.(*ssa.Call); !isCall {
					continue // go / defer: the helper runs on its own
				}
				args := call.Common().Args
				p := &c20Site{kind: s.kind, fn: call.Parent(), instr: call, proxy: true, under: s, must: must,
					swapID: c20MapArg(s.swapID, args), txHex: c20MapArg(s.txHex, args), err: c20MapArg(s.err, args), errKind: s.errKind}
				next = append(next, p)
			}
		}
		x.sites = append(x.sites, next...)
		work = next
	}
	sort.SliceStable(x.sites, func(i, j int) bool {
		a, b := x.sites[i], x.sites[j]
		if na, nb := w.FuncName(a.fn), w.FuncName(b.fn); na != nb {
			return na < nb
		}
		if a.instr.Block().Index != b.instr.Block().Index {
			return a.instr.Block().Index < b.instr.Block().Index
		}
		return an.InstrIndex(a.instr) < an.InstrIndex(b.instr)
	})
	ord := map[string]int{}
	for _, s := range x.sites {
		if s.kind == "conf" && !s.proxy {
			s.errKind = x.errKind(s)
		}
	}
	for _, s := range x.sites {
		if s.kind == "conf" && s.proxy {
			// judged where the error is built; if it is a parameter of the helper, at the call
			s.errKind = s.real().errKind
			if s.err != s.real().err {
				s.errKind = x.errKind(s)
			}
		}
		k := w.FuncName(s.fn) + " " + s.kind
		ord[k]++
		s.name = fmt.Sprintf("%s %s-report#%d", w.FuncName(s.fn), s.kind, ord[k])
		if s.proxy {
			s.name = fmt.Sprintf("%s %s-report#%d via %s", w.FuncName(s.fn), s.kind, ord[k], w.FuncName(s.under.fn))
		}
		switch s.errKind {
		case "nil":
			s.name += "(err=nil)"
		case "nonnil":
			s.name += "(err!=nil)"
		case "maybe":
			s.name += "(err may be nil)"
		}
	}
}

func (x *c20X) lift(s *c20Site) []*c20Site {
	fn := s.fn
	if fn.Parent() != nil || c20ImplOf(fn, x.txw) || c20ImplOf(fn, x.obs) || len(x.callers[fn]) == 0 {
		return nil
	}
	for _, call := range x.callers[fn] {
		if _, sync := call.(*ssa.Call); !sync {
			return nil // started with go / defer: the helper runs on its own, its report is judged inside it
		}
	}
	anyParam := false
	for _, v := range []ssa.Value{s.swapID, s.txHex, s.err} {
		if v == nil {
			continue
		}
		switch c20Strip(v).(type) {
		case *ssa.Parameter:
			anyParam = true
		case *ssa.Const:
		default:
			return nil
		}
	}
	if !anyParam {
		return nil
	}
	viaOK := x.mustPass(fn, s.instr.Block())
	mapArg := c20MapArg
	var out []*c20Site
	for _, call := range x.callers[fn] {
		args := call.Common().Args
		out = append(out, &c20Site{kind: s.kind, fn: call.Parent(), instr: call, swapID: mapArg(s.swapID, args), txHex: mapArg(s.txHex, args), err: mapArg(s.err, args), via: fn, viaOK: viaOK, raw: s.instr})
	}
	return out
}

// mustPass: every path through the helper executes block b (a nil test of the
// callback itself is tolerated).
func (x *c20X) mustPass(fn *ssa.Function, b *ssa.BasicBlock) bool {
	cut := map[an.Edge]bool{}
	for _, f := range x.w.Facts(fn) {
		if f.NonNum && f.Rel == "==" && ((an.IsNilConst(f.RV) && strings.HasPrefix(x.role(f.LV, nil, 0), "CB_")) || (an.IsNilConst(f.LV) && strings.HasPrefix(x.role(f.RV, nil, 0), "CB_"))) {
			cut[f.Edge] = true
		}
	}
	reach := an.ReachBlocks([]*ssa.BasicBlock{fn.Blocks[0]}, cut, map[*ssa.BasicBlock]bool{b: true})
	for _, r := range an.Returns(fn) {
		if reach[r.Block()] && r.Block() != b {
			return false
		}
	}
	return true
}

// c20MapArg: a helper parameter seen from a call of the helper.
func c20MapArg(v ssa.Value, args []ssa.Value) ssa.Value {
	if v == nil {
		return nil
	}
	if p, ok := c20Strip(v).(*ssa.Parameter); ok {
		if i := c20ParamIndex(p); i >= 0 && i < len(args) {
			return args[i]
		}
	}
	return v
}

// errKind classifies the error argument of a confirmation report.
func (x *c20X) errKind(s *c20Site) string {
	v := c20Strip(s.err)
	if an.IsNilConst(v) {
		return "nil"
	}
	switch t := v.(type) {
	case *ssa.Call:
		switch x.w.Info(t).Name {
		case "func:fmt.Errorf", "func:errors.New":
			return "nonnil"
		}
	case *ssa.UnOp:
		if g, ok := t.X.(*ssa.Global); ok && t.Op == token.MUL && c20GlobalIsErrorsNew(g) {
			return "nonnil"
		}
	}
	for _, f := range x.w.FactsDominating(s.instr) {
		if f.NonNum && f.Rel == "!=" && ((c20Strip(f.LV) == v && an.IsNilConst(f.RV)) || (c20Strip(f.RV) == v && an.IsNilConst(f.LV))) {
			return "nonnil"
		}
	}
	return "maybe"
}

// c20GlobalIsErrorsNew: a package-level error variable initialised once with
// errors.New / fmt.Errorf and never reassigned.
func c20GlobalIsErrorsNew(g *ssa.Global) bool {
	if g.Pkg == nil {
		return false
	}
	n, okInit := 0, false
	for _, m := range g.Pkg.Members {
		fn, ok := m.(*ssa.Function)
		if !ok {
			continue
		}
		var visit func(f *ssa.Function)
		visit = func(f *ssa.Function) {
			for _, b := range f.Blocks {
				for _, in := range b.Instrs {
					if st, ok := in.(*ssa.Store); ok && st.Addr == ssa.Value(g) {
						n++
						if c, ok := c20Strip(st.Val).(*ssa.Call); ok && f.Name() == "init" {
							if sc := c.Common().StaticCallee(); sc != nil && sc.Pkg != nil && (sc.Pkg.Pkg.Path() == "errors" && sc.Name() == "New" || sc.Pkg.Pkg.Path() == "fmt" && sc.Name() == "Errorf") {
								okInit = true
							}
						}
					}
				}
			}
			for _, a := range f.AnonFuncs {
				visit(a)
			}
		}
		visit(fn)
	}
	return n == 1 && okInit
}

// judge: OK when the required fact holds; VIOLATION only when every dominating
// condition was interpreted and the fact is positively absent; otherwise undecided.
func (x *c20X) judge(rule, cons, pos string, ok bool, g []c20Group, okDetail, badDetail string) {
	switch op := c20Opaque(g); {
	case ok:
		x.c.OK(rule, cons, pos, okDetail)
	case op != "":
		x.c.Unknown(rule, cons, pos, badDetail+" — but the report also depends on conditions this rule cannot look into ("+op+"), which may contain the guard")
	default:
		x.c.Bad(rule, cons, pos, badDetail)
	}
}

// judgeLin: like judge for a depth / window guard given as linear specs over exact
// operand names. When no fact matches but some fact compares a MERGE (phi, min,
// max) that contains the expected operand next to other sources, the verdict is
// leaf-based: a traceable foreign source is a violation (the depth is not computed
// from the operand alone), an untraceable one leaves the obligation undecided.
func (x *c20X) judgeLin(rule, cons, pos string, g []c20Group, okDetail, badDetail string, specs ...an.LinSpec) {
	for _, sp := range specs {
		if c20Holds(g, c20Exact(sp)) {
			x.c.OK(rule, cons, pos, okDetail)
			return
		}
	}
	var facts []an.Fact
	for gi, gr := range g {
		if gi == 0 {
			facts = append(facts, gr.direct...)
		}
		for _, alt := range gr.alts {
			facts = append(facts, alt...)
		}
	}
	for _, sp := range specs {
		for _, f := range facts {
			for t := range f.Terms {
				if _, isKey := sp.Terms[t]; isKey {
					continue
				}
				leaves, isMerge := x.merges[t]
				if !isMerge {
					leaves = []string{t}
				}
				for k, ck := range sp.Terms {
					// the fact must be the required test with the operand k replaced by the merge t
					if f.NonNum || f.Rel != sp.Rel || f.Const != sp.Const || len(f.Terms) != len(sp.Terms) || f.Terms[t] != ck {
						continue
					}
					same := true
					for k2, c2 := range sp.Terms {
						if k2 != k && f.Terms[k2] != c2 {
							same = false
						}
					}
					if !same {
						continue
					}
					has := false
					var foreign []string
					untraceable := false
					for _, l := range leaves {
						if l == k {
							has = true
							continue
						}
						foreign = append(foreign, l)
						if c20Untraceable(l) {
							untraceable = true
						}
					}
					// an operand that is (or may be) a field written in an earlier invocation: a cache
					var remembered []string
					for _, l := range foreign {
						if x.rememberedField(l) {
							remembered = append(remembered, l)
						}
					}
					if len(remembered) > 0 && c20HeightOperand(k) {
						x.c.Bad(rule, cons, pos, badDetail+" — depth counted from a remembered height: the test that is there ("+f.String()+") uses "+t+" where "+k+
							" (a height the server reported in this invocation) is required; "+strings.Join(remembered, ", ")+" is a value that an earlier invocation / iteration wrote, so a re-organisation that moves or drops the transaction is not seen")
						return
					}
					if !has || !isMerge {
						continue
					}
					msg := badDetail + " — the test that is there (" + f.String() + ") does not use " + k + " alone but the merge " + t + ": the operand is replaced by " + strings.Join(foreign, ", ") + " on some path"
					if untraceable {
						x.c.Unknown(rule, cons, pos, msg+", whose origin cannot be traced")
					} else {
						x.c.Bad(rule, cons, pos, msg)
					}
					return
				}
			}
		}
	}
	var opq []string
	for _, f := range facts {
		for t := range f.Terms {
			if x.opaqueTerms[t] {
				keyed := false
				for _, sp := range specs {
					if _, ok := sp.Terms[t]; ok {
						keyed = true
					}
				}
				if !keyed {
					opq = append(opq, t)
				}
			}
		}
	}
	if len(opq) > 0 {
		x.c.Unknown(rule, cons, pos, badDetail+" — but a test on the way compares the result of an in-module helper this rule cannot look into ("+strings.Join(opq, ", ")+"), which may compute the required quantity")
		return
	}
	x.judge(rule, cons, pos, false, g, okDetail, badDetail)
}

// c20Carried names a value that a loop carries over from an earlier iteration (a
// local that is only refreshed on some iterations): a remembered value.
const c20Carried = "CARRIED(value kept from an earlier loop iteration)"

// rememberedField: the role names a struct field that production code writes
// outside a constructor literal, i.e. a value kept from an earlier invocation.
func (x *c20X) rememberedField(role string) bool {
	if role == c20Carried {
		return true
	}
	if !strings.HasPrefix(role, "field:") {
		return false
	}
	for _, st := range x.prodWriters(strings.TrimPrefix(role, "field:")) {
		if fa, ok := st.Addr.(*ssa.FieldAddr); ok {
			if _, fresh := fa.X.(*ssa.Alloc); fresh {
				continue
			}
		}
		return true
	}
	return false
}

// c20HeightOperand: the spec operand is a height / depth obtained from the server.
func c20HeightOperand(k string) bool {
	return strings.HasPrefix(k, "TXHEIGHT[") || strings.HasPrefix(k, "FIRSTSEEN[") || strings.HasPrefix(k, "CONFS[") || k == "field:confirmationEvent.blockHeight"
}

// helperResult names result idx of a call of an in-module helper by what the helper
// returns: the merge of the returned values (helper parameters standing for the
// call's arguments). Returns that carry a definitely non-nil error are left out when
// the caller tests that error.
func (x *c20X) helperResult(call *ssa.Call, idx int, bind c20Bind, d int) string {
	g := call.Common().StaticCallee()
	if g == nil || !x.w.InModule(g) || g.Blocks == nil || x.modelled(g) || d > 6 || x.inHelper[g] {
		return ""
	}
	x.inHelper[g] = true
	defer delete(x.inHelper, g)
	b2 := c20Bind{}
	for k, a := range bind {
		b2[k] = a
	}
	for i, p := range g.Params {
		if i < len(call.Call.Args) {
			a := call.Call.Args[i]
			if ap, isP := c20Strip(a).(*ssa.Parameter); isP && bind[ap] != nil {
				a = bind[ap]
			}
			b2[p] = a
		}
	}
	okE, _ := an.OkEdges(call)
	var leaves []string
	for _, r := range an.Returns(g) {
		if idx >= len(r.Results) || !c20BlockReachable(r.Block()) {
			continue
		}
		skip := false
		if len(okE) > 0 {
			for j, rv := range r.Results {
				if j != idx && an.IsErrorType(rv.Type()) {
					if alts, ok := x.valueAlts(rv, c20Nil, b2, nil, x.w.FactsDominating(r), 0); ok && len(alts) == 0 {
						skip = true // this return hands back an error: the caller does not use the value
					}
				}
			}
		}
		if !skip {
			leaves = append(leaves, x.role(r.Results[idx], b2, d+1))
		}
	}
	if len(leaves) == 0 {
		return ""
	}
	return x.merged("ret", "|", leaves)
}

// ---- R1 -----------------------------------------------------------------------------------

func (x *c20X) r1(s *c20Site) {
	c, w := x.c, x.w
	pos := w.Pos(s.instr.Pos())
	g := x.factsAt(s.instr)
	need := func(sub string, ok bool, what string) {
		x.judge(x.r1Rule, s.name+" :: "+sub, pos, ok, g, what+" dominates the report",
			"a confirmation report with a possibly-nil error is not dominated by "+what+". Facts that do hold: "+c20Describe(g))
	}
	needLin := func(sub string, what string, specs ...an.LinSpec) {
		x.judgeLin(x.r1Rule, s.name+" :: "+sub, pos, g, what+" dominates the report",
			"a confirmation report with a possibly-nil error is not dominated by "+what+". Facts that do hold: "+c20Describe(g), specs...)
	}
	txRole := x.role(s.txHex, nil, 0)
	lookupOK := func(wantRole string) {
		if x.depthOnly {
			return
		}
		cons := s.name + " :: raw transaction"
		bad := fmt.Sprintf("the raw transaction handed to the swap is %s (want %s fetched by a call whose nil-error edge dominates the report). Facts: %s", txRole, wantRole, c20Describe(g))
		calls := x.producers(s.txHex, 0)
		_, isConst := c20Strip(s.txHex).(*ssa.Const)
		switch {
		case txRole == wantRole && len(calls) > 0:
			errNil := func(f an.Fact) bool {
				for _, call := range calls {
					if c20ErrNilOf(call)(f) {
						return true
					}
				}
				return false
			}
			x.judge(x.r1Rule, cons, pos, c20Holds(g, errNil), g, "the reported raw transaction is "+wantRole+" and the lookup's error is nil on every path", bad)
		case isConst || (strings.HasPrefix(txRole, "RAWTX[") && txRole != wantRole):
			// a constant, or the right lookup made with the wrong arguments
			c.Bad(x.r1Rule, cons, pos, bad)
		default:
			c.Unknown(x.r1Rule, cons, pos, "cannot trace the reported raw transaction to the lookup call: "+bad)
		}
	}
	window := c20Spec(">", 0, "REG_START", 1, "REG_WINDOW", 1, "CUR", -1)
	switch w.FnRel(s.fn) {
	case "txwatcher":
		if !x.depthOnly {
			needLin("window", "the open-window test start+window-current > 0 on the registered start/window", window)
		}
		needLin("depth", "the depth test current-(firstSeen-1) >= requiredConfs with firstSeen looked up for the registered (txid,start,vout)", c20Spec(">=", 1, "CUR", 1, "FIRSTSEEN[txid,start,vout]", -1, "field:BlockchainRpcTxWatcher.requiredConfs", -1))
		lookupOK("RAWTX[txid,start,vout]")
	case "electrum":
		if !x.depthOnly {
			needLin("window", "the open-window test start+window-current > 0 on the registered start/window", window)
		}
		needLin("depth", fmt.Sprintf("the depth test tip-txHeight+1 >= onchain.LiquidConfs (%d) for the registered txid", x.k["LiquidConfs"]), c20Spec(">=", 1-x.k["LiquidConfs"], "CUR", 1, "TXHEIGHT[txid]", -1))
		needLin("tip>0", "tip > 0", c20Spec(">", 0, "CUR", 1))
		needLin("txHeight>0", "txHeight > 0 (Electrum reports unconfirmed transactions with height <= 0)", c20Spec(">", 0, "TXHEIGHT[txid]", 1))
		needLin("txHeight<=tip", "txHeight <= tip", c20Spec(">=", 0, "CUR", 1, "TXHEIGHT[txid]", -1))
		lookupOK("RAWTX[txid]")
	case "lnd":
		needLin("safety limit", fmt.Sprintf("the safety test current-confHeight+1 < onchain.BitcoinCsvSafetyLimit (%d) with confHeight the confirmation event's own height", x.k["BitcoinCsvSafetyLimit"]),
			c20Spec(">", x.k["BitcoinCsvSafetyLimit"]-1, "field:confirmationEvent.blockHeight", 1, "call:func:(*lnd.TxWatcher).GetBlockHeight#0", -1))
		if !x.depthOnly {
			need("height lookup", c20Holds(g, func(f an.Fact) bool { return an.EqIs(f, "==", "lnd.TxWatcher).GetBlockHeight#1", "nil") }), "the nil-error edge of GetBlockHeight")
			_, txConst := c20Strip(s.txHex).(*ssa.Const)
			switch {
			case strings.Contains(txRole, "confirmationEvent.rawTx"):
				c.OK(x.r1Rule, s.name+" :: raw transaction", pos, "the reported raw transaction is the one of lnd's confirmation event")
			case txConst:
				c.Bad(x.r1Rule, s.name+" :: raw transaction", pos, "the raw transaction handed to the swap is the constant "+txRole+", not the confirmation event's")
			default:
				c.Unknown(x.r1Rule, s.name+" :: raw transaction", pos, "cannot trace the reported raw transaction ("+txRole+") to lnd's confirmation event")
			}
		}
		x.r1LndDelegation(s)
	default:
		c.Unknown(x.r1Rule, s.name, pos, "confirmation report in a package whose back-end is not modelled (txwatcher, electrum, lnd)")
	}
}

// producers: the calls whose result v is — directly, or as the argument every
// caller passes for the helper parameter v. Empty when some origin is not a call result.
func (x *c20X) producers(v ssa.Value, d int) []*ssa.Call {
	v = c20Settle(v)
	switch t := v.(type) {
	case *ssa.Extract:
		if call, ok := t.Tuple.(*ssa.Call); ok {
			return []*ssa.Call{call}
		}
	case *ssa.Parameter:
		if d > 2 || x.ifaceParam(t) != "" || len(x.callers[t.Parent()]) == 0 {
			return nil
		}
		var out []*ssa.Call
		for _, site := range x.callers[t.Parent()] {
			args := site.Common().Args
			i := c20ParamIndex(t)
			if i < 0 || i >= len(args) {
				return nil
			}
			sub := x.producers(args[i], d+1)
			if len(sub) == 0 {
				return nil
			}
			out = append(out, sub...)
		}
		return out
	}
	return nil
}

// r1LndDelegation: the confirmation count is delegated to lnd: the ConfRequest
// built for this registration carries the registered txid and NumConfs = targetConfs.
func (x *c20X) r1LndDelegation(s *c20Site) {
	c, w := x.c, x.w
	// the registration is made by the function that starts the watcher: the function
	// containing the report, or one that (transitively) calls the helper containing it
	tops := map[*ssa.Function]bool{}
	var up func(fn *ssa.Function, d int)
	up = func(fn *ssa.Function, d int) {
		top := an.EnclosingTop(fn)
		if tops[top] || d > 3 {
			return
		}
		tops[top] = true
		for _, call := range x.callers[top] {
			up(call.Parent(), d+1)
		}
	}
	up(s.fn, 0)
	cons := s.name + " :: NumConfs delegation"
	n := 0
	for _, fn := range prodFuncs(w) {
		if w.FnRel(fn) != "lnd" {
			continue
		}
		for _, b := range fn.Blocks {
			for _, in := range b.Instrs {
				al, ok := in.(*ssa.Alloc)
				if !ok {
					continue
				}
				nt := an.NamedOf(al.Type())
				if nt == nil || nt.Obj().Name() != "ConfRequest" || nt.Obj().Pkg() == nil || !strings.HasSuffix(nt.Obj().Pkg().Path(), "lnrpc/chainrpc") {
					continue
				}
				n++
				pos := w.Pos(al.Pos())
				nc, ok1 := an.CompositeFieldValue(al, "NumConfs")
				tx, ok2 := an.CompositeFieldValue(al, "Txid")
				if !ok1 || !ok2 {
					c.Unknown(x.r1Rule, cons, pos, "the confirmation request literal does not set NumConfs or Txid itself")
					continue
				}
				switch tr := x.role(tx, nil, 0); {
				case tr == "REG_TXID":
					c.OK(x.r1Rule, s.name+" :: registered txid", pos, "lnd is asked about the registered txid")
				case strings.HasPrefix(tr, "REG_") || strings.HasPrefix(tr, "K:"):
					c.Bad(x.r1Rule, s.name+" :: registered txid", pos, "ConfRequest.Txid is "+tr+", not the registered txid")
				default:
					c.Unknown(x.r1Rule, s.name+" :: registered txid", pos, "cannot trace ConfRequest.Txid ("+tr+") to the registered txid")
				}
				numConfs := func(v ssa.Value, pos string) {
					_, isK := c20Strip(v).(*ssa.Const)
					term := w.Term(v)
					switch {
					case strings.Contains(term, "TxWatcher.targetConfs"):
						c.OK(x.r1Rule, cons, pos, "the confirmation registration asks lnd for targetConfs confirmations")
					case isK || strings.HasPrefix(term, "field:TxWatcher."):
						c.Bad(x.r1Rule, cons, pos, "the confirmation registration asks lnd for "+term+" confirmations, not TxWatcher.targetConfs")
					default:
						c.Unknown(x.r1Rule, cons, pos, "cannot trace ConfRequest.NumConfs ("+term+") to TxWatcher.targetConfs")
					}
				}
				p, isParam := c20Strip(nc).(*ssa.Parameter)
				if !isParam {
					numConfs(nc, pos)
					continue
				}
				found := false
				for _, call := range x.callers[p.Parent()] {
					if !tops[an.EnclosingTop(call.Parent())] {
						continue
					}
					found = true
					numConfs(call.Common().Args[c20ParamIndex(p)], w.Pos(call.Pos()))
				}
				if !found {
					c.Unknown(x.r1Rule, cons, pos, "no call of "+w.FuncName(p.Parent())+" in the functions that lead to the report")
				}
			}
		}
	}
	if n == 0 {
		c.Anchor("C20.R1: no chainrpc.ConfRequest literal in package lnd")
	}
}

// r1Wiring: the required-depth fields are fed with the onchain constants.
func (x *c20X) r1Wiring() {
	c, w := x.c, x.w
	type wf struct {
		key   string
		byArg map[string]string // concrete type of a sibling argument -> constant name
		def   []string
	}
	n := 0
	perField := map[string]int{}
	for _, f := range []wf{
		{"BlockchainRpcTxWatcher.requiredConfs", map[string]string{"ElementsBlockChainRpc": "LiquidConfs", "BitcoinBlockchainRpc": "BitcoinMinConfs"}, []string{"LiquidConfs", "BitcoinMinConfs"}},
		{"TxWatcher.targetConfs", nil, []string{"BitcoinMinConfs"}},
	} {
		ws := x.prodWriters(f.key)
		if len(ws) == 0 {
			c.Anchor("C20.R1: field %s has no production writer", f.key)
			continue
		}
		for _, st := range ws {
			p, ok := c20Strip(st.Val).(*ssa.Parameter)
			if !ok {
				c.Unknown(x.r1Rule, "required depth "+f.key, w.Pos(st.Pos()), "written from "+w.Term(st.Val)+", not from a constructor parameter")
				continue
			}
			for _, call := range x.callers[p.Parent()] {
				n++
				perField[f.key]++
				args := call.Common().Args
				arg := args[c20ParamIndex(p)]
				cons := fmt.Sprintf("required depth %s <- %s", f.key, w.FuncName(call.Parent()))
				v, isK := an.ConstInt(arg)
				if _, isConst := c20Strip(arg).(*ssa.Const); !isConst || !isK {
					c.Unknown(x.r1Rule, cons, w.Pos(call.Pos()), "the required depth is not a constant: "+w.Term(arg))
					continue
				}
				want := f.def
				for _, a := range args {
					if mi, ok := a.(*ssa.MakeInterface); ok {
						if nt := an.NamedOf(mi.X.Type()); nt != nil && f.byArg[nt.Obj().Name()] != "" {
							want = []string{f.byArg[nt.Obj().Name()]}
							cons += "(" + nt.Obj().Name() + ")"
						}
					}
				}
				ok := false
				for _, k := range want {
					if x.k[k] == v {
						ok = true
					}
				}
				c.Decide(ok, x.r1Rule, cons, w.Pos(call.Pos()), fmt.Sprintf("required depth %d = onchain.%s", v, strings.Join(want, "|")),
					fmt.Sprintf("the watcher is constructed with required depth %d, not onchain.%s", v, strings.Join(want, "|")))
			}
		}
	}
	_ = n
	for _, k := range []string{"BlockchainRpcTxWatcher.requiredConfs", "TxWatcher.targetConfs"} {
		c.AtLeast(x.r1Rule, "constructor call sites that set "+k, perField[k], 1)
	}
}

// ---- R2 -----------------------------------------------------------------------------------

func (x *c20X) r2(s *c20Site) {
	c, w := x.c, x.w
	pos := w.Pos(s.instr.Pos())
	g := x.factsAt(s.instr)
	needLin := func(sub string, what string, specs ...an.LinSpec) {
		x.judgeLin("C20.R2", s.name+" :: "+sub, pos, g, what+" dominates the report",
			"a CSV-maturity report is not dominated by "+what+". Facts that do hold: "+c20Describe(g), specs...)
	}
	switch w.FnRel(s.fn) {
	case "txwatcher":
		needLin("depth", "confirmations(registered txid, vout) >= registered csv", c20Spec(">=", 0, "CONFS[txid,vout]", 1, "REG_CSV", -1))
	case "electrum":
		needLin("depth", "tip-txHeight+1 >= registered csv for the registered txid", c20Spec(">=", 1, "CUR", 1, "TXHEIGHT[txid]", -1, "REG_CSV", -1))
		needLin("tip>0", "tip > 0", c20Spec(">", 0, "CUR", 1))
		needLin("txHeight>0", "txHeight > 0", c20Spec(">", 0, "TXHEIGHT[txid]", 1))
		needLin("txHeight<=tip", "txHeight <= tip", c20Spec(">=", 0, "CUR", 1, "TXHEIGHT[txid]", -1))
	case "lnd":
		k := 1 - x.k["BitcoinCsv"]
		needLin("depth", fmt.Sprintf("height-confHeight+1 >= onchain.BitcoinCsv (%d) with confHeight the confirmation event's own height", x.k["BitcoinCsv"]),
			c20Spec(">=", k, "field:BlockEpoch.Height", 1, "field:confirmationEvent.blockHeight", -1),
			c20Spec(">=", k, "call:func:(*lnd.TxWatcher).GetBlockHeight#0", 1, "field:confirmationEvent.blockHeight", -1))
	default:
		c.Unknown("C20.R2", s.name, pos, "CSV report in a package whose back-end is not modelled (txwatcher, electrum, lnd)")
	}
}

// ---- R3 -----------------------------------------------------------------------------------

// cancelFeasible decides whether anybody can make ctx.Done() ready.
func (x *c20X) cancelFeasible(v ssa.Value, d int) (bool, string) {
	w := x.w
	if d > 6 {
		return true, "context origin too deep to resolve"
	}
	v = c20Strip(v)
	switch t := v.(type) {
	case *ssa.Parameter:
		sites := x.callers[t.Parent()]
		if len(sites) == 0 || x.ifaceParam(t) != "" || c20ImplOf(t.Parent(), x.txw) || c20ImplOf(t.Parent(), x.obs) {
			return true, "the context is a parameter of " + w.FuncName(t.Parent()) + " whose callers are not all known"
		}
		why := []string{}
		for _, s := range sites {
			args := s.Common().Args
			i := c20ParamIndex(t)
			if i < 0 || i >= len(args) {
				return true, "call site does not pass the context positionally"
			}
			f, y := x.cancelFeasible(args[i], d+1)
			if f {
				return true, y
			}
			why = append(why, y)
		}
		return false, strings.Join(why, "; ")
	case *ssa.FreeVar, *ssa.Alloc:
		if s := c20CellValue(t); s != nil {
			return x.cancelFeasible(s, d+1)
		}
	case *ssa.UnOp:
		if t.Op == token.MUL {
			if s := c20CellValue(t.X); s != nil {
				return x.cancelFeasible(s, d+1)
			}
		}
	case *ssa.Extract:
		call, ok := t.Tuple.(*ssa.Call)
		if !ok || t.Index != 0 {
			break
		}
		name := w.Info(call).Name
		if name != "func:context.WithCancel" {
			return true, "the context is created by " + name
		}
		parent, ok := c20Strip(call.Call.Args[0]).(*ssa.Call)
		if !ok || (w.Info(parent).Name != "func:context.Background" && w.Info(parent).Name != "func:context.TODO") {
			return true, "the parent context " + w.Term(call.Call.Args[0]) + " can be cancelled elsewhere"
		}
		at := w.Pos(call.Pos())
		if call.Referrers() == nil {
			return false, "cancel func of context.WithCancel at " + at + " is discarded"
		}
		for _, r := range *call.Referrers() {
			ex, ok := r.(*ssa.Extract)
			if !ok || ex.Index != 1 {
				continue
			}
			if f, y := x.funcValueUsed(ex, 0); f {
				return true, "cancel func of context.WithCancel at " + at + " " + y
			}
		}
		return false, "the cancel func of context.WithCancel(context.Background()) at " + at + " is never called: it is only stored in a field that no production code reads"
	}
	return true, "the context " + w.Term(v) + " is not a local context.WithCancel(context.Background())"
}

// funcValueUsed: can the func value v be invoked by anybody?
func (x *c20X) funcValueUsed(v ssa.Value, d int) (bool, string) {
	w := x.w
	if d > 4 {
		return true, "flows too far to follow"
	}
	if v.Referrers() == nil {
		return false, ""
	}
	for _, r := range *v.Referrers() {
		switch t := r.(type) {
		case *ssa.DebugRef:
		case ssa.CallInstruction:
			if t.Common().Value == v {
				return true, "is called at " + w.Pos(t.Pos())
			}
			return true, "is passed to " + w.Info(t).Name + " at " + w.Pos(t.Pos())
		case *ssa.Store:
			if t.Val != v {
				continue
			}
			switch a := t.Addr.(type) {
			case *ssa.FieldAddr:
				key := an.FieldName(a.X.Type(), a.Field)
				for _, rd := range w.FieldReaders(key) {
					if !an.IsTestSupport(w.FnRel(rd.Parent())) {
						return true, "is stored in " + key + ", which is read at " + w.Pos(rd.Pos())
					}
				}
			case *ssa.Alloc:
				if a.Referrers() != nil {
					for _, ar := range *a.Referrers() {
						switch l := ar.(type) {
						case *ssa.UnOp:
							if f, y := x.funcValueUsed(l, d+1); f {
								return true, y
							}
						case *ssa.Store, *ssa.DebugRef:
						default:
							return true, "escapes through a captured variable at " + w.Pos(ar.Pos())
						}
					}
				}
			default:
				return true, "is stored at " + w.Pos(t.Pos())
			}
		default:
			return true, "escapes at " + w.Pos(r.Pos())
		}
	}
	return false, ""
}

// infeasible returns the select-arm edges of fn that can never be taken.
func (x *c20X) infeasible(fn *ssa.Function) map[an.Edge]bool {
	if m, ok := x.infeas[fn]; ok {
		return m
	}
	m := map[an.Edge]bool{}
	x.infeas[fn] = m
	for _, b := range fn.Blocks {
		for _, in := range b.Instrs {
			sel, ok := in.(*ssa.Select)
			if !ok {
				continue
			}
			for i, st := range sel.States {
				done, ok := st.Chan.(*ssa.Call)
				if !ok || st.Dir != types.RecvOnly || x.w.Info(done).Name != "iface:context.Context.Done" {
					continue
				}
				feas, why := x.cancelFeasible(done.Call.Value, 0)
				x.notes[fn] = append(x.notes[fn], fmt.Sprintf("<-ctx.Done() arm %d at %s: feasible=%v — %s", i, x.w.Pos(sel.Pos()), feas, why))
				if feas {
					continue
				}
				// the arm is entered on `index == i`
				if sel.Referrers() == nil {
					continue
				}
				for _, r := range *sel.Referrers() {
					ex, ok := r.(*ssa.Extract)
					if !ok || ex.Index != 0 || ex.Referrers() == nil {
						continue
					}
					for _, rr := range *ex.Referrers() {
						bo, ok := rr.(*ssa.BinOp)
						if !ok || bo.Op != token.EQL {
							continue
						}
						k, isK := an.ConstInt(bo.Y)
						if !isK || k != int64(i) || bo.X != ssa.Value(ex) {
							continue
						}
						for _, ce := range an.CondUses(bo) {
							m[ce.True] = true
						}
					}
				}
			}
		}
	}
	return m
}

func c20HasReturn(b *ssa.BasicBlock) bool {
	if len(b.Instrs) == 0 {
		return false
	}
	_, ok := b.Instrs[len(b.Instrs)-1].(*ssa.Return)
	return ok
}

// rangeHeader: if v is the key/value of a `range` over a map, the block holding the Next and the map field.
func c20RangeOf(v ssa.Value) (*ssa.Next, string) {
	ex, ok := c20Strip(v).(*ssa.Extract)
	if !ok {
		return nil, ""
	}
	nx, ok := ex.Tuple.(*ssa.Next)
	if !ok {
		return nil, ""
	}
	rg, ok := nx.Iter.(*ssa.Range)
	if !ok {
		return nx, ""
	}
	if ld, ok := rg.X.(*ssa.UnOp); ok && ld.Op == token.MUL {
		if fa, ok := ld.X.(*ssa.FieldAddr); ok {
			return nx, an.FieldName(fa.X.Type(), fa.Field)
		}
	}
	return nx, ""
}

// c20FieldOfLoad: v is a load of field key?
func c20LoadedField(v ssa.Value) string {
	if ld, ok := v.(*ssa.UnOp); ok && ld.Op == token.MUL {
		if fa, ok := ld.X.(*ssa.FieldAddr); ok {
			return an.FieldName(fa.X.Type(), fa.Field)
		}
	}
	return ""
}

// deletesFrom: fn contains delete(m, …) with m a load of field key.
func (x *c20X) deletesFrom(fn *ssa.Function, key string) bool {
	for _, call := range an.Calls(fn) {
		if x.w.Info(call).Name == "builtin:delete" && len(call.Common().Args) == 2 && c20LoadedField(call.Common().Args[0]) == key {
			return true
		}
	}
	return false
}

// c20Settle looks through conversions and single-assignment local cells.
func c20Settle(v ssa.Value) ssa.Value {
	for i := 0; i < 6; i++ {
		v = c20Strip(v)
		ld, ok := v.(*ssa.UnOp)
		if !ok || ld.Op != token.MUL {
			return v
		}
		switch ld.X.(type) {
		case *ssa.Alloc, *ssa.FreeVar:
			if s := c20CellValue(ld.X); s != nil {
				v = s
				continue
			}
		}
		return v
	}
	return v
}

// c20SliceSource: the struct field a slice value is (a copy / re-slice / snapshot of).
func c20SliceSource(v ssa.Value, d int) string {
	if v == nil || d > 6 {
		return ""
	}
	v = c20Settle(v)
	if k := c20LoadedField(v); k != "" {
		return k
	}
	switch t := v.(type) {
	case *ssa.Slice:
		return c20SliceSource(t.X, d+1)
	case *ssa.Phi:
		key := ""
		for _, e := range t.Edges {
			k := c20SliceSource(e, d+1)
			if k == "" || (key != "" && k != key) {
				return ""
			}
			key = k
		}
		return key
	case *ssa.Call:
		if b, ok := t.Call.Value.(*ssa.Builtin); ok && b.Name() == "append" {
			// append([]T(nil), field...) / append(make(..), field...)
			key := ""
			for _, a := range t.Call.Args {
				if k := c20SliceSource(a, d+1); k != "" {
					key = k
				}
			}
			return key
		}
		if g := t.Common().StaticCallee(); g != nil && g.Pkg != nil && g.Pkg.Pkg.Path() == "slices" && g.Name() == "Clone" && len(t.Call.Args) == 1 {
			return c20SliceSource(t.Call.Args[0], d+1)
		}
	case *ssa.MakeSlice:
		// dst := make(..); copy(dst, field)
		if t.Referrers() != nil {
			for _, r := range *t.Referrers() {
				if cp, ok := r.(*ssa.Call); ok {
					if b, ok := cp.Call.Value.(*ssa.Builtin); ok && b.Name() == "copy" && len(cp.Call.Args) == 2 && c20Settle(cp.Call.Args[0]) == ssa.Value(t) {
						if k := c20SliceSource(cp.Call.Args[1], d+1); k != "" {
							return k
						}
					}
				}
			}
		}
	}
	return ""
}

// writesField: fn, or an in-module function it calls statically (to the given depth), stores into the field.
func (x *c20X) writesField(fn *ssa.Function, key string, depth int) bool {
	for _, st := range x.prodWriters(key) {
		if st.Parent() == fn {
			return true
		}
	}
	if depth == 0 {
		return false
	}
	for _, call := range an.Calls(fn) {
		if g := call.Common().StaticCallee(); g != nil && g != fn && x.w.InModule(g) && x.writesField(g, key, depth-1) {
			return true
		}
	}
	return false
}

// deletesFromDeep: deletesFrom through static in-module callees.
func (x *c20X) deletesFromDeep(fn *ssa.Function, key string, depth int) bool {
	if x.deletesFrom(fn, key) {
		return true
	}
	if depth == 0 {
		return false
	}
	for _, call := range an.Calls(fn) {
		if g := call.Common().StaticCallee(); g != nil && g != fn && x.w.InModule(g) && x.deletesFromDeep(g, key, depth-1) {
			return true
		}
	}
	return false
}

// c20Sink: where a value ends up when followed forwards through array cells,
// slices, append, phis and local variables.
type c20Sink struct {
	kind  string // delete | call | opaque
	instr ssa.Instruction
	first ssa.Instruction // first instruction that consumed the value on this way
	what  string
}

func (x *c20X) keyFlow(key ssa.Value, site ssa.Instruction) []c20Sink {
	var sinks []c20Sink
	seen := map[ssa.Value]bool{}
	var fwd func(v ssa.Value, first ssa.Instruction, direct bool)
	fwd = func(v ssa.Value, first ssa.Instruction, direct bool) {
		if v == nil || seen[v] || v.Referrers() == nil {
			return
		}
		seen[v] = true
		for _, r := range *v.Referrers() {
			f := first
			if f == nil {
				f = r
			}
			switch t := r.(type) {
			case *ssa.DebugRef:
			case *ssa.Store:
				if t.Val != v {
					continue
				}
				switch a := t.Addr.(type) {
				case *ssa.IndexAddr:
					if al, ok := a.X.(*ssa.Alloc); ok && al.Referrers() != nil {
						for _, ar := range *al.Referrers() {
							if sl, ok := ar.(*ssa.Slice); ok {
								fwd(sl, f, false)
							}
						}
					} else {
						sinks = append(sinks, c20Sink{"opaque", t, f, "stored into an element of " + x.w.Term(a.X)})
					}
				case *ssa.Alloc:
					if a.Referrers() != nil {
						for _, ar := range *a.Referrers() {
							if ld, ok := ar.(*ssa.UnOp); ok && ld.Op == token.MUL {
								fwd(ld, f, direct)
							} else if _, ok := ar.(*ssa.MakeClosure); ok {
								sinks = append(sinks, c20Sink{"opaque", t, f, "captured by a closure"})
							}
						}
					}
				default:
					sinks = append(sinks, c20Sink{"opaque", t, f, "stored into " + x.w.Term(t.Addr)})
				}
			case *ssa.Slice, *ssa.ChangeType, *ssa.Convert, *ssa.Phi:
				fwd(r.(ssa.Value), f, false)
			case *ssa.MakeInterface:
				// boxed into an interface: formatting / logging, cannot key a map deletion
			case *ssa.MapUpdate:
				sinks = append(sinks, c20Sink{"opaque", t, f, "put into the map " + x.w.Term(t.Map)})
			case *ssa.Send:
				sinks = append(sinks, c20Sink{"opaque", t, f, "sent on a channel"})
			case *ssa.Return:
				sinks = append(sinks, c20Sink{"opaque", t, f, "returned to the caller"})
			case *ssa.MakeClosure:
				sinks = append(sinks, c20Sink{"opaque", t, f, "captured by a closure"})
			case ssa.CallInstruction:
				if r == site {
					continue
				}
				cc := t.Common()
				if b, ok := cc.Value.(*ssa.Builtin); ok {
					switch b.Name() {
					case "append":
						if cv, ok := r.(ssa.Value); ok {
							fwd(cv, f, false)
						}
					case "delete":
						if len(cc.Args) == 2 && cc.Args[1] == v && direct {
							sinks = append(sinks, c20Sink{"delete", t, f, c20LoadedField(cc.Args[0])})
						}
					}
					continue
				}
				g := cc.StaticCallee()
				switch {
				case g != nil && x.w.InModule(g):
					sinks = append(sinks, c20Sink{"call", t, f, ""})
				case g == nil && !cc.IsInvoke():
					sinks = append(sinks, c20Sink{"opaque", t, f, "passed to a func value"})
				}
			}
		}
	}
	fwd(key, nil, true)
	return sinks
}

func (x *c20X) r3() {
	c, w := x.c, x.w
	byFn := map[*ssa.Function][]*c20Site{}
	for _, s := range x.sites {
		byFn[s.fn] = append(byFn[s.fn], s)
	}
	watchLists := map[string]bool{}
	for _, s := range x.sites {
		if _, key := c20RangeOf(s.swapID); key != "" {
			watchLists[key] = true
		}
	}
	nScan := 0
	obsImpl := map[string]bool{}
	for _, s := range x.sites {
		fn := s.fn
		pos := w.Pos(s.instr.Pos())
		cut := map[an.Edge]bool{}
		for e := range x.infeasible(fn) {
			cut[e] = true
		}
		live := an.ReachBlocks([]*ssa.BasicBlock{fn.Blocks[0]}, cut, nil)
		if !live[s.instr.Block()] {
			c.OK("C20.R3", s.name+" :: no second report", pos, "the site is unreachable: "+strings.Join(x.notes[fn], " | "))
			continue
		}
		// (A) no report after a report. Iterations of a scan over the watch list concern other registrations.
		nx, listKey := c20RangeOf(s.swapID)
		if nx != nil {
			hb := nx.Block()
			if iff, ok := hb.Instrs[len(hb.Instrs)-1].(*ssa.If); ok {
				for _, ce := range an.CondUses(iff.Cond) {
					cut[ce.True] = true
				}
			}
		}
		after := an.ReachBlocks(s.instr.Block().Succs, cut, nil)
		var again []string
		flagged := true // every offending path is steered by a bool variable the rule does not track
		for _, o := range byFn[fn] {
			hit := false
			if o == s {
				if after[s.instr.Block()] {
					again = append(again, "itself (the loop comes back without return)")
					hit = true
				}
			} else if o.instr == s.instr {
				continue // two reports inside one helper call: judged inside the helper
			} else if after[o.instr.Block()] || (o.instr.Block() == s.instr.Block() && an.InstrIndex(o.instr) > an.InstrIndex(s.instr)) {
				again = append(again, o.name+" at "+w.Pos(o.instr.Pos()))
				hit = true
			}
			if hit && !c20PathSteeredByVariable(s.instr.Block(), o.instr.Block(), after, cut) {
				flagged = false
			}
		}
		switch {
		case len(again) == 0:
			c.OK("C20.R3", s.name+" :: no second report", pos, "every feasible path after the report leaves the function without another report")
		case flagged:
			c.Unknown("C20.R3", s.name+" :: no second report", pos, "after this report the CFG reaches another report ("+strings.Join(again, ", ")+"), but every such path is steered by a bool variable (a 'reported' flag?) that this rule does not track")
		default:
			c.Bad("C20.R3", s.name+" :: no second report", pos,
				"after this report a feasible path reaches another report for the same registration: "+strings.Join(again, ", ")+". "+strings.Join(x.notes[fn], " | "))
		}

		call, isCall := s.instr.(*ssa.Call)
		var okE []an.Edge
		if isCall && s.via == nil && !s.proxy {
			okE, _ = an.OkEdges(call)
		}
		// (B) scan over a watch list: the reported key is removed on success
		if nx != nil && !s.proxy {
			nScan++
			cons := s.name + " :: removed from the watch list on success"
			switch {
			case listKey == "":
				c.Unknown("C20.R3", cons, pos, "the scanned collection is not a field of the watcher")
			case !isCall:
				c.Unknown("C20.R3", cons, pos, "the report is issued by a go / defer statement")
			default:
				scanE := okE
				if len(scanE) == 0 {
					// the result is not tested: the key must be removed whatever the callback answers
					for i := range s.instr.Block().Succs {
						scanE = append(scanE, an.Edge{From: s.instr.Block(), Idx: i})
					}
				}
				x.r3Removal(s, call, scanE, nx, listKey, cons)
			}
		}
		// (C) an immediate report at registration time must not be followed by insertion into a watch list
		if len(okE) > 0 && nx == nil {
			var bad []string
			for _, e := range okE {
				for b := range an.ReachBlocks([]*ssa.BasicBlock{e.To()}, cut, nil) {
					for _, in := range b.Instrs {
						if mu, ok := in.(*ssa.MapUpdate); ok && watchLists[c20LoadedField(mu.Map)] {
							bad = append(bad, c20LoadedField(mu.Map)+" at "+w.Pos(mu.Pos()))
						}
					}
				}
			}
			c.Decide(len(bad) == 0, "C20.R3", s.name+" :: not re-armed after success", pos, "after a successful report the registration is not inserted into a scanned watch list",
				"after a successful report the registration is still inserted into "+strings.Join(bad, ", ")+" and will be reported again by the scan")
		}
		// (D) observers tell the subscriber that they reported
		if fn.Name() == c20ObsCB && c20ImplOf(fn, x.obs) {
			if n := an.NamedOf(fn.Signature.Recv().Type()); n != nil {
				obsImpl[n.Obj().Name()] = true
			}
			afterD := an.ReachBlocks([]*ssa.BasicBlock{s.instr.Block()}, cut, nil)
			verdict := 1
			for b := range afterD {
				if !c20HasReturn(b) {
					continue
				}
				r := b.Instrs[len(b.Instrs)-1].(*ssa.Return)
				if v := c20ReturnsTrue(r.Results[0], afterD, 0); v < verdict {
					verdict = v
				}
			}
			cons := s.name + " :: observer returns true"
			switch {
			case verdict == 1:
				c.OK("C20.R3", cons, pos, "every return after the report yields true, so the subscriber can deregister")
			case verdict == 0 && (!s.proxy || s.must):
				c.Bad("C20.R3", cons, pos, "a return after the report yields false: the subscriber keeps the observer and it reports again on the next block")
			default:
				c.Unknown("C20.R3", cons, pos, "a return after the report yields a value this rule cannot evaluate (not a constant nor a phi of constants), or the helper does not report on every path")
			}
		}
	}
	c.AtLeast("C20.R3", "watch-list scans with a report", nScan, 1)
	c.AtLeast("C20.R3", "TXObserver implementations with a report", len(obsImpl), 2)
	fns := make([]*ssa.Function, 0, len(x.notes))
	for fn := range x.notes {
		fns = append(fns, fn)
	}
	sort.Slice(fns, func(i, j int) bool { return w.FuncName(fns[i]) < w.FuncName(fns[j]) })
	for _, fn := range fns {
		c.Note("C20.R3", w.FuncName(fn)+" ctx.Done() arms", w.Pos(fn.Pos()), strings.Join(x.notes[fn], " | "))
	}
	x.r3Subscribers()
}

// c20ReturnsTrue: 1 = the returned flag is true on every path that comes from the
// report, 0 = some such path returns the constant false, -1 = cannot tell.
func c20ReturnsTrue(v ssa.Value, afterSite map[*ssa.BasicBlock]bool, d int) int {
	switch t := v.(type) {
	case *ssa.Const:
		if t.Value != nil && t.Value.Kind() == constant.Bool {
			if constant.BoolVal(t.Value) {
				return 1
			}
			return 0
		}
	case *ssa.Phi:
		if d > 3 {
			return -1
		}
		res := 1
		for i, e := range t.Edges {
			if i >= len(t.Block().Preds) || !afterSite[t.Block().Preds[i]] {
				continue // this incoming value does not come from the report
			}
			if r := c20ReturnsTrue(e, afterSite, d+1); r < res {
				res = r
			}
		}
		return res
	case *ssa.UnOp:
		if al, ok := t.X.(*ssa.Alloc); ok && t.Op == token.MUL && d <= 3 {
			stores, fromEntry := an.StoresReaching(t, al)
			if fromEntry {
				return -1
			}
			res := 1
			for _, sv := range stores {
				r := c20ReturnsTrue(sv.Val, afterSite, d+1)
				if !afterSite[sv.Block()] && r != 1 {
					r = -1 // written before the report: whether it survives until the return is not tracked
				}
				if r < res {
					res = r
				}
			}
			return res
		}
	}
	return -1
}

// c20PathSteeredByVariable: some block on the paths from `from` to `to` (inside
// `within`) branches on a bool phi / local variable / parameter.
func c20PathSteeredByVariable(from, to *ssa.BasicBlock, within map[*ssa.BasicBlock]bool, cut map[an.Edge]bool) bool {
	check := func(b *ssa.BasicBlock) bool {
		if len(b.Instrs) == 0 {
			return false
		}
		iff, ok := b.Instrs[len(b.Instrs)-1].(*ssa.If)
		if !ok {
			return false
		}
		cond := iff.Cond
		for {
			u, ok := cond.(*ssa.UnOp)
			if !ok || u.Op != token.NOT {
				break
			}
			cond = u.X
		}
		switch t := cond.(type) {
		case *ssa.Phi, *ssa.Parameter:
			return true
		case *ssa.UnOp:
			if t.Op == token.MUL {
				switch t.X.(type) {
				case *ssa.Alloc, *ssa.FreeVar:
					return true
				}
			}
		}
		return false
	}
	if check(from) {
		return true
	}
	for b := range within {
		if b == to {
			continue
		}
		if check(b) && an.ReachBlocks([]*ssa.BasicBlock{b}, cut, nil)[to] {
			return true
		}
	}
	return false
}

// r3Removal: every path from a success edge of the report passes the instruction
// that hands the reported key to the removal call, and the removal call lies on
// every path to the function's returns.
func (x *c20X) r3Removal(s *c20Site, call *ssa.Call, okE []an.Edge, nx *ssa.Next, listKey, cons string) {
	c, w := x.c, x.w
	fn := s.fn
	pos := w.Pos(s.instr.Pos())
	header := nx.Block()
	var carrier, removal ssa.Instruction
	var opaque []string
	for _, k := range x.keyFlow(c20Settle(s.swapID), s.instr) {
		switch k.kind {
		case "delete":
			if k.what == listKey && removal == nil {
				carrier, removal = k.instr, k.instr
			}
		case "call":
			g := k.instr.(ssa.CallInstruction).Common().StaticCallee()
			if x.deletesFromDeep(g, listKey, 2) {
				if removal == nil {
					carrier, removal = k.first, k.instr
				}
			} else {
				opaque = append(opaque, "passed to "+w.FuncName(g))
			}
		default:
			opaque = append(opaque, k.what)
		}
	}
	if removal == nil {
		if len(opaque) > 0 {
			c.Unknown("C20.R3", cons, pos, "the reported key does not reach a call that deletes from "+listKey+" in this function, but it is handed on ("+strings.Join(opaque, "; ")+"): cannot tell whether the registration is removed")
		} else {
			c.Bad("C20.R3", cons, pos, "the reported key never reaches a call that deletes from "+listKey+" and is not handed to anybody else: the registration stays in the watch list and is reported again on every new block")
		}
		return
	}
	// (i) success edge -> carrier within the iteration
	ok1 := true
	for _, e := range okE {
		reach := an.ReachBlocks([]*ssa.BasicBlock{e.To()}, nil, map[*ssa.BasicBlock]bool{carrier.Block(): true})
		for b := range reach {
			if b == carrier.Block() {
				continue
			}
			if b == header || c20HasReturn(b) {
				ok1 = false
			}
		}
	}
	// (ii) removal call on every path to a return (when it is not the carrier itself)
	ok2 := true
	if removal != carrier {
		// from the success edge on (a return before any report needs no removal)
		var starts []*ssa.BasicBlock
		for _, e := range okE {
			starts = append(starts, e.To())
		}
		reach := an.ReachBlocks(starts, nil, map[*ssa.BasicBlock]bool{removal.Block(): true})
		for b := range reach {
			if b != removal.Block() && c20HasReturn(b) {
				ok2 = false
			}
		}
	}
	_ = fn
	x.r6Scan(s.name+" :: scan serialised (select → report → remove)", pos, fn, []ssa.Instruction{nx, s.instr, removal}, "selecting the entry, the callback and the removal")
	name := "delete"
	if ci, ok := removal.(ssa.CallInstruction); ok {
		name = w.Info(ci).Name
	}
	c.Decide(ok1 && ok2, "C20.R3", cons, pos, "on the success edge the reported key is handed to "+name+", which deletes it from "+listKey+" before the scan returns",
		fmt.Sprintf("a path from the success edge of the report avoids the removal (key collected on every success path: %v; removal call on every path to return: %v)", ok1, ok2))
}

// r3Subscribers: loops that drive TXObserver.Callback remove the observer when it reported successfully.
func (x *c20X) r3Subscribers() {
	c, w := x.c, x.w
	n := 0
	for _, fn := range prodFuncs(w) {
		for _, ci := range an.Calls(fn) {
			call, ok := ci.(*ssa.Call)
			if !ok || !w.IsIfaceCall(w.Info(call), "electrum", "TXObserver", c20ObsCB) {
				continue
			}
			n++
			cons := w.FuncName(fn) + " :: observer deregistered after (true, nil)"
			pos := w.Pos(call.Pos())
			obsV := c20Settle(call.Call.Value)
			listKey := ""
			if ld, ok := obsV.(*ssa.UnOp); ok && ld.Op == token.MUL {
				if ia, ok := ld.X.(*ssa.IndexAddr); ok {
					listKey = c20SliceSource(ia.X, 0)
				}
			}
			if listKey == "" {
				c.Unknown("C20.R3", cons, pos, "the observer does not come from indexing (a copy / re-slice / snapshot of) a field of the subscriber")
				continue
			}
			// removal calls: static callees that (transitively) rewrite the list field and receive this observer
			removal := map[*ssa.BasicBlock]bool{}
			var removalCalls []ssa.Instruction
			rewriters := 0
			if x.writesField(fn, listKey, 0) {
				rewriters++ // the loop function filters the list itself
			}
			for _, af := range fn.AnonFuncs {
				if x.writesField(af, listKey, 2) {
					rewriters++ // removal inside a closure / deferred function
				}
			}
			for _, cand := range an.Calls(fn) {
				g := cand.Common().StaticCallee()
				if g == nil || !w.InModule(g) || !x.writesField(g, listKey, 2) {
					continue
				}
				if _, isCall := cand.(*ssa.Call); !isCall {
					continue
				}
				rewriters++
				for _, a := range cand.Common().Args {
					if c20Settle(a) == obsV {
						removal[cand.Block()] = true
						removalCalls = append(removalCalls, cand)
					}
				}
			}
			if len(removal) == 0 {
				if rewriters > 0 {
					c.Unknown("C20.R3", cons, pos, "this function rewrites "+listKey+" (itself, in a closure, or through a callee) but the observer is not passed to a rewriting callee as such; cannot tell whether the reporting observer is removed")
				} else {
					c.Bad("C20.R3", cons, pos, "nothing called from this loop rewrites "+listKey+": an observer that reported stays registered and reports again on the next block")
				}
				continue
			}
			x.r6Scan(w.FuncName(fn)+" :: scan serialised (observer report → deregister)", pos, fn, append([]ssa.Instruction{call}, removalCalls...), "the observer callback and the deregistration")
			var flagV, errV ssa.Value
			for _, v := range an.ResultValues(call, 0) {
				flagV = v
			}
			for _, v := range an.ResultValues(call, 1) {
				errV = v
			}
			tE, fE := map[an.Edge]bool{}, map[an.Edge]bool{}
			if flagV != nil {
				t, f := an.BoolEdges(flagV)
				for _, e := range t {
					tE[e] = true
				}
				for _, e := range f {
					fE[e] = true
				}
			}
			okE, failE := map[an.Edge]bool{}, map[an.Edge]bool{}
			if errV != nil {
				o, f := an.OkEdges(call)
				for _, e := range o {
					okE[e] = true
				}
				for _, e := range f {
					failE[e] = true
				}
			}
			// explore (block, reported?, err nil?, known bool phis) — 0 unknown, 1 yes, 2 no.
			// Bool phis fed by constants (the shape && / || compile to) are tracked so
			// that `done := err == nil || …; if done {…}` is followed consistently.
			type st struct {
				b    *ssa.BasicBlock
				r, e int
				phis string
			}
			seen := map[st]bool{}
			var bad []string
			var dfs func(s st, path []int)
			dfs = func(s st, path []int) {
				if seen[s] {
					return
				}
				seen[s] = true
				known := c20ParsePhis(s.phis)
				only := -1 // the only successor consistent with a known phi condition
				if iff, ok := s.b.Instrs[len(s.b.Instrs)-1].(*ssa.If); ok {
					cond, neg := iff.Cond, false
					for {
						u, ok := cond.(*ssa.UnOp)
						if !ok || u.Op != token.NOT {
							break
						}
						cond, neg = u.X, !neg
					}
					if v, ok := known[cond.Name()]; ok {
						if v != neg {
							only = 0
						} else {
							only = 1
						}
					}
				}
				for i, to := range s.b.Succs {
					if only >= 0 && i != only {
						continue
					}
					ed := an.Edge{From: s.b, Idx: i}
					n := st{to, s.r, s.e, ""}
					switch {
					case tE[ed]:
						if s.r == 2 {
							continue
						}
						n.r = 1
					case fE[ed]:
						if s.r == 1 {
							continue
						}
						n.r = 2
					}
					switch {
					case okE[ed]:
						if s.e == 2 {
							continue
						}
						n.e = 1
					case failE[ed]:
						if s.e == 1 {
							continue
						}
						n.e = 2
					}
					nk := map[string]bool{}
					for k, v := range known {
						nk[k] = v
					}
					for j, p := range to.Preds {
						if p != s.b {
							continue
						}
						for _, in := range to.Instrs {
							phi, ok := in.(*ssa.Phi)
							if !ok {
								break
							}
							delete(nk, phi.Name())
							if k, ok := phi.Edges[j].(*ssa.Const); ok && k.Value != nil && k.Value.Kind() == constant.Bool {
								nk[phi.Name()] = constant.BoolVal(k.Value)
							}
						}
						break
					}
					n.phis = c20FormatPhis(nk)
					if removal[to] {
						continue
					}
					if to == call.Block() || c20HasReturn(to) {
						if n.r != 2 && n.e != 2 {
							bad = append(bad, fmt.Sprintf("via b%v to b%d", append(append([]int{}, path...), s.b.Index), to.Index))
						}
						continue
					}
					dfs(n, append(path, s.b.Index))
				}
			}
			dfs(st{call.Block(), 0, 0, ""}, nil)
			c.Decide(len(bad) == 0, "C20.R3", cons, pos, "every path on which the observer reported (true, nil) passes the call that removes it from "+listKey+" before the next observer / return",
				"a path on which the observer may have reported successfully reaches the next iteration or a return without deregistering it: "+strings.Join(bad, "; "))
		}
	}
	c.AtLeast("C20.R3", "loops driving TXObserver.Callback", n, 1)
}

func c20FormatPhis(m map[string]bool) string {
	var ks []string
	for k, v := range m {
		ks = append(ks, fmt.Sprintf("%s=%v", k, v))
	}
	sort.Strings(ks)
	return strings.Join(ks, ",")
}

func c20ParsePhis(s string) map[string]bool {
	m := map[string]bool{}
	if s == "" {
		return m
	}
	for _, kv := range strings.Split(s, ",") {
		if i := strings.LastIndex(kv, "="); i > 0 {
			m[kv[:i]] = kv[i+1:] == "true"
		}
	}
	return m
}

// ---- R4 -----------------------------------------------------------------------------------

func (x *c20X) r4(conf []*c20Site) {
	c, w := x.c, x.w
	open := c20Lin(">", 0, "REG_START", 1, "REG_WINDOW", 1, "CUR", -1)
	backends := map[string]bool{}
	done := map[*ssa.Function]bool{}
	for _, s := range conf {
		rel := w.FnRel(s.fn)
		if s.proxy || s.errKind == "nonnil" || (rel != "txwatcher" && rel != "electrum") {
			continue
		}
		backends[rel] = true
		// the window test sits in the function that reports, or in one that calls the helper that reports
		chain := []*ssa.Function{s.fn}
		for _, p := range conf {
			if p.proxy && p.real() == s {
				chain = append(chain, p.fn)
			}
		}
		found := false
		var opaque []string
		for _, fn := range chain {
			for _, f := range w.Facts(fn) {
				if _, ok := x.expand(f); !ok {
					if why := x.opaqueFact(f); why != "" {
						opaque = append(opaque, why)
					}
				}
			}
			if x.r4Func(fn, conf, open, done) {
				found = true
			}
		}
		if found {
			continue
		}
		cons := w.FuncName(s.fn) + " :: window closed (current >= start+window) ⇒ failure report"
		msg := "no branch of this function (or of the callers of the helper that reports) has an edge that is only taken while start+window-current > 0 holds for the registered start/window, so a closed window is never told apart. Branch facts: " + c20DescribeNorm(x, s.fn)
		if len(opaque) > 0 {
			c.Unknown("C20.R4", cons, w.Pos(s.fn.Pos()), msg+" — conditions this rule cannot look into: "+strings.Join(opaque, ", "))
		} else {
			c.Bad("C20.R4", cons, w.Pos(s.fn.Pos()), msg)
		}
	}
	c.AtLeast("C20.R4", "back-ends (RPC, Electrum) with a confirmation report that may carry a nil error", len(backends), 2)
}

// r4Func judges the closed-window edges of fn; false when fn has none.
func (x *c20X) r4Func(fn *ssa.Function, conf []*c20Site, open func(an.Fact) bool, done map[*ssa.Function]bool) bool {
	c, w := x.c, x.w
	failing := map[*ssa.BasicBlock]bool{}
	for _, s := range conf {
		if s.fn != fn || s.errKind != "nonnil" {
			continue
		}
		if (s.proxy && s.must) || (!s.proxy && (s.via == nil || s.viaOK)) {
			failing[s.instr.Block()] = true
		}
	}
	isHelper := false // called synchronously by in-module code that could report in its place
	if fn.Parent() == nil && !c20ImplOf(fn, x.txw) && !c20ImplOf(fn, x.obs) {
		for _, call := range x.callers[fn] {
			if _, ok := call.(*ssa.Call); ok {
				isHelper = true
			}
		}
	}
	cut := x.infeasible(fn)
	cons := w.FuncName(fn) + " :: window closed (current >= start+window) ⇒ failure report"
	found := false
	for _, b := range fn.Blocks {
		if len(b.Instrs) == 0 {
			continue
		}
		iff, ok := b.Instrs[len(b.Instrs)-1].(*ssa.If)
		if !ok {
			continue
		}
		ft, ff := w.FactsOfIf(iff)
		for _, pr := range [][2]an.Fact{{ft, ff}, {ff, ft}} {
			closedEdge, sibling := pr[0], pr[1]
			// the sibling edge is only taken with the window open, so a closed window takes closedEdge
			if !x.implies(sibling, open) {
				continue
			}
			found = true
			if done[fn] {
				continue
			}
			reach := an.ReachBlocks([]*ssa.BasicBlock{closedEdge.Edge.To()}, cut, failing)
			var bad []string
			for rb := range reach {
				if failing[rb] {
					continue
				}
				if c20HasReturn(rb) {
					bad = append(bad, fmt.Sprintf("return in b%d", rb.Index))
				}
				if rb == b {
					bad = append(bad, "back to the window test")
				}
			}
			sort.Strings(bad)
			pos := w.Pos(iff.Cond.Pos())
			switch {
			case len(bad) == 0:
				c.OK("C20.R4", cons, pos, "every feasible path from the closed-window edge issues the confirmation callback with a non-nil error before returning")
			case isHelper:
				c.Unknown("C20.R4", cons, pos, "from the closed-window edge this helper returns without a failure report ("+strings.Join(bad, ", ")+"); whether its callers report the failure is not followed")
			default:
				c.Bad("C20.R4", cons, pos, "the taker gets silence instead of an error: from the closed-window edge a path leaves without a failure report ("+strings.Join(bad, ", ")+")")
			}
		}
	}
	if found {
		done[fn] = true
	}
	return found
}

func c20DescribeNorm(x *c20X, fn *ssa.Function) string {
	var fs []an.Fact
	for _, f := range x.w.Facts(fn) {
		fs = append(fs, x.norm(f, nil))
	}
	return an.DescribeFacts(fs)
}

// ---- R6: serialised CSV reports -------------------------------------------------------------

// heldDeep: lock classes (write mode) that are certainly held just before instr:
// acquired in the function itself, or held by every synchronous caller (VTA call
// graph of the C18 lock engine) and not released on the way. A go statement
// starts with no lock.
func (x *c20X) heldDeep(in ssa.Instruction) map[string]bool {
	e := c18Get(x.w)
	var entry func(fn *ssa.Function, d int, busy map[*ssa.Function]bool) map[string]bool
	at := func(fn *ssa.Function, must, relMay c18Set, d int, busy map[*ssa.Function]bool) map[string]bool {
		out := map[string]bool{}
		for k := range must {
			if !strings.HasSuffix(k, "#R") {
				out[k] = true
			}
		}
		for k := range entry(fn, d, busy) {
			if !relMay[k] {
				out[k] = true
			}
		}
		return out
	}
	entry = func(fn *ssa.Function, d int, busy map[*ssa.Function]bool) map[string]bool {
		if d > 4 || busy[fn] || len(e.callers[fn]) == 0 {
			return nil
		}
		busy[fn] = true
		defer delete(busy, fn)
		var common map[string]bool
		for i, s := range e.callers[fn] {
			var h map[string]bool
			if !s.isGo && !s.isDefer {
				h = at(s.fn, s.must, s.relMay, d+1, busy)
			}
			if i == 0 {
				common = h
				continue
			}
			for k := range common {
				if !h[k] {
					delete(common, k)
				}
			}
		}
		return common
	}
	st := e.stateAt(in)
	return at(in.Parent(), st.must, st.relMay, 0, map[*ssa.Function]bool{})
}

// lockStateUnreliable: the C18 lock engine could not model a lock operation in the
// function of instr or in a synchronous caller (the held-lock sets there are not
// to be trusted): returns what it could not model, "" otherwise.
func (x *c20X) lockStateUnreliable(in ssa.Instruction) string {
	e := c18Get(x.w)
	seen := map[*ssa.Function]bool{}
	var why []string
	var up func(fn *ssa.Function, d int)
	up = func(fn *ssa.Function, d int) {
		if seen[fn] || d > 4 {
			return
		}
		seen[fn] = true
		for _, u := range e.unknown {
			if u.fn == fn && u.state {
				why = append(why, x.w.FuncName(fn)+": "+u.what)
			}
		}
		for _, s := range e.callers[fn] {
			if !s.isGo && !s.isDefer {
				up(s.fn, d+1)
			}
		}
	}
	up(in.Parent(), 0)
	return strings.Join(why, "; ")
}

// goRoots: the goroutines / API entry points from which fn can be reached synchronously.
func (x *c20X) goRoots(fn *ssa.Function) map[string]bool {
	e := c18Get(x.w)
	roots := map[string]bool{}
	seen := map[*ssa.Function]bool{}
	var up func(f *ssa.Function, d int)
	up = func(f *ssa.Function, d int) {
		if seen[f] {
			return
		}
		seen[f] = true
		if len(e.callers[f]) == 0 || d > 6 {
			roots["entry "+x.w.FuncName(f)] = true
			return
		}
		for _, s := range e.callers[f] {
			if s.isGo {
				roots["go statement at "+x.w.Pos(s.instr.Pos())] = true
				continue
			}
			up(s.fn, d+1)
		}
	}
	up(fn, 0)
	return roots
}

func c20SetString(m map[string]bool) string {
	if len(m) == 0 {
		return "no lock"
	}
	return strings.Join(sortedKeys(m), ", ")
}

func c20Intersect(a, b map[string]bool) map[string]bool {
	out := map[string]bool{}
	for k := range a {
		if b[k] {
			out[k] = true
		}
	}
	return out
}

// c20CallbackField: the struct field the reported func value is loaded from.
func c20CallbackField(s *c20Site) string {
	if s.proxy {
		return ""
	}
	return c20LoadedField(c20Settle(s.dyn().Common().Value))
}

func (x *c20X) r6(csv []*c20Site) {
	c, w := x.c, x.w
	groups := map[string][]*c20Site{}
	seenDyn := map[ssa.CallInstruction]bool{}
	for _, s := range csv {
		if seenDyn[s.dyn()] {
			continue // several lifted call sites of one wrapper: one dynamic call
		}
		seenDyn[s.dyn()] = true
		k := c20CallbackField(s)
		if k == "" {
			k = "?" + w.FuncName(s.fn)
		}
		groups[k] = append(groups[k], s)
	}
	watchLists := map[string]bool{}
	for _, s := range x.sites {
		if _, key := c20RangeOf(s.swapID); key != "" {
			watchLists[key] = true
		}
	}
	for _, k := range sortedKeysOfSites(groups) {
		sites := groups[k]
		cons := "CSV callback " + k + " :: call sites serialised"
		if strings.HasPrefix(k, "?") {
			c.Unknown("C20.R6", cons, w.Pos(sites[0].instr.Pos()), "the reported func value is not loaded from a field of the watcher; cannot group its call sites")
			continue
		}
		held := map[*c20Site]map[string]bool{}
		var live []*c20Site
		for _, s := range sites {
			// a site that reports before its registration is inserted into a scanned list cannot collide with the scan
			if x.reportsBeforeListing(s, watchLists) {
				c.OK("C20.R6", s.name+" :: reports before the registration is listed", w.Pos(s.instr.Pos()), "the watch-list insertion is only reachable after this report")
				continue
			}
			held[s] = x.heldDeep(s.dyn())
			live = append(live, s)
		}
		if len(live) <= 1 {
			if len(live) == 1 {
				c.OK("C20.R6", cons, w.Pos(live[0].instr.Pos()), "one call site ("+live[0].name+", holding "+c20SetString(held[live[0]])+")")
			}
			continue
		}
		common := held[live[0]]
		for _, s := range live[1:] {
			common = c20Intersect(common, held[s])
		}
		if len(common) > 0 {
			c.OK("C20.R6", cons, w.Pos(live[0].instr.Pos()), fmt.Sprintf("all %d call sites run under %s", len(live), c20SetString(common)))
			continue
		}
		positive := false
		for _, s := range live {
			var others map[string]bool
			var names []string
			for i, t := range live {
				if t == s {
					continue
				}
				names = append(names, t.name+" at "+w.Pos(t.instr.Pos())+" (holds "+c20SetString(held[t])+")")
				if others == nil && i >= 0 {
					others = held[t]
				} else {
					others = c20Intersect(others, held[t])
				}
			}
			if len(others) > 0 && len(c20Intersect(others, held[s])) == 0 {
				positive = true
				if why := x.lockStateUnreliable(s.dyn()); why != "" {
					c.Unknown("C20.R6", s.name+" :: serialised with the other CSV reports", w.Pos(s.instr.Pos()), "no common lock seen, but the lock state on the way to this call could not be modelled: "+why)
					continue
				}
				c.Bad("C20.R6", s.name+" :: serialised with the other CSV reports", w.Pos(s.instr.Pos()),
					"this call of the CSV callback runs with "+c20SetString(held[s])+" held, while every other call site of "+k+" holds "+c20SetString(others)+": "+strings.Join(names, "; ")+
						". A report that is still running here overlaps a report of the same registration there (entries are removed only after the callback returns): the registration is reported twice")
			}
		}
		if !positive {
			var names []string
			for _, t := range live {
				names = append(names, t.name+" (holds "+c20SetString(held[t])+")")
			}
			c.Unknown("C20.R6", cons, w.Pos(live[0].instr.Pos()), "several call sites without a common lock and without a lock that all but one hold: "+strings.Join(names, "; "))
		}
	}
	c.AtLeast("C20.R6", "CSV callback fields with a report", len(groups), 3)
}

func sortedKeysOfSites(m map[string][]*c20Site) []string {
	k := map[string]bool{}
	for s := range m {
		k[s] = true
	}
	return sortedKeys(k)
}

// reportsBeforeListing: the function inserts into a scanned watch list, and every
// such insertion lies after the report (not reachable from the entry around it).
func (x *c20X) reportsBeforeListing(s *c20Site, watchLists map[string]bool) bool {
	fn := s.fn
	var ins []*ssa.BasicBlock
	for _, b := range fn.Blocks {
		for _, in := range b.Instrs {
			if mu, ok := in.(*ssa.MapUpdate); ok && watchLists[c20LoadedField(mu.Map)] {
				if b == s.instr.Block() && an.InstrIndex(in) < an.InstrIndex(s.instr) {
					return false
				}
				ins = append(ins, b)
			}
		}
	}
	if len(ins) == 0 {
		return false
	}
	reach := an.ReachBlocks([]*ssa.BasicBlock{fn.Blocks[0]}, nil, map[*ssa.BasicBlock]bool{s.instr.Block(): true})
	for _, b := range ins {
		if b != s.instr.Block() && reach[b] {
			return false
		}
	}
	return true
}

// r6Scan: a scan that selects an entry, reports it and removes it later must hold
// one lock across the three steps when it can run concurrently with itself.
func (x *c20X) r6Scan(cons, pos string, fn *ssa.Function, steps []ssa.Instruction, what string) {
	c := x.c
	roots := x.goRoots(fn)
	var common map[string]bool
	for i, in := range steps {
		h := x.heldDeep(in)
		if i == 0 {
			common = h
		} else {
			common = c20Intersect(common, h)
		}
	}
	switch {
	case len(common) > 0:
		c.OK("C20.R6", cons, pos, what+" run under "+c20SetString(common))
	case len(roots) <= 1:
		c.OK("C20.R6", cons, pos, "no lock is held across "+what+", but the scan is only started from "+c20SetString(roots))
	case x.lockStateUnreliable(steps[0]) != "":
		c.Unknown("C20.R6", cons, pos, "no lock seen across "+what+", but the lock state on the way could not be modelled: "+x.lockStateUnreliable(steps[0]))
	default:
		c.Bad("C20.R6", cons, pos, "no lock is held across "+what+" and the scan can run concurrently with itself (started from "+c20SetString(roots)+
			"): a second scan that starts while a callback of the first is still running finds the entry still listed and reports the same registration again")
	}
}

// ---- R7: monotone tip -----------------------------------------------------------------------

// tipFields: integer fields of a swap.TxWatcher implementation whose load flows
// into the height returned by its GetBlockHeight.
func (x *c20X) tipFields() map[string]*ssa.Function {
	out := map[string]*ssa.Function{}
	for _, fn := range prodFuncs(x.w) {
		if fn.Name() != "GetBlockHeight" || !c20ImplOf(fn, x.txw) {
			continue
		}
		recv := an.NamedOf(fn.Signature.Recv().Type())
		for _, r := range an.Returns(fn) {
			if len(r.Results) == 0 {
				continue
			}
			seen := map[ssa.Value]bool{}
			var back func(v ssa.Value, d int)
			back = func(v ssa.Value, d int) {
				if v == nil || seen[v] || d > 6 {
					return
				}
				seen[v] = true
				switch t := v.(type) {
				case *ssa.Convert:
					back(t.X, d+1)
				case *ssa.ChangeType:
					back(t.X, d+1)
				case *ssa.Phi:
					for _, e := range t.Edges {
						back(e, d+1)
					}
				case *ssa.BinOp:
					back(t.X, d+1)
					back(t.Y, d+1)
				case *ssa.UnOp:
					if t.Op != token.MUL {
						return
					}
					if fa, ok := t.X.(*ssa.FieldAddr); ok && c20IsInt(t.Type()) {
						if n := an.NamedOf(fa.X.Type()); n != nil && recv != nil && n.Obj() == recv.Obj() {
							out[an.FieldName(fa.X.Type(), fa.Field)] = fn
						}
					} else if al, ok := t.X.(*ssa.Alloc); ok && al.Referrers() != nil {
						// a local / a result cell spilled because of defer: every value stored into it
						for _, rr := range *al.Referrers() {
							if sv, ok := rr.(*ssa.Store); ok && sv.Addr == ssa.Value(al) {
								back(sv.Val, d+1)
							}
						}
					} else if s := c20CellValue(t.X); s != nil {
						back(s, d+1)
					}
				}
			}
			back(r.Results[0], 0)
		}
	}
	return out
}

// c20Way: one way of reaching a point on which the required fact does not hold.
type c20Way struct {
	via    []string
	opaque bool
}

// uncovered lists the ways of reaching block b (back through predecessor edges,
// and through the callers of a plain helper) on which no fact implies pred.
func (x *c20X) uncovered(b *ssa.BasicBlock, pred func(an.Fact) bool, d int, onPath map[*ssa.BasicBlock]bool, via []string, callDepth int) []c20Way {
	w := x.w
	opq := false
	for _, f := range w.FactsDominatingBlock(b) {
		if x.implies(f, pred) {
			return nil
		}
		if x.opaqueFact(f) != "" {
			if _, ok := x.expand(f); !ok {
				opq = true
			}
		}
	}
	fn := b.Parent()
	if b == fn.Blocks[0] || len(b.Preds) == 0 {
		// function entry: the guard may sit in front of every call of this helper
		if callDepth < 2 && fn.Parent() == nil && !c20ImplOf(fn, x.txw) && !c20ImplOf(fn, x.obs) && len(x.callers[fn]) > 0 {
			var out []c20Way
			for _, call := range x.callers[fn] {
				out = append(out, x.uncovered(call.Block(), pred, 8, map[*ssa.BasicBlock]bool{}, append(append([]string{}, via...), "called from "+w.FuncName(call.Parent())), callDepth+1)...)
			}
			for i := range out {
				out[i].opaque = out[i].opaque || opq
			}
			return out
		}
		return []c20Way{{via: via, opaque: opq}}
	}
	if d == 0 {
		return []c20Way{{via: append(append([]string{}, via...), "…"), opaque: true}}
	}
	onPath[b] = true
	defer delete(onPath, b)
	var out []c20Way
	for _, p := range b.Preds {
		if onPath[p] {
			continue // a loop adds no new way
		}
		step := append([]string{}, via...)
		covered := false
		for _, ef := range w.Facts(fn) {
			if ef.Edge.From != p || ef.Edge.To() != b || (len(p.Succs) == 2 && p.Succs[0] == p.Succs[1]) {
				continue
			}
			if x.implies(ef, pred) {
				covered = true
			}
			step = append(step, x.norm(ef, nil).String())
			if x.opaqueFact(ef) != "" {
				if _, ok := x.expand(ef); !ok {
					opq = true
				}
			}
		}
		if covered {
			continue
		}
		sub := x.uncovered(p, pred, d-1, onPath, step, callDepth)
		for i := range sub {
			sub[i].opaque = sub[i].opaque || opq
		}
		out = append(out, sub...)
	}
	return out
}

func (x *c20X) r7() {
	c, w := x.c, x.w
	tips := x.tipFields()
	nStores := 0
	for _, key := range sortedKeysOfFuncs(tips) {
		oldTerm := "field:" + key
		for _, st := range x.prodWriters(key) {
			fn := st.Parent()
			pos := w.Pos(st.Pos())
			cons := fmt.Sprintf("%s store to %s", w.FuncName(fn), key)
			if al, ok := st.Addr.(*ssa.FieldAddr); ok {
				if _, isAlloc := al.X.(*ssa.Alloc); isAlloc {
					continue // composite literal of a fresh watcher
				}
			}
			nStores++
			if _, isK := c20Strip(st.Val).(*ssa.Const); isK {
				c.Unknown("C20.R7", cons, pos, "the tip is set to a constant: after that any lower height is accepted; monotonicity cannot be established")
				continue
			}
			newTerm := x.role(st.Val, nil, 0)
			if newTerm == oldTerm {
				c.Unknown("C20.R7", cons, pos, "the stored height is derived from the tip itself")
				continue
			}
			advance := c20Lin(">", 0, newTerm, 1, oldTerm, -1)
			unset1 := c20Lin(">=", 0, oldTerm, -1)
			unset2 := c20Lin("==", 0, oldTerm, 1)
			pred := func(f an.Fact) bool { return advance(f) || unset1(f) || unset2(f) }
			ways := x.uncovered(st.Block(), pred, 8, map[*ssa.BasicBlock]bool{}, nil, 0)
			var bad, unk []string
			for _, wy := range ways {
				d := strings.Join(wy.via, " → ")
				if d == "" {
					d = "(no condition at all)"
				}
				if wy.opaque {
					unk = append(unk, d)
				} else {
					bad = append(bad, d)
				}
			}
			switch {
			case len(ways) == 0:
				c.OK("C20.R7", cons, pos, "every way to the store passes new > old ("+newTerm+" > "+oldTerm+") or old <= 0")
			case len(bad) > 0:
				c.Bad("C20.R7", cons, pos, "the tip "+key+" (what GetBlockHeight reports and the observers are evaluated against) is overwritten with "+newTerm+" on a way where neither new > old nor old <= 0 is established: "+strings.Join(bad, " | ")+
					". A lagging server moves the tip backwards: GetBlockHeight regresses and a closed payment window looks open again")
			default:
				c.Unknown("C20.R7", cons, pos, "some way to the store is not covered by new > old / old <= 0 but passes conditions this rule cannot look into: "+strings.Join(unk, " | "))
			}
			x.r7Accept(st, key, 0)
		}
	}
	c.AtLeast("C20.R7", "tip fields (fields reported by a GetBlockHeight implementation)", len(tips), 1)
	c.AtLeast("C20.R7", "stores of a height into a tip field", nStores, 1)
}

func sortedKeysOfFuncs(m map[string]*ssa.Function) []string {
	k := map[string]bool{}
	for s := range m {
		k[s] = true
	}
	return sortedKeys(k)
}

// r7Accept: the bool result of the accepting function (the flag that makes the
// caller evaluate the observers) can be true only after the guarded tip store.
func (x *c20X) r7Accept(st ssa.Instruction, key string, depth int) {
	c, w := x.c, x.w
	fn := st.Parent()
	res := fn.Signature.Results()
	hasBool := false
	for i := 0; i < res.Len(); i++ {
		if b, ok := res.At(i).Type().Underlying().(*types.Basic); ok && b.Kind() == types.Bool {
			hasBool = true
		}
	}
	if !hasBool && depth < 2 && fn.Parent() == nil && !c20ImplOf(fn, x.txw) {
		// a setter helper: the accept flag is produced by its callers
		for _, call := range x.callers[fn] {
			if _, sync := call.(*ssa.Call); sync {
				x.r7Accept(call, key, depth+1)
			}
		}
		return
	}
	for i := 0; i < res.Len(); i++ {
		b, ok := res.At(i).Type().Underlying().(*types.Basic)
		if !ok || b.Kind() != types.Bool {
			continue
		}
		cons := fmt.Sprintf("%s result #%d (run the observers) true only after the tip advanced", w.FuncName(fn), i)
		verdict, where := 1, ""
		for _, r := range an.Returns(fn) {
			if i >= len(r.Results) || !c20BlockReachable(r.Block()) {
				continue
			}
			v := x.acceptTrueOnlyAfter(r.Results[i], r.Block(), st, 0)
			if v < verdict {
				verdict, where = v, w.Pos(r.Pos())
			}
		}
		switch verdict {
		case 1:
			c.OK("C20.R7", cons, w.Pos(fn.Pos()), "every return that can yield true lies behind the store to "+key)
		case 0:
			c.Bad("C20.R7", cons, where, "this return yields true although the tip "+key+" was not advanced on the way: the observers are evaluated for a header that is not newer than the tip")
		default:
			c.Unknown("C20.R7", cons, where, "cannot evaluate the returned flag (not a constant nor a phi of constants)")
		}
	}
}

// acceptTrueOnlyAfter: 1 = v is false or the store certainly executed before; 0 = v is
// the constant true on a way that avoids the store; -1 = cannot tell.
func (x *c20X) acceptTrueOnlyAfter(v ssa.Value, at *ssa.BasicBlock, st ssa.Instruction, d int) int {
	passed := func(b *ssa.BasicBlock) bool {
		if b == st.Block() {
			return true
		}
		return !an.ReachBlocks([]*ssa.BasicBlock{b.Parent().Blocks[0]}, nil, map[*ssa.BasicBlock]bool{st.Block(): true})[b]
	}
	switch t := v.(type) {
	case *ssa.Const:
		if t.Value == nil || t.Value.Kind() != constant.Bool {
			return -1
		}
		if !constant.BoolVal(t.Value) || passed(at) {
			return 1
		}
		return 0
	case *ssa.Phi:
		if d > 3 {
			return -1
		}
		res := 1
		for i, e := range t.Edges {
			if i >= len(t.Block().Preds) {
				return -1
			}
			if r := x.acceptTrueOnlyAfter(e, t.Block().Preds[i], st, d+1); r < res {
				res = r
			}
		}
		return res
	}
	if ld, ok := v.(*ssa.UnOp); ok && ld.Op == token.MUL && d <= 3 {
		if al, ok := ld.X.(*ssa.Alloc); ok {
			// a result cell spilled because of defer: the stores that can be the last write
			stores, _ := an.StoresReaching(ld, al) // no store at all = zero value = false
			res := 1
			for _, sv := range stores {
				if r := x.acceptTrueOnlyAfter(sv.Val, sv.Block(), st, d+1); r < res {
					res = r
				}
			}
			return res
		}
	}
	if passed(at) {
		return 1
	}
	return -1
}
