// Package rules holds the per-property rule sets. Each property registers a
// function that adds obligations to a Check.
package rules

import (
	"sort"

	"psv/internal/an"
)

type Prop struct {
	ID   string
	Run  func(c *an.Check)
	Expl string // what is decided
	NotD string // what is not decided
}

var props = map[string]*Prop{}

func Register(p *Prop) { props[p.ID] = p }

func Get(id string) *Prop { return props[id] }

func IDs() []string {
	var out []string
	for k := range props {
		out = append(out, k)
	}
	sort.Strings(out)
	return out
}
