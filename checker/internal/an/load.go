// Package an holds the shared analysis engines: loading the repository into
// type-checked syntax + SSA, call graphs, FSM-table extraction, effect
// summaries, guard / must-pass-through queries and value-flow slices.
//
// Nothing in here executes repository code; everything is decided from the
// source that go/packages loads from the working tree on every run.
package an

import (
	"fmt"
	"go/ast"
	"go/token"
	"go/types"
	"os"
	"path/filepath"
	"sort"
	"strings"
	"sync"
	"time"

	"golang.org/x/tools/go/callgraph"
	"golang.org/x/tools/go/callgraph/cha"
	"golang.org/x/tools/go/callgraph/vta"
	"golang.org/x/tools/go/packages"
	"golang.org/x/tools/go/ssa"
	"golang.org/x/tools/go/ssa/ssautil"
)

// MinPackages is the number of packages confirmed by hand on the pinned tree
// (go list ./... = 31). Loading fewer fails the run: a static tool sees only
// what was parsed.
const MinPackages = 31

// World is the loaded program.
type World struct {
	Repo    string
	ModPath string
	Tags    string
	Fset    *token.FileSet
	Pkgs    []*packages.Package // packages of the module, sorted by path
	ByRel   map[string]*packages.Package
	Prog    *ssa.Program
	SSA     map[string]*ssa.Package // by rel path

	LoadSeconds float64

	cgOnce sync.Once
	cg     *callgraph.Graph
	chaG   *callgraph.Graph
	allFns map[*ssa.Function]bool

	fsmOnce sync.Once
	fsm     *FSMInfo
	fsmErr  error

	sumMu sync.Mutex
	sums  map[*ssa.Function]*FuncSummary
}

// LoadError is an analysis failure (exit 2), never a property verdict.
type LoadError struct{ Msg string }

func (e *LoadError) Error() string { return e.Msg }

func env() []string {
	e := os.Environ()
	out := e[:0:0]
	for _, kv := range e {
		if strings.HasPrefix(kv, "GOFLAGS=") || strings.HasPrefix(kv, "GOWORK=") ||
			strings.HasPrefix(kv, "GOPROXY=") || strings.HasPrefix(kv, "GOSUMDB=") ||
			strings.HasPrefix(kv, "GOTOOLCHAIN=") {
			continue
		}
		out = append(out, kv)
	}
	return append(out, "GOFLAGS=-mod=mod", "GOWORK=off", "GOPROXY=off", "GOSUMDB=off", "GOTOOLCHAIN=local")
}

// Load type-checks the whole module at repo from source and builds SSA.
func Load(repo string, tags string) (*World, error) {
	t0 := time.Now()
	abs, err := filepath.Abs(repo)
	if err != nil {
		return nil, &LoadError{err.Error()}
	}
	fset := token.NewFileSet()
	cfg := &packages.Config{
		Mode:  packages.LoadSyntax | packages.NeedModule,
		Dir:   abs,
		Fset:  fset,
		Env:   env(),
		Tests: false,
	}
	// -trimpath makes the build-cache keys of the export data independent of the
	// directory, so scratch copies of the tree (mutant self-tests) reuse the cache.
	cfg.BuildFlags = []string{"-trimpath"}
	if tags != "" {
		cfg.BuildFlags = append(cfg.BuildFlags, "-tags="+tags)
	}
	initial, err := packages.Load(cfg, "./...")
	if err != nil {
		return nil, &LoadError{"go/packages: " + err.Error()}
	}
	var errs []string
	for _, p := range initial {
		for _, e := range p.Errors {
			errs = append(errs, e.Error())
		}
		for _, e := range p.TypeErrors {
			errs = append(errs, e.Error())
		}
	}
	if len(errs) > 0 {
		sort.Strings(errs)
		if len(errs) > 10 {
			errs = errs[:10]
		}
		return nil, &LoadError{"the tree does not type-check: " + strings.Join(errs, "; ")}
	}
	if len(initial) < MinPackages {
		return nil, &LoadError{fmt.Sprintf("only %d packages loaded, expected at least %d", len(initial), MinPackages)}
	}
	w := &World{Repo: abs, Tags: tags, Fset: fset, ByRel: map[string]*packages.Package{}, SSA: map[string]*ssa.Package{}, sums: map[*ssa.Function]*FuncSummary{}}
	for _, p := range initial {
		if p.Module != nil && p.Module.Main {
			w.ModPath = p.Module.Path
			break
		}
	}
	if w.ModPath == "" {
		return nil, &LoadError{"cannot determine module path"}
	}
	sort.Slice(initial, func(i, j int) bool { return initial[i].PkgPath < initial[j].PkgPath })
	w.Pkgs = initial
	prog, ssaPkgs := ssautil.Packages(initial, ssa.InstantiateGenerics)
	prog.Build()
	w.Prog = prog
	for i, p := range initial {
		rel := strings.TrimPrefix(strings.TrimPrefix(p.PkgPath, w.ModPath), "/")
		if rel == "" {
			rel = "."
		}
		w.ByRel[rel] = p
		if ssaPkgs[i] == nil {
			return nil, &LoadError{"no SSA for package " + p.PkgPath}
		}
		w.SSA[rel] = ssaPkgs[i]
	}
	w.LoadSeconds = time.Since(t0).Seconds()
	return w, nil
}

// IsTestSupport reports whether a package (by rel path) is test scaffolding that
// is excluded from who-may-call sets. Decided by package path.
func IsTestSupport(rel string) bool {
	switch {
	case rel == "test", strings.HasPrefix(rel, "test/"), rel == "testframework",
		strings.HasPrefix(rel, "testframework/"), strings.HasSuffix(rel, "/mocks"),
		rel == "electrum/mock", rel == "misc_tests", strings.HasPrefix(rel, "misc_tests/"),
		rel == "contrib", strings.HasPrefix(rel, "contrib/"):
		return true
	}
	return false
}

// Rel returns the module-relative path of a package path ("" if outside).
func (w *World) Rel(pkgPath string) (string, bool) {
	if pkgPath == w.ModPath {
		return ".", true
	}
	if strings.HasPrefix(pkgPath, w.ModPath+"/") {
		return strings.TrimPrefix(pkgPath, w.ModPath+"/"), true
	}
	return "", false
}

// InModule reports whether fn is declared in the analysed module.
func (w *World) InModule(fn *ssa.Function) bool {
	if fn == nil {
		return false
	}
	p := fn.Package()
	if p == nil && fn.Origin() != nil {
		p = fn.Origin().Package()
	}
	if p == nil {
		if par := fn.Parent(); par != nil {
			return w.InModule(par)
		}
		return false
	}
	_, ok := w.Rel(p.Pkg.Path())
	return ok
}

// FnRel returns the rel package of a function ("" if outside the module).
func (w *World) FnRel(fn *ssa.Function) string {
	for fn != nil && fn.Parent() != nil {
		fn = fn.Parent()
	}
	if fn == nil {
		return ""
	}
	p := fn.Package()
	if p == nil && fn.Origin() != nil {
		p = fn.Origin().Package()
	}
	if p == nil {
		if fn.Object() != nil && fn.Object().Pkg() != nil {
			r, _ := w.Rel(fn.Object().Pkg().Path())
			return r
		}
		return ""
	}
	r, _ := w.Rel(p.Pkg.Path())
	return r
}

// Pos renders a position relative to the repo root.
func (w *World) Pos(p token.Pos) string {
	if !p.IsValid() {
		return "-"
	}
	ps := w.Fset.Position(p)
	f := ps.Filename
	if r, err := filepath.Rel(w.Repo, f); err == nil && !strings.HasPrefix(r, "..") {
		f = r
	}
	return fmt.Sprintf("%s:%d", f, ps.Line)
}

// PosFile returns only the repo-relative file of a position.
func (w *World) PosFile(p token.Pos) string {
	s := w.Pos(p)
	if i := strings.LastIndex(s, ":"); i >= 0 {
		return s[:i]
	}
	return s
}

// Named looks a named type up, e.g. Named("swap", "SwapData").
func (w *World) Named(rel, name string) *types.Named {
	p := w.ByRel[rel]
	if p == nil {
		return nil
	}
	o := p.Types.Scope().Lookup(name)
	if o == nil {
		return nil
	}
	tn, ok := o.(*types.TypeName)
	if !ok {
		return nil
	}
	n, _ := tn.Type().(*types.Named)
	return n
}

// Func looks up a package-level function or method:
// Func("swap", "lockSwap") / Func("swap", "(*SwapService).lockSwap") / Func("swap","(SwapId).String").
func (w *World) Func(rel, name string) *ssa.Function {
	sp := w.SSA[rel]
	if sp == nil {
		return nil
	}
	if !strings.HasPrefix(name, "(") {
		return sp.Func(name)
	}
	end := strings.Index(name, ")")
	if end < 0 {
		return nil
	}
	recv := name[1:end]
	meth := strings.TrimPrefix(name[end+1:], ".")
	ptr := strings.HasPrefix(recv, "*")
	recv = strings.TrimPrefix(recv, "*")
	n := w.Named(rel, recv)
	if n == nil {
		return nil
	}
	var t types.Type = n
	if ptr {
		t = types.NewPointer(n)
	}
	sel := w.Prog.MethodSets.MethodSet(t).Lookup(sp.Pkg, meth)
	if sel == nil {
		return nil
	}
	return w.Prog.MethodValue(sel)
}

// Method finds method `meth` on named type (pointer or value receiver).
func (w *World) Method(n *types.Named, meth string) *ssa.Function {
	if n == nil {
		return nil
	}
	// value method set first: a value-receiver method is found there as declared;
	// through the pointer type it would be a synthetic wrapper without the body.
	var synthetic *ssa.Function
	for _, t := range []types.Type{n, types.NewPointer(n)} {
		ms := w.Prog.MethodSets.MethodSet(t)
		for i := 0; i < ms.Len(); i++ {
			if ms.At(i).Obj().Name() == meth {
				if f := w.Prog.MethodValue(ms.At(i)); f != nil {
					if f.Synthetic == "" {
						return f
					}
					if synthetic == nil {
						synthetic = f
					}
				}
			}
		}
	}
	return synthetic
}

// SrcFuncs returns every source-level function (incl. methods and anonymous
// functions) of the module packages selected by keep(rel).
func (w *World) SrcFuncs(keep func(rel string) bool) []*ssa.Function {
	var out []*ssa.Function
	seen := map[*ssa.Function]bool{}
	var add func(f *ssa.Function)
	add = func(f *ssa.Function) {
		if f == nil || seen[f] {
			return
		}
		seen[f] = true
		if f.Blocks != nil {
			out = append(out, f)
		}
		for _, a := range f.AnonFuncs {
			add(a)
		}
	}
	rels := make([]string, 0, len(w.SSA))
	for r := range w.SSA {
		rels = append(rels, r)
	}
	sort.Strings(rels)
	for _, rel := range rels {
		if keep != nil && !keep(rel) {
			continue
		}
		sp := w.SSA[rel]
		names := make([]string, 0, len(sp.Members))
		for n := range sp.Members {
			names = append(names, n)
		}
		sort.Strings(names)
		for _, n := range names {
			switch m := sp.Members[n].(type) {
			case *ssa.Function:
				add(m)
			case *ssa.Type:
				nt, ok := m.Type().(*types.Named)
				if !ok {
					continue
				}
				for _, t := range []types.Type{nt, types.NewPointer(nt)} {
					ms := w.Prog.MethodSets.MethodSet(t)
					for i := 0; i < ms.Len(); i++ {
						f := w.Prog.MethodValue(ms.At(i))
						if f != nil && f.Synthetic == "" {
							add(f)
						}
					}
				}
			}
		}
	}
	return out
}

// NonTest selects the production packages.
func NonTest(rel string) bool { return !IsTestSupport(rel) }

// AllFuncs is ssautil.AllFunctions, cached.
func (w *World) AllFuncs() map[*ssa.Function]bool {
	w.buildCG()
	return w.allFns
}

func (w *World) buildCG() {
	w.cgOnce.Do(func() {
		w.allFns = ssautil.AllFunctions(w.Prog)
		w.chaG = cha.CallGraph(w.Prog)
		w.cg = vta.CallGraph(w.allFns, w.chaG)
	})
}

// CG returns the VTA call graph (built on first use).
func (w *World) CG() *callgraph.Graph { w.buildCG(); return w.cg }

// CHA returns the class-hierarchy call graph.
func (w *World) CHA() *callgraph.Graph { w.buildCG(); return w.chaG }

// FuncName is a stable, human readable name: pkgrel.(*T).M / pkgrel.F / parent$1.
func (w *World) FuncName(fn *ssa.Function) string {
	if fn == nil {
		return "<nil>"
	}
	s := fn.RelString(nil)
	s = strings.ReplaceAll(s, w.ModPath+"/", "")
	return s
}

// FileOf returns the syntax file that contains pos, or nil.
func (w *World) FileOf(pos token.Pos) *ast.File {
	for _, p := range w.Pkgs {
		for _, f := range p.Syntax {
			if f.Pos() <= pos && pos <= f.End() {
				return f
			}
		}
	}
	return nil
}

// CountFuncs counts source functions with bodies in production packages.
func (w *World) CountFuncs() int { return len(w.SrcFuncs(NonTest)) }
