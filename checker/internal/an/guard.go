package an

import (
	"fmt"
	"go/constant"
	"go/token"
	"go/types"
	"sort"
	"strings"

	"golang.org/x/tools/go/ssa"
)

// Fact is what is known to hold on one CFG edge leaving an If: the branch
// condition, normalised.
//
// Comparisons of integers are brought to the linear form  Σ coef·term + Const  Rel  0
// with Rel ∈ {">", ">=", "==", "!="}; `<`/`<=` are rewritten by negation, and the
// fact for the false edge is the negated comparison. Terms are named by where the
// value comes from (call, field chain, parameter index), with conversions
// stripped, so local variable names and operand order do not matter.
// Non-comparison conditions give Rel "true"/"false" with a single Atom.
type Fact struct {
	Edge   Edge
	Rel    string
	Terms  map[string]int64
	Const  int64
	Atom   string // for boolean atoms and non-numeric (in)equalities: canonical text
	Widths []int  // bit widths of the additions/subtractions/multiplications performed in the code
	Args   []ssa.Value
	Cond   ssa.Value
	NonNum bool // == / != over non-integers (strings, pointers, errors)
	L, R   string
	LV, RV ssa.Value
}

func (f Fact) String() string {
	if f.Rel == "true" || f.Rel == "false" {
		return fmt.Sprintf("%s is %s", f.Atom, f.Rel)
	}
	if f.NonNum {
		return fmt.Sprintf("%s %s %s", f.L, f.Rel, f.R)
	}
	var ks []string
	for k := range f.Terms {
		ks = append(ks, k)
	}
	sort.Strings(ks)
	var sb strings.Builder
	for _, k := range ks {
		fmt.Fprintf(&sb, "%+d*%s ", f.Terms[k], k)
	}
	if f.Const != 0 || len(ks) == 0 {
		fmt.Fprintf(&sb, "%+d ", f.Const)
	}
	fmt.Fprintf(&sb, "%s 0", f.Rel)
	if len(f.Widths) > 0 {
		fmt.Fprintf(&sb, " [arith widths %v]", f.Widths)
	}
	return sb.String()
}

// Term renders the canonical name of a value.
func (w *World) Term(v ssa.Value) string {
	return w.term(v, 0, map[ssa.Value]bool{})
}

func (w *World) term(v ssa.Value, depth int, seen map[ssa.Value]bool) string {
	if depth > 12 {
		return "…"
	}
	switch x := v.(type) {
	case *ssa.Const:
		if x.Value == nil {
			return "nil"
		}
		if x.Value.Kind() == constant.String {
			return x.Value.ExactString()
		}
		return x.Value.String()
	case *ssa.Parameter:
		for i, p := range x.Parent().Params {
			if p == x {
				return fmt.Sprintf("param#%d", i)
			}
		}
		return "param?"
	case *ssa.FreeVar:
		fn := x.Parent()
		for i, fv := range fn.FreeVars {
			if fv == x && fn.Parent() != nil {
				for _, b := range fn.Parent().Blocks {
					for _, in := range b.Instrs {
						if mc, ok := in.(*ssa.MakeClosure); ok && mc.Fn == fn && i < len(mc.Bindings) {
							return w.term(mc.Bindings[i], depth+1, seen)
						}
					}
				}
			}
		}
		return "freevar:" + x.Name()
	case *ssa.ChangeType:
		return w.term(x.X, depth, seen)
	case *ssa.Convert:
		return w.term(x.X, depth, seen)
	case *ssa.MakeInterface:
		return w.term(x.X, depth, seen)
	case *ssa.ChangeInterface:
		return w.term(x.X, depth, seen)
	case *ssa.TypeAssert:
		return w.term(x.X, depth, seen)
	case *ssa.Global:
		return "global:" + w.shortPkg(x.Pkg.Pkg.Path()) + "." + x.Name()
	case *ssa.Function:
		return "func:" + w.FuncName(x)
	case *ssa.Field:
		chain, root := w.FieldChain(x)
		return w.fieldTerm(chain, root, x, depth, seen)
	case *ssa.FieldAddr:
		chain, root := w.FieldChain(x)
		return w.fieldTerm(chain, root, x, depth, seen)
	case *ssa.UnOp:
		switch x.Op {
		case token.MUL:
			switch a := x.X.(type) {
			case *ssa.FieldAddr:
				chain, root := w.FieldChain(a)
				return w.fieldTerm(chain, root, a, depth, seen)
			case *ssa.Alloc:
				return w.allocTerm(a, depth, seen)
			case *ssa.Global:
				return "global:" + w.shortPkg(a.Pkg.Pkg.Path()) + "." + a.Name()
			case *ssa.IndexAddr:
				return w.term(a.X, depth+1, seen) + "[]"
			}
			return "*" + w.term(x.X, depth+1, seen)
		case token.NOT:
			return "!" + w.term(x.X, depth+1, seen)
		case token.SUB:
			return "-" + w.term(x.X, depth+1, seen)
		}
		return x.Op.String() + w.term(x.X, depth+1, seen)
	case *ssa.Extract:
		if c, ok := x.Tuple.(*ssa.Call); ok {
			return fmt.Sprintf("call:%s#%d", w.Info(c).Name, x.Index)
		}
		return w.term(x.Tuple, depth+1, seen) + fmt.Sprintf("#%d", x.Index)
	case *ssa.Call:
		ci := w.Info(x)
		if ci.Name == "builtin:len" && len(x.Call.Args) == 1 {
			return "len(" + w.term(x.Call.Args[0], depth+1, seen) + ")"
		}
		if ci.Name == "builtin:min" || ci.Name == "builtin:max" {
			var as []string
			for _, a := range x.Call.Args {
				as = append(as, w.term(a, depth+1, seen))
			}
			sort.Strings(as)
			return strings.TrimPrefix(ci.Name, "builtin:") + "(" + strings.Join(as, ",") + ")"
		}
		return "call:" + ci.Name
	case *ssa.BinOp:
		l, r := w.term(x.X, depth+1, seen), w.term(x.Y, depth+1, seen)
		switch x.Op {
		case token.ADD, token.MUL, token.EQL, token.NEQ, token.AND, token.OR, token.XOR:
			if l > r {
				l, r = r, l
			}
		case token.LSS:
			return "(" + r + " > " + l + ")"
		case token.LEQ:
			return "(" + r + " >= " + l + ")"
		}
		return "(" + l + " " + x.Op.String() + " " + r + ")"
	case *ssa.Phi:
		if seen[v] {
			return "phi↺"
		}
		seen[v] = true
		m := map[string]bool{}
		for _, e := range x.Edges {
			m[w.term(e, depth+1, seen)] = true
		}
		var ks []string
		for k := range m {
			ks = append(ks, k)
		}
		sort.Strings(ks)
		if len(ks) == 1 {
			return ks[0]
		}
		return "phi(" + strings.Join(ks, "|") + ")"
	case *ssa.Lookup:
		return w.term(x.X, depth+1, seen) + "[" + w.term(x.Index, depth+1, seen) + "]"
	case *ssa.Index:
		return w.term(x.X, depth+1, seen) + "[]"
	case *ssa.IndexAddr:
		return w.term(x.X, depth+1, seen) + "[]"
	case *ssa.Slice:
		return w.term(x.X, depth+1, seen) + "[:]"
	case *ssa.Alloc:
		return "&" + w.allocTerm(x, depth, seen)
	case *ssa.MakeClosure:
		if f, ok := x.Fn.(*ssa.Function); ok {
			return "closure:" + w.FuncName(f)
		}
	case *ssa.Next:
		return "next(" + w.term(x.Iter, depth+1, seen) + ")"
	case *ssa.Range:
		return "range(" + w.term(x.X, depth+1, seen) + ")"
	}
	return fmt.Sprintf("<%T>", v)
}

func (w *World) fieldTerm(chain string, root ssa.Value, at ssa.Value, depth int, seen map[ssa.Value]bool) string {
	if al, ok := root.(*ssa.Alloc); ok {
		// field of a local struct: name by the stored value when unique
		var idxs []int
		v := at
		for {
			switch x := v.(type) {
			case *ssa.FieldAddr:
				idxs = append([]int{x.Field}, idxs...)
				v = x.X
				continue
			case *ssa.Field:
				idxs = append([]int{x.Field}, idxs...)
				v = x.X
				continue
			case *ssa.UnOp:
				if x.Op == token.MUL {
					v = x.X
					continue
				}
			}
			break
		}
		if v == al && len(idxs) == 1 && al.Referrers() != nil {
			var stored []ssa.Value
			for _, r := range *al.Referrers() {
				if fa, ok := r.(*ssa.FieldAddr); ok && fa.X == al && fa.Field == idxs[0] && fa.Referrers() != nil {
					for _, rr := range *fa.Referrers() {
						if s, ok := rr.(*ssa.Store); ok && s.Addr == fa {
							stored = append(stored, s.Val)
						}
					}
				}
			}
			if len(stored) == 1 {
				return w.term(stored[0], depth+1, seen)
			}
		}
		// a local struct filled by a single whole-value store (e.g. policy := f())
		if v == al && al.Referrers() != nil {
			var whole []ssa.Value
			for _, r := range *al.Referrers() {
				if s, ok := r.(*ssa.Store); ok && s.Addr == al {
					whole = append(whole, s.Val)
				}
			}
			if len(whole) == 1 {
				return w.term(whole[0], depth+1, seen) + ">" + chain
			}
		}
	}
	// root that is itself a call result or extract: prefix it, so that
	// getTimelockPolicy().CSV is distinguishable
	switch r := root.(type) {
	case *ssa.Call, *ssa.Extract:
		return w.term(r, depth+1, seen) + ">" + chain
	}
	return "field:" + chain
}

func (w *World) allocTerm(a *ssa.Alloc, depth int, seen map[ssa.Value]bool) string {
	if seen[a] {
		return "var↺"
	}
	seen[a] = true
	m := map[string]bool{}
	if a.Referrers() != nil {
		for _, r := range *a.Referrers() {
			if s, ok := r.(*ssa.Store); ok && s.Addr == a {
				m[w.term(s.Val, depth+1, seen)] = true
			}
		}
	}
	delete(seen, a)
	var ks []string
	for k := range m {
		ks = append(ks, k)
	}
	sort.Strings(ks)
	switch len(ks) {
	case 0:
		return "var:" + a.Comment
	case 1:
		return ks[0]
	}
	return "var(" + strings.Join(ks, "|") + ")"
}

// ---- linear forms ----------------------------------------------------------------

type lin struct {
	terms  map[string]int64
	c      int64
	widths []int
	ok     bool
}

func isInteger(t types.Type) bool {
	b, ok := t.Underlying().(*types.Basic)
	return ok && b.Info()&types.IsInteger != 0
}

func width(t types.Type) int {
	b, ok := t.Underlying().(*types.Basic)
	if !ok {
		return 0
	}
	switch b.Kind() {
	case types.Int8, types.Uint8:
		return 8
	case types.Int16, types.Uint16:
		return 16
	case types.Int32, types.Uint32:
		return 32
	case types.Int64, types.Uint64, types.Int, types.Uint, types.Uintptr:
		return 64
	}
	return 0
}

func (w *World) linear(v ssa.Value, depth int) lin {
	out := lin{terms: map[string]int64{}, ok: true}
	if depth > 8 {
		out.terms[w.Term(v)] = 1
		return out
	}
	switch x := v.(type) {
	case *ssa.Const:
		if i, ok := ConstInt(x); ok {
			out.c = i
			return out
		}
	case *ssa.ChangeType:
		return w.linear(x.X, depth)
	case *ssa.Convert:
		if isInteger(x.Type()) && isInteger(x.X.Type()) {
			return w.linear(x.X, depth)
		}
	case *ssa.UnOp:
		if x.Op == token.MUL {
			if al, ok := x.X.(*ssa.Alloc); ok && al.Referrers() != nil {
				var st []ssa.Value
				for _, r := range *al.Referrers() {
					if s, ok := r.(*ssa.Store); ok && s.Addr == al {
						st = append(st, s.Val)
					}
				}
				if len(st) == 1 {
					return w.linear(st[0], depth+1)
				}
			}
		}
	case *ssa.BinOp:
		if !isInteger(x.Type()) {
			break
		}
		switch x.Op {
		case token.ADD, token.SUB:
			l, r := w.linear(x.X, depth+1), w.linear(x.Y, depth+1)
			sign := int64(1)
			if x.Op == token.SUB {
				sign = -1
			}
			for k, c := range l.terms {
				out.terms[k] += c
			}
			for k, c := range r.terms {
				out.terms[k] += sign * c
			}
			out.c = l.c + sign*r.c
			out.widths = append(append(append(out.widths, l.widths...), r.widths...), width(x.Type()))
			for k, c := range out.terms {
				if c == 0 {
					delete(out.terms, k)
				}
			}
			return out
		case token.MUL:
			l, r := w.linear(x.X, depth+1), w.linear(x.Y, depth+1)
			if len(l.terms) == 0 {
				l, r = r, l
			}
			if len(r.terms) == 0 { // r is a constant
				for k, c := range l.terms {
					out.terms[k] = c * r.c
				}
				out.c = l.c * r.c
				out.widths = append(append(append(out.widths, l.widths...), r.widths...), width(x.Type()))
				return out
			}
		}
	}
	out.terms[w.Term(v)] = 1
	return out
}

func isBool(t types.Type) bool {
	b, ok := t.Underlying().(*types.Basic)
	return ok && b.Info()&types.IsBoolean != 0
}

// lenStringTest recognises a comparison of len(<string>) with the constant 0 and
// reports the string value and whether the condition (when true) says "empty".
func lenStringTest(cond ssa.Value) (s ssa.Value, isEmpty bool, ok bool) {
	bo, isB := cond.(*ssa.BinOp)
	if !isB {
		return nil, false, false
	}
	lenOf := func(v ssa.Value) ssa.Value {
		for {
			if c, ok := v.(*ssa.Convert); ok {
				v = c.X
				continue
			}
			break
		}
		c, ok := v.(*ssa.Call)
		if !ok {
			return nil
		}
		if b, ok := c.Call.Value.(*ssa.Builtin); !ok || b.Name() != "len" || len(c.Call.Args) != 1 {
			return nil
		}
		if bt, ok := c.Call.Args[0].Type().Underlying().(*types.Basic); !ok || bt.Info()&types.IsString == 0 {
			return nil
		}
		return c.Call.Args[0]
	}
	zero := func(v ssa.Value) bool { i, ok := ConstInt(v); return ok && i == 0 }
	if sv := lenOf(bo.X); sv != nil && zero(bo.Y) { // len(s) op 0
		switch bo.Op {
		case token.EQL, token.LEQ:
			return sv, true, true
		case token.NEQ, token.GTR:
			return sv, false, true
		}
	}
	if sv := lenOf(bo.Y); sv != nil && zero(bo.X) { // 0 op len(s)
		switch bo.Op {
		case token.EQL, token.GEQ:
			return sv, true, true
		case token.NEQ, token.LSS:
			return sv, false, true
		}
	}
	return nil, false, false
}

// ---- facts ----------------------------------------------------------------------------

// FactsOfIf returns the facts on the true and false edge of an If.
func (w *World) FactsOfIf(i *ssa.If) (onTrue, onFalse Fact) {
	b := i.Block()
	return w.factsOfCond(i.Cond, Edge{b, 0}, Edge{b, 1})
}

// PhiConjuncts: for a boolean phi that go/ssa builds for `a && b` (all other
// incoming values are the constant false) it returns the non-constant operands
// and isAnd=true; for `a || b` (others constant true) isAnd=false. ok=false for
// any other phi.
func PhiConjuncts(v ssa.Value) (ops []ssa.Value, isAnd bool, ok bool) {
	phi, isPhi := v.(*ssa.Phi)
	if !isPhi || !isBool(phi.Type()) {
		return nil, false, false
	}
	nTrue, nFalse := 0, 0
	for _, e := range phi.Edges {
		if c, isC := e.(*ssa.Const); isC && c.Value != nil && c.Value.Kind() == constant.Bool {
			if constant.BoolVal(c.Value) {
				nTrue++
			} else {
				nFalse++
			}
			continue
		}
		ops = append(ops, e)
	}
	if len(ops) == 0 || (nTrue > 0 && nFalse > 0) || nTrue+nFalse == 0 {
		return nil, false, false
	}
	return ops, nFalse > 0, true
}

// derivedFacts: when the condition of an If is a short-circuit value held in a
// local (`ok := a && b; if ok {…}`), the true edge implies every conjunct (and
// the false edge of an `||` value implies the negation of every disjunct). The
// short-circuit's own control flow contributes the remaining operands.
func (w *World) derivedFacts(cond ssa.Value, te, fe Edge, depth int) []Fact {
	if depth > 4 {
		return nil
	}
	neg := false
	for {
		if u, ok := cond.(*ssa.UnOp); ok && u.Op == token.NOT {
			neg = !neg
			cond = u.X
			continue
		}
		break
	}
	if neg {
		te, fe = fe, te
	}
	ops, isAnd, ok := PhiConjuncts(cond)
	if !ok {
		return nil
	}
	phi := cond.(*ssa.Phi)
	var out []Fact
	add := func(v ssa.Value) {
		t, f := w.factsOfCond(v, te, fe)
		if isAnd {
			out = append(out, t) // value true on te
		} else {
			out = append(out, f) // value false on fe
		}
		out = append(out, w.derivedFacts(v, te, fe, depth+1)...)
	}
	for _, v := range ops {
		add(v)
	}
	// the operands that decided the constant edges: the If conditions of the
	// predecessor blocks that feed a constant into the phi
	for i, e := range phi.Edges {
		if _, isC := e.(*ssa.Const); !isC {
			continue
		}
		pred := phi.Block().Preds[i]
		if len(pred.Instrs) == 0 {
			continue
		}
		if pi, ok := pred.Instrs[len(pred.Instrs)-1].(*ssa.If); ok && len(pred.Succs) == 2 {
			// `a && b`: the constant false arrives over a's false branch;
			// `a || b`: the constant true arrives over a's true branch
			if (isAnd && pred.Succs[1] == phi.Block() && pred.Succs[0] != phi.Block()) ||
				(!isAnd && pred.Succs[0] == phi.Block() && pred.Succs[1] != phi.Block()) {
				add(pi.Cond)
			}
		}
	}
	return out
}

func (w *World) factsOfCond(cond ssa.Value, te, fe Edge) (onTrue, onFalse Fact) {
	neg := false
	for {
		if u, ok := cond.(*ssa.UnOp); ok && u.Op == token.NOT {
			neg = !neg
			cond = u.X
			continue
		}
		// `b == true`, `b != false`, `b == false`, `b != true` are the atom b / !b
		if bo, ok := cond.(*ssa.BinOp); ok && (bo.Op == token.EQL || bo.Op == token.NEQ) && isBool(bo.X.Type()) {
			var other ssa.Value
			var cv *ssa.Const
			if c, ok := bo.Y.(*ssa.Const); ok {
				other, cv = bo.X, c
			} else if c, ok := bo.X.(*ssa.Const); ok {
				other, cv = bo.Y, c
			}
			if cv != nil && cv.Value != nil && cv.Value.Kind() == constant.Bool {
				isTrue := constant.BoolVal(cv.Value)
				if (bo.Op == token.EQL) != isTrue {
					neg = !neg
				}
				cond = other
				continue
			}
		}
		break
	}
	if neg {
		te, fe = fe, te
	}
	mk := func(e Edge, holds bool) Fact {
		f := Fact{Edge: e, Cond: cond}
		// `len(s) == 0` / `len(s) != 0` / `len(s) > 0` on a string is `s == ""` / `s != ""`
		if sv, isEmpty, ok := lenStringTest(cond); ok {
			if !holds {
				isEmpty = !isEmpty
			}
			f.NonNum = true
			f.LV, f.RV = sv, ssa.NewConst(constant.MakeString(""), sv.Type())
			f.L, f.R = `""`, w.Term(sv)
			if f.L > f.R {
				f.L, f.R = f.R, f.L
			}
			if isEmpty {
				f.Rel = "=="
			} else {
				f.Rel = "!="
			}
			return f
		}
		bo, isCmp := cond.(*ssa.BinOp)
		if isCmp {
			switch bo.Op {
			case token.EQL, token.NEQ, token.LSS, token.LEQ, token.GTR, token.GEQ:
			default:
				isCmp = false
			}
		}
		if !isCmp {
			f.Atom = w.Term(cond)
			if c, ok := cond.(*ssa.Call); ok {
				f.Args = c.Call.Args
			}
			if holds {
				f.Rel = "true"
			} else {
				f.Rel = "false"
			}
			return f
		}
		op := bo.Op
		if !holds {
			switch op {
			case token.EQL:
				op = token.NEQ
			case token.NEQ:
				op = token.EQL
			case token.LSS:
				op = token.GEQ
			case token.LEQ:
				op = token.GTR
			case token.GTR:
				op = token.LEQ
			case token.GEQ:
				op = token.LSS
			}
		}
		f.LV, f.RV = bo.X, bo.Y
		if !isInteger(bo.X.Type()) || !isInteger(bo.Y.Type()) {
			f.NonNum = true
			l, r := w.Term(bo.X), w.Term(bo.Y)
			switch op {
			case token.EQL, token.NEQ:
				if l > r {
					l, r = r, l
				}
			case token.LSS:
				l, r, op = r, l, token.GTR
			case token.LEQ:
				l, r, op = r, l, token.GEQ
			}
			f.L, f.R, f.Rel = l, r, op.String()
			return f
		}
		l, r := w.linear(bo.X, 0), w.linear(bo.Y, 0)
		f.Terms = map[string]int64{}
		for k, c := range l.terms {
			f.Terms[k] += c
		}
		for k, c := range r.terms {
			f.Terms[k] -= c
		}
		f.Const = l.c - r.c
		f.Widths = append(append([]int{}, l.widths...), r.widths...)
		flip := false
		switch op {
		case token.LSS:
			flip, op = true, token.GTR
		case token.LEQ:
			flip, op = true, token.GEQ
		case token.EQL, token.NEQ:
			// sign normalisation: smallest term name gets a positive coefficient
			var ks []string
			for k, c := range f.Terms {
				if c != 0 {
					ks = append(ks, k)
				}
			}
			sort.Strings(ks)
			if len(ks) > 0 && f.Terms[ks[0]] < 0 {
				flip = true
			} else if len(ks) == 0 && f.Const < 0 {
				flip = true
			}
		}
		if flip {
			for k := range f.Terms {
				f.Terms[k] = -f.Terms[k]
			}
			f.Const = -f.Const
		}
		for k, c := range f.Terms {
			if c == 0 {
				delete(f.Terms, k)
			}
		}
		f.Rel = op.String()
		return f
	}
	return mk(te, true), mk(fe, false)
}

// Facts returns all edge facts of fn.
func (w *World) Facts(fn *ssa.Function) []Fact {
	var out []Fact
	for _, b := range fn.Blocks {
		if len(b.Instrs) == 0 {
			continue
		}
		if i, ok := b.Instrs[len(b.Instrs)-1].(*ssa.If); ok {
			t, f := w.FactsOfIf(i)
			out = append(out, t, f)
			out = append(out, w.derivedFacts(i.Cond, Edge{b, 0}, Edge{b, 1}, 0)...)
		}
	}
	return out
}

// FactsDominating returns the facts that hold whenever target executes (their
// edge lies on every path from the function entry to the target).
func (w *World) FactsDominating(target ssa.Instruction) []Fact {
	fn := target.Parent()
	var out []Fact
	for _, f := range w.Facts(fn) {
		if f.Edge.From == target.Block() {
			continue
		}
		if EdgeDominates(f.Edge, target.Block()) {
			out = append(out, f)
		}
	}
	return out
}

// FactsDominatingBlock is FactsDominating for a block.
func (w *World) FactsDominatingBlock(b *ssa.BasicBlock) []Fact {
	var out []Fact
	for _, f := range w.Facts(b.Parent()) {
		if f.Edge.From == b {
			continue
		}
		if EdgeDominates(f.Edge, b) {
			out = append(out, f)
		}
	}
	return out
}

// LinSpec is an expected linear fact: Σ coef·term + Const Rel 0. Term keys are
// matched by substring so that rules can name "GetBlockHeight" without the
// full qualified callee name; each spec term must match exactly one fact term
// and all fact terms must be matched.
type LinSpec struct {
	Rel   string
	Terms map[string]int64
	Const int64
}

// MatchLin reports whether fact f is the linear relation spec.
func MatchLin(f Fact, spec LinSpec) bool {
	if f.NonNum || f.Rel != spec.Rel || f.Terms == nil {
		return false
	}
	try := func(sign int64) bool {
		if f.Const != sign*spec.Const || len(f.Terms) != len(spec.Terms) {
			return false
		}
		used := map[string]bool{}
		for sk, sc := range spec.Terms {
			hit := ""
			for fk, fc := range f.Terms {
				if used[fk] || !strings.Contains(fk, sk) {
					continue
				}
				if fc == sign*sc {
					hit = fk
					break
				}
			}
			if hit == "" {
				return false
			}
			used[hit] = true
		}
		return true
	}
	if try(1) {
		return true
	}
	if spec.Rel == "==" || spec.Rel == "!=" {
		return try(-1)
	}
	return false
}

// AtomIs: boolean fact about an atom containing substr with the given truth.
func AtomIs(f Fact, substr string, truth bool) bool {
	if f.Rel != "true" && f.Rel != "false" {
		return false
	}
	return strings.Contains(f.Atom, substr) && (f.Rel == "true") == truth
}

// EqIs: non-numeric (in)equality between something containing a and something containing b.
func EqIs(f Fact, rel, a, b string) bool {
	if !f.NonNum || f.Rel != rel {
		return false
	}
	return (strings.Contains(f.L, a) && strings.Contains(f.R, b)) || (strings.Contains(f.L, b) && strings.Contains(f.R, a))
}

// AnyFact reports whether some fact satisfies pred.
func AnyFact(fs []Fact, pred func(Fact) bool) bool {
	for _, f := range fs {
		if pred(f) {
			return true
		}
	}
	return false
}

// DescribeFacts renders facts for reports.
func DescribeFacts(fs []Fact) string {
	var out []string
	for _, f := range fs {
		out = append(out, f.String())
	}
	sort.Strings(out)
	return strings.Join(out, " ; ")
}

// LinForm is Σ coef·term + Const.
type LinForm struct {
	Terms map[string]int64
	Const int64
}

// LinearDiff returns x - y in the same linear normal form (and term naming) the
// facts use; nil if either side is not an integer expression.
func (w *World) LinearDiff(x, y ssa.Value) *LinForm {
	if !isInteger(x.Type()) || !isInteger(y.Type()) {
		return nil
	}
	l, r := w.linear(x, 0), w.linear(y, 0)
	out := &LinForm{Terms: map[string]int64{}, Const: l.c - r.c}
	for k, c := range l.terms {
		out.Terms[k] += c
	}
	for k, c := range r.terms {
		out.Terms[k] -= c
	}
	for k, c := range out.Terms {
		if c == 0 {
			delete(out.Terms, k)
		}
	}
	return out
}
