package an

import (
	"bufio"
	"encoding/json"
	"fmt"
	"os"
	"path/filepath"
	"sort"
	"strings"
	"time"
)

// Verdicts of an obligation.
const (
	Discharged = "discharged"
	Violated   = "violated"
	Undecided  = "undecided"
	Info       = "info"
)

// Obligation is one rule instance: a rule applied to a named construct.
// Key = Rule + "|" + Construct and never contains a line number.
type Obligation struct {
	Rule      string   `json:"rule"`
	Construct string   `json:"construct"`
	Pos       string   `json:"pos,omitempty"`
	Verdict   string   `json:"verdict"`
	Detail    string   `json:"detail,omitempty"`
	Path      []string `json:"path,omitempty"`
	Known     bool     `json:"known_finding,omitempty"`
}

func (o *Obligation) Key() string { return o.Rule + "|" + o.Construct }

// Check collects the obligations of one property.
type Check struct {
	ID          string
	Tier        string
	Seed        int64
	Explanation string
	NotDecided  string
	RuleText    map[string]string
	Obls        []*Obligation
	Anchors     []string // unresolved anchors / vacuity failures => exit 2
	Extra       map[string]interface{}
	W           *World
	start       time.Time
	seen        map[string]*Obligation
}

func NewCheck(id, tier string, w *World) *Check {
	return &Check{ID: id, Tier: tier, W: w, RuleText: map[string]string{}, Extra: map[string]interface{}{}, start: time.Now(), seen: map[string]*Obligation{}}
}

// Rule documents a rule (shown in evidence).
func (c *Check) Rule(id, text string) { c.RuleText[id] = text }

func (c *Check) add(rule, construct, pos, verdict, detail string, path []string) *Obligation {
	k := rule + "|" + construct
	if o, ok := c.seen[k]; ok {
		// keep the worst verdict for a construct
		rank := map[string]int{Info: 0, Discharged: 1, Undecided: 2, Violated: 3}
		if rank[verdict] > rank[o.Verdict] {
			o.Verdict, o.Detail, o.Pos, o.Path = verdict, detail, pos, path
		} else if verdict == o.Verdict && detail != "" && !strings.Contains(o.Detail, detail) && verdict == Violated {
			o.Detail += "; " + detail
		}
		return o
	}
	o := &Obligation{Rule: rule, Construct: construct, Pos: pos, Verdict: verdict, Detail: detail, Path: path}
	c.seen[k] = o
	c.Obls = append(c.Obls, o)
	return o
}

func (c *Check) OK(rule, construct, pos, detail string) {
	c.add(rule, construct, pos, Discharged, detail, nil)
}
func (c *Check) Bad(rule, construct, pos, detail string, path ...string) {
	c.add(rule, construct, pos, Violated, detail, path)
}
func (c *Check) Unknown(rule, construct, pos, detail string) {
	c.add(rule, construct, pos, Undecided, detail, nil)
}
func (c *Check) Note(rule, construct, pos, detail string) {
	c.add(rule, construct, pos, Info, detail, nil)
}

// Decide is OK when cond holds, else Bad.
func (c *Check) Decide(cond bool, rule, construct, pos, okDetail, badDetail string) bool {
	if cond {
		c.OK(rule, construct, pos, okDetail)
	} else {
		c.Bad(rule, construct, pos, badDetail)
	}
	return cond
}

// Anchor records an unresolved anchor (a function, type, field or table the
// rule needs does not resolve): the analysis cannot decide => exit 2.
func (c *Check) Anchor(format string, a ...interface{}) {
	c.Anchors = append(c.Anchors, fmt.Sprintf(format, a...))
}

// AtLeast is vacuity control: the rule must have seen at least n instances.
func (c *Check) AtLeast(rule string, what string, got, want int) bool {
	if got < want {
		c.Anchor("%s: only %d %s found, at least %d confirmed on the pinned tree (rule would pass vacuously)", rule, got, what, want)
		return false
	}
	return true
}

// ---- known findings -------------------------------------------------------

type KnownFinding struct {
	Property string
	Key      string // rule|construct
	What     string
}

type FixedFinding struct {
	Property, Commit, What string
}

// ReadKnownFindings parses /verif/known_findings.txt:
//
//	known: property=C05 key=C05.R2|<construct> <what fails>
//	fixed: property=C06 <commit> <what failed>
//
// The file is read only; nothing is ever added at run time.
func ReadKnownFindings(path string) ([]KnownFinding, []FixedFinding, error) {
	f, err := os.Open(path)
	if err != nil {
		if os.IsNotExist(err) {
			return nil, nil, nil
		}
		return nil, nil, err
	}
	defer f.Close()
	var ks []KnownFinding
	var fs []FixedFinding
	sc := bufio.NewScanner(f)
	sc.Buffer(make([]byte, 1<<20), 1<<20)
	for sc.Scan() {
		line := strings.TrimSpace(sc.Text())
		if line == "" || strings.HasPrefix(line, "#") {
			continue
		}
		switch {
		case strings.HasPrefix(line, "known:"):
			// known: property=C07 key="<rule>|<construct>" <what fails>
			rest := strings.TrimSpace(strings.TrimPrefix(line, "known:"))
			parts := strings.SplitN(rest, " ", 2)
			if len(parts) < 2 || !strings.HasPrefix(parts[0], "property=") || !strings.HasPrefix(parts[1], `key="`) {
				return nil, nil, fmt.Errorf("bad known-finding line: %q", line)
			}
			body := strings.TrimPrefix(parts[1], `key="`)
			end := strings.Index(body, `"`)
			if end < 0 {
				return nil, nil, fmt.Errorf("bad known-finding line (unterminated key): %q", line)
			}
			k := KnownFinding{Property: strings.TrimPrefix(parts[0], "property="), Key: body[:end], What: strings.TrimSpace(body[end+1:])}
			ks = append(ks, k)
		case strings.HasPrefix(line, "fixed:"):
			rest := strings.TrimSpace(strings.TrimPrefix(line, "fixed:"))
			parts := strings.SplitN(rest, " ", 3)
			if len(parts) < 2 || !strings.HasPrefix(parts[0], "property=") {
				return nil, nil, fmt.Errorf("bad fixed line: %q", line)
			}
			ff := FixedFinding{Property: strings.TrimPrefix(parts[0], "property="), Commit: parts[1]}
			if len(parts) == 3 {
				ff.What = parts[2]
			}
			fs = append(fs, ff)
		default:
			return nil, nil, fmt.Errorf("bad line in known findings: %q", line)
		}
	}
	return ks, fs, sc.Err()
}

// ---- finishing ------------------------------------------------------------

type Result struct {
	Exit       int
	Violations int
	Known      int
}

// Finish matches violations against the known-findings file, prints the
// report lines, writes the evidence file and returns the exit code:
// 0 all discharged (known findings printed), 1 unlisted violation, 2 analysis
// could not decide (unresolved anchor / undecided obligation).
func (c *Check) Finish(verifDir string, writeEvidence bool) Result {
	known, fixed, kerr := ReadKnownFindings(filepath.Join(verifDir, "known_findings.txt"))
	if kerr != nil {
		c.Anchor("known_findings.txt: %v", kerr)
	}
	kmap := map[string]KnownFinding{}
	for _, k := range known {
		if k.Property == c.ID {
			kmap[k.Key] = k
		}
	}
	sort.SliceStable(c.Obls, func(i, j int) bool {
		if c.Obls[i].Rule != c.Obls[j].Rule {
			return c.Obls[i].Rule < c.Obls[j].Rule
		}
		return c.Obls[i].Construct < c.Obls[j].Construct
	})
	var res Result
	var viol, undec []*Obligation
	nDis, nInfo := 0, 0
	usedKnown := map[string]bool{}
	for _, o := range c.Obls {
		switch o.Verdict {
		case Violated:
			if k, ok := kmap[o.Key()]; ok {
				o.Known = true
				usedKnown[o.Key()] = true
				res.Known++
				fmt.Printf("KNOWN-FINDING: property=%s %s %s at %s: %s\n", c.ID, o.Rule, o.Construct, o.Pos, firstNonEmpty(k.What, o.Detail))
			} else {
				viol = append(viol, o)
			}
		case Undecided:
			undec = append(undec, o)
		case Discharged:
			nDis++
		case Info:
			nInfo++
		}
	}
	res.Violations = len(viol)

	vdir := filepath.Join(verifDir, "evidence", "violations")
	if writeEvidence {
		os.MkdirAll(vdir, 0o755)
		// remove stale replay files of this property
		if old, _ := filepath.Glob(filepath.Join(vdir, c.ID+"-*.json")); old != nil {
			for _, f := range old {
				os.Remove(f)
			}
		}
	}
	for i, o := range viol {
		path := filepath.Join(vdir, fmt.Sprintf("%s-%d.json", c.ID, i+1))
		if writeEvidence {
			b, _ := json.MarshalIndent(map[string]interface{}{
				"property": c.ID, "rule": o.Rule, "rule_text": c.RuleText[o.Rule], "construct": o.Construct,
				"pos": o.Pos, "detail": o.Detail, "path": o.Path, "repo": c.W.Repo,
			}, "", " ")
			os.WriteFile(path, b, 0o644)
		} else {
			path = "-"
		}
		fmt.Printf("violated: %s %s at %s: %s\n", o.Rule, o.Construct, o.Pos, o.Detail)
		for _, p := range o.Path {
			fmt.Printf("    %s\n", p)
		}
		fmt.Printf("VIOLATION property=%s replay=%s\n", c.ID, path)
	}
	for _, o := range undec {
		fmt.Printf("ERROR: undecided: %s %s at %s: %s\n", o.Rule, o.Construct, o.Pos, o.Detail)
	}
	for _, a := range c.Anchors {
		fmt.Printf("ERROR: %s\n", a)
	}
	switch {
	case len(viol) > 0:
		res.Exit = 1
	case len(undec) > 0 || len(c.Anchors) > 0:
		res.Exit = 2
	}
	wall := time.Since(c.start).Seconds()

	// evidence
	samples := make([]*Obligation, 0, len(c.Obls))
	for _, o := range c.Obls {
		samples = append(samples, o)
	}
	distinct := map[string]bool{}
	for _, o := range c.Obls {
		if o.Verdict != Info {
			distinct[o.Key()] = true
		}
	}
	var fixedHere []string
	for _, f := range fixed {
		if f.Property == c.ID {
			fixedHere = append(fixedHere, f.Commit+" "+f.What)
		}
	}
	var knownUnused []string
	for k := range kmap {
		if !usedKnown[k] {
			knownUnused = append(knownUnused, k)
		}
	}
	sort.Strings(knownUnused)
	cov := map[string]interface{}{
		"explanation":         c.Explanation,
		"not_decided":         c.NotDecided,
		"rule":                "obligation = (rule id, construct) enumerated from the loaded program; distinct = distinct (rule,construct) keys with a real instance in /repo (info notes excluded); every obligation is listed in samples",
		"rules":               c.RuleText,
		"obligations":         len(c.Obls) - nInfo,
		"discharged":          nDis,
		"violated_known":      res.Known,
		"violated_new":        len(viol),
		"undecided":           len(undec),
		"evaluations":         len(c.Obls) - nInfo,
		"distinct_nontrivial": len(distinct),
		"exhaustive":          true,
		"samples":             samples,
		"unresolved_anchors":  c.Anchors,
		"packages":            len(c.W.Pkgs),
		"functions":           c.W.CountFuncs(),
		"build_tags":          c.W.Tags,
		"repo":                c.W.Repo,
		"load_seconds":        c.W.LoadSeconds,
		"fixed_findings":      fixedHere,
		"known_not_triggered": knownUnused,
		"checker_cmd":         "./bin/psv check " + c.ID + " --tier " + c.Tier,
	}
	for k, v := range c.Extra {
		cov[k] = v
	}
	ev := map[string]interface{}{
		"property_id": c.ID,
		"tier":        c.Tier,
		"seed":        c.Seed,
		"level":       "other",
		"coverage":    cov,
		"assumptions": []string{
			"go/types, go/ssa and the VTA call graph of golang.org/x/tools v0.29.0 are sound for this module (no reflection-based dispatch into analysed callees, no unsafe, no cgo in analysed packages)",
			"third-party libraries behave as documented (btcd txscript builder emits what it is given, encoding/json round-trips tagged scalar fields, bbolt is durable, Lightning nodes refuse to settle an invoice twice)",
			"frozen repo-specific tables in the rule source (service interfaces, broadcast primitives, output locators, guard tables, protocol constants) were confirmed by reading the pinned tree",
			"only the structural necessary conditions named in coverage.rules are decided; see coverage.not_decided",
		},
		"wall_s":     wall,
		"violations": len(viol),
	}
	if writeEvidence {
		os.MkdirAll(filepath.Join(verifDir, "evidence"), 0o755)
		b, err := json.MarshalIndent(ev, "", " ")
		if err == nil {
			err = os.WriteFile(filepath.Join(verifDir, "evidence", c.ID+".json"), append(b, '\n'), 0o644)
		}
		if err != nil {
			fmt.Printf("ERROR: cannot write evidence: %v\n", err)
			if res.Exit == 0 {
				res.Exit = 2
			}
		}
	}
	fmt.Printf("%s: %d obligations, %d discharged, %d known findings, %d new violations, %d undecided, %d unresolved anchors (%.1fs, load %.1fs)\n",
		c.ID, len(c.Obls)-nInfo, nDis, res.Known, len(viol), len(undec), len(c.Anchors), wall, c.W.LoadSeconds)
	return res
}

func firstNonEmpty(a, b string) string {
	if a != "" {
		return a
	}
	return b
}
