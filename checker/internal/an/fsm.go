package an

import (
	"fmt"
	"go/ast"
	"go/constant"
	"go/token"
	"go/types"
	"sort"

	"golang.org/x/tools/go/ssa"
)

// StateEntry is one decoded entry of a swap.States literal.
type StateEntry struct {
	Name          string         // constant value of the key ("" = Default)
	KeyIdent      string         // source identifier of the key
	Actions       []*types.Named // action tree, outermost wrapper first; nil = no action
	Events        map[string]string
	EventIdent    map[string]string // event value -> identifier
	FailOnRecover bool
	Pos           token.Pos
	EventPos      map[string]token.Pos
}

// Table is one state machine.
type Table struct {
	Func   string // name of the function returning the literal
	States map[string]*StateEntry
	Order  []string
	Pos    token.Pos
	// binding (SwapType, SwapRole) constant values, from the constructors
	Type, Role           int64
	TypeIdent, RoleIdent string
	Bound                bool
	// binding derived independently from RecoverSwaps / *FromStore
	RecType, RecRole int64
	RecBound         bool
	Constructor      string
	FromStore        string
}

func (t *Table) Name() string {
	if t.Bound {
		return fmt.Sprintf("(%s,%s)", t.TypeIdent, t.RoleIdent)
	}
	return t.Func
}

// IsTaker: (OUT,SENDER) or (IN,RECEIVER) decided by effects elsewhere; here by binding.
type FSMInfo struct {
	Tables      []*Table
	ByFunc      map[string]*Table
	ActionIface *types.Interface
	StatesType  *types.Named
	// Execute functions of all concrete action types
	Exec map[*types.Named]*ssa.Function
}

// FSM extracts (once) all state tables of package swap.
func (w *World) FSM() (*FSMInfo, error) {
	w.fsmOnce.Do(func() { w.fsm, w.fsmErr = w.extractFSM() })
	return w.fsm, w.fsmErr
}

func (w *World) extractFSM() (*FSMInfo, error) {
	pkg := w.ByRel["swap"]
	if pkg == nil {
		return nil, fmt.Errorf("package swap not loaded")
	}
	statesT := w.Named("swap", "States")
	actionT := w.Named("swap", "Action")
	stateT := w.Named("swap", "State")
	if statesT == nil || actionT == nil || stateT == nil {
		return nil, fmt.Errorf("swap.States / swap.Action / swap.State not found")
	}
	aif, ok := actionT.Underlying().(*types.Interface)
	if !ok {
		return nil, fmt.Errorf("swap.Action is not an interface")
	}
	info := &FSMInfo{ByFunc: map[string]*Table{}, ActionIface: aif, StatesType: statesT, Exec: map[*types.Named]*ssa.Function{}}
	ti := pkg.TypesInfo

	for _, f := range pkg.Syntax {
		for _, d := range f.Decls {
			fd, ok := d.(*ast.FuncDecl)
			if !ok || fd.Body == nil || fd.Recv != nil || fd.Type.Results == nil || len(fd.Type.Results.List) != 1 {
				continue
			}
			rt := ti.TypeOf(fd.Type.Results.List[0].Type)
			if rt == nil || !types.Identical(rt, statesT) {
				continue
			}
			// supported shape: a single `return States{...}`
			var lit *ast.CompositeLit
			nret := 0
			ast.Inspect(fd.Body, func(n ast.Node) bool {
				if r, ok := n.(*ast.ReturnStmt); ok {
					nret++
					if len(r.Results) == 1 {
						if cl, ok := ast.Unparen(r.Results[0]).(*ast.CompositeLit); ok {
							lit = cl
						}
					}
				}
				return true
			})
			if lit == nil && nret == 1 {
				// `states := States{...}; return states`: a local that is defined
				// once by the literal and never written again
				lit = localTableLiteral(ti, fd)
			}
			if lit == nil || nret != 1 {
				return nil, fmt.Errorf("cannot extract table from %s at %s: body is not a single `return States{...}` literal", fd.Name.Name, w.Pos(fd.Pos()))
			}
			tb := &Table{Func: fd.Name.Name, States: map[string]*StateEntry{}, Pos: fd.Pos()}
			for _, el := range lit.Elts {
				kv, ok := el.(*ast.KeyValueExpr)
				if !ok {
					return nil, fmt.Errorf("table %s: element without key at %s", tb.Func, w.Pos(el.Pos()))
				}
				ktv, ok := ti.Types[kv.Key]
				if !ok || ktv.Value == nil || ktv.Value.Kind() != constant.String {
					return nil, fmt.Errorf("table %s: non-constant state key at %s", tb.Func, w.Pos(kv.Key.Pos()))
				}
				se := &StateEntry{Name: constant.StringVal(ktv.Value), KeyIdent: types.ExprString(kv.Key), Events: map[string]string{}, EventIdent: map[string]string{}, EventPos: map[string]token.Pos{}, Pos: kv.Pos()}
				vl, ok := ast.Unparen(kv.Value).(*ast.CompositeLit)
				if !ok {
					return nil, fmt.Errorf("table %s: state %s is not a literal at %s", tb.Func, se.KeyIdent, w.Pos(kv.Value.Pos()))
				}
				for _, fe := range vl.Elts {
					fkv, ok := fe.(*ast.KeyValueExpr)
					if !ok {
						return nil, fmt.Errorf("table %s: positional State literal at %s", tb.Func, w.Pos(fe.Pos()))
					}
					fname, _ := fkv.Key.(*ast.Ident)
					if fname == nil {
						return nil, fmt.Errorf("table %s: bad State field at %s", tb.Func, w.Pos(fkv.Pos()))
					}
					switch fname.Name {
					case "Action":
						acts, err := w.decodeAction(ti, fkv.Value, aif)
						if err != nil {
							return nil, fmt.Errorf("table %s state %s: %v", tb.Func, se.KeyIdent, err)
						}
						se.Actions = acts
					case "Events":
						el, ok := ast.Unparen(fkv.Value).(*ast.CompositeLit)
						if !ok {
							return nil, fmt.Errorf("table %s state %s: Events is not a literal", tb.Func, se.KeyIdent)
						}
						for _, ee := range el.Elts {
							ekv, ok := ee.(*ast.KeyValueExpr)
							if !ok {
								return nil, fmt.Errorf("table %s state %s: bad Events element", tb.Func, se.KeyIdent)
							}
							k, v := ti.Types[ekv.Key], ti.Types[ekv.Value]
							if k.Value == nil || v.Value == nil || k.Value.Kind() != constant.String || v.Value.Kind() != constant.String {
								return nil, fmt.Errorf("table %s state %s: non-constant event/target at %s", tb.Func, se.KeyIdent, w.Pos(ekv.Pos()))
							}
							ev := constant.StringVal(k.Value)
							if _, dup := se.Events[ev]; dup {
								return nil, fmt.Errorf("table %s state %s: duplicate event %s", tb.Func, se.KeyIdent, ev)
							}
							se.Events[ev] = constant.StringVal(v.Value)
							se.EventIdent[ev] = types.ExprString(ekv.Key)
							se.EventPos[ev] = ekv.Pos()
						}
					case "FailOnrecover":
						tv := ti.Types[fkv.Value]
						if tv.Value == nil || tv.Value.Kind() != constant.Bool {
							return nil, fmt.Errorf("table %s state %s: non-constant FailOnrecover", tb.Func, se.KeyIdent)
						}
						se.FailOnRecover = constant.BoolVal(tv.Value)
					default:
						// fields other than Action / Events / FailOnrecover do not
						// take part in the transition relation
					}
				}
				if _, dup := tb.States[se.Name]; dup {
					return nil, fmt.Errorf("table %s: duplicate state %q", tb.Func, se.Name)
				}
				tb.States[se.Name] = se
				tb.Order = append(tb.Order, se.Name)
			}
			info.Tables = append(info.Tables, tb)
			info.ByFunc[tb.Func] = tb
		}
	}
	sort.Slice(info.Tables, func(i, j int) bool { return info.Tables[i].Func < info.Tables[j].Func })

	// Bindings from constructors: composite literals of SwapStateMachine that
	// set Type, Role and States: <tableFunc>().
	smT := w.Named("swap", "SwapStateMachine")
	for _, f := range pkg.Syntax {
		for _, d := range f.Decls {
			fd, ok := d.(*ast.FuncDecl)
			if !ok || fd.Body == nil {
				continue
			}
			ast.Inspect(fd.Body, func(n ast.Node) bool {
				cl, ok := n.(*ast.CompositeLit)
				if !ok {
					return true
				}
				t := ti.TypeOf(cl)
				if t == nil || smT == nil || !types.Identical(t, smT) {
					return true
				}
				var tfun string
				var typ, role *types.TypeAndValue
				var typId, roleId string
				for _, el := range cl.Elts {
					kv, ok := el.(*ast.KeyValueExpr)
					if !ok {
						continue
					}
					id, _ := kv.Key.(*ast.Ident)
					if id == nil {
						continue
					}
					switch id.Name {
					case "States":
						if ce, ok := ast.Unparen(kv.Value).(*ast.CallExpr); ok {
							if fi, ok := ce.Fun.(*ast.Ident); ok {
								tfun = fi.Name
							}
						}
					case "Type":
						tv := ti.Types[kv.Value]
						typ = &tv
						typId = types.ExprString(kv.Value)
					case "Role":
						tv := ti.Types[kv.Value]
						role = &tv
						roleId = types.ExprString(kv.Value)
					}
				}
				if tb := info.ByFunc[tfun]; tb != nil && typ != nil && role != nil && typ.Value != nil && role.Value != nil {
					tv, _ := constant.Int64Val(typ.Value)
					rv, _ := constant.Int64Val(role.Value)
					if tb.Bound && (tb.Type != tv || tb.Role != rv) {
						tb.Bound = false // conflicting constructors; C15.R5 reports
						tb.Constructor = "CONFLICT"
					} else {
						tb.Type, tb.Role, tb.TypeIdent, tb.RoleIdent, tb.Bound, tb.Constructor = tv, rv, typId, roleId, true, fd.Name.Name
					}
				}
				return true
			})
		}
	}

	// Execute functions of the concrete action types.
	scope := pkg.Types.Scope()
	for _, n := range scope.Names() {
		tn, ok := scope.Lookup(n).(*types.TypeName)
		if !ok {
			continue
		}
		nt, ok := tn.Type().(*types.Named)
		if !ok {
			continue
		}
		if _, isIface := nt.Underlying().(*types.Interface); isIface {
			continue
		}
		if types.Implements(nt, aif) || types.Implements(types.NewPointer(nt), aif) {
			if fn := w.Method(nt, "Execute"); fn != nil {
				info.Exec[nt] = fn
			}
		}
	}
	return info, nil
}

// localTableLiteral handles `v := States{...}` (or `var v = States{...}`)
// followed by `return v`, with v never assigned again and never indexed for
// writing in the function body.
func localTableLiteral(ti *types.Info, fd *ast.FuncDecl) *ast.CompositeLit {
	var ret *ast.Ident
	ast.Inspect(fd.Body, func(n ast.Node) bool {
		if r, ok := n.(*ast.ReturnStmt); ok && len(r.Results) == 1 {
			if id, ok := ast.Unparen(r.Results[0]).(*ast.Ident); ok {
				ret = id
			}
		}
		return true
	})
	if ret == nil {
		return nil
	}
	obj := ti.Uses[ret]
	if obj == nil {
		return nil
	}
	var lit *ast.CompositeLit
	writes := 0
	ast.Inspect(fd.Body, func(n ast.Node) bool {
		switch s := n.(type) {
		case *ast.AssignStmt:
			for i, lhs := range s.Lhs {
				switch l := ast.Unparen(lhs).(type) {
				case *ast.Ident:
					if ti.Defs[l] == obj || ti.Uses[l] == obj {
						writes++
						if i < len(s.Rhs) {
							if cl, ok := ast.Unparen(s.Rhs[i]).(*ast.CompositeLit); ok {
								lit = cl
							}
						}
					}
				case *ast.IndexExpr:
					if id, ok := ast.Unparen(l.X).(*ast.Ident); ok && ti.Uses[id] == obj {
						writes += 2 // element write: not a pure literal any more
					}
				}
			}
		case *ast.ValueSpec:
			for i, name := range s.Names {
				if ti.Defs[name] == obj {
					writes++
					if i < len(s.Values) {
						if cl, ok := ast.Unparen(s.Values[i]).(*ast.CompositeLit); ok {
							lit = cl
						}
					}
				}
			}
		case *ast.CallExpr:
			// delete(v, k) or passing v on would make the literal incomplete
			for _, a := range s.Args {
				if id, ok := ast.Unparen(a).(*ast.Ident); ok && ti.Uses[id] == obj {
					writes += 2
				}
			}
		}
		return true
	})
	if writes != 1 {
		return nil
	}
	return lit
}

// decodeAction turns `&A{next: &B{}}` / `A{next: ...}` into [A, B].
func (w *World) decodeAction(ti *types.Info, e ast.Expr, aif *types.Interface) ([]*types.Named, error) {
	e = ast.Unparen(e)
	if u, ok := e.(*ast.UnaryExpr); ok && u.Op == token.AND {
		e = ast.Unparen(u.X)
	}
	cl, ok := e.(*ast.CompositeLit)
	if !ok {
		if id, ok := e.(*ast.Ident); ok && id.Name == "nil" {
			return nil, nil
		}
		return nil, fmt.Errorf("action is not a composite literal at %s", w.Pos(e.Pos()))
	}
	t := ti.TypeOf(cl)
	nt, _ := t.(*types.Named)
	if nt == nil {
		return nil, fmt.Errorf("action literal of unnamed type at %s", w.Pos(e.Pos()))
	}
	out := []*types.Named{nt}
	st, _ := nt.Underlying().(*types.Struct)
	for _, el := range cl.Elts {
		var val ast.Expr
		var ft types.Type
		if kv, ok := el.(*ast.KeyValueExpr); ok {
			val = kv.Value
			ft = ti.TypeOf(kv.Value)
			if id, ok := kv.Key.(*ast.Ident); ok && st != nil {
				for i := 0; i < st.NumFields(); i++ {
					if st.Field(i).Name() == id.Name {
						ft = st.Field(i).Type()
					}
				}
			}
		} else {
			val = el
			ft = ti.TypeOf(el)
		}
		if ft == nil {
			continue
		}
		if _, isI := ft.Underlying().(*types.Interface); isI && types.Identical(ft.Underlying(), aif) {
			inner, err := w.decodeAction(ti, val, aif)
			if err != nil {
				return nil, err
			}
			out = append(out, inner...)
		}
	}
	return out, nil
}

// ---- graph helpers ---------------------------------------------------------

// Reach returns all states reachable from start (inclusive) over all events.
func (t *Table) Reach(start ...string) map[string]bool {
	seen := map[string]bool{}
	var st []string
	for _, s := range start {
		if !seen[s] {
			seen[s] = true
			st = append(st, s)
		}
	}
	for len(st) > 0 {
		s := st[len(st)-1]
		st = st[:len(st)-1]
		e := t.States[s]
		if e == nil {
			continue
		}
		for _, nx := range e.Events {
			if !seen[nx] {
				seen[nx] = true
				st = append(st, nx)
			}
		}
	}
	return seen
}

// Terminal reports whether the state has no outgoing events.
func (e *StateEntry) Terminal() bool { return len(e.Events) == 0 }

// SortedEvents returns the event names in order.
func (e *StateEntry) SortedEvents() []string {
	out := make([]string, 0, len(e.Events))
	for k := range e.Events {
		out = append(out, k)
	}
	sort.Strings(out)
	return out
}

// InEdges returns (from, event) pairs leading to state s.
func (t *Table) InEdges(s string) [][2]string {
	var out [][2]string
	for _, from := range t.Order {
		e := t.States[from]
		for _, ev := range e.SortedEvents() {
			if e.Events[ev] == s {
				out = append(out, [2]string{from, ev})
			}
		}
	}
	return out
}

// ActionNames returns the type names of the action tree.
func (e *StateEntry) ActionNames() []string {
	var out []string
	for _, a := range e.Actions {
		out = append(out, a.Obj().Name())
	}
	return out
}

// FindPath returns a shortest event path from a to b ("" if none).
func (t *Table) FindPath(a, b string) []string {
	type node struct {
		s    string
		path []string
	}
	seen := map[string]bool{a: true}
	q := []node{{a, nil}}
	for len(q) > 0 {
		n := q[0]
		q = q[1:]
		if n.s == b && len(n.path) > 0 {
			return n.path
		}
		e := t.States[n.s]
		if e == nil {
			continue
		}
		for _, ev := range e.SortedEvents() {
			nx := e.Events[ev]
			p := append(append([]string{}, n.path...), fmt.Sprintf("%s --%s--> %s", n.s, ev, nx))
			if nx == b {
				return p
			}
			if !seen[nx] {
				seen[nx] = true
				q = append(q, node{nx, p})
			}
		}
	}
	return nil
}
