package an

import (
	"go/token"
	"go/types"
	"sort"

	"golang.org/x/tools/go/ssa"
)

// EffectSite is a call reached (synchronously, through static in-module
// callees) from a summarised function.
type EffectSite struct {
	Name  string // CallInfo.Name
	Info  CallInfo
	In    *ssa.Function // function containing the call
	Chain []string      // static call chain from the summarised function
}

// FuncSummary is the effect summary of a function (E3).
type FuncSummary struct {
	Fn        *ssa.Function
	Events    map[string]bool // constant events that may be returned
	Delegates bool            // may return the result of another Action.Execute (wrapper)
	Unknown   bool            // some returned value could not be resolved
	Effects   []EffectSite
}

const summaryDepth = 5

// Summary computes (and caches) the summary of fn.
func (w *World) Summary(fn *ssa.Function) *FuncSummary {
	w.sumMu.Lock()
	if s, ok := w.sums[fn]; ok {
		w.sumMu.Unlock()
		return s
	}
	w.sumMu.Unlock()
	s := &FuncSummary{Fn: fn, Events: map[string]bool{}}
	w.collectEffects(fn, nil, map[*ssa.Function]bool{}, 0, s)
	w.collectEvents(fn, s, map[*ssa.Function]bool{})
	w.sumMu.Lock()
	w.sums[fn] = s
	w.sumMu.Unlock()
	return s
}

func (w *World) collectEffects(fn *ssa.Function, chain []string, seen map[*ssa.Function]bool, depth int, s *FuncSummary) {
	if fn == nil || seen[fn] || fn.Blocks == nil {
		return
	}
	seen[fn] = true
	for _, c := range Calls(fn) {
		ci := w.Info(c)
		if ci.IsGo {
			// asynchronous: recorded with a marker, not followed
			s.Effects = append(s.Effects, EffectSite{Name: "go:" + ci.Name, Info: ci, In: fn, Chain: chain})
			continue
		}
		s.Effects = append(s.Effects, EffectSite{Name: ci.Name, Info: ci, In: fn, Chain: chain})
		if ci.Static != nil && w.InModule(ci.Static) && depth < summaryDepth {
			// do not follow into the Execute of another action (wrapper delegation is
			// resolved per table entry)
			w.collectEffects(ci.Static, append(append([]string{}, chain...), w.FuncName(ci.Static)), seen, depth+1, s)
		}
		// immediately-invoked or passed closures
		for _, a := range c.Common().Args {
			if mc, ok := a.(*ssa.MakeClosure); ok {
				if f, ok := mc.Fn.(*ssa.Function); ok && depth < summaryDepth {
					w.collectEffects(f, append(append([]string{}, chain...), w.FuncName(f)), seen, depth+1, s)
				}
			}
		}
	}
}

func (w *World) isActionExecute(ci CallInfo) bool {
	return ci.Method == "Execute" && ci.Iface != nil && ci.Iface.Obj().Name() == "Action" && w.shortPkg(ci.PkgPath) == "swap"
}

func (w *World) collectEvents(fn *ssa.Function, s *FuncSummary, seen map[*ssa.Function]bool) {
	if fn == nil || seen[fn] || fn.Blocks == nil {
		return
	}
	seen[fn] = true
	vseen := map[ssa.Value]bool{}
	var val func(v ssa.Value)
	val = func(v ssa.Value) {
		if vseen[v] {
			return
		}
		vseen[v] = true
		if str, ok := ConstString(v); ok {
			s.Events[str] = true
			return
		}
		switch x := v.(type) {
		case *ssa.Phi:
			for _, e := range x.Edges {
				val(e)
			}
		case *ssa.ChangeType:
			val(x.X)
		case *ssa.Convert:
			val(x.X)
		case *ssa.Call:
			ci := w.Info(x)
			if w.isActionExecute(ci) {
				s.Delegates = true
				return
			}
			if ci.Static != nil && w.InModule(ci.Static) {
				sub := &FuncSummary{Fn: ci.Static, Events: map[string]bool{}}
				w.collectEvents(ci.Static, sub, seen)
				for e := range sub.Events {
					s.Events[e] = true
				}
				if sub.Delegates {
					s.Delegates = true
				}
				if sub.Unknown {
					s.Unknown = true
				}
				return
			}
			s.Unknown = true
		case *ssa.UnOp:
			if x.Op == token.MUL {
				if al, ok := x.X.(*ssa.Alloc); ok && al.Referrers() != nil {
					for _, r := range *al.Referrers() {
						if st, ok := r.(*ssa.Store); ok && st.Addr == al {
							val(st.Val)
						}
					}
					return
				}
			}
			s.Unknown = true
		default:
			s.Unknown = true
		}
	}
	for _, r := range Returns(fn) {
		for _, res := range r.Results {
			if isEventType(res.Type()) {
				val(res)
			}
		}
	}
}

func isEventType(t types.Type) bool {
	n, ok := t.(*types.Named)
	return ok && n.Obj().Name() == "EventType"
}

// HasEffect reports whether the summary contains a call whose Name matches.
func (s *FuncSummary) HasEffect(name string) bool {
	for _, e := range s.Effects {
		if e.Name == name {
			return true
		}
	}
	return false
}

// Sites returns the effect sites with the given name.
func (s *FuncSummary) Sites(name string) []EffectSite {
	var out []EffectSite
	for _, e := range s.Effects {
		if e.Name == name {
			out = append(out, e)
		}
	}
	return out
}

// SortedEvents of the summary.
func (s *FuncSummary) SortedEvents() []string {
	var out []string
	for e := range s.Events {
		out = append(out, e)
	}
	sort.Strings(out)
	return out
}

// ---- per state ------------------------------------------------------------------

// StateSummary merges the summaries of an action tree.
type StateSummary struct {
	Entry   *StateEntry
	Events  map[string]bool
	Unknown bool
	Effects []EffectSite
	Execs   []*ssa.Function
}

// StateSummary resolves wrapper delegation along the entry's action tree: the
// events of a wrapper are its own constants plus, when it delegates, the events
// of the next action.
func (w *World) StateSummary(f *FSMInfo, e *StateEntry) *StateSummary {
	ss := &StateSummary{Entry: e, Events: map[string]bool{}}
	for i, a := range e.Actions {
		fn := f.Exec[a]
		if fn == nil {
			ss.Unknown = true
			continue
		}
		ss.Execs = append(ss.Execs, fn)
		s := w.Summary(fn)
		for ev := range s.Events {
			ss.Events[ev] = true
		}
		if s.Unknown {
			ss.Unknown = true
		}
		ss.Effects = append(ss.Effects, s.Effects...)
		if !s.Delegates && i < len(e.Actions)-1 {
			// literal carries a next action the wrapper never runs
			break
		}
		if s.Delegates && i == len(e.Actions)-1 {
			ss.Unknown = true // delegates to nothing we can see
		}
	}
	return ss
}

func (ss *StateSummary) HasEffect(name string) bool {
	for _, e := range ss.Effects {
		if e.Name == name {
			return true
		}
	}
	return false
}

func (ss *StateSummary) Sites(name string) []EffectSite {
	var out []EffectSite
	for _, e := range ss.Effects {
		if e.Name == name {
			out = append(out, e)
		}
	}
	return out
}
