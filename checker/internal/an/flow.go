package an

import (
	"fmt"
	"go/token"
	"go/types"
	"sort"
	"strings"
	"sync"

	"golang.org/x/tools/go/ssa"
)

// Src is a leaf of a backward value-flow slice.
type Src struct {
	Kind string // const | param | call | field | global | alloc | func | freevar | zero | unknown
	Name string
	Val  ssa.Value
	Call *ssa.Call // for Kind == call
	Idx  int       // result index for calls, param index for params
}

func (s Src) String() string { return s.Kind + ":" + s.Name }

// FlowOpts controls the slice.
type FlowOpts struct {
	IntoCallees  bool            // descend into returns of static in-module callees
	IntoCallers  bool            // from a parameter continue into the arguments at call sites (VTA graph)
	ThroughCalls map[string]bool // CallInfo.Name of pass-through functions: continue into all args
	MaxDepth     int
	// StopAt: treat a call with this CallInfo.Name as a leaf even if IntoCallees.
	StopAt map[string]bool
	// FieldsThroughWriters: on a field load, continue into all module-wide stores
	// to that field (flow-insensitive heap model) for the listed "Type.Field" keys.
	FieldsThroughWriters map[string]bool
}

// SrcSet is a set of sources plus the operators met on the way.
type SrcSet struct {
	Leaves []Src
	Ops    map[string]bool // binop tokens, "convert:<type>", "lookup", "slice", "index"
}

func (ss *SrcSet) Has(kind, name string) bool {
	for _, l := range ss.Leaves {
		if l.Kind == kind && l.Name == name {
			return true
		}
	}
	return false
}

// HasPrefix: some leaf of kind whose name has the prefix.
func (ss *SrcSet) HasPrefix(kind, prefix string) bool {
	for _, l := range ss.Leaves {
		if l.Kind == kind && strings.HasPrefix(l.Name, prefix) {
			return true
		}
	}
	return false
}

// Names lists "kind:name" sorted and de-duplicated.
func (ss *SrcSet) Names() []string {
	m := map[string]bool{}
	for _, l := range ss.Leaves {
		m[l.String()] = true
	}
	out := make([]string, 0, len(m))
	for k := range m {
		out = append(out, k)
	}
	sort.Strings(out)
	return out
}

// OnlyFrom: every leaf satisfies pred.
func (ss *SrcSet) OnlyFrom(pred func(Src) bool) bool {
	for _, l := range ss.Leaves {
		if !pred(l) {
			return false
		}
	}
	return len(ss.Leaves) > 0
}

// Sources computes the backward slice of v.
func (w *World) Sources(v ssa.Value, o FlowOpts) *SrcSet {
	if o.MaxDepth == 0 {
		o.MaxDepth = 6
	}
	ss := &SrcSet{Ops: map[string]bool{}}
	st := &flowState{w: w, o: o, ss: ss, seen: map[ssa.Value]bool{}, fnDepth: map[*ssa.Function]int{}}
	st.val(v, 0)
	return ss
}

type flowState struct {
	w       *World
	o       FlowOpts
	ss      *SrcSet
	seen    map[ssa.Value]bool
	fnDepth map[*ssa.Function]int
}

func (st *flowState) leaf(s Src) { st.ss.Leaves = append(st.ss.Leaves, s) }

// FieldChain renders a chain of field selections ending at v's address or value,
// e.g. "SwapData.OpeningTxBroadcasted>OpeningTxBroadcastedMessage.Payreq".
func (w *World) FieldChain(v ssa.Value) (chain string, root ssa.Value) {
	var parts []string
	for {
		switch x := v.(type) {
		case *ssa.FieldAddr:
			parts = append([]string{fieldName(x.X.Type(), x.Field)}, parts...)
			v = x.X
			continue
		case *ssa.Field:
			parts = append([]string{fieldName(x.X.Type(), x.Field)}, parts...)
			v = x.X
			continue
		case *ssa.UnOp:
			if x.Op == token.MUL {
				if _, ok := x.X.(*ssa.FieldAddr); ok {
					v = x.X
					continue
				}
			}
		}
		break
	}
	return strings.Join(parts, ">"), v
}

func (st *flowState) val(v ssa.Value, depth int) {
	if v == nil || st.seen[v] {
		return
	}
	st.seen[v] = true
	w := st.w
	switch x := v.(type) {
	case *ssa.Const:
		if x.Value == nil {
			st.leaf(Src{Kind: "zero", Name: "nil", Val: v})
		} else {
			st.leaf(Src{Kind: "const", Name: x.Value.ExactString(), Val: v})
		}
	case *ssa.Parameter:
		fn := x.Parent()
		idx := -1
		for i, p := range fn.Params {
			if p == x {
				idx = i
			}
		}
		if st.o.IntoCallers && depth < st.o.MaxDepth {
			n := w.CG().Nodes[fn]
			found := false
			if n != nil {
				for _, in := range n.In {
					if in.Site == nil {
						continue
					}
					args := in.Site.Common().Args
					ai := idx
					if in.Site.Common().IsInvoke() {
						ai = idx - 1 // receiver is not in Args for invoke
					}
					if ai >= 0 && ai < len(args) {
						found = true
						st.val(args[ai], depth+1)
					}
				}
			}
			if found {
				return
			}
		}
		st.leaf(Src{Kind: "param", Name: fmt.Sprintf("%s#%d:%s", w.FuncName(fn), idx, x.Name()), Val: v, Idx: idx})
	case *ssa.FreeVar:
		// resolve through the MakeClosure bindings in the parent
		fn := x.Parent()
		idx := -1
		for i, fv := range fn.FreeVars {
			if fv == x {
				idx = i
			}
		}
		resolved := false
		if par := fn.Parent(); par != nil && idx >= 0 {
			for _, b := range par.Blocks {
				for _, in := range b.Instrs {
					if mc, ok := in.(*ssa.MakeClosure); ok && mc.Fn == fn && idx < len(mc.Bindings) {
						resolved = true
						st.val(mc.Bindings[idx], depth)
					}
				}
			}
		}
		if !resolved {
			st.leaf(Src{Kind: "freevar", Name: x.Name(), Val: v})
		}
	case *ssa.Global:
		st.leaf(Src{Kind: "global", Name: w.shortPkg(x.Pkg.Pkg.Path()) + "." + x.Name(), Val: v})
	case *ssa.Function:
		st.leaf(Src{Kind: "func", Name: w.FuncName(x), Val: v})
	case *ssa.Builtin:
		st.leaf(Src{Kind: "func", Name: "builtin." + x.Name(), Val: v})
	case *ssa.MakeClosure:
		if f, ok := x.Fn.(*ssa.Function); ok {
			st.leaf(Src{Kind: "func", Name: w.FuncName(f), Val: v})
		}
	case *ssa.Phi:
		for _, e := range x.Edges {
			st.val(e, depth)
		}
	case *ssa.ChangeType:
		st.val(x.X, depth)
	case *ssa.Convert:
		st.ss.Ops["convert:"+types.TypeString(x.Type(), nil)] = true
		st.val(x.X, depth)
	case *ssa.ChangeInterface:
		st.val(x.X, depth)
	case *ssa.MakeInterface:
		st.val(x.X, depth)
	case *ssa.SliceToArrayPointer:
		st.val(x.X, depth)
	case *ssa.TypeAssert:
		st.val(x.X, depth)
	case *ssa.MultiConvert:
		st.val(x.X, depth)
	case *ssa.BinOp:
		st.ss.Ops[x.Op.String()] = true
		st.val(x.X, depth)
		st.val(x.Y, depth)
	case *ssa.UnOp:
		switch x.Op {
		case token.MUL:
			st.load(x, depth)
		case token.ARROW:
			st.ss.Ops["recv"] = true
			st.val(x.X, depth)
		default:
			st.ss.Ops["unop"+x.Op.String()] = true
			st.val(x.X, depth)
		}
	case *ssa.Slice:
		st.ss.Ops["slice"] = true
		st.val(x.X, depth)
	case *ssa.Index:
		st.ss.Ops["index"] = true
		st.val(x.X, depth)
	case *ssa.IndexAddr:
		st.ss.Ops["index"] = true
		st.val(x.X, depth)
	case *ssa.Lookup:
		st.ss.Ops["lookup"] = true
		st.val(x.X, depth)
	case *ssa.Field:
		chain, root := w.FieldChain(x)
		st.fieldLeaf(chain, root, x, depth)
	case *ssa.FieldAddr:
		chain, root := w.FieldChain(x)
		st.fieldLeaf(chain, root, x, depth)
	case *ssa.Extract:
		if c, ok := x.Tuple.(*ssa.Call); ok {
			st.call(c, x.Index, depth)
		} else {
			st.val(x.Tuple, depth)
		}
	case *ssa.Call:
		st.call(x, 0, depth)
	case *ssa.Alloc:
		// address of a local: union of everything stored into it
		st.allocStores(x, -1, depth)
	case *ssa.MakeSlice, *ssa.MakeMap, *ssa.MakeChan:
		st.leaf(Src{Kind: "alloc", Name: types.TypeString(v.Type(), nil), Val: v})
	case *ssa.Next:
		st.val(x.Iter, depth)
	case *ssa.Range:
		st.ss.Ops["range"] = true
		st.val(x.X, depth)
	case *ssa.Select:
		st.leaf(Src{Kind: "unknown", Name: "select", Val: v})
	default:
		st.leaf(Src{Kind: "unknown", Name: fmt.Sprintf("%T", v), Val: v})
	}
}

func (st *flowState) fieldLeaf(chain string, root ssa.Value, at ssa.Value, depth int) {
	// a field of a local composite: look through the stores
	if al, ok := root.(*ssa.Alloc); ok {
		if st.allocFieldStores(al, at, depth) {
			return
		}
	}
	last := chain
	if i := strings.LastIndex(chain, ">"); i >= 0 {
		last = chain[i+1:]
	}
	if st.o.FieldsThroughWriters[last] && depth < st.o.MaxDepth {
		ws := st.w.FieldWriters(last)
		if len(ws) > 0 {
			for _, s := range ws {
				st.val(s.Val, depth+1)
			}
			return
		}
	}
	st.leaf(Src{Kind: "field", Name: chain, Val: at})
}

// load handles *addr.
func (st *flowState) load(x *ssa.UnOp, depth int) {
	switch a := x.X.(type) {
	case *ssa.Alloc:
		// the latest store to the same local earlier in this block wins
		// (defer-spilled named results: `err = f(); return` stores then loads)
		if !allocEscapes(a) {
			stores, fromEntry := StoresReaching(x, a)
			if len(stores) > 0 || fromEntry {
				for _, s := range stores {
					st.val(s.Val, depth)
				}
				if fromEntry {
					st.leaf(Src{Kind: "zero", Name: "unassigned:" + a.Comment, Val: a})
				}
				return
			}
		}
		st.allocStores(a, -1, depth)
	case *ssa.FieldAddr:
		chain, root := st.w.FieldChain(a)
		st.fieldLeaf(chain, root, a, depth)
	case *ssa.IndexAddr:
		st.ss.Ops["index"] = true
		if al, ok := a.X.(*ssa.Alloc); ok {
			// array literal backing store (varargs): all element stores
			st.allocStores(al, -2, depth)
			return
		}
		st.val(a.X, depth)
	case *ssa.Global:
		st.leaf(Src{Kind: "global", Name: st.w.shortPkg(a.Pkg.Pkg.Path()) + "." + a.Name(), Val: a})
	default:
		st.val(x.X, depth)
	}
}

// allocStores unions the values stored into a local alloc (flow-insensitive).
// mode -1: direct stores to the alloc and to any field/elem; -2: element stores.
func (st *flowState) allocStores(al *ssa.Alloc, mode int, depth int) {
	if al.Referrers() == nil {
		return
	}
	found := false
	for _, r := range *al.Referrers() {
		switch y := r.(type) {
		case *ssa.Store:
			if y.Addr == al {
				found = true
				st.val(y.Val, depth)
			}
		case *ssa.IndexAddr:
			if y.Referrers() != nil {
				for _, rr := range *y.Referrers() {
					if s, ok := rr.(*ssa.Store); ok && s.Addr == y {
						found = true
						st.val(s.Val, depth)
					}
				}
			}
		case *ssa.FieldAddr:
			if y.Referrers() != nil {
				for _, rr := range *y.Referrers() {
					if s, ok := rr.(*ssa.Store); ok && s.Addr == y {
						found = true
						st.val(s.Val, depth)
					}
				}
			}
		case *ssa.Slice:
			// s := arr[:] ; nothing stored through it that we track
		}
	}
	if !found {
		// passed by address to a callee that fills it (e.g. json.Unmarshal(&msg))
		filled := false
		for _, r := range *al.Referrers() {
			if c, ok := r.(ssa.CallInstruction); ok {
				ci := st.w.Info(c)
				filled = true
				st.leaf(Src{Kind: "call", Name: ci.Name + "#out", Val: al})
			}
		}
		if !filled {
			st.leaf(Src{Kind: "zero", Name: types.TypeString(al.Type(), nil), Val: al})
		}
	}
}

// allocFieldStores: the loaded field address `at` has an Alloc root; find
// stores to the same field path on that alloc.
func (st *flowState) allocFieldStores(al *ssa.Alloc, at ssa.Value, depth int) bool {
	var wantIdx []int
	v := at
	for {
		switch x := v.(type) {
		case *ssa.FieldAddr:
			wantIdx = append([]int{x.Field}, wantIdx...)
			v = x.X
			continue
		case *ssa.Field:
			wantIdx = append([]int{x.Field}, wantIdx...)
			v = x.X
			continue
		case *ssa.UnOp:
			if x.Op == token.MUL {
				v = x.X
				continue
			}
		}
		break
	}
	if v != al || len(wantIdx) == 0 || al.Referrers() == nil {
		return false
	}
	found := false
	var walk func(base ssa.Value, idx []int)
	walk = func(base ssa.Value, idx []int) {
		if base.Referrers() == nil {
			return
		}
		for _, r := range *base.Referrers() {
			fa, ok := r.(*ssa.FieldAddr)
			if !ok || fa.X != base || fa.Field != idx[0] {
				continue
			}
			if len(idx) == 1 {
				if fa.Referrers() != nil {
					for _, rr := range *fa.Referrers() {
						if s, ok := rr.(*ssa.Store); ok && s.Addr == fa {
							found = true
							st.val(s.Val, depth)
						}
					}
				}
			} else {
				walk(fa, idx[1:])
			}
		}
	}
	walk(al, wantIdx)
	if !found {
		// whole-struct stores
		for _, r := range *al.Referrers() {
			if s, ok := r.(*ssa.Store); ok && s.Addr == al {
				found = true
				st.val(s.Val, depth)
			}
		}
	}
	if !found {
		// a composite literal that leaves the field out: zero value
		escapes := false
		for _, r := range *al.Referrers() {
			if _, ok := r.(ssa.CallInstruction); ok {
				escapes = true
			}
		}
		if !escapes {
			st.leaf(Src{Kind: "zero", Name: "field-unset", Val: at})
			return true
		}
	}
	return found
}

func (st *flowState) call(c *ssa.Call, idx int, depth int) {
	ci := st.w.Info(c)
	name := ci.Name
	if st.o.ThroughCalls[name] {
		st.ss.Ops["via:"+name] = true
		for _, a := range c.Common().Args {
			st.val(a, depth)
		}
		if c.Common().IsInvoke() {
			st.val(c.Common().Value, depth)
		}
		return
	}
	if strings.HasPrefix(name, "builtin:") {
		switch name {
		case "builtin:append", "builtin:min", "builtin:max", "builtin:copy":
			for _, a := range c.Common().Args {
				st.val(a, depth)
			}
			return
		case "builtin:len", "builtin:cap":
			st.ss.Ops[strings.TrimPrefix(name, "builtin:")] = true
			for _, a := range c.Common().Args {
				st.val(a, depth)
			}
			return
		}
	}
	if st.o.IntoCallees && !st.o.StopAt[name] && ci.Static != nil && st.w.InModule(ci.Static) && ci.Static.Blocks != nil && depth < st.o.MaxDepth && st.fnDepth[ci.Static] < 2 {
		st.fnDepth[ci.Static]++
		for _, r := range Returns(ci.Static) {
			if idx < len(r.Results) {
				st.val(r.Results[idx], depth+1)
			}
		}
		st.fnDepth[ci.Static]--
		return
	}
	st.leaf(Src{Kind: "call", Name: fmt.Sprintf("%s#%d", name, idx), Val: c, Call: c, Idx: idx})
}

// ---- module-wide field writer index ------------------------------------------------

type fieldIndex struct {
	once   sync.Once
	writes map[string][]*ssa.Store
	reads  map[string][]ssa.Instruction
}

var fidx = map[*World]*fieldIndex{}
var fidxMu sync.Mutex

func (w *World) fieldIdx() *fieldIndex {
	fidxMu.Lock()
	fi := fidx[w]
	if fi == nil {
		fi = &fieldIndex{}
		fidx[w] = fi
	}
	fidxMu.Unlock()
	fi.once.Do(func() {
		fi.writes = map[string][]*ssa.Store{}
		fi.reads = map[string][]ssa.Instruction{}
		for _, fn := range w.SrcFuncs(nil) {
			for _, b := range fn.Blocks {
				for _, in := range b.Instrs {
					switch x := in.(type) {
					case *ssa.Store:
						if fa, ok := x.Addr.(*ssa.FieldAddr); ok {
							k := fieldName(fa.X.Type(), fa.Field)
							fi.writes[k] = append(fi.writes[k], x)
						}
					case *ssa.UnOp:
						if x.Op == token.MUL {
							if fa, ok := x.X.(*ssa.FieldAddr); ok {
								k := fieldName(fa.X.Type(), fa.Field)
								fi.reads[k] = append(fi.reads[k], x)
							}
						}
					case *ssa.Field:
						k := fieldName(x.X.Type(), x.Field)
						fi.reads[k] = append(fi.reads[k], x)
					}
				}
			}
		}
	})
	return fi
}

// FieldWriters returns every Store to field "Type.Field" in the module
// (including test-support packages; filter with w.FnRel).
func (w *World) FieldWriters(key string) []*ssa.Store { return w.fieldIdx().writes[key] }

// FieldReaders returns every load of field "Type.Field".
func (w *World) FieldReaders(key string) []ssa.Instruction { return w.fieldIdx().reads[key] }

// CompositeFieldValues finds, for an `&T{...}` / `T{...}` literal allocated as
// al, the value stored to the named field ("" if the literal leaves it unset).
func CompositeFieldValue(al *ssa.Alloc, field string) (ssa.Value, bool) {
	if al.Referrers() == nil {
		return nil, false
	}
	for _, r := range *al.Referrers() {
		fa, ok := r.(*ssa.FieldAddr)
		if !ok || fa.X != al {
			continue
		}
		if !strings.HasSuffix(fieldName(al.Type(), fa.Field), "."+field) {
			continue
		}
		if fa.Referrers() == nil {
			continue
		}
		for _, rr := range *fa.Referrers() {
			if s, ok := rr.(*ssa.Store); ok && s.Addr == fa {
				return s.Val, true
			}
		}
	}
	return nil, false
}

// lastStoreBefore finds the last Store to alloc a that precedes load in the
// same basic block, provided the address is not handed to a call in between.
func lastStoreBefore(load *ssa.UnOp, a *ssa.Alloc) *ssa.Store {
	b := load.Block()
	if b == nil {
		return nil
	}
	idx := -1
	for i, in := range b.Instrs {
		if in == ssa.Instruction(load) {
			idx = i
			break
		}
	}
	for i := idx - 1; i >= 0; i-- {
		switch y := b.Instrs[i].(type) {
		case *ssa.Store:
			if y.Addr == a {
				return y
			}
		case ssa.CallInstruction:
			for _, arg := range y.Common().Args {
				if arg == a {
					return nil
				}
			}
		}
	}
	return nil
}

// allocEscapes: the local's address is used by anything other than direct
// loads and stores (field/index addressing, calls, closures): then the
// reaching-definition shortcut is not applicable.
func allocEscapes(a *ssa.Alloc) bool {
	if a.Referrers() == nil {
		return false
	}
	for _, r := range *a.Referrers() {
		switch y := r.(type) {
		case *ssa.Store:
			if y.Addr != a {
				return true
			}
		case *ssa.UnOp:
			if y.Op != token.MUL {
				return true
			}
		case *ssa.DebugRef:
		default:
			return true
		}
	}
	return false
}
