package an

import (
	"go/constant"
	"go/token"
	"go/types"
	"strings"

	"golang.org/x/tools/go/ssa"
)

// ---- call identification ----------------------------------------------------

// CallInfo describes the callee of a call instruction in a way that does not
// depend on local names.
type CallInfo struct {
	Instr   ssa.CallInstruction
	Static  *ssa.Function // non-nil for static calls (incl. bound/closure of known fn)
	Iface   *types.Named  // interface type for invoke-mode calls (nil if anonymous iface)
	Method  string        // method name for invoke calls / method calls
	Recv    *types.Named  // receiver named type for static method calls
	PkgPath string        // package path of callee (static) or of the interface
	Name    string        // canonical name, see CalleeName
	IsGo    bool
	IsDefer bool
}

// Calls lists all call instructions of fn (not descending into anonymous functions).
func Calls(fn *ssa.Function) []ssa.CallInstruction {
	var out []ssa.CallInstruction
	for _, b := range fn.Blocks {
		for _, in := range b.Instrs {
			if c, ok := in.(ssa.CallInstruction); ok {
				out = append(out, c)
			}
		}
	}
	return out
}

func namedOf(t types.Type) *types.Named {
	for {
		switch x := t.(type) {
		case *types.Pointer:
			t = x.Elem()
			continue
		case *types.Named:
			return x
		case *types.Alias:
			t = types.Unalias(x)
			continue
		}
		return nil
	}
}

// NamedOf strips pointers and returns the named type, or nil.
func NamedOf(t types.Type) *types.Named { return namedOf(t) }

// Info resolves a call.
func (w *World) Info(c ssa.CallInstruction) CallInfo {
	ci := CallInfo{Instr: c}
	_, ci.IsGo = c.(*ssa.Go)
	_, ci.IsDefer = c.(*ssa.Defer)
	cc := c.Common()
	if cc.IsInvoke() {
		ci.Method = cc.Method.Name()
		ci.Iface = namedOf(cc.Value.Type())
		if ci.Iface != nil && ci.Iface.Obj().Pkg() != nil {
			ci.PkgPath = ci.Iface.Obj().Pkg().Path()
			ci.Name = "iface:" + w.shortPkg(ci.PkgPath) + "." + ci.Iface.Obj().Name() + "." + ci.Method
		} else if ci.Iface != nil {
			ci.Name = "iface:" + ci.Iface.Obj().Name() + "." + ci.Method
		} else {
			ci.Name = "iface:?." + ci.Method
		}
		return ci
	}
	if f := cc.StaticCallee(); f != nil {
		ci.Static = f
		ci.Name = "func:" + w.FuncName(f)
		if f.Signature.Recv() != nil {
			ci.Recv = namedOf(f.Signature.Recv().Type())
			ci.Method = f.Name()
		}
		if f.Pkg != nil {
			ci.PkgPath = f.Pkg.Pkg.Path()
		} else if f.Object() != nil && f.Object().Pkg() != nil {
			ci.PkgPath = f.Object().Pkg().Path()
		}
		return ci
	}
	if b, ok := cc.Value.(*ssa.Builtin); ok {
		ci.Name = "builtin:" + b.Name()
		return ci
	}
	// dynamic call through a func value: name it by where the value comes from
	ci.Name = "dyn:" + w.describeFuncValue(cc.Value)
	return ci
}

func (w *World) shortPkg(path string) string {
	if r, ok := w.Rel(path); ok {
		return r
	}
	return path
}

func (w *World) describeFuncValue(v ssa.Value) string {
	switch x := v.(type) {
	case *ssa.UnOp:
		if x.Op == token.MUL {
			if fa, ok := x.X.(*ssa.FieldAddr); ok {
				return fieldName(fa.X.Type(), fa.Field)
			}
		}
	case *ssa.Field:
		return fieldName(x.X.Type(), x.Field)
	case *ssa.Parameter:
		return "param:" + x.Name()
	case *ssa.FreeVar:
		return "freevar:" + x.Name()
	case *ssa.MakeClosure:
		if f, ok := x.Fn.(*ssa.Function); ok {
			return "closure:" + w.FuncName(f)
		}
	case *ssa.Lookup, *ssa.Index, *ssa.IndexAddr:
		return "element"
	case *ssa.Phi:
		return "phi"
	}
	return "value"
}

func fieldName(t types.Type, idx int) string {
	n := namedOf(t)
	var st *types.Struct
	if n != nil {
		st, _ = n.Underlying().(*types.Struct)
	} else {
		if p, ok := t.Underlying().(*types.Pointer); ok {
			st, _ = p.Elem().Underlying().(*types.Struct)
		} else {
			st, _ = t.Underlying().(*types.Struct)
		}
	}
	fn := "?"
	if st != nil && idx < st.NumFields() {
		fn = st.Field(idx).Name()
	}
	if n != nil {
		return n.Obj().Name() + "." + fn
	}
	return "struct." + fn
}

// FieldName is exported for rules: "SwapData.ClaimPreimage".
func FieldName(t types.Type, idx int) string { return fieldName(t, idx) }

// IsIfaceCall: invoke of method m on interface (rel, iface).
func (w *World) IsIfaceCall(ci CallInfo, rel, iface, method string) bool {
	if ci.Iface == nil || ci.Method != method {
		return false
	}
	if ci.Iface.Obj().Name() != iface || ci.Iface.Obj().Pkg() == nil {
		return false
	}
	r, ok := w.Rel(ci.Iface.Obj().Pkg().Path())
	return ok && r == rel
}

// ---- constants --------------------------------------------------------------

// ConstString returns the string value of a constant SSA value.
func ConstString(v ssa.Value) (string, bool) {
	for {
		switch x := v.(type) {
		case *ssa.Const:
			if x.Value != nil && x.Value.Kind() == constant.String {
				return constant.StringVal(x.Value), true
			}
			return "", false
		case *ssa.ChangeType:
			v = x.X
			continue
		case *ssa.Convert:
			v = x.X
			continue
		}
		return "", false
	}
}

// ConstInt returns the integer value of a constant SSA value.
func ConstInt(v ssa.Value) (int64, bool) {
	for {
		switch x := v.(type) {
		case *ssa.Const:
			if x.Value != nil && x.Value.Kind() == constant.Int {
				i, ok := constant.Int64Val(x.Value)
				return i, ok
			}
			if x.Value != nil && x.Value.Kind() == constant.Float {
				f, _ := constant.Float64Val(x.Value)
				if f == float64(int64(f)) {
					return int64(f), true
				}
			}
			return 0, false
		case *ssa.ChangeType:
			v = x.X
			continue
		case *ssa.Convert:
			v = x.X
			continue
		}
		return 0, false
	}
}

// IsNilConst reports a nil constant.
func IsNilConst(v ssa.Value) bool {
	c, ok := v.(*ssa.Const)
	return ok && c.Value == nil
}

// ---- reachability over the CFG -------------------------------------------------

// Edge is a CFG edge From -> From.Succs[Idx].
type Edge struct {
	From *ssa.BasicBlock
	Idx  int
}

func (e Edge) To() *ssa.BasicBlock { return e.From.Succs[e.Idx] }

// ReachBlocks returns the blocks reachable from start without traversing any
// edge in cut and without expanding *through* blocks in stop (a stop block is
// itself marked reached).
func ReachBlocks(start []*ssa.BasicBlock, cut map[Edge]bool, stop map[*ssa.BasicBlock]bool) map[*ssa.BasicBlock]bool {
	seen := map[*ssa.BasicBlock]bool{}
	var st []*ssa.BasicBlock
	for _, b := range start {
		if b != nil && !seen[b] {
			seen[b] = true
			st = append(st, b)
		}
	}
	for len(st) > 0 {
		b := st[len(st)-1]
		st = st[:len(st)-1]
		if stop[b] {
			continue
		}
		for i, s := range b.Succs {
			if cut[Edge{b, i}] {
				continue
			}
			if !seen[s] {
				seen[s] = true
				st = append(st, s)
			}
		}
	}
	return seen
}

// InstrIndex returns the index of in within its block.
func InstrIndex(in ssa.Instruction) int {
	for i, x := range in.Block().Instrs {
		if x == in {
			return i
		}
	}
	return -1
}

// MustPassInstr reports whether every path from the function entry to target
// executes one of via first.
func MustPassInstr(target ssa.Instruction, via []ssa.Instruction) bool {
	if len(via) == 0 {
		return false
	}
	fn := target.Parent()
	tb := target.Block()
	ti := InstrIndex(target)
	stop := map[*ssa.BasicBlock]bool{}
	for _, v := range via {
		if v.Parent() != fn {
			continue
		}
		if v.Block() == tb {
			if InstrIndex(v) < ti {
				return true // straight-line before target
			}
			continue // after target in the same block: does not help on first entry
		}
		stop[v.Block()] = true
	}
	if len(fn.Blocks) == 0 {
		return false
	}
	if stop[tb] {
		// cannot happen (handled above) but be safe
		delete(stop, tb)
	}
	reach := ReachBlocks([]*ssa.BasicBlock{fn.Blocks[0]}, nil, stop)
	return !reach[tb]
}

// EdgeDominates reports whether every path from entry to target traverses edge e
// (i.e. target is unreachable once e is removed).
func EdgeDominates(e Edge, target *ssa.BasicBlock) bool {
	fn := target.Parent()
	reach := ReachBlocks([]*ssa.BasicBlock{fn.Blocks[0]}, map[Edge]bool{e: true}, nil)
	return !reach[target]
}

// AnyEdgeSetDominates: target unreachable once all edges in es are removed.
func EdgesDominate(es []Edge, target *ssa.BasicBlock) bool {
	fn := target.Parent()
	cut := map[Edge]bool{}
	for _, e := range es {
		cut[e] = true
	}
	reach := ReachBlocks([]*ssa.BasicBlock{fn.Blocks[0]}, cut, nil)
	return !reach[target]
}

// ReachFromInstr returns blocks reachable after executing instruction in
// (the rest of its block counts through afterIdx).
func ReachFromInstr(in ssa.Instruction) map[*ssa.BasicBlock]bool {
	b := in.Block()
	return ReachBlocks(b.Succs, nil, nil)
}

// Returns lists the return instructions of fn.
func Returns(fn *ssa.Function) []*ssa.Return {
	var out []*ssa.Return
	for _, b := range fn.Blocks {
		if len(b.Instrs) == 0 {
			continue
		}
		if r, ok := b.Instrs[len(b.Instrs)-1].(*ssa.Return); ok {
			out = append(out, r)
		}
	}
	return out
}

// ---- error-edge helpers ---------------------------------------------------------

// ResultValue returns the SSA value holding result #idx of call (Extract for
// tuples, the call itself for single results).
func ResultValues(call *ssa.Call, idx int) []ssa.Value {
	sig := call.Common().Signature()
	if sig.Results().Len() == 1 {
		if idx == 0 {
			return []ssa.Value{call}
		}
		return nil
	}
	var out []ssa.Value
	if call.Referrers() == nil {
		return nil
	}
	for _, r := range *call.Referrers() {
		if ex, ok := r.(*ssa.Extract); ok && ex.Index == idx {
			out = append(out, ex)
		}
	}
	return out
}

// ErrResultIndex returns the index of the (last) error result of the call, or -1.
func ErrResultIndex(call *ssa.Call) int {
	res := call.Common().Signature().Results()
	for i := res.Len() - 1; i >= 0; i-- {
		if isErrorType(res.At(i).Type()) {
			return i
		}
	}
	return -1
}

func isErrorType(t types.Type) bool {
	n, ok := t.(*types.Named)
	return ok && n.Obj().Pkg() == nil && n.Obj().Name() == "error"
}

// IsErrorType is exported.
func IsErrorType(t types.Type) bool { return isErrorType(t) }

// NilTest describes `v == nil` / `v != nil` used as an If condition.
type CondEdge struct {
	If    *ssa.If
	True  Edge
	False Edge
}

// followers returns values equal to v through phi-free copies (ChangeType, MakeInterface).
func usesThroughCopies(v ssa.Value, visit func(ssa.Instruction, ssa.Value)) {
	seen := map[ssa.Value]bool{}
	var rec func(x ssa.Value)
	rec = func(x ssa.Value) {
		if seen[x] || x.Referrers() == nil {
			return
		}
		seen[x] = true
		for _, r := range *x.Referrers() {
			visit(r, x)
			switch y := r.(type) {
			case *ssa.ChangeType:
				rec(y)
			case *ssa.ChangeInterface:
				rec(y)
			case *ssa.Phi:
				rec(y)
			case *ssa.Store:
				// stored into a local alloc: follow loads of that alloc
				if al, ok := y.Addr.(*ssa.Alloc); ok && y.Val == x && al.Referrers() != nil {
					for _, ld := range LoadsReachedBy(y) {
						rec(ld)
					}
				}
			}
		}
	}
	rec(v)
}

// LoadsReachedBy returns the loads of the local alloc written by store st that
// st's value can reach without an intervening store to the same alloc
// (reaching definitions over the CFG; the alloc must not be written through
// other aliases, which holds for go/ssa's spilled locals and named results).
func LoadsReachedBy(st *ssa.Store) []*ssa.UnOp {
	al, ok := st.Addr.(*ssa.Alloc)
	if !ok {
		return nil
	}
	var out []*ssa.UnOp
	scan := func(b *ssa.BasicBlock, from int) (killed bool) {
		for i := from; i < len(b.Instrs); i++ {
			switch x := b.Instrs[i].(type) {
			case *ssa.UnOp:
				if x.Op == token.MUL && x.X == al {
					out = append(out, x)
				}
			case *ssa.Store:
				if x.Addr == al {
					return true
				}
			}
		}
		return false
	}
	b := st.Block()
	if scan(b, InstrIndex(st)+1) {
		return out
	}
	seen := map[*ssa.BasicBlock]bool{}
	stack := append([]*ssa.BasicBlock{}, b.Succs...)
	for len(stack) > 0 {
		x := stack[len(stack)-1]
		stack = stack[:len(stack)-1]
		if seen[x] {
			continue
		}
		seen[x] = true
		if !scan(x, 0) {
			stack = append(stack, x.Succs...)
		}
	}
	return out
}

// OkEdges returns, for a call with an error result, the CFG edges taken when
// the error is nil (the passing edges of every `err != nil` / `err == nil`
// test on that result). Empty when the error is never tested.
func OkEdges(call *ssa.Call) (ok []Edge, fail []Edge) {
	idx := ErrResultIndex(call)
	if idx < 0 {
		return nil, nil
	}
	for _, rv := range ResultValues(call, idx) {
		usesThroughCopies(rv, func(in ssa.Instruction, x ssa.Value) {
			bo, isb := in.(*ssa.BinOp)
			if !isb || (bo.Op != token.EQL && bo.Op != token.NEQ) {
				return
			}
			if !(IsNilConst(bo.X) || IsNilConst(bo.Y)) {
				return
			}
			for _, ce := range CondUses(bo) {
				if bo.Op == token.NEQ { // err != nil: false edge is ok
					ok = append(ok, ce.False)
					fail = append(fail, ce.True)
				} else {
					ok = append(ok, ce.True)
					fail = append(fail, ce.False)
				}
			}
		})
	}
	return ok, fail
}

// CondUses finds the If instructions that branch on v, possibly through
// negation; True/False are swapped accordingly.
func CondUses(v ssa.Value) []CondEdge {
	var out []CondEdge
	if v.Referrers() == nil {
		return nil
	}
	for _, r := range *v.Referrers() {
		switch x := r.(type) {
		case *ssa.If:
			out = append(out, CondEdge{If: x, True: Edge{x.Block(), 0}, False: Edge{x.Block(), 1}})
		case *ssa.UnOp:
			if x.Op == token.NOT {
				for _, ce := range CondUses(x) {
					out = append(out, CondEdge{If: ce.If, True: ce.False, False: ce.True})
				}
			}
		}
	}
	return out
}

// BoolEdges returns the edges taken when boolean value v is true / false.
func BoolEdges(v ssa.Value) (t []Edge, f []Edge) {
	seen := map[ssa.Value]bool{}
	var rec func(x ssa.Value, neg bool)
	rec = func(x ssa.Value, neg bool) {
		if seen[x] {
			return
		}
		seen[x] = true
		for _, ce := range CondUses(x) {
			if neg {
				t = append(t, ce.False)
				f = append(f, ce.True)
			} else {
				t = append(t, ce.True)
				f = append(f, ce.False)
			}
		}
		if x.Referrers() == nil {
			return
		}
		for _, r := range *x.Referrers() {
			switch y := r.(type) {
			case *ssa.Store:
				if _, ok := y.Addr.(*ssa.Alloc); ok && y.Val == x {
					for _, ld := range LoadsReachedBy(y) {
						rec(ld, neg)
					}
				}
			case *ssa.Phi:
				// `q := x && other` / `q := x || other` held in a local: q true
				// implies x true (&&), q false implies x false (||). Only that
				// informative side is added.
				if _, isAnd, ok := PhiConjuncts(y); ok && !neg {
					pt, pf := BoolEdges(y)
					if isAnd {
						t = append(t, pt...)
					} else {
						f = append(f, pf...)
					}
				}
			}
		}
	}
	rec(v, false)
	return
}

// ---- misc -------------------------------------------------------------------------

// EnclosingTop returns the top-level function containing fn (for closures).
func EnclosingTop(fn *ssa.Function) *ssa.Function {
	for fn.Parent() != nil {
		fn = fn.Parent()
	}
	return fn
}

// HasPrefixAny is a small helper.
func HasPrefixAny(s string, ps ...string) bool {
	for _, p := range ps {
		if strings.HasPrefix(s, p) {
			return true
		}
	}
	return false
}

// StoresReaching returns the stores to local alloc al that may be the last
// write before load executes (backward reaching definitions); fromEntry is true
// when the load can also be reached with no store at all (zero value).
func StoresReaching(load *ssa.UnOp, al *ssa.Alloc) (stores []*ssa.Store, fromEntry bool) {
	scanBack := func(b *ssa.BasicBlock, from int) *ssa.Store {
		for i := from; i >= 0; i-- {
			if st, ok := b.Instrs[i].(*ssa.Store); ok && st.Addr == al {
				return st
			}
		}
		return nil
	}
	b := load.Block()
	if st := scanBack(b, InstrIndex(load)-1); st != nil {
		return []*ssa.Store{st}, false
	}
	seen := map[*ssa.BasicBlock]bool{}
	var stack []*ssa.BasicBlock
	if len(b.Preds) == 0 {
		return nil, true
	}
	stack = append(stack, b.Preds...)
	for len(stack) > 0 {
		x := stack[len(stack)-1]
		stack = stack[:len(stack)-1]
		if seen[x] {
			continue
		}
		seen[x] = true
		if st := scanBack(x, len(x.Instrs)-1); st != nil {
			stores = append(stores, st)
			continue
		}
		if len(x.Preds) == 0 || x == x.Parent().Blocks[0] {
			fromEntry = true
		}
		stack = append(stack, x.Preds...)
	}
	return stores, fromEntry
}
